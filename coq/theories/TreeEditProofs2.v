(* Proofs about edits, part 2: one tree level with one child slot changed (tree_finish), a Repeated with
   its items changed in the middle, and `plug` along arbitrary paths. *)
From AB Require Import Desc Tree TreeDefs TreeProofs TreeProofs2 TreeProofs3 TreeProofs4 TreeWF TreeWFProofs.
From AB Require Import Construct ConstructProofs ConstructWF TreeEdit TreeEditProofs.
From Coq Require Import ZArith List Bool Lia.
Import ListNotations.
Open Scope list_scope.

Section Levels.
Variable cs : classes_t.
Hypothesis Hok : classes_ok cs.

Lemma tree_decomp : forall c s T kids d f sl U,
  HWF cs (Tree c s T kids d) -> kid kids f = Some sl -> slot_units sl = [U] ->
  exists K1 K2 P Q,
    kids = K1 ++ (f, sl) :: K2 /\ (forall sl', set_kid kids f sl' = K1 ++ (f, sl') :: K2)
    /\ T = P ++ U ++ Q
    /\ (forall u', woven (P ++ u' ++ Q) (kids_flat slot_units K1 ++ u' :: kids_flat slot_units K2))
    /\ (forall t, In t (kids_flat slot_leaves K1 ++ kids_flat slot_leaves K2) -> In t (P ++ Q))
    /\ (forall t, In t (slot_leaves sl) -> In t U)
    /\ (forall t, In t U -> significant t = true -> In t (slot_leaves sl)).
Proof.
  intros c s T kids d f sl U Hroot Ek Eu.
  pose proof (HWF_SWF _ _ Hroot) as [Hwf Hwov]. destruct Hwf as (W1 & W2 & W3 & W4 & W5).
  simpl node_toks in *. set (A := Tree c s T kids d) in *.
  assert (HuA : In (UNode A) (subunits A)) by (unfold A; rewrite subunits_tree; left; reflexivity).
  destruct (kid_split _ _ _ Ek) as (K1 & K2 & EK & Eset).
  pose proof (Hwov _ HuA) as HwA. unfold A in HwA. simpl unit_toks in HwA. simpl unit_children in HwA.
  unfold kids_units in HwA. rewrite EK, kids_flat_app, kids_flat_cons, Eu in HwA. simpl app in HwA.
  destruct (woven_split _ _ _ _ HwA) as (P & Q & ET & HP1 & HQ2 & Hwov').
  exists K1, K2, P, Q.
  assert (Hsib : forall t, In t (kids_flat slot_leaves K1 ++ kids_flat slot_leaves K2) -> In t (P ++ Q)).
  { intros t Ht. apply in_app_or in Ht. apply in_or_app. destruct Ht as [Ht|Ht].
    - left. apply In_kids_flat in Ht. destruct Ht as (k & slk & Hin & Ht).
      assert (Hin' : In (k, slk) kids) by (rewrite EK; apply in_or_app; left; exact Hin).
      destruct (slot_leaves_in_units _ _ _ _ _ _ _ _ Hroot Hin' t Ht) as (v & Hv & Htv).
      apply (HP1 v t); auto. apply In_kids_flat. exists k, slk. auto.
    - right. apply In_kids_flat in Ht. destruct Ht as (k & slk & Hin & Ht).
      assert (Hin' : In (k, slk) kids) by (rewrite EK; apply in_or_app; right; right; exact Hin).
      destruct (slot_leaves_in_units _ _ _ _ _ _ _ _ Hroot Hin' t Ht) as (v & Hv & Htv).
      apply (HQ2 v t); auto. apply In_kids_flat. exists k, slk. auto. }
  assert (HlU : forall t, In t (slot_leaves sl) -> In t U).
  { intros t Ht. destruct (slot_leaves_in_units _ _ _ _ _ _ _ _ Hroot (kid_In _ _ _ Ek) t Ht) as (v & Hv & Htv).
    rewrite Eu in Hv. destruct Hv as [E|[]]. subst. exact Htv. }
  repeat (split; [assumption|]).
  intros t Ht Hs. rewrite ET in W1, W5.
  assert (HtT : In t (P ++ U ++ Q)) by (apply in_or_app; right; apply in_or_app; left; exact Ht).
  pose proof (W5 t HtT Hs) as HL. unfold A in HL. rewrite leaves_tree, EK, kids_flat_app, kids_flat_cons in HL.
  apply in_app_or in HL. destruct HL as [HL|HL]; [|apply in_app_or in HL; destruct HL as [HL|HL]; [exact HL|]].
  - exfalso. assert (H0 : In t (P ++ Q)) by (apply Hsib; apply in_or_app; left; exact HL).
    apply in_app_or in H0. destruct H0 as [H0|H0].
    + exact (NoDup_ids_disjoint P (U ++ Q) t t W1 H0 (in_or_app _ _ _ (or_introl Ht)) eq_refl).
    + rewrite app_assoc in W1. exact (NoDup_ids_disjoint (P ++ U) Q t t W1 (in_or_app _ _ _ (or_intror Ht)) H0 eq_refl).
  - exfalso. assert (H0 : In t (P ++ Q)) by (apply Hsib; apply in_or_app; right; exact HL).
    apply in_app_or in H0. destruct H0 as [H0|H0].
    + exact (NoDup_ids_disjoint P (U ++ Q) t t W1 H0 (in_or_app _ _ _ (or_introl Ht)) eq_refl).
    + rewrite app_assoc in W1. exact (NoDup_ids_disjoint (P ++ U) Q t t W1 (in_or_app _ _ _ (or_intror Ht)) H0 eq_refl).
Qed.

(* what is needed of the new content sl' of a child slot whose single unit U becomes U' *)
Record slot_new (s : Z) (sl sl' : slot) (U U' N : list tk) : Prop := {
  sn_units : slot_units sl' = [U'];
  sn_ne : U' <> [];
  sn_ends : ends_ok cs sl' U';
  sn_nd : NoDup (ids U');
  sn_ndl : NoDup (ids (slot_leaves sl'));
  sn_lin : forall t, In t (slot_leaves sl') -> In t U';
  sn_sig : forall t, In t U' -> significant t = true -> In t (slot_leaves sl');
  sn_toks_in : forall t, In t U' -> In t U \/ In t N;
  sn_leaves_in : forall t, In t (slot_leaves sl') -> In t (slot_leaves sl) \/ In t N;
  sn_sub : forall u, In u (slot_subunits subunits sl') ->
             unit_ok cs s u /\ woven (unit_toks u) (unit_children u) /\ exempt u = false
             /\ (forall n, u = UNode n -> SWF cs n)
}.

Lemma tree_finish : forall c s T kids d f sl sl' U U' N T',
  HWF cs (Tree c s T kids d) -> kid kids f = Some sl -> slot_units sl = [U] -> U <> [] -> ends_ok cs sl U ->
  slot_new s sl sl' U U' N ->
  (forall t t', In t N -> In t' T -> k_id t <> k_id t') ->
  replace_infix U U' T = Some T' ->
  HWF cs (Tree c s T' (set_kid kids f sl') d)
  /\ (exists P Q, T = P ++ U ++ Q /\ T' = P ++ U' ++ Q)
  /\ (forall t, In t (leaves (Tree c s T' (set_kid kids f sl') d)) -> In t (leaves (Tree c s T kids d)) \/ In t N).
Proof.
  intros c s T kids d f sl sl' U U' N T' Hroot Ek Eu HneU HendU [Eu' HneU' HendU' Y1 Y3 Y4 Y5 Itin Ilin Ysub] Hfresh Eri.
  destruct (tree_decomp c s T kids d f sl U Hroot Ek Eu) as (K1 & K2 & P & Q & EK & Eset & ET & Hwov' & Hsib & X4 & X5).
  pose proof (HWF_SWF _ _ Hroot) as [Hwf Hwov]. destruct Hwf as (W1 & W2 & W3 & W4 & W5).
  simpl node_toks in *. simpl root_sid in W2. set (A := Tree c s T kids d) in *.
  assert (HuA : In (UNode A) (subunits A)) by (unfold A; rewrite subunits_tree; left; reflexivity).
  assert (ET' : T' = P ++ U' ++ Q).
  { rewrite ET in Eri, W1. rewrite (replace_infix_spec P U Q U' W1 HneU) in Eri. inversion Eri. reflexivity. }
  set (kids' := set_kid kids f sl') in *. set (A' := Tree c s T' kids' d).
  assert (EK' : kids' = K1 ++ (f, sl') :: K2) by (unfold kids'; apply Eset).
  assert (ELA : leaves A = kids_flat slot_leaves K1 ++ slot_leaves sl ++ kids_flat slot_leaves K2).
  { unfold A. rewrite leaves_tree, EK, kids_flat_app, kids_flat_cons. reflexivity. }
  assert (ELA' : leaves A' = kids_flat slot_leaves K1 ++ slot_leaves sl' ++ kids_flat slot_leaves K2).
  { unfold A'. rewrite leaves_tree, EK', kids_flat_app, kids_flat_cons. reflexivity. }
  pose proof W3 as W3o. pose proof W1 as W1o. rewrite ELA in W3, W4, W5. rewrite ET in W1, W4, W5.
  destruct (mid_conditions P U U' Q (kids_flat slot_leaves K1) (slot_leaves sl) (slot_leaves sl')
              (kids_flat slot_leaves K2) N W1 W3 W4 W5 Hsib X4 Y1 Y3 Y4 Y5 Itin Ilin)
    as (C1 & C3 & C4 & C5).
  { intros t t' Ht Ht'. apply Hfresh; auto. rewrite ET. exact Ht'. }
  assert (Hunits' : forall u, In u (proper_units A') -> In u (proper_units A) \/ In u (slot_subunits subunits sl')).
  { intros u Hu. unfold A' in Hu. simpl proper_units in Hu.
    rewrite EK', kids_flat_app, kids_flat_cons in Hu. unfold A. simpl proper_units.
    rewrite EK, kids_flat_app, kids_flat_cons.
    apply in_app_or in Hu. destruct Hu as [Hu|Hu]; [left; apply in_or_app; left; exact Hu|].
    apply in_app_or in Hu. destruct Hu as [Hu|Hu]; [right; exact Hu|left].
    apply in_or_app. right. apply in_or_app. right. exact Hu. }
  assert (Hunits : forall u, In u (subunits A') ->
            u = UNode A' \/ In u (proper_units A) \/ In u (slot_subunits subunits sl')).
  { intros u Hu. unfold A' in Hu. rewrite subunits_tree in Hu. destruct Hu as [E|Hu]; [left; auto|right].
    apply Hunits'. exact Hu. }
  assert (Hprop : forall u, In u (proper_units A) -> In u (subunits A))
    by (intros u Hu; unfold A; rewrite subunits_tree; right; exact Hu).
  assert (EU' : kids_units kids' = kids_flat slot_units K1 ++ U' :: kids_flat slot_units K2).
  { unfold kids_units. rewrite EK', kids_flat_app, kids_flat_cons, Eu'. reflexivity. }
  assert (HneT' : T' <> []).
  { rewrite ET'. intro E0. apply app_eq_nil in E0. destruct E0 as [_ E0]. apply app_eq_nil in E0. destruct E0. auto. }
  assert (HflA' : first_last cs (UNode A')).
  { destruct (W2 _ HuA) as (_ & HflA & _). destruct (exempt (UNode A)) eqn:HeA.
    - split; [exact HneT'|]. left. exact HeA.
    - apply ends_first_last; [exact HneT'|].
      unfold A'. simpl unit_slot. simpl unit_toks. unfold kids'.
      unfold A in W3o. rewrite leaves_tree in W3o.
      apply (tree_ends cs Hok c s T T' kids d f sl sl' P U U' Q Ek ET ET' HneU HneU' W1o W3o HendU HendU').
      exact (first_last_ends cs (UNode A) HflA HeA). }
  assert (HswfA' : SWF cs A').
  { split.
    - unfold WF. simpl node_toks. simpl root_sid. rewrite ELA', ET'.
      split; [exact C1|]. split; [|split; [exact C3|split; [exact C4|exact C5]]].
      intros u Hu. destruct (Hunits u Hu) as [E|[Hu'|Hu']].
      + subst u. split; [reflexivity|]. split; [exact HflA'|].
        unfold A'. simpl unit_toks. simpl unit_children. apply woven_local_ok.
        rewrite EU', ET'. apply Hwov'.
      + apply W2. apply Hprop. exact Hu'.
      + apply (Ysub u Hu').
    - intros u Hu. destruct (Hunits u Hu) as [E|[Hu'|Hu']].
      + subst u. unfold A'. simpl unit_toks. simpl unit_children. rewrite EU', ET'. apply Hwov'.
      + apply Hwov. apply Hprop. exact Hu'.
      + apply (Ysub u Hu'). }
  split; [|split].
  - split.
    + intros n Hn. destruct (Hunits _ Hn) as [E|[Hu'|Hu']].
      * inversion E. exact HswfA'.
      * apply (proj1 Hroot). apply Hprop. exact Hu'.
      * destruct (Ysub _ Hu') as (_ & _ & _ & Hs). apply Hs. reflexivity.
    + intros u Hu. destruct (Hunits' _ Hu) as [Hu'|Hu'].
      * apply (proj2 Hroot). exact Hu'.
      * apply (Ysub u Hu').
  - exists P, Q. auto.
  - fold A'. rewrite ELA'. intros t Ht. fold A. rewrite ELA. apply in_app_or in Ht. destruct Ht as [Ht|Ht].
    + left. apply in_or_app. left. exact Ht.
    + apply in_app_or in Ht. destruct Ht as [Ht|Ht].
      * destruct (Ilin t Ht) as [H0|H0]; [left; apply in_or_app; right; apply in_or_app; left; exact H0|right; exact H0].
      * left. apply in_or_app. right. apply in_or_app. right. exact Ht.
Qed.
End Levels.

Lemma woven_app : forall us1 us2 T1 T2, woven T1 us1 -> woven T2 us2 -> woven (T1 ++ T2) (us1 ++ us2).
Proof.
  induction us1 as [|u us1 IH]; intros us2 T1 T2 H1 H2; simpl.
  - destruct us2 as [|v us2]; [exact I|]. destruct H2 as (g & T' & E & Hw). exists (T1 ++ g), T'.
    split; [rewrite E, <- app_assoc; reflexivity|exact Hw].
  - destruct H1 as (g & T' & E & Hw). exists g, (T' ++ T2). split; [rewrite E, <- !app_assoc; reflexivity|].
    apply IH; assumption.
Qed.

Section RepLevel.
Variable cs : classes_t.
Hypothesis Hok : classes_ok cs.

(* what is required of a node that becomes an item / a child somewhere below a root with store s *)
Definition sub_ok (s : Z) (y : node) : Prop :=
  HWF cs y /\ exempt (UNode y) = false /\ (forall c0 s0 T0 k0 d0, y = Tree c0 s0 T0 k0 d0 -> s0 = s).

Lemma sub_ok_units : forall s y, sub_ok s y -> forall u, In u (subunits y) ->
  unit_ok cs s u /\ woven (unit_toks u) (unit_children u) /\ exempt u = false /\ (forall n, u = UNode n -> SWF cs n).
Proof.
  intros s y (Hy & Hex & Hsid) u Hu. destruct y as [ty|c0 s0 T0 k0 d0]; [destruct Hu|].
  assert (E0 : s0 = s) by (eapply Hsid; reflexivity). subst s0.
  pose proof (HWF_SWF _ _ Hy) as [(_ & Y2 & _) Yw]. simpl root_sid in Y2.
  split; [apply Y2; exact Hu|]. split; [apply Yw; exact Hu|]. split.
  - rewrite subunits_tree in Hu. destruct Hu as [E|Hu]; [subst u; exact Hex|apply (proj2 Hy); exact Hu].
  - intros n E. subst u. apply (proj1 Hy). exact Hu.
Qed.

Lemma sub_ok_leaves : forall s y, sub_ok s y -> forall t, In t (leaves y) -> In t (node_toks y).
Proof. intros s y (Hy & _) t Ht. destruct (HWF_SWF _ _ Hy) as ((_ & _ & _ & H4 & _) & _). auto. Qed.

(* the items of a Repeated of a HWF tree are themselves sub_ok *)
Lemma rep_item_ok : forall c s T kids d f rs rt ph items y,
  HWF cs (Tree c s T kids d) -> kid kids f = Some (SRep rs rt ph items) -> In y items -> sub_ok s y.
Proof.
  intros c s T kids d f rs rt ph items y Hroot Ek Hy.
  assert (Hsub : forall u, In u (subunits y) -> In u (proper_units (Tree c s T kids d))).
  { intros u Hu. simpl. apply In_kids_flat. exists f, (SRep rs rt ph items). split; [apply kid_In; exact Ek|].
    simpl. right. apply in_flat_map. exists y. auto. }
  pose proof (HWF_SWF _ _ Hroot) as [(_ & W2 & _) _]. simpl root_sid in W2.
  split; [split|split].
  - intros n Hn. apply (proj1 Hroot). rewrite subunits_tree. right. apply Hsub. exact Hn.
  - intros u Hu. apply (proj2 Hroot). apply Hsub. destruct y as [ty|c0 s0 T0 k0 d0]; [destruct Hu|].
    rewrite subunits_tree. right. exact Hu.
  - destruct y as [ty|c0 s0 T0 k0 d0]; [reflexivity|]. apply (proj2 Hroot). apply Hsub. rewrite subunits_tree. left. reflexivity.
  - intros c0 s0 T0 k0 d0 E. subst y.
    destruct (W2 (UNode (Tree c0 s0 T0 k0 d0))) as (Hs & _).
    { rewrite subunits_tree. right. apply Hsub. rewrite subunits_tree. left. reflexivity. }
    simpl in Hs. inversion Hs. reflexivity.
Qed.

Lemma items_leaves_in : forall s (Is : list node) R, (forall y, In y Is -> sub_ok s y) -> woven R (map node_toks Is) ->
  forall t, In t (flat_map leaves Is) -> In t R.
Proof.
  intros s Is R Hok' Hw t Ht. apply in_flat_map in Ht. destruct Ht as (y & Hy & Ht).
  eapply woven_units_in; [exact Hw|apply in_map; exact Hy|]. eapply sub_ok_leaves; eauto.
Qed.

Lemma rep_change : forall c s T kids d f rs rt ph I1 IM IM' I2 R1 M M' R2 N,
  HWF cs (Tree c s T kids d) -> kid kids f = Some (SRep rs rt ph (I1 ++ IM ++ I2)) ->
  rt = R1 ++ M ++ R2 ->
  woven R1 ([ph] :: map node_toks I1) -> woven M (map node_toks IM) -> woven R2 (map node_toks I2) ->
  woven M' (map node_toks IM') ->
  NoDup (ids M') -> NoDup (ids (flat_map leaves IM')) ->
  (forall t, In t (flat_map leaves IM') -> In t M') ->
  (forall t, In t M' -> significant t = true -> In t (flat_map leaves IM')) ->
  (forall t, In t M' -> In t M \/ In t N) ->
  (forall t, In t (flat_map leaves IM') -> In t (flat_map leaves IM) \/ In t N) ->
  (forall t t', In t N -> In t' T -> k_id t <> k_id t') ->
  (forall y, In y IM' -> sub_ok s y) ->
  ends_ok cs (SRep rs (R1 ++ M' ++ R2) ph (I1 ++ IM' ++ I2)) (R1 ++ M' ++ R2) ->
  slot_new cs s (SRep rs rt ph (I1 ++ IM ++ I2)) (SRep rs (R1 ++ M' ++ R2) ph (I1 ++ IM' ++ I2))
           rt (R1 ++ M' ++ R2) N.
Proof.
  intros c s T kids d f rs rt ph I1 IM IM' I2 R1 M M' R2 N Hroot Ek Ert Hw1 HwM Hw2 HwM'
         HndM' HndLM' HLM' HsigM' HM'N HLM'N Hfresh HIM' Hends.
  set (items := I1 ++ IM ++ I2) in *. set (sl := SRep rs rt ph items) in *.
  destruct (tree_decomp cs c s T kids d f sl rt Hroot Ek eq_refl)
    as (K1 & K2 & P & Q & EK & Eset & ET & Hwov' & Hsib & X4 & X5).
  pose proof (HWF_SWF _ _ Hroot) as [(W1 & W2 & W3 & W4 & W5) Hwov]. simpl node_toks in *. simpl root_sid in W2.
  assert (Hitem : forall y, In y items -> sub_ok s y) by (intros y Hy; eapply rep_item_ok; eauto).
  assert (HuR : In (URep rs rt ph items) (subunits (Tree c s T kids d))).
  { rewrite subunits_tree. right. apply In_kids_flat. exists f, sl. split; [apply kid_In; exact Ek|left; reflexivity]. }
  assert (Hrs : rs = s) by (destruct (W2 _ HuR) as (Hs & _); simpl in Hs; inversion Hs; reflexivity).
  assert (Hndrt : NoDup (ids rt)).
  { rewrite ET in W1. apply NoDup_ids_app_r in W1. apply NoDup_ids_app_l in W1. exact W1. }
  assert (HndL : NoDup (ids (slot_leaves sl))).
  { rewrite leaves_tree, EK, kids_flat_app, kids_flat_cons in W3.
    apply NoDup_ids_app_r in W3. apply NoDup_ids_app_l in W3. exact W3. }
  assert (EL : slot_leaves sl = (ph :: flat_map leaves I1) ++ flat_map leaves IM ++ flat_map leaves I2).
  { unfold sl, items. simpl. rewrite !flat_map_app. reflexivity. }
  assert (Hph1 : In ph R1) by (eapply woven_units_in; [exact Hw1|left; reflexivity|left; reflexivity]).
  assert (HI1 : forall y, In y I1 -> sub_ok s y) by (intros y Hy; apply Hitem; unfold items; apply in_or_app; left; exact Hy).
  assert (HIM : forall y, In y IM -> sub_ok s y)
    by (intros y Hy; apply Hitem; unfold items; apply in_or_app; right; apply in_or_app; left; exact Hy).
  assert (HI2 : forall y, In y I2 -> sub_ok s y)
    by (intros y Hy; apply Hitem; unfold items; apply in_or_app; right; apply in_or_app; right; exact Hy).
  assert (Hsib2 : forall t, In t ((ph :: flat_map leaves I1) ++ flat_map leaves I2) -> In t (R1 ++ R2)).
  { intros t Ht. apply in_app_or in Ht. apply in_or_app. destruct Ht as [[E|Ht]|Ht].
    - left. subst. exact Hph1.
    - left. eapply (items_leaves_in s I1 R1 HI1); [|exact Ht].
      destruct Hw1 as (g & T0 & E0 & Hw0). subst R1. simpl in Hw0 |- *.
      clear - Hw0. revert Hw0. generalize (map node_toks I1). intros us Hw0.
      destruct us as [|u us]; [exact I|]. destruct Hw0 as (g' & T1 & E1 & Hw1). exists (g ++ [ph] ++ g'), T1.
      split; [rewrite E1, <- !app_assoc; reflexivity|exact Hw1].
    - right. eapply (items_leaves_in s I2 R2 HI2); eauto. }
  rewrite Ert in Hndrt, X4, X5. rewrite EL in HndL, X4, X5.
  destruct (mid_conditions R1 M M' R2 (ph :: flat_map leaves I1) (flat_map leaves IM) (flat_map leaves IM')
              (flat_map leaves I2) N Hndrt HndL X4 X5 Hsib2 (items_leaves_in s IM M HIM HwM)
              HndM' HndLM' HLM' HsigM' HM'N HLM'N) as (C1 & C3 & C4 & C5).
  { intros t t' Ht Ht'. apply Hfresh; auto. rewrite ET. apply in_or_app. right. apply in_or_app. left. rewrite Ert. exact Ht'. }
  assert (EL' : slot_leaves (SRep rs (R1 ++ M' ++ R2) ph (I1 ++ IM' ++ I2))
                = (ph :: flat_map leaves I1) ++ flat_map leaves IM' ++ flat_map leaves I2).
  { simpl. rewrite !flat_map_app. reflexivity. }
  assert (Hwrt' : woven (R1 ++ M' ++ R2) ([ph] :: map node_toks (I1 ++ IM' ++ I2))).
  { rewrite !map_app. change ([ph] :: map node_toks I1 ++ map node_toks IM' ++ map node_toks I2)
      with (([ph] :: map node_toks I1) ++ map node_toks IM' ++ map node_toks I2).
    apply woven_app; [exact Hw1|]. apply woven_app; assumption. }
  assert (Hne' : R1 ++ M' ++ R2 <> []) by (intro E0; apply app_eq_nil in E0; destruct E0 as [E0 _]; rewrite E0 in Hph1; destruct Hph1).
  constructor.
  - reflexivity.
  - exact Hne'.
  - exact Hends.
  - exact C1.
  - rewrite EL'. exact C3.
  - rewrite EL'. exact C4.
  - rewrite EL'. exact C5.
  - intros t Ht. rewrite Ert. apply in_app_or in Ht. destruct Ht as [Ht|Ht]; [left; apply in_or_app; left; exact Ht|].
    apply in_app_or in Ht. destruct Ht as [Ht|Ht].
    + destruct (HM'N t Ht) as [H0|H0]; [left; apply in_or_app; right; apply in_or_app; left; exact H0|right; exact H0].
    + left. apply in_or_app. right. apply in_or_app. right. exact Ht.
  - rewrite EL'. intros t Ht. fold items. fold sl. rewrite EL.
    apply in_app_or in Ht. destruct Ht as [Ht|Ht]; [left; apply in_or_app; left; exact Ht|].
    apply in_app_or in Ht. destruct Ht as [Ht|Ht].
    + destruct (HLM'N t Ht) as [H0|H0]; [left; apply in_or_app; right; apply in_or_app; left; exact H0|right; exact H0].
    + left. apply in_or_app. right. apply in_or_app. right. exact Ht.
  - intros u Hu. simpl in Hu. destruct Hu as [E|Hu].
    + subst u. split; [|split; [exact Hwrt'|split; [reflexivity|intros n E; discriminate]]].
      split; [simpl; rewrite Hrs; reflexivity|]. split.
      * apply ends_first_last; [exact Hne'|exact Hends].
      * apply woven_local_ok. exact Hwrt'.
    + apply in_flat_map in Hu. destruct Hu as (y & Hy & Hu).
      assert (Hyok : sub_ok s y).
      { apply in_app_or in Hy. destruct Hy as [Hy|Hy]; [apply HI1; exact Hy|].
        apply in_app_or in Hy. destruct Hy as [Hy|Hy]; [apply HIM'; exact Hy|apply HI2; exact Hy]. }
      exact (sub_ok_units s y Hyok u Hu).
Qed.
End RepLevel.

Lemma woven_app_inv : forall us1 us2 T, woven T (us1 ++ us2) ->
  exists T1 T2, T = T1 ++ T2 /\ woven T1 us1 /\ woven T2 us2.
Proof.
  induction us1 as [|u us1 IH]; intros us2 T H; simpl in H.
  - exists [], T. simpl. auto.
  - destruct H as (g & T' & E & Hw). destruct (IH _ _ Hw) as (T1 & T2 & E' & H1 & H2).
    exists (g ++ u ++ T1), T2. subst. split; [rewrite <- !app_assoc; reflexivity|]. split; auto.
    simpl. exists g, T1. auto.
Qed.

Lemma woven_glue : forall us T g, woven T us -> woven (T ++ g) us.
Proof.
  intros us T g H. rewrite <- (app_nil_r us). apply woven_app; [exact H|exact I].
Qed.

Lemma nth_split_set : forall {A} (l : list A) i x, nth_error l i = Some x ->
  exists l1 l2, l = l1 ++ x :: l2 /\ length l1 = i /\ forall x', set_nth l i x' = l1 ++ x' :: l2.
Proof.
  induction l as [|y l IH]; intros i x H; destruct i; simpl in H; try discriminate.
  - inversion H. subst. exists [], l. auto.
  - destruct (IH _ _ H) as (l1 & l2 & E & El & Es). exists (y :: l1), l2. subst l. simpl.
    split; auto. split; auto. intro x'. rewrite Es. reflexivity.
Qed.

Section PlugAll.
Variable cs : classes_t.
Hypothesis Hok : classes_ok cs.

Lemma rep_basic : forall c s T kids d f rs rt ph items,
  HWF cs (Tree c s T kids d) -> kid kids f = Some (SRep rs rt ph items) ->
  rs = s /\ NoDup (ids rt) /\ NoDup (ids (ph :: flat_map leaves items))
  /\ ends_ok cs (SRep rs rt ph items) rt /\ rt <> [] /\ woven rt ([ph] :: map node_toks items).
Proof.
  intros c s T kids d f rs rt ph items Hroot Ek.
  set (sl := SRep rs rt ph items).
  destruct (tree_decomp cs c s T kids d f sl rt Hroot Ek eq_refl)
    as (K1 & K2 & P & Q & EK & Eset & ET & _).
  pose proof (HWF_SWF _ _ Hroot) as [(W1 & W2 & W3 & _) Hwov]. simpl node_toks in *. simpl root_sid in W2.
  assert (HuR : In (URep rs rt ph items) (subunits (Tree c s T kids d))).
  { rewrite subunits_tree. right. apply In_kids_flat. exists f, sl. split; [apply kid_In; exact Ek|left; reflexivity]. }
  destruct (W2 _ HuR) as (Hs & Hfl & _). simpl in Hs. inversion Hs.
  split; [reflexivity|]. split; [|split; [|split; [|split]]].
  - rewrite ET in W1. apply NoDup_ids_app_r in W1. apply NoDup_ids_app_l in W1. exact W1.
  - rewrite leaves_tree, EK, kids_flat_app, kids_flat_cons in W3.
    apply NoDup_ids_app_r in W3. apply NoDup_ids_app_l in W3. exact W3.
  - exact (first_last_ends cs (URep rs rt ph items) Hfl eq_refl).
  - exact (proj1 Hfl).
  - exact (Hwov _ HuR).
Qed.

Record plugged (root old new root' : node) (p : path) (N : list tk) : Prop := {
  pl_hwf : HWF cs root';
  pl_toks : exists pre post, node_toks root = pre ++ node_toks old ++ post
                             /\ node_toks root' = pre ++ node_toks new ++ post;
  pl_toks_in : forall t, In t (node_toks root') -> In t (node_toks root) \/ In t N;
  pl_leaves_in : forall t, In t (leaves root') -> In t (leaves root) \/ In t N;
  pl_same : p <> [] -> root_sid root' = root_sid root /\ exempt (UNode root') = exempt (UNode root)
                       /\ exists c s T k d, root' = Tree c s T k d
}.

Lemma child_slot_new : forall s sl x x' old new r N,
  slot_node sl = Some x -> sub_ok cs s x' -> plugged x old new x' r N ->
  slot_new cs s sl (slot_with sl x') (node_toks x) (node_toks x') N.
Proof.
  intros s sl x x' old new r N Ex Hx' [Ihwf _ Itin Ilin _].
  destruct (slot_node_units sl x Ex) as (Eu & El & Esub & Hwith).
  destruct (Hwith x') as (Eu' & El' & Esub' & Eb').
  pose proof (HWF_SWF _ _ Ihwf) as Hswf. destruct (node_ends cs x' Hswf (proj1 (proj2 Hx'))) as [Hend Hne].
  destruct Hswf as [(Y1 & Y2 & Y3 & Y4 & Y5) Yw].
  constructor; auto.
  - destruct Hend as (m0 & H0). exists m0. intros m sd Hm. rewrite Eb'. auto.
  - rewrite El'. exact Y3.
  - rewrite El'. exact Y4.
  - rewrite El'. exact Y5.
  - rewrite El', El. exact Ilin.
  - rewrite Esub'. apply sub_ok_units. exact Hx'.
Qed.

Lemma plug_all : forall p root new root' old rsid N,
  HWF cs root -> select root p = Some old -> plug root p new = Some root' ->
  HWF cs new -> (p <> [] -> exempt (UNode new) = false) ->
  (forall c s T k d, new = Tree c s T k d -> s = rsid) -> (p <> [] -> root_sid root = rsid) ->
  (forall t, In t (node_toks new) -> In t (node_toks old) \/ In t N) ->
  (forall t, In t (leaves new) -> In t (leaves old) \/ In t N) ->
  (forall t t', In t N -> In t' (node_toks root) -> k_id t <> k_id t') ->
  plugged root old new root' p N.
Proof.
  induction p as [|st r IH]; intros root new root' old rsid N Hroot Hsel Hplug Hnew Hexn Hsidn Hsidr HnewT HnewL Hfresh.
  - simpl in Hsel, Hplug. inversion Hsel. inversion Hplug. subst. constructor; auto.
    + exists [], []. simpl. rewrite !app_nil_r. auto.
    + intro H. contradiction.
  - destruct root as [t0|c s T kids d]; [destruct st; discriminate|].
    assert (Hrs : s = rsid) by (apply (Hsidr ltac:(discriminate))). subst rsid.
    simpl node_toks in Hfresh.
    assert (Hsame : forall T' kids', root_sid (Tree c s T' kids' d) = root_sid (Tree c s T kids d)
              /\ exempt (UNode (Tree c s T' kids' d)) = exempt (UNode (Tree c s T kids d))
              /\ exists c0 s0 T0 k0 d0, Tree c s T' kids' d = Tree c0 s0 T0 k0 d0).
    { intros T' kids'. split; [reflexivity|]. split; [reflexivity|]. do 5 eexists. reflexivity. }
    (* facts about the child x on the path, common to both kinds of step *)
    assert (Hchild : forall x x', sub_ok cs s x -> (forall t, In t (node_toks x) -> In t T) ->
              select x r = Some old -> plug x r new = Some x' ->
              plugged x old new x' r N /\ sub_ok cs s x').
    { intros x x' (Hx & Hexx & Hsx) HxT Hselx Epx.
      assert (Hxsid : r <> [] -> root_sid x = s).
      { intro Hr. destruct x as [tx|cx sx Tx kx dx]; [destruct r as [|[|] ?]; [contradiction|discriminate|discriminate]|].
        simpl. eapply Hsx. reflexivity. }
      assert (Hpl : plugged x old new x' r N).
      { apply (IH x new x' old s N Hx Hselx Epx Hnew (fun _ => Hexn ltac:(discriminate)) Hsidn Hxsid HnewT HnewL).
        intros t t' Ht Ht'. apply Hfresh; auto. }
      split; [exact Hpl|]. destruct Hpl as [Ihwf _ _ _ Isame]. split; [exact Ihwf|]. split.
      - destruct r as [|st' r']; [simpl in Epx; inversion Epx; subst; exact (Hexn ltac:(discriminate))|].
        destruct Isame as (_ & He & _); [discriminate|]. rewrite He. exact Hexx.
      - intros cx sx Tx kx dx E. destruct r as [|st' r'].
        + simpl in Epx. inversion Epx as [En]. rewrite <- En in E. eapply Hsidn. exact E.
        + destruct Isame as (Hs & _); [discriminate|]. rewrite Hxsid in Hs by discriminate. rewrite E in Hs. exact Hs. }
    destruct st as [f|f i].
    + (* a required / present optional field *)
      cbn [select] in Hsel. cbn [plug] in Hplug.
      destruct (kid kids f) as [sl|] eqn:Ek; try discriminate.
      destruct (slot_node sl) as [x|] eqn:Ex; try discriminate.
      destruct (plug x r new) as [x'|] eqn:Epx; try discriminate.
      destruct (replace_infix (node_toks x) (node_toks x') T) as [T'|] eqn:Eri; try discriminate.
      inversion Hplug. subst root'. clear Hplug.
      destruct (HWF_kid cs _ _ _ _ _ _ _ _ Hroot (kid_In _ _ _ Ek) Ex) as [Hx Hexx].
      destruct (slot_node_units sl x Ex) as (Eu & El & Esub & _).
      destruct (replace_infix_inv _ _ _ _ Eri) as (P0 & Q0 & ET0 & _ & _).
      assert (Hxok : sub_ok cs s x).
      { split; [exact Hx|]. split; [exact Hexx|]. intros cx sx Tx kx dx E. subst x.
        pose proof (HWF_SWF _ _ Hroot) as [(_ & W2 & _) _]. simpl root_sid in W2.
        destruct (W2 (UNode (Tree cx sx Tx kx dx))) as (Hs & _).
        { rewrite subunits_tree. right. apply In_kids_flat. exists f, sl. split; [apply kid_In; exact Ek|].
          rewrite Esub, subunits_tree. left. reflexivity. }
        simpl in Hs. inversion Hs. reflexivity. }
      destruct (Hchild x x' Hxok) as [Hpl Hx'ok]; auto.
      { intros t Ht. rewrite ET0. apply in_or_app. right. apply in_or_app. left. exact Ht. }
      destruct (node_ends cs x (HWF_SWF _ _ Hx) Hexx) as [Hendx Hnex].
      assert (Hends : ends_ok cs sl (node_toks x)).
      { destruct Hendx as (m0 & H0). exists m0. intros m sd Hm. rewrite (slot_node_border sl x Ex). auto. }
      pose proof (child_slot_new s sl x x' old new r N Ex Hx'ok Hpl) as Hsn.
      destruct (tree_finish cs Hok c s T kids d f sl (slot_with sl x') (node_toks x) (node_toks x') N T'
                  Hroot Ek Eu Hnex Hends Hsn Hfresh Eri) as (HA' & (P & Q & ET & ET') & HL').
      destruct Hpl as [_ (px & qx & Etx & Etx') Itin _ _].
      constructor.
      * exact HA'.
      * exists (P ++ px), (qx ++ Q). simpl node_toks. rewrite ET, ET', Etx, Etx', <- !app_assoc. auto.
      * simpl node_toks. rewrite ET'. intros t Ht. apply in_app_or in Ht. destruct Ht as [Ht|Ht].
        -- left. rewrite ET. apply in_or_app. left. exact Ht.
        -- apply in_app_or in Ht. destruct Ht as [Ht|Ht].
           ++ destruct (Itin t Ht) as [H0|H0]; [left|right; exact H0].
              rewrite ET. apply in_or_app. right. apply in_or_app. left. exact H0.
           ++ left. rewrite ET. apply in_or_app. right. apply in_or_app. right. exact Ht.
      * exact HL'.
      * intros _. apply Hsame.
    + (* item i of a repeated field *)
      cbn [select] in Hsel. cbn [plug] in Hplug.
      destruct (kid kids f) as [[?|?|rs rt ph items|?]|] eqn:Ek; try discriminate.
      destruct (nth_error items i) as [x|] eqn:Ei; try discriminate.
      destruct (plug x r new) as [x'|] eqn:Epx; try discriminate.
      destruct (replace_infix (node_toks x) (node_toks x') rt) as [rt'|] eqn:Eri; try discriminate.
      destruct (replace_infix rt rt' T) as [T'|] eqn:EriT; try discriminate.
      inversion Hplug. subst root'. clear Hplug.
      destruct (nth_split_set items i x Ei) as (I1 & I2 & EI & _ & Eset). rewrite Eset. subst items.
      destruct (rep_basic c s T kids d f rs rt ph _ Hroot Ek) as (Hrs & Hndrt & HndL & Hendrt & Hnert & Hwrt).
      assert (Hxok : sub_ok cs s x).
      { eapply rep_item_ok; eauto. apply in_or_app. right. left. reflexivity. }
      destruct (replace_infix_inv _ _ _ _ EriT) as (P0 & Q0 & ET0 & _ & _).
      destruct (replace_infix_inv _ _ _ _ Eri) as (Pr0 & Qr0 & Ert0 & _ & _).
      destruct (Hchild x x' Hxok) as [Hpl Hx'ok]; auto.
      { intros t Ht. rewrite ET0. apply in_or_app. right. apply in_or_app. left.
        rewrite Ert0. apply in_or_app. right. apply in_or_app. left. exact Ht. }
      destruct Hxok as (Hx & Hexx & Hsx).
      destruct (node_ends cs x (HWF_SWF _ _ Hx) Hexx) as [Hendx Hnex].
      pose proof Hx'ok as (Hx' & Hexx' & Hsx').
      destruct (node_ends cs x' (HWF_SWF _ _ Hx') Hexx') as [Hendx' Hnex'].
      (* the Repeated's own token list around x *)
      rewrite map_app in Hwrt. simpl map in Hwrt.
      change ([ph] :: map node_toks I1 ++ node_toks x :: map node_toks I2)
        with (([ph] :: map node_toks I1) ++ node_toks x :: map node_toks I2) in Hwrt.
      destruct (woven_app_inv _ _ _ Hwrt) as (R0 & R2a & Ert & Hw1 & Hw2a).
      destruct Hw2a as (g & R2 & ER2a & Hw2). subst R2a.
      set (R1 := R0 ++ g) in *.
      assert (Ert1 : rt = R1 ++ node_toks x ++ R2) by (unfold R1; rewrite Ert, <- !app_assoc; reflexivity).
      assert (Ert' : rt' = R1 ++ node_toks x' ++ R2).
      { rewrite Ert1 in Eri, Hndrt. rewrite (replace_infix_spec R1 (node_toks x) R2 (node_toks x') Hndrt Hnex) in Eri.
        inversion Eri. reflexivity. }
      assert (Hw1' : woven R1 ([ph] :: map node_toks I1)) by (apply woven_glue; exact Hw1).
      pose proof (HWF_SWF _ _ Hx') as [(Y1 & Y2 & Y3 & Y4 & Y5) Yw].
      destruct Hpl as [_ (px & qx & Etx & Etx') Itin Ilin _].
      assert (Hendrt' : ends_ok cs (SRep rs rt' ph (I1 ++ x' :: I2)) rt').
      { apply (rep_ends cs rs rs rt rt' ph I1 x x' I2 R1 (node_toks x) (node_toks x') R2 Ert1 Ert' Hnex Hnex' Hndrt HndL Hendx Hendx' Hendrt). }
      assert (Hsn : slot_new cs s (SRep rs rt ph (I1 ++ [x] ++ I2)) (SRep rs (R1 ++ node_toks x' ++ R2) ph (I1 ++ [x'] ++ I2))
                             rt (R1 ++ node_toks x' ++ R2) N).
      { apply (rep_change cs c s T kids d f rs rt ph I1 [x] [x'] I2 R1 (node_toks x) (node_toks x') R2 N Hroot Ek Ert1 Hw1'); auto.
        - exists [], []. simpl. rewrite app_nil_r. auto.
        - exists [], []. simpl. rewrite app_nil_r. auto.
        - simpl. rewrite app_nil_r. exact Y3.
        - simpl. intros t Ht. rewrite app_nil_r in Ht. auto.
        - simpl. intros t Ht Hs. rewrite app_nil_r. auto.
        - simpl. intros t Ht. rewrite app_nil_r in *. auto.
        - intros y [E|[]]. subst y. exact Hx'ok.
        - rewrite <- Ert'. exact Hendrt'. }
      rewrite <- Ert' in Hsn.
      destruct (tree_finish cs Hok c s T kids d f (SRep rs rt ph (I1 ++ [x] ++ I2)) (SRep rs rt' ph (I1 ++ [x'] ++ I2)) rt rt' N T'
                  Hroot Ek eq_refl Hnert Hendrt Hsn Hfresh EriT) as (HA' & (P & Q & ET & ET') & HL').
      constructor.
      * exact HA'.
      * exists (P ++ R1 ++ px), (qx ++ R2 ++ Q). simpl node_toks.
        rewrite ET, ET', Ert1, Ert', Etx, Etx', <- !app_assoc. auto.
      * simpl node_toks. rewrite ET'. intros t Ht. apply in_app_or in Ht. destruct Ht as [Ht|Ht].
        -- left. rewrite ET. apply in_or_app. left. exact Ht.
        -- apply in_app_or in Ht. destruct Ht as [Ht|Ht].
           ++ destruct (sn_toks_in _ _ _ _ _ _ _ Hsn t Ht) as [H0|H0]; [left|right; exact H0].
              rewrite ET. apply in_or_app. right. apply in_or_app. left. exact H0.
           ++ left. rewrite ET. apply in_or_app. right. apply in_or_app. right. exact Ht.
      * exact HL'.
      * intros _. apply Hsame.
Qed.
End PlugAll.

(* ---- the context theorem ------------------------------------------------------------------------------- *)
Section Replace.
Variable cs : classes_t.
Hypothesis Hok : classes_ok cs.

Theorem replace_subtree : forall p root new root' old rsid,
  HWF cs root -> select root p = Some old -> plug root p new = Some root' ->
  HWF cs new -> exempt (UNode new) = false ->
  (forall c s T k d, new = Tree c s T k d -> s = rsid) -> (p <> [] -> root_sid root = rsid) ->
  (forall t t', In t (node_toks new) -> In t' (node_toks root) -> k_id t <> k_id t') ->
  HWF cs root' /\ WF cs root'
  /\ (exists pre post, node_toks root = pre ++ node_toks old ++ post
                       /\ node_toks root' = pre ++ node_toks new ++ post)
  /\ (forall t, In t (leaves root') -> In t (leaves root) \/ In t (node_toks new)).
Proof.
  intros p root new root' old rsid H2 H3 H4 H5 H6 H7 H8 H9.
  destruct (plug_all cs Hok p root new root' old rsid (node_toks new) H2 H3 H4 H5 (fun _ => H6) H7 H8) as [A B _ D _]; auto.
  - intros t Ht. right. destruct (HWF_SWF _ _ H5) as ((_ & _ & _ & W4 & _) & _). auto.
  - split; [exact A|]. split; [exact (HWF_WF cs root' A)|]. split; [exact B|exact D].
Qed.

(* WF forces re-attachment: a tree containing a model of another store is not WF *)
Theorem foreign_sid_not_WF : forall n s, In s (sids n) -> s <> root_sid n -> ~ WF cs n.
Proof. intros n s Hin Hne Hwf. apply Hne. eapply WF_sids; eauto. Qed.
End Replace.
