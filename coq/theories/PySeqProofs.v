(* Facts about the Python sequence model that the view proofs need. *)
From AB Require Import Prelude PySeq.
From Coq Require Import ZifyBool.

Lemma zlen_nonneg {A} (l : list A) : 0 <= zlen l.
Proof. unfold zlen. lia. Qed.

Lemma zlen_app {A} (a b : list A) : zlen (a ++ b) = zlen a + zlen b.
Proof. unfold zlen. rewrite app_length. lia. Qed.

Lemma zlen_cons {A} (x : A) (l : list A) : zlen (x :: l) = 1 + zlen l.
Proof. unfold zlen. cbn [length]. lia. Qed.

Lemma zlen_nil {A} : zlen (@nil A) = 0.
Proof. reflexivity. Qed.

Lemma zlen_map {A B} (f : A -> B) (l : list A) : zlen (map f l) = zlen l.
Proof. unfold zlen. now rewrite map_length. Qed.

Lemma zfirstn_app_exact {A} (a b : list A) : zfirstn (zlen a) (a ++ b) = a.
Proof.
  unfold zfirstn, zlen. rewrite Nat2Z.id.
  rewrite firstn_app, Nat.sub_diag, firstn_all. cbn. apply app_nil_r.
Qed.

Lemma zskipn_app_exact {A} (a b : list A) : zskipn (zlen a) (a ++ b) = b.
Proof.
  unfold zskipn, zlen. rewrite Nat2Z.id.
  rewrite skipn_app, Nat.sub_diag, skipn_all. reflexivity.
Qed.

(* a list cut at a position inside it *)
Lemma split_at {A} (l : list A) (p : Z) :
  0 <= p <= zlen l -> exists a b, l = a ++ b /\ zlen a = p.
Proof.
  intros H. exists (zfirstn p l), (zskipn p l). split.
  - unfold zfirstn, zskipn. now rewrite firstn_skipn.
  - unfold zfirstn, zlen in *. rewrite firstn_length. lia.
Qed.

Lemma splice_mid {A} (a b c xs : list A) :
  splice (a ++ b ++ c) (zlen a) (zlen a + zlen b) xs = a ++ xs ++ c.
Proof.
  unfold splice. rewrite zfirstn_app_exact.
  replace (Z.max (zlen a) (zlen a + zlen b)) with (zlen (a ++ b))
    by (rewrite zlen_app; pose proof (zlen_nonneg b); lia).
  replace (a ++ b ++ c) with ((a ++ b) ++ c) by (now rewrite app_assoc).
  rewrite zskipn_app_exact. reflexivity.
Qed.

Lemma splice_one {A} (a c : list A) (x : A) (xs : list A) :
  splice (a ++ x :: c) (zlen a) (zlen a + 1) xs = a ++ xs ++ c.
Proof.
  change (a ++ x :: c) with (a ++ [x] ++ c).
  replace (zlen a + 1) with (zlen a + zlen [x]) by reflexivity. apply splice_mid.
Qed.

Lemma splice_ins {A} (a c xs : list A) (b : Z) :
  b <= zlen a -> splice (a ++ c) (zlen a) b xs = a ++ xs ++ c.
Proof.
  intros H. unfold splice. rewrite zfirstn_app_exact.
  replace (Z.max (zlen a) b) with (zlen a) by lia. now rewrite zskipn_app_exact.
Qed.

(* nth_error at the cut *)
Lemma nth_error_mid {A} (a c : list A) (x : A) :
  nth_error (a ++ x :: c) (Z.to_nat (zlen a)) = Some x.
Proof.
  unfold zlen. rewrite Nat2Z.id. rewrite nth_error_app2 by lia. now rewrite Nat.sub_diag.
Qed.

Lemma list_get_int_mid {A} (a c : list A) (x : A) :
  list_get_int (a ++ x :: c) (zlen a) = Ok x.
Proof.
  unfold list_get_int, norm_index.
  pose proof (zlen_nonneg a). pose proof (zlen_nonneg c).
  rewrite zlen_app, zlen_cons.
  replace ((0 <=? zlen a) && (zlen a <? zlen a + (1 + zlen c))) with true by lia.
  now rewrite nth_error_mid.
Qed.

Lemma list_set_int_mid {A} (a c : list A) (x y : A) :
  list_set_int (a ++ x :: c) (zlen a) y = Ok (a ++ y :: c).
Proof.
  unfold list_set_int, norm_index.
  pose proof (zlen_nonneg a). pose proof (zlen_nonneg c).
  rewrite zlen_app, zlen_cons.
  replace ((0 <=? zlen a) && (zlen a <? zlen a + (1 + zlen c))) with true by lia.
  now rewrite splice_one.
Qed.

(* norm_index: what an accepted index is *)
Lemma norm_index_ok n i j : norm_index n i = Ok j -> 0 <= j < n /\ (j = i \/ j = i + n).
Proof.
  unfold norm_index. intros H.
  destruct ((0 <=? i) && (i <? n)) eqn:E1.
  - inversion H; subst. lia.
  - destruct ((i <? 0) && (0 <=? i + n)) eqn:E2; inversion H; subst. lia.
Qed.

Lemma norm_index_err n i e : norm_index n i = Err e -> e = IndexError /\ (i < - n \/ n <= i).
Proof.
  unfold norm_index. intros H.
  destruct ((0 <=? i) && (i <? n)) eqn:E1; [discriminate|].
  destruct ((i <? 0) && (0 <=? i + n)) eqn:E2; [discriminate|].
  inversion H. split; [reflexivity|lia].
Qed.

(* slice(ll, rr).indices / assignment with plain bounds *)
Lemma list_set_slice_plain {A} (l : list A) (a b : Z) (xs : list A) :
  0 <= a <= zlen l -> 0 <= b <= zlen l ->
  list_set_slice l (mkslc (Some a) (Some b) None) xs = Ok (splice l a b xs).
Proof.
  intros Ha Hb. unfold list_set_slice, slice_indices. cbn [sl_step sl_start sl_stop].
  cbn [Z.eqb Z.ltb Z.compare].
  replace (a <? 0) with false by lia. replace (b <? 0) with false by lia.
  replace (Z.min a (zlen l)) with a by lia. replace (Z.min b (zlen l)) with b by lia.
  reflexivity.
Qed.

(* ---- bisect_left on a list partitioned around x ------------------------------------------------ *)
Lemma bisect_go_partition (fuel : nat) : forall (a b : list Z) (x lo hi : Z),
  Forall (fun y => y < x) a -> Forall (fun y => x <= y) b ->
  0 <= lo <= zlen a -> zlen a <= hi <= zlen (a ++ b) -> hi - lo < Z.of_nat fuel ->
  bisect_go fuel (a ++ b) x lo hi = zlen a.
Proof.
  induction fuel as [|f IH]; intros a b x lo hi Ha Hb Hlo Hhi Hf.
  - lia.
  - cbn [bisect_go]. destruct (lo <? hi) eqn:E.
    + assert (Hmid : lo <= (lo + hi) / 2 < hi).
      { split; [apply Z.div_le_lower_bound; lia | apply Z.div_lt_upper_bound; lia]. }
      set (mid := (lo + hi) / 2) in *.
      destruct (Z_lt_le_dec mid (zlen a)) as [Hm|Hm].
      * assert (Hn : nth (Z.to_nat mid) (a ++ b) 0 < x).
        { rewrite app_nth1 by (unfold zlen in Hm; lia).
          rewrite Forall_forall in Ha. apply Ha. apply nth_In. unfold zlen in Hm. lia. }
        replace (nth (Z.to_nat mid) (a ++ b) 0 <? x) with true by lia.
        apply IH; auto; lia.
      * assert (Hn : x <= nth (Z.to_nat mid) (a ++ b) 0).
        { rewrite app_nth2 by (unfold zlen in Hm; lia).
          rewrite Forall_forall in Hb. apply Hb. apply nth_In.
          rewrite zlen_app in Hhi. unfold zlen in *. lia. }
        replace (nth (Z.to_nat mid) (a ++ b) 0 <? x) with false by lia.
        apply IH; auto; lia.
    + lia.
Qed.

(* bisect_left of a list that is (elements < x) ++ (elements >= x) is the length of the first part;
   in particular for every sorted list. *)
Lemma bisect_left_partition (a b : list Z) (x : Z) :
  Forall (fun y => y < x) a -> Forall (fun y => x <= y) b ->
  bisect_left (a ++ b) x = zlen a.
Proof.
  intros Ha Hb. unfold bisect_left.
  pose proof (zlen_nonneg a). pose proof (zlen_nonneg b).
  apply bisect_go_partition; auto; try lia.
  - rewrite zlen_app. lia.
  - unfold zlen. lia.
Qed.

(* ---- positions of range(n)[slice] are inside the list; assigning them one by one never fails ---- *)
Lemma slice_indices_range n sl a b k :
  0 <= n -> slice_indices n sl = Ok (a, b, k) ->
  k <> 0 /\ (0 < k -> 0 <= a <= n /\ 0 <= b <= n) /\ (k < 0 -> -1 <= a <= n - 1 /\ -1 <= b <= n - 1).
Proof.
  unfold slice_indices. intros Hn H.
  destruct (match sl_step sl with Some k0 => k0 | None => 1 end =? 0) eqn:E0; [discriminate|].
  inversion H as [[Ha Hb Hk]]. rewrite Hk in *. clear H.
  split; [lia|]. split; intros Hs.
  - replace (k <? 0) with false by lia.
    split; [destruct (sl_start sl) as [z|]; [destruct (z <? 0) eqn:Ez|] | destruct (sl_stop sl) as [z|]; [destruct (z <? 0) eqn:Ez|]]; lia.
  - replace (k <? 0) with true by lia.
    split; [destruct (sl_start sl) as [z|]; [destruct (z <? 0) eqn:Ez|] | destruct (sl_stop sl) as [z|]; [destruct (z <? 0) eqn:Ez|]]; lia.
Qed.

Lemma range_list_bounds n sl a b k :
  0 <= n -> slice_indices n sl = Ok (a, b, k) ->
  Forall (fun p => 0 <= p < n) (range_list (mkrng a b k)).
Proof.
  intros Hn H. destruct (slice_indices_range _ _ _ _ _ Hn H) as (Hk & Hpos & Hneg).
  unfold range_list, range_len. cbn [r_start r_stop r_step].
  apply Forall_forall. intros p Hp. apply in_map_iff in Hp. destruct Hp as (i & <- & Hi).
  apply in_seq in Hi.
  destruct (0 <? k) eqn:Ek.
  - destruct (Hpos ltac:(lia)) as (Ha & Hb).
    destruct (a <? b) eqn:Eab; [|cbn in Hi; lia].
    assert (H1 : k * ((b - a - 1) / k) <= b - a - 1) by (apply Z.mul_div_le; lia).
    assert (H0 : 0 <= (b - a - 1) / k) by (apply Z.div_pos; lia).
    assert (Hi' : Z.of_nat i <= (b - a - 1) / k) by lia.
    nia.
  - destruct (Hneg ltac:(lia)) as (Ha & Hb).
    destruct (b <? a) eqn:Eab; [|cbn in Hi; lia].
    assert (H1 : (- k) * ((a - b - 1) / (- k)) <= a - b - 1) by (apply Z.mul_div_le; lia).
    assert (H0 : 0 <= (a - b - 1) / (- k)) by (apply Z.div_pos; lia).
    assert (Hi' : Z.of_nat i <= (a - b - 1) / (- k)) by lia.
    nia.
Qed.

Lemma splice_one_len {A} (l : list A) (j : Z) (x : A) :
  0 <= j < zlen l -> zlen (splice l j (j + 1) [x]) = zlen l.
Proof.
  intros H. unfold splice, zfirstn, zskipn, zlen in *.
  rewrite !app_length, firstn_length, skipn_length. cbn [length]. lia.
Qed.

Lemma list_set_int_valid {A} (l : list A) (p : Z) (x : A) :
  0 <= p < zlen l -> list_set_int l p x = Ok (splice l p (p + 1) [x]).
Proof.
  intros H. unfold list_set_int, norm_index.
  now replace ((0 <=? p) && (p <? zlen l)) with true by lia.
Qed.

Lemma assign_each_ok {A} : forall (ps : list Z) (l xs : list A),
  Forall (fun p => 0 <= p < zlen l) ps -> snd (assign_each l ps xs) = Ok tt.
Proof.
  induction ps as [|p ps IH]; intros l xs H; cbn [assign_each]; [reflexivity|].
  destruct xs as [|x xs]; [reflexivity|].
  inversion H as [|? ? Hp Hps]; subst.
  rewrite list_set_int_valid by assumption.
  apply IH. rewrite splice_one_len by assumption. assumption.
Qed.

(* ---- l[index] = xs as "for p, x in zip(range, xs): l[p] = x" ------------------------------------- *)
Lemma range_len_nonneg r : 0 <= range_len r.
Proof.
  unfold range_len. destruct (0 <? r_step r) eqn:E.
  - destruct (r_start r <? r_stop r) eqn:E2; [|lia].
    assert (0 <= (r_stop r - r_start r - 1) / r_step r) by (apply Z.div_pos; lia). lia.
  - destruct (r_stop r <? r_start r) eqn:E2; [|lia].
    destruct (Z.eq_dec (r_step r) 0) as [->|Hn].
    + cbn. rewrite Zdiv_0_r. lia.
    + assert (0 <= (r_start r - r_stop r - 1) / (- r_step r)) by (apply Z.div_pos; lia). lia.
Qed.

Lemma zlen_range_list r : zlen (range_list r) = range_len r.
Proof.
  unfold range_list, zlen. rewrite map_length, seq_length.
  pose proof (range_len_nonneg r). lia.
Qed.

Lemma range_one j : range_list (mkrng j (j + 1) 1) = [j].
Proof.
  unfold range_list, range_len. cbn [r_start r_stop r_step].
  replace (0 <? 1) with true by lia. replace (j <? j + 1) with true by lia.
  assert (H : (j + 1 - j - 1) / 1 + 1 = 1) by (rewrite Z.div_1_r; lia). rewrite H.
  change (Z.to_nat 1) with 1%nat. cbn [seq map]. f_equal. change (Z.of_nat 0) with 0. lia.
Qed.

Lemma range_from_index_bounds index n r :
  0 <= n -> range_from_index index n = Ok r -> Forall (fun p => 0 <= p < n) (range_list r).
Proof.
  intros Hn H. destruct index as [i|sl]; cbn [range_from_index] in H.
  - destruct (norm_index n i) as [j|] eqn:E; [|discriminate]. inversion H; subst.
    rewrite range_one. apply norm_index_ok in E. constructor; [lia|constructor].
  - unfold range_getslice in H.
    destruct (slice_indices n sl) as [[[a b] k]|] eqn:E; [|discriminate]. inversion H; subst.
    eapply range_list_bounds; eauto.
Qed.

Lemma assign_each_contig {A} : forall (mid pre suf xs : list A),
  length xs = length mid ->
  assign_each (pre ++ mid ++ suf) (map (fun k => zlen pre + Z.of_nat k) (seq 0 (length mid))) xs
  = (pre ++ xs ++ suf, Ok tt).
Proof.
  induction mid as [|y mid IH]; intros pre suf xs Hl.
  - destruct xs; [reflexivity|discriminate].
  - destruct xs as [|x xs]; [discriminate|]. cbn [length seq map assign_each].
    replace (zlen pre + Z.of_nat 0) with (zlen pre) by lia.
    cbn [app]. rewrite list_set_int_mid.
    rewrite <- seq_shift, map_map.
    replace (pre ++ x :: mid ++ suf) with ((pre ++ [x]) ++ mid ++ suf) by (now rewrite <- app_assoc).
    erewrite map_ext; [rewrite IH by (cbn in Hl; lia)|].
    + now rewrite <- app_assoc.
    + intros k. cbv beta. rewrite zlen_app. change (zlen [x]) with 1. lia.
Qed.

Lemma range_list_contig a b : a <= b ->
  range_list (mkrng a b 1) = map (fun k => a + Z.of_nat k) (seq 0 (Z.to_nat (b - a))).
Proof.
  intros H. unfold range_list, range_len. cbn [r_start r_stop r_step].
  replace (0 <? 1) with true by lia.
  destruct (a <? b) eqn:E.
  - rewrite Z.div_1_r. replace (b - a - 1 + 1) with (b - a) by lia.
    apply map_ext. intros k. lia.
  - replace (b - a) with 0 by lia. reflexivity.
Qed.

Lemma splice_as_assign {A} (l xs : list A) (a b : Z) :
  0 <= a <= zlen l -> 0 <= b <= zlen l -> range_len (mkrng a b 1) = zlen xs ->
  splice l a b xs = fst (assign_each l (range_list (mkrng a b 1)) xs).
Proof.
  intros Ha Hb Hlen.
  destruct (Z_le_gt_dec a b) as [Hab|Hab].
  - assert (Hxs : zlen xs = b - a).
    { unfold range_len in Hlen. cbn [r_start r_stop r_step] in Hlen.
      replace (0 <? 1) with true in Hlen by lia. rewrite Z.div_1_r in Hlen.
      destruct (a <? b) eqn:E; lia. }
    destruct (split_at l a) as (A0 & BC & -> & HA); [lia|].
    rewrite zlen_app in Hb.
    destruct (split_at BC (b - a)) as (B0 & C0 & -> & HB); [lia|].
    assert (Hll : length xs = length B0) by (unfold zlen in *; lia).
    rewrite range_list_contig by lia. rewrite <- HB.
    replace b with (zlen A0 + zlen B0) by lia. subst a. rewrite splice_mid.
    unfold zlen at 2. rewrite Nat2Z.id.
    now rewrite assign_each_contig.
  - assert (xs = []).
    { unfold range_len in Hlen. cbn [r_start r_stop r_step] in Hlen.
      replace (0 <? 1) with true in Hlen by lia. replace (a <? b) with false in Hlen by lia.
      destruct xs; [reflexivity|]. rewrite zlen_cons in Hlen. pose proof (zlen_nonneg xs). lia. }
    subst xs.
    assert (Hr : range_list (mkrng a b 1) = []).
    { unfold range_list, range_len. cbn [r_start r_stop r_step].
      replace (0 <? 1) with true by lia. now replace (a <? b) with false by lia. }
    rewrite Hr. cbn [assign_each fst].
    destruct (split_at l a) as (A0 & C0 & -> & HA); [lia|]. subst a.
    now rewrite splice_ins by lia.
Qed.

(* both forms of Python assignment that a view accepts are that loop *)
Lemma list_setitem_eqlen_as_assign {A} (l : list A) index xs :
  (match index with IInt _ => length xs = 1%nat | ISlice _ => True end) ->
  list_setitem_eqlen l index xs =
  match range_from_index index (zlen l) with
  | Err e => Err e
  | Ok r => if range_len r =? zlen xs then Ok (fst (assign_each l (range_list r) xs)) else Err ValueError
  end.
Proof.
  intros Hx. pose proof (zlen_nonneg l) as Hn. destruct index as [i|sl]; cbn [list_setitem_eqlen range_from_index].
  - destruct xs as [|x [|y xs]]; try discriminate.
    unfold list_set_int. destruct (norm_index (zlen l) i) as [j|e] eqn:E.
    + rewrite <- (zlen_range_list (mkrng j (j + 1) 1)), range_one. cbn [assign_each].
      apply norm_index_ok in E. rewrite list_set_int_valid by lia. reflexivity.
    + apply norm_index_err in E. now destruct E as (-> & _).
  - unfold range_getslice, list_set_slice.
    destruct (slice_indices (zlen l) sl) as [[[a b] k]|e] eqn:E; [|reflexivity].
    destruct (range_len (mkrng a b k) =? zlen xs) eqn:El; [|reflexivity].
    destruct (k =? 1) eqn:Ek; [|reflexivity].
    assert (k = 1) by lia. subst k.
    destruct (slice_indices_range _ _ _ _ _ Hn E) as (_ & Hpos & _).
    destruct (Hpos ltac:(lia)). f_equal. apply splice_as_assign; auto; lia.
Qed.
