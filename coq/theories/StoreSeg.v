(* The one structural lemma behind every mutation: a run OLD of consecutive blocks is replaced by a
   run NEW holding the token list NT; blocks outside the run are untouched (up to their index);
   tokens outside OLD and NT keep their handle; tokens dropped from OLD are detached. *)
From AB Require Export StoreUpdate.
From Coq Require Import ZifyBool.

Lemma in_flat_of {A B} (f : A -> list B) l a x : In a l -> In x (f a) -> In x (flat_map f l).
Proof. intros. apply in_flat_map. exists a. auto. Qed.

Lemma seg_replace (X X' : positive -> Prop) s s' pre OLD NEW post NT :
  InvG X s ->
  s_blocks s = pre ++ OLD ++ post ->
  OLD <> [] ->
  (forall b, In b (pre ++ post) -> ~ X b) ->
  s_blocks s' = pre ++ NEW ++ post ->
  NEW <> [] ->
  NoDup (pre ++ NEW ++ post) ->
  (forall b, In b (pre ++ NEW ++ post) -> (b < s_next s')%positive) ->
  (forall i b, nth_error (pre ++ NEW ++ post) i = Some b -> bidx s' b = Z.of_nat i) ->
  (forall b, In b (pre ++ post) -> toks s' b = toks s b /\ bsz s' b = bsz s b /\ blnl s' b = blnl s b) ->
  flat_map (toks s') NEW = NT ->
  NoDup (flat_map (toks s) pre ++ NT ++ flat_map (toks s) post) ->
  (forall t, tsz (s_toks s') t = tsz (s_toks s) t /\ txt s' t = txt s t) ->
  (forall t, ~ In t NT -> ~ In t (flat_map (toks s) OLD) -> hnd s' t = hnd s t) ->
  (forall t, ~ In t NT -> In t (flat_map (toks s) OLD) -> hnd s' t = None) ->
  (forall b, In b NEW -> ~ X' b -> blk_ok s' b /\ (toks s' b = [] -> pre ++ NEW ++ post = [b])) ->
  InvG X' s' /\ abs s' = flat_map (toks s) pre ++ NT ++ flat_map (toks s) post.
Proof.
  intros I Eb Hold HX Eb' Hnew ND' Hlt Hidx Hframe ENT NDT Hsz H1 H2 Hok.
  assert (abs s = flat_map (toks s) pre ++ flat_map (toks s) OLD ++ flat_map (toks s) post) as Eabs.
  { unfold abs. rewrite Eb, !flat_map_app. reflexivity. }
  assert (forall l, (forall b, In b l -> In b (pre ++ post)) -> flat_map (toks s') l = flat_map (toks s) l) as Hfl.
  { induction l as [|b l IH]; intro Hin; [reflexivity|]. cbn [flat_map].
    rewrite IH by (intros; apply Hin, in_cons; assumption). rewrite (proj1 (Hframe b (Hin b (in_eq _ _)))). reflexivity. }
  assert (abs s' = flat_map (toks s) pre ++ NT ++ flat_map (toks s) post) as Eabs'.
  { unfold abs. rewrite Eb', !flat_map_app, ENT.
    rewrite (Hfl pre), (Hfl post) by (intros; apply in_or_app; auto). reflexivity. }
  pose proof (g_ndt _ _ I) as NDs. rewrite Eabs in NDs.
  assert (forall t, In t (flat_map (toks s) pre ++ flat_map (toks s) post) ->
                    ~ In t NT /\ ~ In t (flat_map (toks s) OLD)) as Hout.
  { intros t Ht. apply in_app_or in Ht as [Ht|Ht]; split; intro Hc.
    - apply NoDup_app_iff in NDT as (_ & _ & D). apply (D t Ht). apply in_or_app; auto.
    - apply NoDup_app_iff in NDs as (_ & _ & D). apply (D t Ht). apply in_or_app; auto.
    - apply NoDup_app_iff in NDT as (_ & N2 & _). apply NoDup_app_iff in N2 as (_ & _ & D). exact (D t Hc Ht).
    - apply NoDup_app_iff in NDs as (_ & N2 & _). apply NoDup_app_iff in N2 as (_ & _ & D). exact (D t Hc Ht). }
  split; [|exact Eabs'].
  constructor.
  - rewrite Eb'. intro E. apply app_eq_nil in E as [_ E]. apply app_eq_nil in E as [E _]. contradiction.
  - rewrite Eb'. assumption.
  - rewrite Eb'. assumption.
  - rewrite Eb'. assumption.
  - rewrite Eabs'. assumption.
  - intros b Hb HX'. rewrite Eb' in Hb.
    assert (In b NEW \/ In b (pre ++ post)) as [Hn|Hpp].
    { apply in_app_or in Hb as [?|Hb]; [right; apply in_or_app; auto|].
      apply in_app_or in Hb as [?|?]; [left; assumption|right; apply in_or_app; auto]. }
    + rewrite Eb'. apply Hok; assumption.
    + assert (In b (s_blocks s)) as Hbs.
      { rewrite Eb. apply in_app_or in Hpp as [?|?]; apply in_or_app; [auto|right; apply in_or_app; auto]. }
      destruct (g_ok _ _ I b Hbs (HX b Hpp)) as [Hbok Hne].
      destruct (Hframe b Hpp) as (Et & Es & El). split.
      * apply (blk_ok_frame s s' b Hbok Et Es El). intros t Ht.
        assert (In t (flat_map (toks s) pre ++ flat_map (toks s) post)) as Hin.
        { apply in_app_or in Hpp as [?|?]; apply in_or_app; [left|right]; eapply in_flat_of; eassumption. }
        destruct (Hout t Hin). split; [apply H1; assumption|apply Hsz].
      * intro E. rewrite Et in E. specialize (Hne E). exfalso.
        rewrite Eb in Hne. apply (f_equal (@length _)) in Hne. rewrite !app_length in Hne. cbn in Hne.
        destruct OLD; [contradiction|]. cbn in Hne.
        apply in_app_or in Hpp. destruct pre, post; cbn in *; try lia; tauto.
  - intros t Ht. rewrite Eabs'. destruct (in_dec Pos.eq_dec t NT) as [Hn|Hn]; [apply in_or_app; right; apply in_or_app; auto|].
    destruct (in_dec Pos.eq_dec t (flat_map (toks s) OLD)) as [Ho|Ho]; [rewrite (H2 t Hn Ho) in Ht; contradiction|].
    rewrite (H1 t Hn Ho) in Ht. apply (g_hin _ _ I) in Ht. rewrite Eabs in Ht.
    apply in_app_or in Ht as [?|Ht]; [apply in_or_app; auto|].
    apply in_app_or in Ht as [?|?]; [contradiction|apply in_or_app; right; apply in_or_app; auto].
  - intro t. destruct (Hsz t) as [-> ->]. apply (g_sz _ _ I).
Qed.
