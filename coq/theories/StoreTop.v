(* Top-level corollaries used by the property files (C07, C08, C02) and the concrete states that show
   their hypotheses are satisfiable. *)
From AB Require Export StoreHist.
From AB Require Import StoreRun.
From Coq Require Import ZifyBool.

(* ---------- handles are determined by the abstraction ---------- *)
Lemma detached s t : Inv s -> ~ In t (abs s) -> hnd s t = None.
Proof.
  intros [I _] Hn. destruct (hnd s t) eqn:E; [|reflexivity]. exfalso. apply Hn. apply (g_hin _ _ I). rewrite E. discriminate.
Qed.

Lemma attached s k t : Inv s -> nth_error (abs s) k = Some t ->
  exists i b j, nth_error (s_blocks s) i = Some b /\ nth_error (toks s b) j = Some t /\
    k = (length (flat_map (toks s) (firstn i (s_blocks s))) + j)%nat /\
    hnd s t = Some (b, Z.of_nat j) /\ bidx s b = Z.of_nat i.
Proof. intros [I _]. apply locate_inv; assumption. Qed.

Lemma removed_not_in (l tokens : list positive) p q t : NoDup l -> (p <= q)%nat ->
  In t (firstn (q - p) (skipn p l)) -> ~ In t tokens -> ~ In t (list_splice l tokens p q).
Proof.
  intros ND Lpq Hr Hn Hin. rewrite (three_split l p q Lpq) in ND.
  apply NoDup_app_iff in ND as (_ & N2 & D1). apply NoDup_app_iff in N2 as (_ & _ & D2).
  unfold list_splice in Hin. apply in_app_or in Hin as [H|H].
  - apply (D1 t H). apply in_or_app. left. exact Hr.
  - apply in_app_or in H as [H|H]; [contradiction|exact (D2 t Hr H)].
Qed.

Theorem splice_detaches LF s tokens ref del_end p q s' r :
  1 <= LF -> Inv s -> ref_pos (abs s) ref p -> end_pos (abs s) del_end p q ->
  valid_tokens s tokens p q ->
  splice LF s tokens ref del_end = (s', r) ->
  forall t, In t (firstn (q - p) (skipn p (abs s))) -> ~ In t tokens -> raw s' t = None.
Proof.
  intros HLF II Hp Hq Hv H t Hr Hn.
  destruct (splice_spec LF s tokens ref del_end p q s' r HLF II Hp Hq Hv H) as (_ & _ & _ & _ & _ & _ & F2).
  apply F2; assumption.
Qed.

Lemma foreign_not_in s t : Inv s -> foreign s t -> ~ In t (abs s).
Proof.
  intros [I _] Hf Hin. apply In_nth_error in Hin as [k Hk].
  destruct (locate_inv s k t I Hk) as (_ & b & j & _ & _ & _ & Hh & _). rewrite (foreign_hnd s t Hf) in Hh. discriminate.
Qed.

(* ---------- whole histories: final state, reference list, reference texts ---------- *)
Fixpoint run_ops (LF : Z) (s : store) (ops : list sop) : store :=
  match ops with [] => s | o :: r => run_ops LF (fst (step LF s o)) r end.
Fixpoint ref_run (l : list positive) (ops : list sop) : list positive :=
  match ops with [] => l | o :: r => ref_run (ref_step l o) r end.
Fixpoint ref_texts (f : positive -> str) (ops : list sop) : positive -> str :=
  match ops with [] => f | o :: r => ref_texts (ref_text f o) r end.

Lemma ref_texts_ext ops : forall f g, (forall t, f t = g t) -> forall t, ref_texts f ops t = ref_texts g ops t.
Proof.
  induction ops as [|o r IH]; intros f g H t; [apply H|]. cbn [ref_texts]. apply IH.
  intro u. destruct o; cbn [ref_text]; try apply H. destruct (Pos.eqb u (P t0)); [reflexivity|apply H].
Qed.

Theorem run_ops_spec LF : 1 <= LF -> forall ops s, Inv s -> pure s -> ops_valid (abs s) ops ->
  Inv (run_ops LF s ops) /\ abs (run_ops LF s ops) = ref_run (abs s) ops /\
  (forall t, txt (run_ops LF s ops) t = ref_texts (txt s) ops t).
Proof.
  intro HLF. induction ops as [|o r IH]; intros s II Hp Hv; [cbn; auto|]. destruct Hv as [Hv Hr].
  destruct (step LF s o) as [s' rr] eqn:ES.
  destruct (step_refines LF s o s' rr HLF II Hp Hv ES) as (-> & I' & Ea & Ht & Hp').
  cbn [run_ops ref_run ref_texts]. rewrite ES. cbn [fst]. rewrite <- Ea.
  destruct (IH s' I' Hp') as (I2 & E2 & T2); [rewrite Ea; exact Hr|].
  split; [exact I2|]. split; [exact E2|]. intro t. rewrite T2. apply ref_texts_ext. exact Ht.
Qed.

(* positions after any history, stated on the reference only *)
Theorem history_positions LF ops s k t : 1 <= LF -> Inv s -> pure s -> ops_valid (abs s) ops ->
  nth_error (ref_run (abs s) ops) k = Some t ->
  get_position (run_ops LF s ops) t =
    Ok (advance pos0 (concat (map (ref_texts (txt s) ops) (firstn k (ref_run (abs s) ops))))) /\
  get_index (run_ops LF s ops) t = Ok (Z.of_nat k).
Proof.
  intros HLF II Hp Hv Hk. destruct (run_ops_spec LF HLF ops s II Hp Hv) as ([I' _] & Ea & Ht).
  rewrite <- Ea in Hk. split.
  - rewrite (obs_position _ I' k t Hk). unfold prefix_text. rewrite Ea. do 3 f_equal. apply map_ext. exact Ht.
  - apply (obs_index _ I' k t Hk).
Qed.

(* ---------- C02: the printed text changes only inside the updated token ---------- *)
Definition printed (s : store) : str := concat (map (txt s) (abs s)).

Theorem set_text_printed s t x s' r k : Inv s -> nth_error (abs s) k = Some t -> set_text s t x = (s', r) ->
  let pre := prefix_text s k in
  let post := concat (map (txt s) (skipn (S k) (abs s))) in
  printed s = pre ++ txt s t ++ post /\ printed s' = pre ++ x ++ post.
Proof.
  intros II Hk H pre post. destruct (set_text_spec s t x s' r II H) as (_ & _ & Ea & _ & Tt & To).
  destruct II as [I _]. pose proof (g_ndt _ _ I) as ND.
  destruct (nth_error_split_at _ _ _ Hk) as [E _].
  unfold printed. rewrite Ea. rewrite E at 1 2. rewrite !map_app, !concat_app. cbn [map concat]. rewrite Tt.
  unfold pre, post, prefix_text. split; [reflexivity|].
  rewrite E in ND. apply NoDup_remove_2 in ND.
  f_equal; [|f_equal]; f_equal; apply map_ext_in; intros u Hu; apply To; intros ->; apply ND; apply in_or_app; auto.
Qed.

Fixpoint assign_all (s : store) (l : list (positive * str)) : store :=
  match l with [] => s | (t, x) :: r => assign_all (fst (set_text s t x)) r end.
Fixpoint texts_after (f : positive -> str) (l : list (positive * str)) : positive -> str :=
  match l with [] => f | (t, x) :: r => texts_after (fun u => if Pos.eqb u t then x else f u) r end.

Lemma texts_after_ext l : forall f g, (forall t, f t = g t) -> forall t, texts_after f l t = texts_after g l t.
Proof.
  induction l as [|[t0 x] r IH]; intros f g H t; [apply H|]. cbn [texts_after]. apply IH.
  intro u. destruct (Pos.eqb u t0); [reflexivity|apply H].
Qed.

Theorem assign_all_spec l : forall s, Inv s ->
  Inv (assign_all s l) /\ abs (assign_all s l) = abs s /\ (forall u, txt (assign_all s l) u = texts_after (txt s) l u).
Proof.
  induction l as [|[t x] r IH]; intros s II; [cbn; auto|]. cbn [assign_all texts_after].
  destruct (set_text s t x) as [s' rr] eqn:ES. cbn [fst].
  destruct (set_text_spec s t x s' rr II ES) as (_ & I' & Ea & _ & Tt & To).
  destruct (IH s' I') as (I2 & E2 & T2). split; [exact I2|]. split; [congruence|].
  intro u. rewrite T2. apply texts_after_ext. intro v. destruct (Pos.eqb_spec v t) as [->|N]; [exact Tt|apply To; exact N].
Qed.

(* ---------- a concrete multi-block state (load factor 2, 7 tokens, 4 blocks, texts with newlines) ---------- *)
Definition ex_tk : tokmap :=
  PositiveMap.add 2%positive (mktok [10] (token_size [10]) None)
    (PositiveMap.add 5%positive (mktok [97; 10; 98] (token_size [97; 10; 98]) None)
       (PositiveMap.add 6%positive (mktok [99; 100] (token_size [99; 100]) None) (PositiveMap.empty tokrec))).
Definition ex_ids : list positive := [1; 2; 3; 4; 5; 6; 7]%positive.
Definition ex_s : store := fst (from_tokens 2 1%positive ex_tk ex_ids).

Lemma ex_clean : clean ex_tk.
Proof.
  unfold ex_tk. split; intro t; unfold tsz.
  - destruct (Pos.eq_dec t 2) as [->|N2]; [rewrite tget_add_same; reflexivity|rewrite tget_add_other by assumption].
    destruct (Pos.eq_dec t 5) as [->|N5]; [rewrite tget_add_same; reflexivity|rewrite tget_add_other by assumption].
    destruct (Pos.eq_dec t 6) as [->|N6]; [rewrite tget_add_same; reflexivity|rewrite tget_add_other by assumption].
    unfold tget. rewrite PositiveMap.gempty. reflexivity.
  - destruct (Pos.eq_dec t 2) as [->|N2]; [rewrite tget_add_same; reflexivity|rewrite tget_add_other by assumption].
    destruct (Pos.eq_dec t 5) as [->|N5]; [rewrite tget_add_same; reflexivity|rewrite tget_add_other by assumption].
    destruct (Pos.eq_dec t 6) as [->|N6]; [rewrite tget_add_same; reflexivity|rewrite tget_add_other by assumption].
    unfold tget. rewrite PositiveMap.gempty. reflexivity.
Qed.

Lemma ex_ids_nodup : NoDup ex_ids.
Proof. unfold ex_ids. repeat constructor; cbn; intuition discriminate. Qed.

Lemma ex_inv_pure : Inv ex_s /\ abs ex_s = ex_ids /\ pure ex_s.
Proof.
  destruct (from_tokens_spec 2 1%positive ex_tk ex_ids ex_s (snd (from_tokens 2 1%positive ex_tk ex_ids))) as (_ & I & E & _ & _ & Pu);
    [lia|exact ex_clean|exact ex_ids_nodup|apply surjective_pairing|auto].
Qed.
Lemma ex_inv : Inv ex_s /\ abs ex_s = ex_ids.
Proof. destruct ex_inv_pure as (I & E & _). auto. Qed.
Lemma ex_pure : pure ex_s.
Proof. apply ex_inv_pure. Qed.

Lemma ex_blocks : length (s_blocks ex_s) = 4%nat.
Proof. vm_compute. reflexivity. Qed.

(* ---------- all observers at once ---------- *)
Theorem observers_spec s : Inv s ->
  all_tokens s = abs s /\ len s = zlen (abs s) /\
  get_first s = Ok (nth_error (abs s) 0) /\ get_last s = Ok (nth_error (abs s) (length (abs s) - 1)) /\
  (forall k t, nth_error (abs s) k = Some t ->
     get_index s t = Ok (Z.of_nat k) /\
     get_prev s t = Ok (match k with O => None | S k' => nth_error (abs s) k' end) /\
     get_next s t = Ok (nth_error (abs s) (S k))) /\
  (forall k1 k2 a b, nth_error (abs s) k1 = Some a -> nth_error (abs s) k2 = Some b ->
     iter_range s a b = Ok (firstn (k2 + 1 - k1) (skipn k1 (abs s)))) /\
  (forall t, ~ In t (abs s) ->
     get_index s t = Err ValueError /\ get_prev s t = Err ValueError /\ get_next s t = Err ValueError /\
     get_position s t = Err ValueError /\ (forall u, iter_range s t u = Err ValueError /\ iter_range s u t = Err ValueError)).
Proof.
  intros II. pose proof II as [I L]. split; [reflexivity|]. split; [exact L|].
  split; [apply obs_first; exact I|]. split; [apply obs_last; exact I|].
  split; [intros k t H; split; [apply obs_index|split; [apply obs_prev|apply obs_next]]; assumption|].
  split; [intros; apply obs_range; assumption|].
  intros t Hn. pose proof (detached s t II Hn) as Hd.
  unfold get_index, get_prev, get_next, get_position, iter_range. rewrite !check_handle_hnd, Hd.
  do 4 (split; [reflexivity|]). intro u. split; [reflexivity|]. rewrite check_handle_hnd. destruct (hnd s u) as [[? ?]|]; reflexivity.
Qed.

(* ---------- satisfiable hypotheses on the concrete state ---------- *)
Lemma ex_splice_args :
  ref_pos (abs ex_s) (Some 2%positive) 1 /\ end_pos (abs ex_s) (Some 6%positive) 1 6 /\
  valid_tokens ex_s [8; 3]%positive 1 6.
Proof.
  unfold valid_tokens. rewrite (proj2 ex_inv). unfold ex_ids. split; [reflexivity|]. split; [split; [lia|reflexivity]|].
  split; [repeat constructor; cbn; intuition discriminate|].
  intros t [<-|[<-|[]]]; [left; vm_compute; reflexivity|right; cbn; auto].
Qed.

Definition ex_ops : list sop :=
  [OInsAfter (Some 3) [8; 9]; ORemove 2 (Some 5); OSetText 6 [10; 10]; OReplace 6 10;
   OSplice [7; 11] (Some 7) (Some 7); OInsBefore None [12]; OSetText 9 [120; 10]].

Lemma ex_ops_valid : ops_valid (abs ex_s) ex_ops.
Proof.
  rewrite (proj2 ex_inv). unfold ex_ids, ex_ops.
  cbn -[Nat.lt Nat.le]. unfold valid_list.
  repeat (match goal with
          | |- _ /\ _ => split
          | |- True => exact I
          | |- NoDup _ => repeat constructor; cbn; intuition discriminate
          | |- forall t, In t _ -> _ \/ _ =>
              let H := fresh in intros ? H; cbn in H; repeat (destruct H as [<-|H]); try contradiction;
              first [left; cbn; intuition discriminate|right; cbn; tauto]
          | |- forall t, _ \/ _ -> _ => intros ? ?; cbn in *; intuition (subst; try discriminate)
          | |- In _ _ => cbn; tauto
          | |- (_ < _)%nat => cbn; lia
          | |- (_ <= _)%nat => cbn; lia
          | |- _ \/ _ => first [left; reflexivity|right; cbn; intuition discriminate]
          end).
Qed.

(* ---------- value / indent setters of token models ----------
   SingleValueRawTokenModel.value, BlockComment.value / .indent and the other token-model setters compute
   the new raw text with their formatter and assign it through Token._update_raw_text (tie: an ast check in
   the harness that every such setter goes through _update_raw_text).  With the formatter as a parameter: *)
Definition setter {V : Type} (fmt : V -> str) (s : store) (t : positive) (v : V) : store * res unit :=
  set_text s t (fmt v).

Theorem setter_spec {V : Type} (fmt : V -> str) s t v s' r k : Inv s -> nth_error (abs s) k = Some t ->
  setter fmt s t v = (s', r) ->
  r = Ok tt /\ Inv s' /\ abs s' = abs s /\ txt s' t = fmt v /\ (forall u, u <> t -> txt s' u = txt s u) /\
  printed s' = prefix_text s k ++ fmt v ++ concat (map (txt s) (skipn (S k) (abs s))) /\
  (forall k' u, nth_error (abs s') k' = Some u ->
     get_position s' u = Ok (advance pos0 (prefix_text s' k')) /\ get_index s' u = Ok (Z.of_nat k')).
Proof.
  intros II Hk H. unfold setter in H.
  destruct (set_text_spec s t (fmt v) s' r II H) as (-> & I' & Ea & _ & Tt & To).
  destruct (set_text_printed s t (fmt v) s' (Ok tt) k II Hk H) as [_ Hp].
  split; [reflexivity|]. split; [exact I'|]. split; [exact Ea|]. split; [exact Tt|]. split; [exact To|]. split; [exact Hp|].
  intros k' u Hu. destruct I' as [I0 _]. split; [apply obs_position|apply obs_index]; assumption.
Qed.

(* a refused from_tokens in the middle of a history leaves the current store in place *)
Theorem step_from_tokens_refused LF s ts : ~ (all_free (s_toks s) (map P ts) /\ NoDup (map P ts)) ->
  step LF s (OFromTokens ts) = (s, Err ValueError).
Proof. intro H. cbn [step]. rewrite (from_tokens_refused LF _ _ _ H). reflexivity. Qed.

(* iter over a reversed pair of tokens lying in different blocks of the example state: nothing *)
Lemma ex_iter_reversed : nth_error (abs ex_s) 5 = Some 6%positive /\ nth_error (abs ex_s) 1 = Some 2%positive /\
  hnd ex_s 6%positive = Some (5%positive, 0) /\ hnd ex_s 2%positive = Some (2%positive, 1) /\
  iter_range ex_s 6%positive 2%positive = Ok [].
Proof. rewrite (proj2 ex_inv). repeat split; vm_compute; reflexivity. Qed.
