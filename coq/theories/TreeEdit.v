(* Edits on the generic tree model: replacing the sub-tree selected by a path (`plug`), with the
   token lists of all ancestors rewritten in place (pre ++ toks old ++ post  |->  pre ++ toks new ++
   post); and the invariant the edit theorems are about:

     SWF  = TreeWF.WF + the children of every unit lie in its token list one after the other, without
            any overlap (`woven`: toks = g0 ++ child1 ++ g1 ++ child2 ++ ...). This is WF without the
            tolerance for permuted zero-width placeholders (woven implies local_ok).
     HWF  = every sub-node is SWF as a tree on its own, and only the root may be a File.
   Definitions only (computable); proofs in TreeEditProofs.v. *)
From AB Require Import Desc Tree TreeDefs TreeWF.
From Coq Require Import ZArith List Bool Ascii.
Import ListNotations.
Open Scope list_scope.

(* T = g1 ++ u1 ++ g2 ++ u2 ++ ... ++ rest *)
Fixpoint woven (T : list tk) (us : list (list tk)) : Prop :=
  match us with
  | [] => True
  | u :: r => exists g T', T = g ++ u ++ T' /\ woven T' r
  end.

Fixpoint woven_b (T : list tk) (us : list (list tk)) : bool :=
  match us with
  | [] => true
  | u :: r =>
    match u with
    | [] => woven_b T r
    | x :: _ =>
      match find_off x T with
      | None => false
      | Some a => toks_same (slice T a (a + length u)) u && woven_b (skipn (a + length u) T) r
      end
    end
  end.

Section WithClasses.
Variable cs : classes_t.

Definition SWF (n : node) : Prop :=
  WF cs n /\ forall u, In u (subunits n) -> woven (unit_toks u) (unit_children u).
Definition swf_b (n : node) : bool :=
  wf_b cs n && forallb (fun u => woven_b (unit_toks u) (unit_children u)) (subunits n).

Definition proper_units (n : node) : list unit :=
  match n with Leaf _ => [] | Tree _ _ _ kids _ => kids_flat (slot_subunits subunits) kids end.
Definition HWF (root : node) : Prop :=
  (forall n, In (UNode n) (subunits root) -> SWF n)
  /\ (forall u, In u (proper_units root) -> exempt u = false).
Definition unit_node (u : unit) : list node := match u with UNode n => [n] | URep _ _ _ _ => [] end.
Definition hwf_b (root : node) : bool :=
  forallb swf_b (flat_map unit_node (subunits root))
  && forallb (fun u => negb (exempt u)) (proper_units root).
End WithClasses.

(* ---- paths and plug ------------------------------------------------------------------------------ *)
Inductive step :=
| SField (f : string)             (* a required field, or an optional field that is present *)
| SItem (f : string) (i : nat).   (* item i of a repeated field *)
Definition path := list step.

(* pre ++ O ++ post |-> pre ++ N ++ post (O located by its first token) *)
Definition replace_infix (O N T : list tk) : option (list tk) :=
  match O with
  | [] => None
  | x :: _ =>
    match find_off x T with
    | None => None
    | Some a =>
      if toks_same (slice T a (a + length O)) O
      then Some (firstn a T ++ N ++ skipn (a + length O) T) else None
    end
  end.

Fixpoint set_kid (kids : list (string * slot)) (f : string) (sl : slot) : list (string * slot) :=
  match kids with
  | [] => []
  | (k, s) :: r => if String.eqb k f then (k, sl) :: r else (k, s) :: set_kid r f sl
  end.
Fixpoint set_nth {A} (l : list A) (i : nat) (x : A) : list A :=
  match l, i with
  | [], _ => []
  | _ :: r, O => x :: r
  | y :: r, S j => y :: set_nth r j x
  end.

Definition slot_node (sl : slot) : option node :=
  match sl with SReq x => Some x | SOpt (Some x) => Some x | _ => None end.
Definition slot_with (sl : slot) (x : node) : slot :=
  match sl with SReq _ => SReq x | SOpt _ => SOpt (Some x) | other => other end.

Fixpoint select (n : node) (p : path) : option node :=
  match p with
  | [] => Some n
  | st :: r =>
    match n with
    | Leaf _ => None
    | Tree _ _ _ kids _ =>
      match st with
      | SField f => match kid kids f with
                    | Some sl => match slot_node sl with Some x => select x r | None => None end
                    | None => None
                    end
      | SItem f i => match kid kids f with
                     | Some (SRep _ _ _ items) =>
                       match nth_error items i with Some x => select x r | None => None end
                     | _ => None
                     end
      end
    end
  end.

Fixpoint plug (n : node) (p : path) (new : node) : option node :=
  match p with
  | [] => Some new
  | st :: r =>
    match n with
    | Leaf _ => None
    | Tree c s T kids d =>
      match st with
      | SField f =>
        match kid kids f with
        | Some sl =>
          match slot_node sl with
          | Some x =>
            match plug x r new with
            | Some x' =>
              match replace_infix (node_toks x) (node_toks x') T with
              | Some T' => Some (Tree c s T' (set_kid kids f (slot_with sl x')) d)
              | None => None
              end
            | None => None
            end
          | None => None
          end
        | None => None
        end
      | SItem f i =>
        match kid kids f with
        | Some (SRep rs rt ph items) =>
          match nth_error items i with
          | Some x =>
            match plug x r new with
            | Some x' =>
              match replace_infix (node_toks x) (node_toks x') rt with
              | Some rt' =>
                match replace_infix rt rt' T with
                | Some T' => Some (Tree c s T' (set_kid kids f (SRep rs rt' ph (set_nth items i x'))) d)
                | None => None
                end
              | None => None
              end
            | None => None
            end
          | None => None
          end
        | _ => None
        end
      end
    end
  end.

(* ---- structural list edits --------------------------------------------------------------------------- *)
Definition splice {A} (T : list A) (pos : nat) (M : list A) : list A := firstn pos T ++ M ++ skipn pos T.
Definition cut {A} (T : list A) (a b : nat) : list A := firstn a T ++ skipn b T.
(* the position just after the last token of the unit u in T *)
Definition after_unit (T u : list tk) : option nat :=
  match rev u with [] => None | z :: _ => option_map S (find_off z T) end.
(* the child before item i of a Repeated: the previous item, or the placeholder *)
Definition prev_unit (ph : tk) (items : list node) (i : nat) : list tk :=
  match i with
  | O => [ph]
  | S j => match nth_error items j with Some y => node_toks y | None => [] end
  end.

(* RepeatedNodeWrapper._insert_tokens, one value. In general the separators and the new item's tokens go
   right after the previous item (or after the placeholder when the list is empty) ... *)
Definition rep_insert_A (rs : Z) (rt : list tk) (ph : tk) (items : list node) (i : nat)
           (seps : list tk) (y : node) : option slot :=
  if Nat.leb i (length items) then
    match after_unit rt (prev_unit ph items i) with
    | Some pos => Some (SRep rs (splice rt pos (seps ++ node_toks y)) ph (firstn i items ++ y :: skipn i items))
    | None => None
    end
  else None.
(* ... but at index 0 of a non-empty list the item goes right before the old first item, FOLLOWED by
   the separators (the tokens before the first item, `separators_before`, stay where they are) *)
Definition rep_insert_B (rs : Z) (rt : list tk) (ph : tk) (z : node) (rest : list node)
           (seps : list tk) (y : node) : option slot :=
  match node_toks z with
  | [] => None
  | x :: _ =>
    match find_off x rt with
    | Some pos => Some (SRep rs (splice rt pos (node_toks y ++ seps)) ph (y :: z :: rest))
    | None => None
    end
  end.
Definition rep_insert (rs : Z) (rt : list tk) (ph : tk) (items : list node) (i : nat)
           (seps : list tk) (y : node) : option slot :=
  match i, items with
  | O, z :: rest => rep_insert_B rs rt ph z rest seps y
  | _, _ => rep_insert_A rs rt ph items i seps y
  end.

(* models/internal/fields.py _touches (as added by fixes/optional-remove-keeps-separator-when-glued.patch): walk
   from the child by get_next / get_prev, skip the tokens without text; the nearest token with text shows, at its
   end 0 / -1, a character other than a blank or a bracket (" \t\r\n{}()"). `l` = the tokens met, nearest first.
   Texts are the UTF-8 bytes of raw_text: a byte below 128 is a character of its own, and none of the eight
   characters is part of a longer sequence. *)
Definition self_delimiting (a : Ascii.ascii) : bool :=
  existsb (Ascii.eqb a) [" "; "009"; "013"; "010"; "{"; "}"; "("; ")"]%char.
Fixpoint last_char (s : string) (a : Ascii.ascii) : Ascii.ascii :=
  match s with String.EmptyString => a | String.String b r => last_char r b end.
Fixpoint touches (first_char : bool) (l : list tk) : bool :=
  match l with
  | [] => false
  | t :: r =>
    match k_text t with
    | String.EmptyString => touches first_char r
    | String.String a s => negb (self_delimiting (if first_char then a else last_char s a))
    end
  end.

(* Python `not raw_text.strip()`: the text consists of white space only (str.isspace code points: U+0009..000D,
   U+001C..0020, U+0085, U+00A0, U+1680, U+2000..200A, U+2028, U+2029, U+202F, U+205F, U+3000) or is empty. Texts are
   the UTF-8 bytes of raw_text (see self_delimiting below), so the code points appear as their 1-3 byte sequences. *)
Fixpoint py_blank (s : string) : bool :=
  match s with
  | String.EmptyString => true
  | String.String a r =>
    let n := Ascii.N_of_ascii a in
    if (N.leb 9 n && N.leb n 13) || (N.leb 28 n && N.leb n 32) then py_blank r
    else
      match r with
      | String.EmptyString => false
      | String.String b r2 =>
        let m := Ascii.N_of_ascii b in
        if N.eqb n 194 then (N.eqb m 133 || N.eqb m 160) && py_blank r2
        else
          match r2 with
          | String.EmptyString => false
          | String.String c r3 =>
            let k := Ascii.N_of_ascii c in
            ((N.eqb n 225 && N.eqb m 154 && N.eqb k 128)
             || (N.eqb n 226 && N.eqb m 128
                 && ((N.leb 128 k && N.leb k 138) || N.eqb k 168 || N.eqb k 169 || N.eqb k 175))
             || (N.eqb n 226 && N.eqb m 129 && N.eqb k 159)
             || (N.eqb n 227 && N.eqb m 128 && N.eqb k 128))
            && py_blank r3
          end
      end
  end%N.
Definition blank_tk (t : tk) : bool := py_blank (k_text t).

(* the position of the first token of the unit u in T *)
Definition first_off (T u : list tk) : option nat :=
  match u with [] => None | z :: _ => find_off z T end.

(* RepeatedNodeWrapper._del_tokens, one item (pop / __delitem__). In general everything from just after
   the previous item (or the placeholder) up to the end of item i leaves: the separators before it and the item.
   (fixes/repeated-remove-keeps-separator-when-glued.patch) Unless an item follows (stop < len(items)), there are
   tokens between the previous unit and the item (first_token is not item_first: a < xa), the item touches what
   follows it (`keep` = the outcome of _touches(last_token, get_next, 0); it looks beyond the node: remove_item
   evaluates it on the root's tokens) and all the tokens in between are blank: then those stay, the removal starts at
   the item's first token. The tokens that stay lie strictly inside rt (an item follows them). *)
Definition rep_remove_from (keep : bool) (rt : list tk) (items : list node) (i a xa : nat) : nat :=
  if Nat.ltb (S i) (length items) && Nat.ltb a xa && keep && forallb blank_tk (slice rt a xa) then xa else a.
Definition rep_remove_A (keep : bool) (rs : Z) (rt : list tk) (ph : tk) (items : list node) (i : nat) : option (node * slot) :=
  match nth_error items i with
  | Some x =>
    match after_unit rt (prev_unit ph items i), after_unit rt (node_toks x), first_off rt (node_toks x) with
    | Some a, Some b, Some xa =>
      Some (x, SRep rs (cut rt (rep_remove_from keep rt items i a xa) b) ph (firstn i items ++ skipn (S i) items))
    | _, _, _ => None
    end
  | None => None
  end.
(* ... but the first of several items leaves together with the separators AFTER it (up to the next item) *)
Definition rep_remove_B (rs : Z) (rt : list tk) (ph : tk) (x z : node) (rest : list node) : option (node * slot) :=
  match node_toks x, node_toks z with
  | tx :: _, tz :: _ =>
    match find_off tx rt, find_off tz rt with
    | Some a, Some b => Some (x, SRep rs (cut rt a b) ph (z :: rest))
    | _, _ => None
    end
  | _, _ => None
  end.
Definition rep_remove (keep : bool) (rs : Z) (rt : list tk) (ph : tk) (items : list node) (i : nat) : option (node * slot) :=
  match i, items with
  | O, x :: z :: rest => rep_remove_B rs rt ph x z rest
  | _, _ => rep_remove_A keep rs rt ph items i
  end.

Definition with_rep (n : node) (f : string) (sl' : slot) : option node :=
  match n, sl' with
  | Tree c s T kids d, SRep _ rt' _ _ =>
    match kid kids f with
    | Some (SRep _ rt _ _) =>
      match replace_infix rt rt' T with
      | Some T' => Some (Tree c s T' (set_kid kids f sl') d)
      | None => None
      end
    | _ => None
    end
  | _, _ => None
  end.
Definition node_rep (n : node) (f : string) : option (Z * list tk * tk * list node) :=
  match n with
  | Tree _ _ _ kids _ => match kid kids f with Some (SRep rs rt ph items) => Some (rs, rt, ph, items) | _ => None end
  | Leaf _ => None
  end.

Definition insert_item_at (n : node) (f : string) (i : nat) (seps : list tk) (y : node) : option node :=
  match node_rep n f with
  | Some (rs, rt, ph, items) =>
    match rep_insert rs rt ph items i seps y with Some sl' => with_rep n f sl' | None => None end
  | None => None
  end.
Definition remove_item_at (keep : bool) (n : node) (f : string) (i : nat) : option (node * node) :=
  match node_rep n f with
  | Some (rs, rt, ph, items) =>
    match rep_remove keep rs rt ph items i with
    | Some (x, sl') => match with_rep n f sl' with Some n' => Some (x, n') | None => None end
    | None => None
    end
  | None => None
  end.

(* at the node selected by p *)
Definition insert_item (root : node) (p : path) (f : string) (i : nat) (seps : list tk) (y : node) : option node :=
  match select root p with
  | Some old => match insert_item_at old f i seps y with Some new => plug root p new | None => None end
  | None => None
  end.
(* _touches(items[i].last_token, get_next, 0) evaluated in the root's token list (the part of the store the model
   knows): the nearest token with text after the last token of item i shows at its first character something other
   than a blank or a bracket *)
Definition rep_touches (root old : node) (f : string) (i : nat) : bool :=
  match node_rep old f with
  | Some (_, _, _, items) =>
    match nth_error items i with
    | Some x => match after_unit (node_toks root) (node_toks x) with
                | Some b => touches true (skipn b (node_toks root))
                | None => false
                end
    | None => false
    end
  | None => false
  end.
Definition remove_item (root : node) (p : path) (f : string) (i : nat) : option (node * node) :=
  match select root p with
  | Some old =>
    match remove_item_at (rep_touches root old f i) old f i with
    | Some (x, new) => match plug root p new with Some root' => Some (x, root') | None => None end
    | None => None
    end
  | None => None
  end.

(* ---- optional fields: optional_node_property.__set__ (None -> node: _create_node, node -> None: _remove_node) ---- *)
Fixpoint find_field (fs : list fdesc) (f : string) : option fdesc :=
  match fs with [] => None | fd :: r => if String.eqb (f_name fd) f then Some fd else find_field r f end.

(* what the generated first_token / last_token / _x_pivot properties read: the border token of a child field *)
Definition kids_get (cs : classes_t) (fuel : nat) (kids : list (string * slot)) : string -> side -> option (option tk) :=
  fun name s => match kid kids name with Some sl => slot_border (border cs fuel s) s sl | None => None end.

(* self._f_pivot: the chain extracted from the source (c_pivots), evaluated on the node's children; the
   children are required to be stored in declaration order (what the generated __init__ does) *)
Definition opt_pivot (cs : classes_t) (n : node) (f : string) : option (fkind * tk) :=
  match n with
  | Leaf _ => None
  | Tree c _ _ kids _ =>
    match find_class cs c with
    | None => None
    | Some dd =>
      if names_eqb (map fst kids) (names dd) && nodupb (map fst kids) then
        match find_field (c_fields dd) f, lookup (pivot_name f) (c_pivots dd) with
        | Some fd, Some ch =>
          match eval_chain (kids_get cs (depth n) kids) ch with
          | Some pv => Some (f_kind fd, pv)
          | None => None
          end
        | _, _ => None
        end
      else None
    end
  end.

(* optional_left_field._create_node: token_store.insert_after(pivot, [*separators, *value.detach()])
   optional_right_field._create_node: token_store.insert_before(pivot, [*value.detach(), *separators]) *)
Definition create_opt_at (cs : classes_t) (n : node) (f : string) (seps : list tk) (y : node) : option node :=
  match n with
  | Leaf _ => None
  | Tree c s T kids d =>
    match kid kids f, opt_pivot cs n f with
    | Some (SOpt None), Some (k, pv) =>
      match find_off pv T with
      | Some a =>
        match k with
        | FOptL _ => Some (Tree c s (splice T (S a) (seps ++ node_toks y)) (set_kid kids f (SOpt (Some y))) d)
        | FOptR _ => Some (Tree c s (splice T a (node_toks y ++ seps)) (set_kid kids f (SOpt (Some y))) d)
        | _ => None
        end
      | None => None
      end
    | _, _ => None
    end
  end.

(* optional_left_field._remove_node: first = get_next(pivot); the separators stay (first = current.first_token) when
   the child touches what follows it; token_store.remove(first, current.last_token)
   optional_right_field._remove_node: last = get_prev(pivot); the separators stay (last = current.last_token) when
   the child touches what precedes it; token_store.remove(current.first_token, last).
   `keep` = the outcome of _touches (it looks beyond the node: remove_opt evaluates it on the root's tokens).
   The node's own token list runs from its first to its last token: separators that stay next to a pivot which has
   become the node's last / first token are not part of it any more (third component: they stay in the ancestors). *)
Definition remove_opt_at (cs : classes_t) (keep : bool) (n : node) (f : string) : option (node * node * list tk) :=
  match n with
  | Leaf _ => None
  | Tree c s T kids d =>
    match kid kids f, opt_pivot cs n f with
    | Some (SOpt (Some x)), Some (k, pv) =>
      match border cs (depth n) SFirst x, border cs (depth n) SLast x with
      | Some ft, Some lt =>
        match find_off pv T, find_off ft T, find_off lt T with
        | Some a, Some xa, Some xb =>
          let kids' := set_kid kids f (SOpt None) in
          match k with
          | FOptL _ =>        (* pivot (a), separators, child (xa .. xb), rest *)
            if keep && Nat.ltb (S xb) (length T) then Some (x, Tree c s (cut T xa (S xb)) kids' d, [])
            else Some (x, Tree c s (cut T (S a) (S xb)) kids' d, if keep then slice T (S a) xa else [])
          | FOptR _ =>        (* rest, child (xa .. xb), separators, pivot (a) *)
            if keep && Nat.ltb 0 xa then Some (x, Tree c s (cut T xa (S xb)) kids' d, [])
            else Some (x, Tree c s (cut T xa a) kids' d, if keep then slice T (S xb) a else [])
          | _ => None
          end
        | _, _, _ => None
        end
      | _, _ => None
      end
    | _, _ => None
    end
  end.

(* _touches evaluated in the root's token list (the part of the store the model knows) *)
Definition opt_touches (cs : classes_t) (root old : node) (f : string) : bool :=
  match old with
  | Leaf _ => false
  | Tree c s T kids d =>
    match kid kids f, opt_pivot cs old f with
    | Some (SOpt (Some x)), Some (k, pv) =>
      match k with
      | FOptL _ =>
        match border cs (depth old) SLast x with
        | Some lt => match find_off lt (node_toks root) with
                     | Some b => touches true (skipn (S b) (node_toks root))
                     | None => false
                     end
        | None => false
        end
      | FOptR _ =>
        match border cs (depth old) SFirst x with
        | Some ft => match find_off ft (node_toks root) with
                     | Some a => touches false (rev (firstn a (node_toks root)))
                     | None => false
                     end
        | None => false
        end
      | _ => false
      end
    | _, _ => false
    end
  end.

(* separators that stay although the owner of the field now ends (begins) at the pivot: they lie next to the pivot
   in the token list of every ancestor that goes on beyond the pivot (and in the Repeated that holds the path's item,
   if that goes on beyond the pivot) *)
Definition at_far_end (k : fkind) (pv : tk) (T : list tk) : bool :=
  match k with
  | FOptL _ => match rev T with z :: _ => tk_same z pv | [] => false end
  | _ => match T with z :: _ => tk_same z pv | [] => false end
  end.
Definition ins_next (k : fkind) (pv : tk) (g T : list tk) : option (list tk) :=
  match find_off pv T with
  | Some a => Some (match k with FOptL _ => splice T (S a) g | _ => splice T a g end)
  | None => None
  end.
(* the deepest node on the path p that goes on beyond the pivot while its child on the path ends (begins) at the
   pivot: the path to it, and the step to that child *)
Fixpoint gap_site (k : fkind) (pv : tk) (n : node) (p : path) : option (path * step) :=
  match p with
  | [] => None
  | st :: r =>
    if at_far_end k pv (node_toks n) then None
    else match select n [st] with
         | Some x =>
           if at_far_end k pv (node_toks x) then Some ([], st)
           else match gap_site k pv x r with
                | Some (q, st') => Some (st :: q, st')
                | None => None
                end
         | None => None
         end
  end.
Definition gap_at (k : fkind) (pv : tk) (g : list tk) (n : node) (st : step) : option node :=
  match n with
  | Leaf _ => None
  | Tree c s T kids d =>
    match ins_next k pv g T with
    | Some T' =>
      match st with
      | SField _ => Some (Tree c s T' kids d)
      | SItem f _ =>
        match kid kids f with
        | Some (SRep rs rt ph items) =>
          if at_far_end k pv rt then Some (Tree c s T' kids d)
          else match ins_next k pv g rt with
               | Some rt' => Some (Tree c s T' (set_kid kids f (SRep rs rt' ph items)) d)
               | None => None
               end
        | _ => None
        end
      end
    | None => None
    end
  end.
Definition regap (k : fkind) (pv : tk) (g : list tk) (root : node) (p : path) : option node :=
  match gap_site k pv root p with
  | None => Some root                       (* the root itself ends at the pivot: the separators lie outside *)
  | Some (q, st) =>
    match select root q with
    | Some a => match gap_at k pv g a st with Some a' => plug root q a' | None => None end
    | None => None
    end
  end.

(* at the node selected by p *)
Definition create_opt (cs : classes_t) (root : node) (p : path) (f : string) (seps : list tk) (y : node) : option node :=
  match select root p with
  | Some old => match create_opt_at cs old f seps y with Some new => plug root p new | None => None end
  | None => None
  end.
Definition remove_opt (cs : classes_t) (root : node) (p : path) (f : string) : option (node * node) :=
  match select root p with
  | Some old =>
    match remove_opt_at cs (opt_touches cs root old f) old f with
    | Some (x, new, out) =>
      match plug root p new with
      | Some root1 =>
        match out with
        | [] => Some (x, root1)
        | _ =>
          match opt_pivot cs old f with
          | Some (k, pv) => match regap k pv out root1 p with Some root' => Some (x, root') | None => None end
          | None => None
          end
        end
      | None => None
      end
    | None => None
    end
  | None => None
  end.

(* the separators that stay next to the pivot but outside the owner of the field (they go to the ancestors: regap);
   [] in every other case: nothing stays, or what stays lies inside the owner *)
Definition opt_out (cs : classes_t) (root : node) (p : path) (f : string) : list tk :=
  match select root p with
  | Some old =>
    match remove_opt_at cs (opt_touches cs root old f) old f with
    | Some (_, _, out) => out
    | None => []
    end
  | None => []
  end.
