(* C14: the range of the interleaving claimer, read off `_find_outer` / `_find_inner` (interleaving_comments.py),
   independently of the set of comments to claim: which tokens the three scans of `_CommentClaimer.claim` walk over.
   Definitions and the boolean hypotheses evaluated per trace (CommentsRun.hyp_steps); no proofs in this file.

     before the field   `_find_outer(first_token, get_prev, limit=model.first_token)`: from the field's placeholder
                        backwards over Newline / Whitespace / empty-text tokens and unclaimed block comments; the scan
                        STOPS in front of the first claimed block comment or other token with text, and after the
                        token `limit` has been stepped over (`prev is not limit`): `outer_run`;
     inside             `_find_inner`: every token from the placeholder to the first item, and from behind the last
                        token of an item to the first token of the next one (the spans of the items themselves are
                        the children's business): `gaps`;
     after the field    `_find_outer(last_token, get_next, limit=model.last_token)`: `outer_run` forwards from the
                        last token of the last item (the placeholder when there are no items).
   Comments beyond a stop token, inside an item's span, or beyond `limit` are NOT in the range. *)
From AB Require Import Prelude Comments.

Definition skippable (t : tok) : bool := is_nl t || is_ws t || text_empty t.

(* the scan steps over t: anything else stops it *)
Definition passes (t : tok) : bool := skippable t || (is_comment t && negb (t_claimed t)).

(* the tokens one `_find_outer` loop steps over, in scan order *)
Fixpoint outer_run (prev : Z) (w : list tok) (limit : Z) : list tok :=
  match w with
  | [] => []
  | t :: w' =>
    if prev =? limit then [] else
    if skippable t then t :: outer_run (t_id t) w' limit
    else if is_comment t then (if t_claimed t then [] else t :: outer_run (t_id t) w' limit)
    else []
  end.

(* the tokens in front of token `e` (all of them when `e` is not there) *)
Fixpoint upto (e : Z) (w : list tok) : list tok :=
  match w with [] => [] | t :: w' => if t_id t =? e then [] else t :: upto e w' end.

Fixpoint gaps (d : doc) (start : list tok) (items : list item) : list tok :=
  match items with
  | [] => []
  | it :: rest => upto (it_first it) start ++ gaps d (after d (it_last it)) rest
  end.

Definition before (d : doc) (i : Z) : list tok :=
  match split_at i d with Some (a, _) => a | None => [] end.

Definition claim_range (d : doc) (ph : Z) (items : list item) (mfirst mlast : Z) : list tok :=
  rev (outer_run ph (rev (before d ph)) mfirst)
  ++ gaps d (from_incl d ph) items
  ++ outer_run (rep_last ph items) (after d (rep_last ph items)) mlast.

(* ---- boolean hypotheses ------------------------------------------------------------------------------- *)
Definition has_tok_b (d : doc) (i : Z) : bool := existsb (fun t => t_id t =? i) d.

(* c names an unclaimed block comment with text that lies in the claimer's range *)
Definition in_range_b (d : doc) (ph : Z) (items : list item) (mf ml : Z) (c : Z) : bool :=
  existsb (fun t => (t_id t =? c) && is_comment t && negb (t_claimed t) && negb (text_empty t))
          (claim_range d ph items mf ml).

(* claim_interleaving_comments(cs) can find every comment of cs: in the range, or already an entry of the field *)
Definition claimable_b (d : doc) (ph : Z) (items : list item) (mf ml : Z) (cs : list Z) : bool :=
  forallb (fun c => in_range_b d ph items mf ml c || existsb (Z.eqb c) (old_comments items)) cs.

(* the root File before its own claim_interleaving_comments(): what the children's auto_claim_comments left
   unclaimed lies in the File's range (the placeholder is in the store) *)
Definition file_cover_b (d : doc) (ph : Z) (items : list item) (mf ml : Z) : bool :=
  has_tok_b d ph
  && forallb (fun t => negb (is_comment t) || t_claimed t || in_range_b d ph items mf ml (t_id t)) d.
