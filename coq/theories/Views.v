(* C10 model: the raw list of a repeated field (RepeatedNodeWrapper, items / notification level only;
   the token layout is Repeated.v's job) and the views registered on it (RepeatedValueWrapper,
   RepeatedFilteredNodeWrapper, the mapping layer of meta_item_internal.py), each view being its
   `_raw_indexes` cache, patched by _RepeatedValueWrapperUpdateHandler.handle / handle_splice.
   Transcribed statement by statement from
     autobean_refactor/models/internal/properties.py        (RepeatedNodeWrapper)
     autobean_refactor/models/internal/value_properties.py  (handler, RepeatedValueWrapper)
     autobean_refactor/models/internal/indexes.py
     autobean_refactor/models/internal/interleaving_comments.py (items[:] = ...; _notify())
     autobean_refactor/models/meta_item_internal.py
   Exceptions are values; the state returned with an exception is the state written so far.

   `fx : bool` selects the code as repaired by /verif/fixes/c10-*.patch (true) or the code as found
   (false): (a) `raw[i] = x` / `raw.insert(i, x)` passed a negative `i` unnormalised to
   _notify_splice, (b) `raw[a:b] = xs` with b < a passed r.stop < r.start, (c) `view[a:b:k] = xs`
   read `_raw_indexes[slice_from_range(r)]`, which for the empty range(-1, -1, k) (k < 0, a < -len) is
   the whole list reversed, (d) assigning a whole wrapper left the cached views on the old one. *)
From AB Require Import Prelude PySeq.

(* an element of the raw list: its type tag (which Python class), and the parts of its content a
   view can read or write: key (MetaItem.key, else 0) and value (string / simplified value). *)
Record elem := mkelem { e_tag : Z; e_key : Z; e_val : Z }.
Definition elem_eqb (a b : elem) : bool :=
  (e_tag a =? e_tag b) && (e_key a =? e_key b) && (e_val a =? e_val b).

(* how a view converts: from_raw_type / to_raw_type / update_raw *)
Inductive vkind :=
| KNode      (* RepeatedFilteredNodeWrapper: identity, update_raw = False *)
| KString    (* repeated_string_property: x.value, update_raw sets .value, True *)
| KCustom.   (* Custom.values: _simplify_value / _unsimplify_value / custom._update_raw *)

Record view := mkview { v_tags : list Z; v_kind : vkind; v_idx : list Z }.
Record st := mkst { items : list elem; views : list view }.

(* isinstance(model, self._raw_type) *)
Definition matches (tags : list Z) (e : elem) : bool := existsb (Z.eqb (e_tag e)) tags.

(* [i for i, model in enumerate(xs, start) if isinstance(model, raw_type)] *)
Fixpoint positions_from (i : Z) (tags : list Z) (l : list elem) : list Z :=
  match l with
  | [] => []
  | x :: r => if matches tags x then i :: positions_from (i + 1) tags r
              else positions_from (i + 1) tags r
  end.

(* _RepeatedValueWrapperUpdateHandler.handle *)
Definition handle (its : list elem) (v : view) : view :=
  mkview (v_tags v) (v_kind v) (positions_from 0 (v_tags v) its).

(* for i in range(k, len(idx)): idx[i] += diff *)
Definition shift_from (k diff : Z) (idx : list Z) : list Z :=
  zfirstn k idx ++ map (fun y => y + diff) (zskipn k idx).

(* _RepeatedValueWrapperUpdateHandler.handle_splice(l, r, values) *)
Definition handle_splice_idx (tags : list Z) (idx : list Z) (l r : Z) (values : list elem) : list Z :=
  let filtered := positions_from l tags values in
  let ll := bisect_left idx l in
  let rr := bisect_left idx r in
  let diff := zlen values - r + l in
  let idx1 := match list_set_slice idx (mkslc (Some ll) (Some rr) None) filtered with
              | Ok x => x | Err _ => idx end in
  if diff =? 0 then idx1 else shift_from (ll + zlen filtered) diff idx1.

Definition handle_splice (l r : Z) (values : list elem) (v : view) : view :=
  mkview (v_tags v) (v_kind v) (handle_splice_idx (v_tags v) (v_idx v) l r values).

(* RepeatedNodeWrapper._notify / _notify_splice *)
Definition notify (s : st) : st := mkst (items s) (map (handle (items s)) (views s)).
Definition notify_splice (l r : Z) (values : list elem) (s : st) : st :=
  mkst (items s) (map (handle_splice l r values) (views s)).

Definition with_items (s : st) (its : list elem) : st := mkst its (views s).

Definition out := res (list elem).
Definition OkNone : out := Ok [].

(* ===== RepeatedNodeWrapper (raw list) ========================================================= *)
Section Fx.
Variable fx : bool.

(* __setitem__(index: int, value) *)
Definition raw_setitem_int (s : st) (index : Z) (x : elem) : st * out :=
  match list_get_int (items s) index with                 (* item = self._repeated.items[index] *)
  | Err e => (s, Err e)
  | Ok _ =>
      let index' := if fx && (index <? 0) then index + zlen (items s) else index in
      match list_set_int (items s) index x with            (* self._repeated.items[index] = value *)
      | Err e => (s, Err e)
      | Ok its => (notify_splice index' (index' + 1) [x] (with_items s its), OkNone)
      end
  end.

(* drop_many(indexes): every index is validated and normalised first (IndexError before anything is
   touched; negatives count from the end; duplicates collapse in the set) *)
Fixpoint norm_all (n : Z) (ps : list Z) : res (list Z) :=
  match ps with
  | [] => Ok []
  | p :: r => match norm_index n p with
              | Err _ => Err IndexError
              | Ok j => match norm_all n r with Err e => Err e | Ok q => Ok (j :: q) end
              end
  end.
Definition raw_drop_many (s : st) (ps : list Z) : st * out :=
  match norm_all (zlen (items s)) ps with
  | Err e => (s, Err e)
  | Ok qs => (notify (with_items s (remove_positions qs (items s))), OkNone)
  end.

(* the extended-slice loop of __setitem__: for i, value in zip(r, values): items[i] = value *)
Definition raw_setitem_slice (s : st) (sl : slc) (values : list elem) : st * out :=
  match range_from_index (ISlice sl) (zlen (items s)) with
  | Err e => (s, Err e)
  | Ok r =>
      if r_step r =? 1 then
        match list_set_slice (items s) (slice_from_range r) values with
        | Err e => (s, Err e)
        | Ok its =>
            let stop := if fx then Z.max (r_start r) (r_stop r) else r_stop r in
            (notify_splice (r_start r) stop values (with_items s its), OkNone)
        end
      else if negb (range_len r =? zlen values) then (s, Err ValueError)
      else
        match assign_each (items s) (range_list r) values with
        | (its, Err e) => (with_items s its, Err e)
        | (its, Ok _) => (notify (with_items s its), OkNone)
        end
  end.

Definition raw_setitem (s : st) (index : pyidx) (values : list elem) : st * out :=
  match index with
  | IInt i => match values with
              | [x] => raw_setitem_int s i x
              | _ => (s, Err ModelStuck)
              end
  | ISlice sl => raw_setitem_slice s sl values
  end.

(* __delitem__(index) *)
Definition raw_delitem (s : st) (index : pyidx) : st * out :=
  match range_from_index index (zlen (items s)) with
  | Err e => (s, Err e)
  | Ok r =>
      if r_step r =? 1 then raw_setitem_slice s (slice_from_range r) []
      else raw_drop_many s (range_list r)
  end.

(* insert(index, value) *)
Definition raw_insert (s : st) (index : Z) (x : elem) : st * out :=
  let n := zlen (items s) in
  let index := if fx && (index <? 0) then Z.max (index + n) 0 else index in
  let index := Z.min index n in
  (notify_splice index index [x] (with_items s (list_insert (items s) index x)), OkNone).

(* append(value) *)
Definition raw_append (s : st) (x : elem) : st * out :=
  let index := zlen (items s) in
  (notify_splice index index [x] (with_items s (items s ++ [x])), OkNone).

(* clear() *)
Definition raw_clear (s : st) : st * out := (notify (with_items s []), OkNone).

(* extend(values) *)
Definition raw_extend (s : st) (values : list elem) : st * out :=
  let index := zlen (items s) in
  (notify_splice index index values (with_items s (items s ++ values)), OkNone).

(* pop(index) *)
Definition raw_pop (s : st) (index : Z) : st * out :=
  match list_get_int (items s) index with                  (* value = self._repeated.items[index] *)
  | Err e => (s, Err e)
  | Ok value =>
      match range_from_index (IInt index) (zlen (items s)) with
      | Err e => (s, Err e)
      | Ok r =>
          match list_pop (items s) index with              (* self._repeated.items.pop(index) *)
          | Err e => (s, Err e)
          | Ok (_, its) => (notify_splice (r_start r) (r_stop r) [] (with_items s its), Ok [value])
          end
      end
  end.

(* reverse() (fixes/repeated-reverse.patch; MutableSequence.reverse assigns attached nodes and is refused):
   values = [self.pop() for _ in range(len(items))]; self.extend(values) *)
Fixpoint raw_pop_all (fuel : nat) (s : st) (acc : list elem) : st * res (list elem) :=
  match fuel with
  | O => (s, Ok acc)
  | S f => match raw_pop s (-1) with
           | (s', Ok [y]) => raw_pop_all f s' (acc ++ [y])
           | (s', Ok _) => (s', Err ModelStuck)
           | (s', Err e) => (s', Err e)
           end
  end.
Definition raw_reverse (s : st) : st * out :=
  match raw_pop_all (length (items s)) s [] with
  | (s', Err e) => (s', Err e)
  | (s', Ok values) => raw_extend s' values
  end.

(* claim_/unclaim_interleaving_comments: self._repeated.items[:] = items; self._notify()
   (which comments are found is the comment layer's business: any new list) *)
Definition raw_reset (s : st) (its : list elem) : st * out := (notify (with_items s its), OkNone).

(* repeated_node_property.__set__ / repeated_node_with_interleaving_comments_property.__set__:
   `model.raw_xs = wrapper` (e.g. a deep copy of another model's field) after views were read.
   The assigned wrapper becomes the model's raw list (`model.raw_xs is wrapper`).
   Repaired (fixes/repeated-property-set-keeps-views.patch): the cached views built on the replaced
   wrapper are forgotten and rebuilt (a later ORegister) on the new one at their next access.
   As found: the model keeps serving the cached views, whose caches describe the replaced list. *)
Definition raw_assign (s : st) (its : list elem) : st * out :=
  if fx then (mkst its [], OkNone) else (mkst its (views s), OkNone).

(* ===== RepeatedValueWrapper (a view) ========================================================== *)
Definition from_raw (k : vkind) (e : elem) : elem :=
  match k with KNode => e | _ => mkelem 0 0 (e_val e) end.

(* custom._update_raw succeeds for (EscapedString,str) (Date,date) (Bool,bool) (NumberExpr,Decimal):
   tags 1..4 of the harness' numbering; Account / Amount (5, 6) are replaced *)
Definition update_raw (k : vkind) (raw value : elem) : option elem :=
  match k with
  | KNode => None
  | KString => Some (mkelem (e_tag raw) (e_key raw) (e_val value))
  | KCustom => if (e_tag raw =? e_tag value) && (1 <=? e_tag raw) && (e_tag raw <=? 4)
               then Some (mkelem (e_tag raw) (e_key raw) (e_val value)) else None
  end.

(* RepeatedValueWrapper.__init__: compute the cache, register the handler *)
Definition register (s : st) (tags : list Z) (k : vkind) : st * out :=
  (mkst (items s) (views s ++ [mkview tags k (positions_from 0 tags (items s))]), OkNone).

(* [from_raw(raw[i]) for i in ps], stopping at the first IndexError *)
Fixpoint fetch (k : vkind) (its : list elem) (ps : list Z) : out :=
  match ps with
  | [] => Ok []
  | p :: r => match list_get_int its p with
              | Err e => Err e
              | Ok x => match fetch k its r with Err e => Err e | Ok xs => Ok (from_raw k x :: xs) end
              end
  end.

Definition v_len (s : st) (v : view) : st * out := (s, Ok [mkelem 0 0 (zlen (v_idx v))]).
Definition v_iter (s : st) (v : view) : st * out := (s, fetch (v_kind v) (items s) (v_idx v)).

Definition v_getitem (s : st) (v : view) (index : pyidx) : st * out :=
  match index with
  | IInt i => match list_get_int (v_idx v) i with
              | Err e => (s, Err e)
              | Ok p => (s, fetch (v_kind v) (items s) [p])
              end
  | ISlice sl => match list_get_slice (v_idx v) sl with
                 | Err e => (s, Err e)
                 | Ok ps => (s, fetch (v_kind v) (items s) ps)
                 end
  end.

Definition v_delitem (s : st) (v : view) (index : pyidx) : st * out :=
  match range_from_index index (zlen (v_idx v)) with
  | Err e => (s, Err e)
  | Ok r => raw_drop_many s (pick (v_idx v) (range_list r))
  end.

(* for raw_index, value in zip(raw_indexes_to_update, values): update in place or replace *)
Fixpoint v_assign (k : vkind) (s : st) (ps : list Z) (values : list elem) : st * out :=
  match ps, values with
  | p :: ps', x :: xs' =>
      match list_get_int (items s) p with                   (* self._raw_wrapper[raw_index] *)
      | Err e => (s, Err e)
      | Ok cur =>
          match update_raw k cur x with
          | Some cur' =>
              match list_set_int (items s) p cur' with      (* same object, new value: no notification *)
              | Err e => (s, Err e)
              | Ok its => v_assign k (with_items s its) ps' xs'
              end
          | None =>
              match raw_setitem_int s p x with
              | (s', Err e) => (s', Err e)
              | (s', Ok _) => v_assign k s' ps' xs'
              end
          end
      end
  | _, _ => (s, OkNone)
  end.

Definition v_setitem (s : st) (v : view) (index : pyidx) (values : list elem) : st * out :=
  match range_from_index index (zlen (v_idx v)) with
  | Err e => (s, Err e)
  | Ok r =>
      (* repaired: [self._raw_indexes[i] for i in r]; as found: self._raw_indexes[slice_from_range(r)] *)
      match (if fx then Ok (pick (v_idx v) (range_list r))
             else list_get_slice (v_idx v) (slice_from_range r)) with
      | Err e => (s, Err e)
      | Ok ps =>
          if negb (zlen ps =? zlen values) then (s, Err ValueError)
          else v_assign (v_kind v) s ps values
      end
  end.

Definition v_insert (s : st) (v : view) (index : Z) (x : elem) : st * out :=
  let n := zlen (v_idx v) in
  if n <=? index then raw_insert s (zlen (items s)) x
  else if index <? - n then raw_insert s 0 x
  else match list_get_int (v_idx v) index with
       | Err e => (s, Err e)
       | Ok p => raw_insert s p x
       end.

Definition v_append (s : st) (x : elem) : st * out := raw_append s x.
Definition v_clear (s : st) (v : view) : st * out := raw_drop_many s (v_idx v).
Definition v_extend (s : st) (xs : list elem) : st * out := raw_extend s xs.

Definition v_pop (s : st) (v : view) (index : Z) : st * out :=
  let n := zlen (v_idx v) in
  if negb ((- n <=? index) && (index <? n)) then (s, Err IndexError)
  else match list_get_int (v_idx v) index with
       | Err e => (s, Err e)
       | Ok p => match raw_pop s p with
                 | (s', Ok [x]) => (s', Ok [from_raw (v_kind v) x])
                 | r => r
                 end
       end.

(* remove(value): first raw index whose converted value equals value *)
Fixpoint v_remove_go (k : vkind) (s : st) (ps : list Z) (value : elem) : st * out :=
  match ps with
  | [] => (s, Err ValueError)
  | p :: r => match list_get_int (items s) p with
              | Err e => (s, Err e)
              | Ok x => if elem_eqb (from_raw k x) value
                        then match raw_pop s p with (s', Ok _) => (s', OkNone) | q => q end
                        else v_remove_go k s r value
              end
  end.
Definition v_remove (s : st) (v : view) (value : elem) := v_remove_go (v_kind v) s (v_idx v) value.

(* discard(value) *)
Fixpoint v_discard_sel (k : vkind) (its : list elem) (ps : list Z) (value : elem) : res (list Z) :=
  match ps with
  | [] => Ok []
  | p :: r => match list_get_int its p with
              | Err e => Err e
              | Ok x => match v_discard_sel k its r value with
                        | Err e => Err e
                        | Ok q => Ok (if elem_eqb (from_raw k x) value then p :: q else q)
                        end
              end
  end.
Definition v_discard (s : st) (v : view) (value : elem) : st * out :=
  match v_discard_sel (v_kind v) (items s) (v_idx v) value with
  | Err e => (s, Err e)
  | Ok ps => raw_drop_many s ps
  end.

(* view.reverse() (same patch): the raw models of the view are popped last to first and re-inserted at the
   same raw positions first to last *)
Fixpoint v_pop_each (s : st) (ps : list Z) (acc : list elem) : st * res (list elem) :=
  match ps with
  | [] => (s, Ok acc)
  | p :: r => match raw_pop s p with
              | (s', Ok [y]) => v_pop_each s' r (acc ++ [y])
              | (s', Ok _) => (s', Err ModelStuck)
              | (s', Err e) => (s', Err e)
              end
  end.
Fixpoint v_insert_each (s : st) (ps : list Z) (values : list elem) : st * out :=
  match ps, values with
  | p :: ps', x :: xs' => v_insert_each (fst (raw_insert s p x)) ps' xs'
  | _, _ => (s, OkNone)
  end.
Definition v_reverse (s : st) (v : view) : st * out :=
  match v_pop_each s (rev (v_idx v)) [] with
  | (s', Err e) => (s', Err e)
  | (s', Ok values) => v_insert_each s' (v_idx v) values
  end.

(* ===== mapping layer (RepeatedRawMetaItemWrapper: raw = true; RepeatedMetaItemWrapper: raw = false) *)
(* for i, item in enumerate(self): if item.key == key *)
Fixpoint m_find (its : list elem) (key : Z) (ps : list Z) (i : Z) : res (option (Z * Z * elem)) :=
  match ps with
  | [] => Ok None
  | p :: r => match list_get_int its p with
              | Err e => Err e
              | Ok x => if e_key x =? key then Ok (Some (i, p, x)) else m_find its key r (i + 1)
              end
  end.

Definition value_of (x : elem) : elem := mkelem 0 0 (e_val x).
Definition default_marker : elem := mkelem (-1) 0 0.

Definition m_getitem (raw : bool) (s : st) (v : view) (key : Z) : st * out :=
  match m_find (items s) key (v_idx v) 0 with
  | Err e => (s, Err e)
  | Ok None => (s, Err KeyError)
  | Ok (Some (_, _, x)) => (s, Ok [if raw then x else value_of x])
  end.

Definition m_contains (s : st) (v : view) (key : Z) : st * out :=
  match m_find (items s) key (v_idx v) 0 with
  | Err e => (s, Err e)
  | Ok None => (s, Ok [mkelem 0 0 0])
  | Ok (Some _) => (s, Ok [mkelem 0 0 1])
  end.

Definition m_delitem (s : st) (v : view) (key : Z) : st * out :=
  match m_find (items s) key (v_idx v) 0 with
  | Err e => (s, Err e)
  | Ok None => (s, Err KeyError)
  | Ok (Some (i, _, _)) => v_delitem s v (IInt i)
  end.

(* raw_meta[key] = item : replace the first match, else append
   meta[key] = value    : item.value = value on the first match, else append a new MetaItem (x) *)
Definition m_setitem (raw : bool) (s : st) (v : view) (key : Z) (x : elem) : st * out :=
  match m_find (items s) key (v_idx v) 0 with
  | Err e => (s, Err e)
  | Ok None => v_append s x
  | Ok (Some (i, p, cur)) =>
      if raw then v_setitem s v (IInt i) [x]
      else match list_set_int (items s) p (mkelem (e_tag cur) (e_key cur) (e_val x)) with
           | Err e => (s, Err e)
           | Ok its => (with_items s its, OkNone)
           end
  end.

Definition m_pop (raw : bool) (s : st) (v : view) (key : Z) (has_default : bool) : st * out :=
  match m_find (items s) key (v_idx v) 0 with
  | Err e => (s, Err e)
  | Ok None => if has_default then (s, Ok [default_marker]) else (s, Err KeyError)
  | Ok (Some (i, _, _)) =>
      match v_pop s v i with
      | (s', Ok [x]) => (s', Ok [if raw then x else value_of x])
      | r => r
      end
  end.

(* popitem(): for item in self: return item.key, self.pop(item.key); KeyError when empty *)
Definition m_popitem (raw : bool) (s : st) (v : view) : st * out :=
  match v_idx v with
  | [] => (s, Err KeyError)
  | p :: _ =>
      match list_get_int (items s) p with
      | Err e => (s, Err e)
      | Ok item =>
          match m_pop raw s v (e_key item) false with
          | (s', Ok [x]) => (s', Ok [mkelem 0 (e_key item) 0; x])
          | r => r
          end
      end
  end.

(* keys(): [item.key for item in self] *)
Definition m_keys (s : st) (v : view) : st * out :=
  match fetch KNode (items s) (v_idx v) with
  | Err e => (s, Err e)
  | Ok xs => (s, Ok (map (fun x => mkelem 0 (e_key x) 0) xs))
  end.

(* values(): raw_meta -> the items; meta -> item.value.   items(): (item.key, that) *)
Definition m_values (raw : bool) (s : st) (v : view) : st * out :=
  match fetch KNode (items s) (v_idx v) with
  | Err e => (s, Err e)
  | Ok xs => (s, Ok (map (fun x => if raw then x else value_of x) xs))
  end.
Definition m_items (raw : bool) (s : st) (v : view) : st * out :=
  match fetch KNode (items s) (v_idx v) with
  | Err e => (s, Err e)
  | Ok xs => (s, Ok (map (fun x => if raw then x else mkelem 0 (e_key x) (e_val x)) xs))
  end.

(* the dict views keys() / values() / items() (_DictView and its six subclasses):
   which = 0 keys, 1 values, 2 items;  __iter__ as m_keys / m_values / m_items, __len__ = len(wrapper),
   __reversed__ = the same over reversed(wrapper), __contains__ = any(v is x or v == x for v in self) *)
Inductive dquery := DIter | DLen | DReversed | DIn (x : elem).
Definition dv_conv (which : Z) (raw : bool) (x : elem) : elem :=
  if which =? 0 then mkelem 0 (e_key x) 0
  else if which =? 1 then (if raw then x else value_of x)
  else (if raw then x else mkelem 0 (e_key x) (e_val x)).
Definition m_dict (which : Z) (raw : bool) (q : dquery) (s : st) (v : view) : st * out :=
  match q with
  | DLen => (s, Ok [mkelem 0 0 (zlen (v_idx v))])
  | DIter | DReversed | DIn _ =>
      match fetch KNode (items s) (match q with DReversed => rev (v_idx v) | _ => v_idx v end) with
      | Err e => (s, Err e)
      | Ok xs =>
          let l := map (dv_conv which raw) xs in
          (s, Ok (match q with
                  | DIn x => [mkelem 0 0 (if existsb (fun y => elem_eqb y x) l then 1 else 0)]
                  | _ => l end))
      end
  end.

(* `model.view += values` / `model.raw_xs += values`: MutableSequence.__iadd__ extends and returns self, then
   the attribute is assigned the object it already holds, which is a no-op (cached_custom_property.__set__
   returns early; repeated_node_property.__set__: replace_node(node, node) returns, no view is dropped) *)
Definition v_iadd (s : st) (xs : list elem) : st * out := v_extend s xs.
Definition raw_iadd (s : st) (xs : list elem) : st * out := raw_extend s xs.

(* ===== operation language (shared with harness/c10.py) ======================================= *)
Inductive op :=
| ORegister (tags : list Z) (k : vkind)
| RSet (i : pyidx) (xs : list elem) | RDel (i : pyidx) | RInsert (i : Z) (x : elem) | RAppend (x : elem)
| RClear | RExtend (xs : list elem) | RPop (i : Z) | RDropMany (ps : list Z) | RReset (its : list elem)
| RAssign (its : list elem)
| VLen (k : nat) | VIter (k : nat) | VGet (k : nat) (i : pyidx)
| VSet (k : nat) (i : pyidx) (xs : list elem) | VDel (k : nat) (i : pyidx)
| VInsert (k : nat) (i : Z) (x : elem) | VAppend (k : nat) (x : elem) | VClear (k : nat)
| VExtend (k : nat) (xs : list elem) | VPop (k : nat) (i : Z)
| VRemove (k : nat) (x : elem) | VDiscard (k : nat) (x : elem)
| MGet (k : nat) (raw : bool) (key : Z) | MContains (k : nat) (key : Z) | MDel (k : nat) (key : Z)
| MSet (k : nat) (raw : bool) (key : Z) (x : elem) | MPop (k : nat) (raw : bool) (key : Z) (dflt : bool)
| MKeys (k : nat) | MValues (k : nat) (raw : bool) | MItems (k : nat) (raw : bool)
| MPopItem (k : nat) (raw : bool)
| RReverse | VReverse (k : nat)
| RIAdd (xs : list elem) | VIAdd (k : nat) (xs : list elem)
| MDict (k : nat) (which : Z) (raw : bool) (q : dquery).

Definition with_view (s : st) (k : nat) (f : view -> st * out) : st * out :=
  match nth_error (views s) k with
  | None => (s, Err ModelStuck)
  | Some v => f v
  end.

Definition step (s : st) (o : op) : st * out :=
  match o with
  | ORegister tags k => register s tags k
  | RSet i xs => raw_setitem s i xs
  | RDel i => raw_delitem s i
  | RInsert i x => raw_insert s i x
  | RAppend x => raw_append s x
  | RClear => raw_clear s
  | RExtend xs => raw_extend s xs
  | RPop i => raw_pop s i
  | RDropMany ps => raw_drop_many s ps
  | RReset its => raw_reset s its
  | RAssign its => raw_assign s its
  | VLen k => with_view s k (v_len s)
  | VIter k => with_view s k (v_iter s)
  | VGet k i => with_view s k (fun v => v_getitem s v i)
  | VSet k i xs => with_view s k (fun v => v_setitem s v i xs)
  | VDel k i => with_view s k (fun v => v_delitem s v i)
  | VInsert k i x => with_view s k (fun v => v_insert s v i x)
  | VAppend k x => with_view s k (fun _ => v_append s x)
  | VClear k => with_view s k (v_clear s)
  | VExtend k xs => with_view s k (fun _ => v_extend s xs)
  | VPop k i => with_view s k (fun v => v_pop s v i)
  | VRemove k x => with_view s k (fun v => v_remove s v x)
  | VDiscard k x => with_view s k (fun v => v_discard s v x)
  | MGet k raw key => with_view s k (fun v => m_getitem raw s v key)
  | MContains k key => with_view s k (fun v => m_contains s v key)
  | MDel k key => with_view s k (fun v => m_delitem s v key)
  | MSet k raw key x => with_view s k (fun v => m_setitem raw s v key x)
  | MPop k raw key d => with_view s k (fun v => m_pop raw s v key d)
  | MKeys k => with_view s k (m_keys s)
  | MValues k raw => with_view s k (m_values raw s)
  | MItems k raw => with_view s k (m_items raw s)
  | MPopItem k raw => with_view s k (m_popitem raw s)
  | RReverse => raw_reverse s
  | VReverse k => with_view s k (v_reverse s)
  | RIAdd xs => raw_iadd s xs
  | VIAdd k xs => with_view s k (fun _ => v_iadd s xs)
  | MDict k which raw q => with_view s k (m_dict which raw q s)
  end.

(* a history: the state after every operation (exceptions do not stop a history) *)
Fixpoint run (s : st) (ops : list op) : st :=
  match ops with
  | [] => s
  | o :: r => run (fst (step s o)) r
  end.
End Fx.
