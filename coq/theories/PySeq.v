(* Python sequence semantics used by the repeated-field wrappers (model of CPython 3.12, validated
   exhaustively for small lengths against CPython by harness/c10.py on every run):
   index normalisation, slice.indices, range(n)[index], indexes.range_from_index / slice_from_range,
   list __getitem__/__setitem__/__delitem__ for int / slice / extended slice, insert, pop, bisect_left.
   No proofs here (PySeqProofs.v). *)
From AB Require Import Prelude.

(* ---- int indices ------------------------------------------------------------------------- *)
(* range(n)[i]  (also the position list[i] reads/writes); IndexError when out of range *)
Definition norm_index (n i : Z) : res Z :=
  if (0 <=? i) && (i <? n) then Ok i
  else if (i <? 0) && (0 <=? i + n) then Ok (i + n)
  else Err IndexError.

(* ---- slices ------------------------------------------------------------------------------ *)
Record slc := mkslc { sl_start : option Z; sl_stop : option Z; sl_step : option Z }.

(* slice(start, stop, step).indices(n)  (sliceobject.c: _PySlice_GetLongIndices) *)
Definition slice_indices (n : Z) (s : slc) : res (Z * Z * Z) :=
  let step := match sl_step s with None => 1 | Some k => k end in
  if step =? 0 then Err ValueError else
  let lower := if step <? 0 then -1 else 0 in
  let upper := if step <? 0 then n - 1 else n in
  let start := match sl_start s with
               | None => if step <? 0 then upper else lower
               | Some a => if a <? 0 then Z.max (a + n) lower else Z.min a upper
               end in
  let stop := match sl_stop s with
              | None => if step <? 0 then lower else upper
              | Some b => if b <? 0 then Z.max (b + n) lower else Z.min b upper
              end in
  Ok (start, stop, step).

(* ---- ranges ------------------------------------------------------------------------------ *)
Record rng := mkrng { r_start : Z; r_stop : Z; r_step : Z }.

(* len(range(start, stop, step)), step <> 0 *)
Definition range_len (r : rng) : Z :=
  if 0 <? r_step r then
    (if r_start r <? r_stop r then (r_stop r - r_start r - 1) / r_step r + 1 else 0)
  else
    (if r_stop r <? r_start r then (r_start r - r_stop r - 1) / (- r_step r) + 1 else 0).

(* list(range(start, stop, step)) *)
Definition range_list (r : rng) : list Z :=
  map (fun k => r_start r + Z.of_nat k * r_step r) (seq 0 (Z.to_nat (range_len r))).

(* range(n)[slice]: rangeobject.c compute_slice on range(0, n, 1) *)
Definition range_getslice (n : Z) (s : slc) : res rng :=
  match slice_indices n s with
  | Err e => Err e
  | Ok (a, b, k) => Ok (mkrng a b k)
  end.

Inductive pyidx := IInt (i : Z) | ISlice (s : slc).

(* indexes.range_from_index(index, length) *)
Definition range_from_index (index : pyidx) (length : Z) : res rng :=
  match index with
  | IInt i => match norm_index length i with
              | Err _ => Err IndexError
              | Ok j => Ok (mkrng j (j + 1) 1)
              end
  | ISlice s => range_getslice length s
  end.

(* indexes.slice_from_range(r): stop == -1 becomes None *)
Definition slice_from_range (r : rng) : slc :=
  mkslc (Some (r_start r)) (if r_stop r =? -1 then None else Some (r_stop r)) (Some (r_step r)).

(* ---- lists ------------------------------------------------------------------------------- *)
Section Lists.
Context {A : Type}.

(* l[i] *)
Definition list_get_int (l : list A) (i : Z) : res A :=
  match norm_index (zlen l) i with
  | Err e => Err e
  | Ok j => match nth_error l (Z.to_nat j) with Some x => Ok x | None => Err IndexError end
  end.

(* splice l[a:b] := xs for 0 <= a; b < a behaves as b = a (list_ass_slice) *)
Definition splice (l : list A) (a b : Z) (xs : list A) : list A :=
  zfirstn a l ++ xs ++ zskipn (Z.max a b) l.

(* l[i] = x *)
Definition list_set_int (l : list A) (i : Z) (x : A) : res (list A) :=
  match norm_index (zlen l) i with
  | Err e => Err e
  | Ok j => Ok (splice l j (j + 1) [x])
  end.

(* the elements at the given (already normalised) positions, in that order *)
Definition pick (l : list A) (ps : list Z) : list A :=
  flat_map (fun p => if p <? 0 then [] else match nth_error l (Z.to_nat p) with Some x => [x] | None => [] end) ps.

(* l[slice] *)
Definition list_get_slice (l : list A) (s : slc) : res (list A) :=
  match slice_indices (zlen l) s with
  | Err e => Err e
  | Ok (a, b, k) => Ok (pick l (range_list (mkrng a b k)))
  end.

(* keep the elements whose position is not listed *)
Fixpoint remove_positions_from (i : Z) (ps : list Z) (l : list A) : list A :=
  match l with
  | [] => []
  | x :: r => if existsb (Z.eqb i) ps then remove_positions_from (i + 1) ps r
              else x :: remove_positions_from (i + 1) ps r
  end.
Definition remove_positions (ps : list Z) (l : list A) := remove_positions_from 0 ps l.

(* for p, x in zip(ps, xs): l[p] = x   (positions already valid; an invalid one raises) *)
Fixpoint assign_each (l : list A) (ps : list Z) (xs : list A) : list A * res unit :=
  match ps, xs with
  | p :: ps', x :: xs' =>
      match list_set_int l p x with
      | Err e => (l, Err e)
      | Ok l' => assign_each l' ps' xs'
      end
  | _, _ => (l, Ok tt)
  end.

(* l[slice] = xs *)
Definition list_set_slice (l : list A) (s : slc) (xs : list A) : res (list A) :=
  match slice_indices (zlen l) s with
  | Err e => Err e
  | Ok (a, b, k) =>
      if k =? 1 then Ok (splice l a b xs)
      else if range_len (mkrng a b k) =? zlen xs
           then Ok (fst (assign_each l (range_list (mkrng a b k)) xs))
           else Err ValueError
  end.

(* l[index] = xs the way a view accepts it: an int takes one value; a slice only a sequence of the
   slice's own length (RepeatedValueWrapper.__setitem__ documents this restriction), else ValueError *)
Definition list_setitem_eqlen (l : list A) (index : pyidx) (xs : list A) : res (list A) :=
  match index with
  | IInt i => match xs with [x] => list_set_int l i x | _ => Err TypeError end
  | ISlice s => match range_getslice (zlen l) s with
                | Err e => Err e
                | Ok r => if range_len r =? zlen xs then list_set_slice l s xs else Err ValueError
                end
  end.

(* del l[slice] *)
Definition list_del_slice (l : list A) (s : slc) : res (list A) :=
  match slice_indices (zlen l) s with
  | Err e => Err e
  | Ok (a, b, k) =>
      if k =? 1 then Ok (splice l a b [])
      else Ok (remove_positions (range_list (mkrng a b k)) l)
  end.

(* del l[i] *)
Definition list_del_int (l : list A) (i : Z) : res (list A) :=
  match norm_index (zlen l) i with
  | Err e => Err e
  | Ok j => Ok (splice l j (j + 1) [])
  end.

(* l.remove(x): the first element equal to x; ValueError when there is none *)
Fixpoint list_remove (eqb : A -> A -> bool) (l : list A) (x : A) : res (list A) :=
  match l with
  | [] => Err ValueError
  | y :: r => if eqb y x then Ok r
              else match list_remove eqb r x with Ok r' => Ok (y :: r') | Err e => Err e end
  end.

(* the position list.insert(i, x) inserts at *)
Definition insert_pos (n i : Z) : Z :=
  let i1 := if i <? 0 then i + n else i in
  let i2 := if i1 <? 0 then 0 else i1 in
  if n <? i2 then n else i2.

Definition list_insert (l : list A) (i : Z) (x : A) : list A :=
  let p := insert_pos (zlen l) i in splice l p p [x].

(* l.pop(i) *)
Definition list_pop (l : list A) (i : Z) : res (A * list A) :=
  match list_get_int l i, norm_index (zlen l) i with
  | Ok x, Ok j => Ok (x, splice l j (j + 1) [])
  | Err e, _ => Err e
  | _, Err e => Err e
  end.
End Lists.

(* ---- bisect.bisect_left(a, x): the binary search of Lib/bisect.py -------------------------- *)
Fixpoint bisect_go (fuel : nat) (a : list Z) (x lo hi : Z) : Z :=
  match fuel with
  | O => lo
  | S f =>
      if lo <? hi then
        let mid := (lo + hi) / 2 in
        if nth (Z.to_nat mid) a 0 <? x then bisect_go f a x (mid + 1) hi
        else bisect_go f a x lo mid
      else lo
  end.
Definition bisect_left (a : list Z) (x : Z) : Z := bisect_go (S (length a)) a x 0 (zlen a).
