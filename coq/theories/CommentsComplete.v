(* C14: completeness of the interleaving claimer.
     claimer_claim_covers   claim_interleaving_comments() (no explicit list) claims every unclaimed block comment of
                            its range (CommentsRange.claim_range) and puts it into the returned item list;
     claimer_claim_frame    nothing outside the range (and outside the old entries) gets a flag;
     claimer_claim_total    the only exception the claimer raises is ValueError('... not found'), and then nothing
                            has been written;
     claimer_claim_accepts  claim_interleaving_comments(cs) is accepted when every comment of cs is an unclaimed
                            comment of the range or already an entry;
     file_claim_all_claimed / idempotent_file   the root File; inter_unclaim_claim_full   unclaim then claim. *)
From AB Require Import Prelude Comments CommentsRange CommentsProofs CommentsOwn CommentsRestore.
From Coq Require Import Permutation.

(* ---- where the scans stop (declarative reading of outer_run) ---------------------------------------------- *)

Lemma outer_run_incl : forall w prev limit t, In t (outer_run prev w limit) -> In t w.
Proof.
  induction w as [|t0 w IH]; simpl; intros prev limit t I; [contradiction|].
  destruct (prev =? limit); [contradiction|].
  destruct (skippable t0).
  - destruct I as [I|I]; [left; exact I | right; eapply IH; eauto].
  - destruct (is_comment t0); [|contradiction]. destruct (t_claimed t0); [contradiction|].
    destruct I as [I|I]; [left; exact I | right; eapply IH; eauto].
Qed.

(* the run is a prefix of the walk, made of tokens the scan steps over; it ends at the end of the store, behind
   the limit token, or in front of a token that is neither skippable nor an unclaimed block comment *)
Lemma outer_run_decl : forall w prev limit,
  exists rest, w = outer_run prev w limit ++ rest /\
    forallb passes (outer_run prev w limit) = true /\
    (rest = [] \/ last (prev :: ids (outer_run prev w limit)) 0 = limit \/
     exists s r, rest = s :: r /\ passes s = false).
Proof.
  induction w as [|t0 w IH]; intros prev limit; simpl.
  - exists []. repeat split; auto.
  - destruct (prev =? limit) eqn:EL.
    + exists (t0 :: w). repeat split; auto. right; left. apply Z.eqb_eq; exact EL.
    + destruct (skippable t0) eqn:SK.
      * destruct (IH (t_id t0) limit) as [rest [E [P S]]]. exists rest. split; [simpl; f_equal; exact E|]. split.
        -- simpl. unfold passes at 1. rewrite SK. exact P.
        -- destruct S as [S|[S|S]]; [left; exact S | right; left; exact S | right; right; exact S].
      * destruct (is_comment t0) eqn:C.
        -- destruct (t_claimed t0) eqn:U.
           ++ exists (t0 :: w). repeat split; auto. right; right. exists t0, w. split; auto.
              unfold passes. rewrite SK, C, U. reflexivity.
           ++ destruct (IH (t_id t0) limit) as [rest [E [P S]]]. exists rest. split; [simpl; f_equal; exact E|]. split.
              ** simpl. unfold passes at 1. rewrite SK, C, U. exact P.
              ** destruct S as [S|[S|S]]; [left; exact S | right; left; exact S | right; right; exact S].
        -- exists (t0 :: w). repeat split; auto. right; right. exists t0, w. split; auto.
           unfold passes. rewrite SK, C. reflexivity.
Qed.

Lemma upto_incl : forall e w t, In t (upto e w) -> In t w.
Proof.
  induction w as [|t0 w IH]; simpl; intros t I; [contradiction|].
  destruct (t_id t0 =? e); [contradiction|]. destruct I as [I|I]; [left; exact I | right; auto].
Qed.

Lemma gaps_incl : forall items d w t, In t (gaps d w items) -> In t w \/ In t d.
Proof.
  induction items as [|it rest IH]; simpl; intros d w t I; [contradiction|].
  apply in_app_or in I. destruct I as [I|I]; [left; eapply upto_incl; eauto|].
  right. destruct (IH _ _ _ I) as [J|J]; [eapply after_in; eauto | exact J].
Qed.

Lemma before_in : forall d i t, In t (before d i) -> In t d.
Proof.
  intros d i t I. unfold before in I. destruct (split_at i d) as [[a b]|] eqn:S; [|contradiction].
  apply split_at_spec in S. destruct S as [E _]. subst d. apply in_or_app; left; exact I.
Qed.

Lemma from_incl_in : forall d i t, In t (from_incl d i) -> In t d.
Proof.
  intros d i t I. unfold from_incl in I. destruct (split_at i d) as [[a b]|] eqn:S; [|contradiction].
  apply split_at_spec in S. destruct S as [E _]. subst d. apply in_or_app; right; exact I.
Qed.

Lemma claim_range_in : forall d ph items mf ml t, In t (claim_range d ph items mf ml) -> In t d.
Proof.
  intros d ph items mf ml t I. unfold claim_range in I.
  apply in_app_or in I. destruct I as [I|I].
  - apply in_rev in I. apply outer_run_incl in I. apply in_rev in I. eapply before_in; eauto.
  - apply in_app_or in I. destruct I as [I|I].
    + apply gaps_incl in I. destruct I as [I|I]; [eapply from_incl_in; eauto | exact I].
    + apply outer_run_incl in I. eapply after_in; eauto.
Qed.

(* ---- what each scan collects, whatever the set of comments to claim ------------------------------------------ *)
Lemma cs_mem_discard : forall s x i, cs_mem (cs_discard s x) i = false -> i = x \/ cs_mem s i = false.
Proof.
  intros [S|] x i H; simpl in *; [|discriminate].
  destruct (Z.eq_dec i x) as [E|NE]; [left; exact E|]. right.
  destruct (existsb (Z.eqb i) S) eqn:M; auto. exfalso.
  change (memz i S = true) in M. apply memz_in in M.
  assert (I : In i (filter (fun y => negb (y =? x)) S)) by (apply cs_discard_in; auto).
  apply memz_in in I. unfold memz in I. congruence.
Qed.

Lemma comment_not_skippable : forall t, is_comment t = true -> text_empty t = false -> skippable t = false.
Proof.
  intros t C TE. unfold skippable, is_nl, is_ws. unfold is_comment in C.
  destruct (t_kind t); try discriminate. simpl. exact TE.
Qed.

Lemma find_outer_visits : forall w prev limit s l s',
  find_outer prev w limit s = (l, s') ->
  forall t, In t (outer_run prev w limit) -> is_comment t = true -> text_empty t = false ->
    In (t_id t) l \/ cs_mem s (t_id t) = false.
Proof.
  induction w as [|t0 w IH]; simpl; intros prev limit s l s' H t I C TE; [contradiction|].
  destruct (prev =? limit); [contradiction|].
  fold (skippable t0) in H.
  destruct (skippable t0) eqn:SK.
  - destruct I as [I|I].
    + subst t0. rewrite (comment_not_skippable t C TE) in SK. discriminate.
    + eapply IH; eauto.
  - destruct (is_comment t0) eqn:C0; [|contradiction].
    destruct (t_claimed t0) eqn:U0; [contradiction|].
    destruct (cs_mem s (t_id t0)) eqn:M.
    + destruct (find_outer (t_id t0) w limit (cs_discard s (t_id t0))) as [l0 s0] eqn:E.
      inversion H; subst l s'. destruct I as [I|I].
      * subst t0. left; left; reflexivity.
      * destruct (IH _ _ _ _ _ E t I C TE) as [A|A]; [left; right; exact A|].
        apply cs_mem_discard in A. destruct A as [A|A]; [left; left; symmetry; exact A | right; exact A].
    + destruct I as [I|I]; [subst t0; right; exact M | eapply IH; eauto].
Qed.

Lemma find_outer_mem : forall w prev limit s l s', find_outer prev w limit s = (l, s') ->
  forall x, cs_mem s' x = false -> In x l \/ cs_mem s x = false.
Proof.
  induction w as [|t0 w IH]; simpl; intros prev limit s l s' H x M.
  - inversion H; subst; right; exact M.
  - destruct (prev =? limit); [inversion H; subst; right; exact M|].
    destruct (is_nl t0 || is_ws t0 || text_empty t0); [eapply IH; eauto|].
    destruct (is_comment t0); [|inversion H; subst; right; exact M].
    destruct (t_claimed t0); [inversion H; subst; right; exact M|].
    destruct (cs_mem s (t_id t0)); [|eapply IH; eauto].
    destruct (find_outer (t_id t0) w limit (cs_discard s (t_id t0))) as [l0 s0] eqn:E. inversion H; subst l s'.
    destruct (IH _ _ _ _ _ E x M) as [A|A]; [left; right; exact A|].
    apply cs_mem_discard in A. destruct A as [A|A]; [left; left; symmetry; exact A | right; exact A].
Qed.

Lemma scan_until_visits : forall e w s l s', scan_until e w s = (l, s') ->
  forall t, In t (upto e w) -> is_comment t = true -> t_claimed t = false ->
    In (t_id t) l \/ cs_mem s (t_id t) = false.
Proof.
  induction w as [|t0 w IH]; simpl; intros s l s' H t I C U; [contradiction|].
  destruct (t_id t0 =? e); [contradiction|].
  destruct (is_comment t0 && cs_mem s (t_id t0) && negb (t_claimed t0)) eqn:K.
  - destruct (scan_until e w (cs_discard s (t_id t0))) as [l0 s0] eqn:E. inversion H; subst l s'.
    destruct I as [I|I]; [subst t0; left; left; reflexivity|].
    destruct (IH _ _ _ E t I C U) as [A|A]; [left; right; exact A|].
    apply cs_mem_discard in A. destruct A as [A|A]; [left; left; symmetry; exact A | right; exact A].
  - destruct I as [I|I]; [|eapply IH; eauto].
    subst t0. right. rewrite C, U in K. simpl in K. rewrite andb_true_r in K. exact K.
Qed.

Lemma scan_until_mem : forall e w s l s', scan_until e w s = (l, s') ->
  forall x, cs_mem s' x = false -> In x l \/ cs_mem s x = false.
Proof.
  induction w as [|t0 w IH]; simpl; intros s l s' H x M.
  - inversion H; subst; right; exact M.
  - destruct (t_id t0 =? e); [inversion H; subst; right; exact M|].
    destruct (is_comment t0 && cs_mem s (t_id t0) && negb (t_claimed t0)).
    + destruct (scan_until e w (cs_discard s (t_id t0))) as [l0 s0] eqn:E. inversion H; subst l s'.
      destruct (IH _ _ _ E x M) as [A|A]; [left; right; exact A|].
      apply cs_mem_discard in A. destruct A as [A|A]; [left; left; symmetry; exact A | right; exact A].
    + eapply IH; eauto.
Qed.

Lemma find_inner_visits : forall items d w s l s', find_inner d w items s = (l, s') ->
  (forall t, In t (gaps d w items) -> is_comment t = true -> t_claimed t = false ->
     In (t_id t) (comments_of l) \/ cs_mem s (t_id t) = false) /\
  (forall x, cs_mem s' x = false -> In x (comments_of l) \/ cs_mem s x = false) /\
  (forall x, In x (old_comments items) -> In x (comments_of l)).
Proof.
  induction items as [|it rest IH]; simpl; intros d w s l s' H.
  - inversion H; subst. split; [intros t []|]. split; [intros x M; right; exact M | intros x []].
  - destruct (scan_until (it_first it) w s) as [found s1] eqn:SC.
    destruct (find_inner d (after d (it_last it)) rest (if it_comment it then cs_discard s1 (it_ref it) else s1))
      as [l0 s3] eqn:FI.
    inversion H; subst l s'. destruct (IH _ _ _ _ _ FI) as [V [M O]].
    assert (STEP : forall x, cs_mem (if it_comment it then cs_discard s1 (it_ref it) else s1) x = false ->
                   In x (comments_of (map (fun c : Z => (true, c)) found ++ oitem_of it :: l0)) \/ cs_mem s x = false).
    { intros x A. rewrite comments_of_app, comments_of_true, comments_of_cons.
      assert (B : (x = it_ref it /\ it_comment it = true) \/ cs_mem s1 x = false).
      { destruct (it_comment it); [|right; exact A]. apply cs_mem_discard in A. destruct A; [left; auto | right; auto]. }
      destruct B as [[B1 B2]|B].
      - left. apply in_or_app; right. apply in_or_app; left. rewrite B2. left. symmetry; exact B1.
      - destruct (scan_until_mem _ _ _ _ _ SC _ B) as [A'|A']; [left; apply in_or_app; left; exact A' | right; exact A']. }
    split; [|split].
    + intros t I C U. apply in_app_or in I. destruct I as [I|I].
      * destruct (scan_until_visits _ _ _ _ _ SC t I C U) as [A|A]; [|right; exact A].
        left. rewrite comments_of_app, comments_of_true. apply in_or_app; left; exact A.
      * destruct (V t I C U) as [A|A]; [|apply STEP; exact A].
        left. rewrite comments_of_app, comments_of_true, comments_of_cons.
        apply in_or_app; right. apply in_or_app; right. exact A.
    + intros x A. destruct (M x A) as [B|B]; [|apply STEP; exact B].
      left. rewrite comments_of_app, comments_of_true, comments_of_cons.
      apply in_or_app; right. apply in_or_app; right. exact B.
    + intros x I. unfold old_comments in I. simpl map in I. rewrite comments_of_cons in I.
      rewrite comments_of_app, comments_of_true, comments_of_cons.
      apply in_or_app; right. apply in_app_or in I. destruct I as [I|I]; apply in_or_app; [left; exact I|].
      right. apply O. exact I.
Qed.

(* the three scans of _CommentClaimer.claim together *)
Lemma scans_collect : forall d ph items mf ml flt wb wa cb_rev s1 inner s2 ca s3,
  find_outer ph wb mf flt = (cb_rev, s1) -> find_inner d (from_incl d ph) items s1 = (inner, s2) ->
  find_outer (rep_last ph items) wa ml s2 = (ca, s3) ->
  (forall t, In t (rev (outer_run ph wb mf) ++ gaps d (from_incl d ph) items ++ outer_run (rep_last ph items) wa ml) ->
     is_comment t = true -> t_claimed t = false -> text_empty t = false ->
     In (t_id t) (rev cb_rev ++ comments_of inner ++ ca) \/ cs_mem flt (t_id t) = false) /\
  (forall x, In x (old_comments items) -> In x (rev cb_rev ++ comments_of inner ++ ca)).
Proof.
  intros d ph items mf ml flt wb wa cb_rev s1 inner s2 ca s3 F1 FI F2.
  destruct (find_inner_visits _ _ _ _ _ _ FI) as [V [M O]]. split.
  - intros t I C U TE.
    assert (L1 : forall x, cs_mem s1 x = false -> In x (rev cb_rev ++ comments_of inner ++ ca) \/ cs_mem flt x = false).
    { intros x A. destruct (find_outer_mem _ _ _ _ _ _ F1 x A) as [B|B]; [|right; exact B].
      left. apply in_or_app; left. apply in_rev in B. exact B. }
    assert (L2 : forall x, cs_mem s2 x = false -> In x (rev cb_rev ++ comments_of inner ++ ca) \/ cs_mem flt x = false).
    { intros x A. destruct (M x A) as [B|B]; [|apply L1; exact B].
      left. apply in_or_app; right. apply in_or_app; left. exact B. }
    apply in_app_or in I. destruct I as [I|I]; [|apply in_app_or in I; destruct I as [I|I]].
    + apply in_rev in I. destruct (find_outer_visits _ _ _ _ _ _ F1 t I C TE) as [A|A]; [|right; exact A].
      left. apply in_or_app; left. apply in_rev in A. exact A.
    + destruct (V t I C U) as [A|A]; [|apply L1; exact A].
      left. apply in_or_app; right. apply in_or_app; left. exact A.
    + destruct (find_outer_visits _ _ _ _ _ _ F2 t I C TE) as [A|A]; [|apply L2; exact A].
      left. apply in_or_app; right. apply in_or_app; right. exact A.
  - intros x I. apply in_or_app; right. apply in_or_app; left. apply O. exact I.
Qed.

Lemma walk_before : forall d i w, walk d i true = Some w -> w = rev (before d i).
Proof.
  intros d i w H. unfold walk in H. unfold before. destruct (split_at i d) as [[a [|x b]]|]; try discriminate.
  inversion H; reflexivity.
Qed.

Lemma walk_after : forall d i w, walk d i false = Some w -> w = after d i.
Proof.
  intros d i w H. unfold walk in H. unfold after. destruct (split_at i d) as [[a [|x b]]|]; try discriminate.
  inversion H; reflexivity.
Qed.

Lemma mark_flag : forall cs d t', In t' (mark cs true d) ->
  exists t0, In t0 d /\ t_id t' = t_id t0 /\ t_kind t' = t_kind t0 /\ t_text t' = t_text t0 /\
             (t_claimed t' = true <-> t_claimed t0 = true \/ In (t_id t0) cs).
Proof.
  intros cs d t' I. apply in_mark in I. destruct I as [t0 [I0 E]]. exists t0. split; [exact I0|].
  destruct (memz (t_id t0) cs) eqn:M; subst t'; simpl.
  - apply memz_in in M. repeat split; auto.
  - repeat split; auto. intros [A|A]; [exact A|]. apply memz_in in A. congruence.
Qed.

(* ---- Gap 1: claim_interleaving_comments() claims every block comment of its range ----------------------------- *)
Theorem claimer_claim_covers : forall d ph items mf ml ret its d',
  NoDup (ids d) ->
  claimer_claim d ph items mf ml None = (Ok (ret, its), d') ->
  (forall x, In x (old_comments items) -> In x (comments_of its)) /\
  forall t', In t' d' -> is_comment t' = true -> text_empty t' = false ->
    In (t_id t') (ids (claim_range d ph items mf ml)) ->
    t_claimed t' = true /\
    (forall t, In t d -> t_id t = t_id t' -> t_claimed t = false -> In (t_id t') (comments_of its)).
Proof.
  intros d ph items mf ml ret its d' ND H. unfold claimer_claim in H.
  destruct (walk d ph true) as [wb|] eqn:WB; [|discriminate].
  destruct (walk d (rep_last ph items) false) as [wa|] eqn:WA; [|discriminate].
  destruct (find_outer ph wb mf None) as [cb_rev s1] eqn:F1.
  destruct (find_inner d (from_incl d ph) items s1) as [inner s2] eqn:FI.
  destruct (find_outer (rep_last ph items) wa ml s2) as [ca s3] eqn:F2.
  destruct (cs_nonempty s3); [discriminate|].
  destruct (match rev cb_rev with c0 :: _ => shift_ignored d c0 ph true | [] => Some d end) as [d1|] eqn:S1;
    [|discriminate].
  assert (P1 : Permutation d1 d).
  { destruct (rev cb_rev); [inversion S1; auto | eapply shift_ignored_perm; eauto]. }
  destruct (match rev ca, wa with
            | cl :: _, f :: _ => shift_ignored d1 (t_id f) cl false
            | _ :: _, [] => None
            | [], _ => Some d1 end) as [d2|] eqn:S2; [|discriminate].
  assert (P2 : Permutation d2 d1).
  { destruct (rev ca); [inversion S2; auto|]. destruct wa; [discriminate | eapply shift_ignored_perm; eauto]. }
  inversion H; subst ret its d'. clear H.
  destruct (scans_collect _ _ _ _ _ _ _ _ _ _ _ _ _ _ F1 FI F2) as [COL OLD].
  rewrite !comments_of_app, !comments_of_true.
  split; [exact OLD|].
  intros t' I' C' TE' R. rewrite claim_all_mark in I'. apply mark_flag in I'.
  destruct I' as [t0 [I0 [EI [EK [ET FL]]]]].
  assert (I0d : In t0 d) by (eapply Permutation_in; [exact P1 | eapply Permutation_in; [exact P2 | exact I0]]).
  unfold ids in R. apply in_map_iff in R. destruct R as [t [Et It]].
  assert (Itd : In t d) by (eapply claim_range_in; eauto).
  assert (t = t0) by (apply (nodup_id_inj d); auto; congruence). subst t.
  assert (C0 : is_comment t0 = true) by (unfold is_comment in *; rewrite <- EK; exact C').
  assert (TE0 : text_empty t0 = false) by (unfold text_empty in *; rewrite <- ET; exact TE').
  assert (NEED : t_claimed t0 = false -> In (t_id t0) (rev cb_rev ++ comments_of inner ++ ca)).
  { intros U0. unfold claim_range in It. rewrite <- (walk_before _ _ _ WB), <- (walk_after _ _ _ WA) in It.
    destruct (COL t0 It C0 U0 TE0) as [A|A]; [exact A | discriminate]. }
  split.
  - apply FL. destruct (t_claimed t0) eqn:U0; [left; reflexivity | right; apply NEED; reflexivity].
  - intros t Id Ei U. assert (t = t0) by (apply (nodup_id_inj d); auto; congruence). subst t.
    rewrite EI. apply NEED. exact U.
Qed.

(* ---- nothing outside the range is touched -------------------------------------------------------------------- *)
Lemma find_outer_in_run : forall w prev limit s l s', find_outer prev w limit s = (l, s') ->
  forall x, In x l -> In x (ids (outer_run prev w limit)).
Proof.
  induction w as [|t0 w IH]; simpl; intros prev limit s l s' H x I.
  - inversion H; subst. contradiction.
  - destruct (prev =? limit); [inversion H; subst; contradiction|].
    fold (skippable t0) in H. destruct (skippable t0).
    + simpl. right. eapply IH; eauto.
    + destruct (is_comment t0); [|inversion H; subst; contradiction].
      destruct (t_claimed t0); [inversion H; subst; contradiction|].
      destruct (cs_mem s (t_id t0)).
      * destruct (find_outer (t_id t0) w limit (cs_discard s (t_id t0))) as [l0 s0] eqn:E. inversion H; subst l s'.
        simpl. destruct I as [I|I]; [left; exact I | right; eapply IH; eauto].
      * simpl. right. eapply IH; eauto.
Qed.

Lemma scan_until_in_upto : forall e w s l s', scan_until e w s = (l, s') ->
  forall x, In x l -> In x (ids (upto e w)).
Proof.
  induction w as [|t0 w IH]; simpl; intros s l s' H x I.
  - inversion H; subst. contradiction.
  - destruct (t_id t0 =? e); [inversion H; subst; contradiction|].
    destruct (is_comment t0 && cs_mem s (t_id t0) && negb (t_claimed t0)).
    + destruct (scan_until e w (cs_discard s (t_id t0))) as [l0 s0] eqn:E. inversion H; subst l s'.
      simpl. destruct I as [I|I]; [left; exact I | right; eapply IH; eauto].
    + simpl. right. eapply IH; eauto.
Qed.

Lemma ids_app : forall a b, ids (a ++ b) = ids a ++ ids b.
Proof. intros; unfold ids; apply map_app. Qed.

Lemma find_inner_in_gaps : forall items d w s l s', find_inner d w items s = (l, s') ->
  forall x, In x (comments_of l) -> In x (ids (gaps d w items)) \/ In x (old_comments items).
Proof.
  induction items as [|it rest IH]; simpl; intros d w s l s' H x I.
  - inversion H; subst. contradiction.
  - destruct (scan_until (it_first it) w s) as [found s1] eqn:SC.
    destruct (find_inner d (after d (it_last it)) rest (if it_comment it then cs_discard s1 (it_ref it) else s1))
      as [l0 s3] eqn:FI.
    inversion H; subst l s'. rewrite comments_of_app, comments_of_true, comments_of_cons in I.
    unfold old_comments. simpl map. rewrite comments_of_cons. fold (old_comments rest). rewrite ids_app.
    apply in_app_or in I. destruct I as [I|I].
    + left. apply in_or_app; left. eapply scan_until_in_upto; eauto.
    + apply in_app_or in I. destruct I as [I|I]; [right; apply in_or_app; left; exact I|].
      destruct (IH _ _ _ _ _ FI x I) as [A|A]; [left; apply in_or_app; right; exact A | right; apply in_or_app; right; exact A].
Qed.

Theorem claimer_claim_frame : forall d ph items mf ml flt ret its d',
  claimer_claim d ph items mf ml flt = (Ok (ret, its), d') ->
  (forall x, In x (comments_of its) -> In x (ids (claim_range d ph items mf ml)) \/ In x (old_comments items)) /\
  (forall t', In t' d' -> ~ In (t_id t') (ids (claim_range d ph items mf ml)) ->
              ~ In (t_id t') (old_comments items) -> In t' d).
Proof.
  intros d ph items mf ml flt ret its d' H. unfold claimer_claim in H.
  destruct (walk d ph true) as [wb|] eqn:WB; [|discriminate].
  destruct (walk d (rep_last ph items) false) as [wa|] eqn:WA; [|discriminate].
  destruct (find_outer ph wb mf flt) as [cb_rev s1] eqn:F1.
  destruct (find_inner d (from_incl d ph) items s1) as [inner s2] eqn:FI.
  destruct (find_outer (rep_last ph items) wa ml s2) as [ca s3] eqn:F2.
  destruct (cs_nonempty s3); [discriminate|].
  destruct (match rev cb_rev with c0 :: _ => shift_ignored d c0 ph true | [] => Some d end) as [d1|] eqn:S1;
    [|discriminate].
  assert (P1 : Permutation d1 d).
  { destruct (rev cb_rev); [inversion S1; auto | eapply shift_ignored_perm; eauto]. }
  destruct (match rev ca, wa with
            | cl :: _, f :: _ => shift_ignored d1 (t_id f) cl false
            | _ :: _, [] => None
            | [], _ => Some d1 end) as [d2|] eqn:S2; [|discriminate].
  assert (P2 : Permutation d2 d1).
  { destruct (rev ca); [inversion S2; auto|]. destruct wa; [discriminate | eapply shift_ignored_perm; eauto]. }
  inversion H; subst ret its d'. clear H.
  assert (SUB : forall x, In x (comments_of (map (fun c : Z => (true, c)) (rev cb_rev) ++ inner ++ map (fun c : Z => (true, c)) ca)) ->
                In x (ids (claim_range d ph items mf ml)) \/ In x (old_comments items)).
  { intros x I. rewrite !comments_of_app, !comments_of_true in I. unfold claim_range.
    rewrite <- (walk_before _ _ _ WB), <- (walk_after _ _ _ WA). rewrite !ids_app.
    apply in_app_or in I. destruct I as [I|I]; [|apply in_app_or in I; destruct I as [I|I]].
    - left. apply in_or_app; left. apply in_rev in I. unfold ids. rewrite map_rev. apply in_rev. rewrite rev_involutive.
      eapply find_outer_in_run; eauto.
    - destruct (find_inner_in_gaps _ _ _ _ _ _ FI x I) as [A|A]; [left | right; exact A].
      apply in_or_app; right. apply in_or_app; left. exact A.
    - left. apply in_or_app; right. apply in_or_app; right. eapply find_outer_in_run; eauto. }
  split; [exact SUB|].
  intros t' I' NR NO. rewrite claim_all_mark in I'. apply in_mark in I'. destruct I' as [t0 [I0 E0]].
  destruct (memz (t_id t0) (comments_of (map (fun c : Z => (true, c)) (rev cb_rev) ++ inner ++ map (fun c : Z => (true, c)) ca))) eqn:M.
  - exfalso. apply memz_in in M. assert (EI : t_id t' = t_id t0) by (subst t'; reflexivity).
    rewrite EI in NR, NO. destruct (SUB _ M); contradiction.
  - subst t'. eapply Permutation_in; [exact P1 | eapply Permutation_in; [exact P2 | exact I0]].
Qed.

(* ---- the claimer raises nothing but ValueError ------------------------------------------------------------- *)
Lemma has_tok_split : forall d i, has_tok_b d i = true -> exists a x b, split_at i d = Some (a, x :: b).
Proof.
  unfold has_tok_b. induction d as [|t d IH]; simpl; intros i H; [discriminate|].
  destruct (t_id t =? i) eqn:E.
  - exists [], t, d. reflexivity.
  - simpl in H. destruct (IH i H) as [a [x [b S]]]. rewrite S. exists (t :: a), x, b. reflexivity.
Qed.

Lemma leftover_last : forall items ph w rem, leftover w items = Some rem -> items <> [] ->
  exists a y, w = a ++ y :: rem /\ t_id y = rep_last ph items.
Proof.
  induction items as [|it rest IH]; simpl; intros ph w rem L NE; [contradiction|].
  destruct (split_at (it_first it) w) as [[g ff]|] eqn:S1; [|discriminate].
  destruct (split_at (it_last it) ff) as [[x ya]|] eqn:S2; [|discriminate].
  destruct ya as [|y a]; [discriminate|].
  pose proof (split_at_spec _ _ _ _ S1) as [Hw _].
  pose proof (split_at_spec _ _ _ _ S2) as [Hff [y0 [r0 [E0 I0]]]]. inversion E0; subst y0 r0.
  destruct rest as [|it2 r2].
  - simpl in L. inversion L; subst rem. exists (g ++ x), y. split.
    + rewrite Hw, Hff, <- app_assoc. reflexivity.
    + unfold rep_last. simpl. exact I0.
  - destruct (IH ph a rem L) as [a' [y' [Ha Ey]]]; [discriminate|].
    exists (g ++ x ++ y :: a'), y'. split.
    + rewrite Hw, Hff, Ha. rewrite <- ?app_assoc. simpl. rewrite <- ?app_assoc. reflexivity.
    + rewrite rep_last_cons by discriminate. exact Ey.
Qed.

Lemma rep_last_pos : forall d ph items pre pht w1,
  NoDup (ids d) -> split_at ph d = Some (pre, pht :: w1) -> items_ordered_b d ph items = true ->
  exists a y wa Y, split_at (rep_last ph items) d = Some (a, y :: wa) /\ w1 = Y ++ wa.
Proof.
  intros d ph items pre pht w1 ND SP ORD.
  pose proof (split_at_spec _ _ _ _ SP) as [Hd _].
  destruct items as [|it0 rest0] eqn:EI.
  - exists pre, pht, w1, []. split; [unfold rep_last; simpl; exact SP | reflexivity].
  - rewrite <- EI in *. assert (NE : items <> []) by (rewrite EI; discriminate).
    unfold items_ordered_b, from_incl in ORD. rewrite SP in ORD.
    destruct (leftover (pht :: w1) items) as [rem|] eqn:L; [|discriminate].
    destruct (leftover_last items ph _ _ L NE) as [a' [y [Ha Ey]]].
    assert (Hd' : d = (pre ++ a') ++ y :: rem) by (rewrite Hd, Ha, <- app_assoc; reflexivity).
    assert (SL : split_at (rep_last ph items) d = Some (pre ++ a', y :: rem)).
    { rewrite <- Ey. rewrite Hd' at 1. apply split_at_unique. eapply nodup_mid. rewrite <- Hd'. exact ND. }
    exists (pre ++ a'), y, rem.
    destruct a' as [|p a''].
    + exists []. split; [exact SL|]. simpl in Ha. inversion Ha. reflexivity.
    + exists (a'' ++ [y]). split; [exact SL|]. simpl in Ha. inversion Ha. rewrite <- app_assoc. reflexivity.
Qed.

Lemma shift_ignored_some : forall a x m1 m2 y b bw,
  NoDup (ids (a ++ (x :: m1) ++ b)) -> x :: m1 = m2 ++ [y] ->
  exists new, shift_ignored (a ++ (x :: m1) ++ b) (t_id x) (t_id y) bw = Some (a ++ new ++ b).
Proof.
  intros a x m1 m2 y b bw ND E.
  assert (S1 : split_at (t_id x) (a ++ (x :: m1) ++ b) = Some (a, (x :: m1) ++ b)).
  { simpl. apply split_at_unique. eapply nodup_mid. simpl in ND. exact ND. }
  assert (S2 : split_at (t_id y) ((x :: m1) ++ b) = Some (m2, y :: b)).
  { rewrite E, <- app_assoc. simpl. apply split_at_unique. apply nodup_tail in ND.
    rewrite E, <- app_assoc in ND. simpl in ND. eapply nodup_mid; exact ND. }
  assert (IR : iter_range (a ++ (x :: m1) ++ b) (t_id x) (t_id y) = Some (m2 ++ [y])).
  { unfold iter_range. rewrite S1. cbv beta iota. rewrite S2. reflexivity. }
  unfold shift_ignored. rewrite IR.
  destruct (filter is_ph (m2 ++ [y])) as [|p0 pr] eqn:F.
  - exists (x :: m1). reflexivity.
  - rewrite <- F. eexists. apply splice_range with (m2 := m2); auto.
Qed.

Theorem claimer_claim_total : forall d ph items mf ml flt,
  NoDup (ids d) -> has_tok_b d ph = true -> items_ordered_b d ph items = true ->
  exists wb wa cb_rev s1 inner s2 ca s3,
    walk d ph true = Some wb /\ walk d (rep_last ph items) false = Some wa /\
    find_outer ph wb mf flt = (cb_rev, s1) /\ find_inner d (from_incl d ph) items s1 = (inner, s2) /\
    find_outer (rep_last ph items) wa ml s2 = (ca, s3) /\
    let its := map (fun c => (true, c)) (rev cb_rev) ++ inner ++ map (fun c => (true, c)) ca in
    if cs_nonempty s3 then claimer_claim d ph items mf ml flt = (Err ValueError, d)
    else exists d2, Permutation d2 d /\
         claimer_claim d ph items mf ml flt = (Ok (comments_of its, its), claim_all (comments_of its) d2).
Proof.
  intros d ph items mf ml flt ND HT ORD.
  destruct (has_tok_split d ph HT) as [pre [pht [w1 SP]]].
  pose proof (split_at_spec _ _ _ _ SP) as [Hd [x0 [r0 [E0 I0]]]]. inversion E0; subst x0 r0. clear E0.
  destruct (rep_last_pos d ph items pre pht w1 ND SP ORD) as [a0 [y0 [wa [Y [SL HY]]]]].
  assert (WB : walk d ph true = Some (rev pre)) by (unfold walk; rewrite SP; reflexivity).
  assert (WA : walk d (rep_last ph items) false = Some wa) by (unfold walk; rewrite SL; reflexivity).
  destruct (find_outer ph (rev pre) mf flt) as [cb_rev s1] eqn:F1.
  destruct (find_inner d (from_incl d ph) items s1) as [inner s2] eqn:FI.
  destruct (find_outer (rep_last ph items) wa ml s2) as [ca s3] eqn:F2.
  exists (rev pre), wa, cb_rev, s1, inner, s2, ca, s3.
  split; [exact WB|]. split; [exact WA|]. split; [exact F1|]. split; [exact FI|]. split; [exact F2|].
  cbv zeta. unfold claimer_claim. rewrite WB, WA. cbv beta iota zeta. rewrite F1. cbv beta iota zeta.
  rewrite FI. cbv beta iota zeta. rewrite F2. cbv beta iota zeta.
  destruct (cs_nonempty s3); [reflexivity|].
  (* the backwards shift succeeds and leaves everything behind the placeholder where it is *)
  assert (SH1 : exists d1 X, (match rev cb_rev with c0 :: _ => shift_ignored d c0 ph true | [] => Some d end) = Some d1
                             /\ d1 = X ++ w1 /\ Permutation d1 d).
  { destruct (rev cb_rev) as [|c0 cb'] eqn:CB.
    - exists d, (pre ++ [pht]). split; [reflexivity|]. split; [rewrite Hd, <- app_assoc; reflexivity | apply Permutation_refl].
    - assert (IN : In c0 cb_rev) by (apply in_rev; rewrite CB; left; reflexivity).
      assert (NDpre : NoDup (ids (rev pre))).
      { unfold ids. rewrite map_rev. apply NoDup_rev. rewrite Hd in ND. unfold ids in ND. rewrite map_app in ND.
        apply nodup_app_l in ND. exact ND. }
      destruct (find_outer_spec _ _ _ _ _ _ F1 NDpre) as [_ Hf]. destruct (Hf c0 IN) as [t [It [Et _]]].
      apply in_rev in It. apply in_split in It. destruct It as [p1 [p2 Hp]].
      assert (E : d = p1 ++ (t :: p2 ++ [pht]) ++ w1).
      { rewrite Hd, Hp. rewrite <- ?app_assoc. simpl. rewrite <- ?app_assoc. reflexivity. }
      destruct (shift_ignored_some p1 t (p2 ++ [pht]) (t :: p2) pht w1 true) as [new SH];
        [rewrite <- E; exact ND | reflexivity|].
      rewrite <- E in SH. rewrite Et, I0 in SH.
      exists (p1 ++ new ++ w1), (p1 ++ new). split; [exact SH|]. split; [rewrite app_assoc; reflexivity|].
      eapply shift_ignored_perm; exact SH. }
  destruct SH1 as [d1 [X [E1 [Ed1 P1]]]]. rewrite E1.
  assert (ND1 : NoDup (ids d1)).
  { unfold ids. eapply Permutation_NoDup; [apply Permutation_sym, Permutation_map; exact P1 | exact ND]. }
  assert (SH2 : exists d2, (match rev ca, wa with
                            | cl :: _, f :: _ => shift_ignored d1 (t_id f) cl false
                            | _ :: _, [] => None
                            | [], _ => Some d1 end) = Some d2 /\ Permutation d2 d1).
  { destruct (rev ca) as [|cl ca'] eqn:CA.
    - exists d1. split; [reflexivity | apply Permutation_refl].
    - assert (IN : In cl ca) by (apply in_rev; rewrite CA; left; reflexivity).
      assert (NDwa : NoDup (ids wa)).
      { apply split_at_spec in SL. destruct SL as [E _]. rewrite E in ND.
        apply nodup_tail in ND. apply nodup_ids_cons in ND. apply ND. }
      destruct (find_outer_spec _ _ _ _ _ _ F2 NDwa) as [_ Hf]. destruct (Hf cl IN) as [t [It [Et _]]].
      apply in_split in It. destruct It as [q1 [q2 Hq]].
      assert (SEG : exists f m1, f :: m1 = q1 ++ [t] /\ wa = (f :: m1) ++ q2).
      { destruct q1 as [|q q1'].
        - exists t, []. split; [reflexivity | exact Hq].
        - exists q, (q1' ++ [t]). split; [reflexivity|]. rewrite Hq. simpl. rewrite <- app_assoc. reflexivity. }
      destruct SEG as [f [m1 [Em Ew]]].
      assert (E : d1 = (X ++ Y) ++ (f :: m1) ++ q2) by (rewrite Ed1, HY, Ew, <- app_assoc; reflexivity).
      destruct (shift_ignored_some (X ++ Y) f m1 q1 t q2 false) as [new SH]; [rewrite <- E; exact ND1 | exact Em|].
      rewrite <- E in SH. rewrite Et in SH. rewrite Ew. simpl app.
      exists ((X ++ Y) ++ new ++ q2). split; [exact SH | eapply shift_ignored_perm; exact SH]. }
  destruct SH2 as [d2 [E2 P2]]. rewrite E2.
  exists d2. split; [eapply Permutation_trans; eauto | reflexivity].
Qed.

(* ---- Gap 2: claim_interleaving_comments(cs) is accepted ----------------------------------------------------- *)
Lemma in_range_b_spec : forall d ph items mf ml c, in_range_b d ph items mf ml c = true ->
  exists t, In t (claim_range d ph items mf ml) /\ t_id t = c /\ is_comment t = true /\ t_claimed t = false /\
            text_empty t = false.
Proof.
  intros d ph items mf ml c H. unfold in_range_b in H. apply existsb_exists in H. destruct H as [t [I X]].
  apply andb_prop in X. destruct X as [X TE]. apply andb_prop in X. destruct X as [X U].
  apply andb_prop in X. destruct X as [E C]. apply Z.eqb_eq in E. apply negb_true_iff in U. apply negb_true_iff in TE.
  exists t. auto.
Qed.

Theorem claimer_claim_accepts : forall d ph items mf ml cs,
  NoDup (ids d) -> has_tok_b d ph = true -> items_ordered_b d ph items = true ->
  claimable_b d ph items mf ml cs = true ->
  exists ret its d', claimer_claim d ph items mf ml (Some cs) = (Ok (ret, its), d').
Proof.
  intros d ph items mf ml cs ND HT ORD CL.
  destruct (claimer_claim_total d ph items mf ml (Some cs) ND HT ORD)
    as [wb [wa [cb_rev [s1 [inner [s2 [ca [s3 [WB [WA [F1 [FI [F2 R]]]]]]]]]]]]].
  cbv zeta in R. destruct (cs_nonempty s3) eqn:NE.
  - exfalso.
    destruct (scans_collect _ _ _ _ _ _ _ _ _ _ _ _ _ _ F1 FI F2) as [COL OLD].
    destruct (find_outer_set _ _ _ _ _ _ F1) as [S1 [E1 [A1 B1]]]. subst s1.
    destruct (find_inner_set _ _ _ _ _ _ FI) as [S2 [E2 [A2 B2]]]. subst s2.
    destruct (find_outer_set _ _ _ _ _ _ F2) as [S3 [E3 [A3 B3]]]. subst s3.
    destruct S3 as [|z S3]; [discriminate|].
    assert (Z3 : In z (z :: S3)) by (left; reflexivity).
    apply A3 in Z3. destruct Z3 as [Z2 N3]. apply A2 in Z2. destruct Z2 as [Z1 N2]. apply A1 in Z1. destruct Z1 as [Z0 N1].
    assert (NOT : ~ In z (rev cb_rev ++ comments_of inner ++ ca)).
    { intro I. apply in_app_or in I. destruct I as [I|I]; [apply N1; apply in_rev; exact I|].
      apply in_app_or in I. destruct I as [I|I]; contradiction. }
    unfold claimable_b in CL. rewrite forallb_forall in CL. specialize (CL z Z0).
    apply orb_prop in CL. destruct CL as [CL|CL].
    + destruct (in_range_b_spec _ _ _ _ _ _ CL) as [t [It [Et [C [U TE]]]]].
      unfold claim_range in It. rewrite <- (walk_before _ _ _ WB), <- (walk_after _ _ _ WA) in It.
      destruct (COL t It C U TE) as [A|A].
      * apply NOT. rewrite <- Et. exact A.
      * rewrite Et in A. simpl in A. change (memz z cs = false) in A. apply memz_in in Z0. congruence.
    + change (memz z (old_comments items) = true) in CL. apply memz_in in CL. apply NOT. apply OLD. exact CL.
  - destruct R as [d2 [_ R]]. eauto.
Qed.

(* conversely: an accepted claim found every comment of cs in the range or among the entries *)
Theorem claimer_claim_accepted_only : forall d ph items mf ml cs ret its d',
  claimer_claim d ph items mf ml (Some cs) = (Ok (ret, its), d') ->
  forall c, In c cs -> In c (ids (claim_range d ph items mf ml)) \/ In c (old_comments items).
Proof.
  intros d ph items mf ml cs ret its d' H c I.
  destruct (claimer_set _ _ _ _ _ _ _ _ _ H) as [S1 _].
  destruct (claimer_claim_frame _ _ _ _ _ _ _ _ _ H) as [SUB _]. apply SUB. apply S1. exact I.
Qed.

Theorem inter_unclaim_claim_accepted : forall d items flt un kept d1 ph items2 mf ml,
  NoDup (ids d) -> unclaim_inter d items flt = (Ok (un, kept), d1) ->
  has_tok_b d1 ph = true -> items_ordered_b d1 ph items2 = true ->
  claimable_b d1 ph items2 mf ml un = true ->
  exists ret its d2, claimer_claim d1 ph items2 mf ml (Some un) = (Ok (ret, its), d2).
Proof.
  intros d items flt un kept d1 ph items2 mf ml ND HU HT ORD CL.
  apply claimer_claim_accepts; auto.
  eapply same_vis_nodup; [eapply unclaim_inter_same_vis; exact HU | exact ND].
Qed.

Theorem inter_unclaim_claim_full : forall d tb r items flt un kept d1 ph items2 mf ml,
  Inv (d, tb) -> refs_ok_b d items = true -> old_comments items = tget tb (SRep r) ->
  unclaim_inter d items flt = (Ok (un, kept), d1) ->
  map oitem_of items2 = kept -> items_ordered_b d1 ph items2 = true ->
  has_tok_b d1 ph = true -> claimable_b d1 ph items2 mf ml un = true ->
  exists ret its d2, claimer_claim d1 ph items2 mf ml (Some un) = (Ok (ret, its), d2) /\
    (forall c, count_z c (comments_of its) = count_z c (old_comments items)) /\ Permutation d2 d.
Proof.
  intros d tb r items flt un kept d1 ph items2 mf ml HI R EQ HU K ORD HT CL.
  destruct (inter_unclaim_claim_accepted d items flt un kept d1 ph items2 mf ml (proj1 HI) HU HT ORD CL)
    as [ret [its [d2 HC]]].
  exists ret, its, d2. split; [exact HC|].
  exact (inter_unclaim_claim d tb r items flt un kept d1 ph items2 mf ml ret its d2 HI R EQ HU K ORD HC).
Qed.

(* without the position hypothesis the claim can be refused: an Open without indented body whose meta field got a
   comment entry by append (no DedentMark behind it): after the un-claim the model's last token is the field's own
   placeholder = the scan limit, so `_find_outer` does not take a single step *)
Definition cx_doc : doc :=
  [mktok 1 KPlaceholder [] false; mktok 2 KOther [50; 48; 48] false; mktok 3 KWhitespace [32] false;
   mktok 4 KOther [111; 112; 101] false; mktok 5 KWhitespace [32] false; mktok 6 KOther [65; 115; 115] false;
   mktok 7 KPlaceholder [] false; mktok 8 KEol [] false;
   mktok 9 KPlaceholder [] false; mktok 10 KNewline [10] false; mktok 11 KBlockComment [32; 32; 59] true;
   mktok 12 KNewline [10] false].

Theorem inter_unclaim_claim_unconditional_refuted :
  exists d tb r items flt un kept d1 ph items2 mf ml,
    Inv (d, tb) /\ refs_ok_b d items = true /\ old_comments items = tget tb (SRep r) /\
    items_ordered_b d ph items = true /\
    unclaim_inter d items flt = (Ok (un, kept), d1) /\ map oitem_of items2 = kept /\
    items_ordered_b d1 ph items2 = true /\ has_tok_b d1 ph = true /\
    claimer_claim d1 ph items2 mf ml (Some un) = (Err ValueError, d1) /\
    claimable_b d1 ph items2 mf ml un = false.
Proof.
  exists cx_doc, [(SRep 5, [11])], 5, [mkitem true 11 11 11], (Some [11]), [11], [],
         (unclaim_all [11] cx_doc), 9, [], 2, 9.
  split; [apply inv_b_ok; vm_compute; reflexivity|]. repeat split; vm_compute; reflexivity.
Qed.

(* ---- the root File ---------------------------------------------------------------------------------------------- *)
Lemma find_outer_None_s : forall w prev limit l s', find_outer prev w limit None = (l, s') -> s' = None.
Proof.
  induction w as [|t w IH]; simpl; intros prev limit l s' H; [inversion H; auto|].
  destruct (prev =? limit); [inversion H; auto|].
  destruct (is_nl t || is_ws t || text_empty t); [eapply IH; eauto|].
  destruct (is_comment t); [|inversion H; auto]. destruct (t_claimed t); [inversion H; auto|].
  destruct (find_outer (t_id t) w limit None) as [l0 s0] eqn:E. inversion H; subst. eapply IH; eauto.
Qed.

Theorem file_claim_all_claimed : forall d tb r ph items mf ml,
  Inv (d, tb) -> items_ordered_b d ph items = true -> file_cover_b d ph items mf ml = true ->
  all_claimed (fst (cstep (d, tb) (OClaimInter r ph items mf ml None))).
Proof.
  intros d tb r ph items mf ml [ND _] ORD FC. simpl in ND.
  unfold file_cover_b in FC. apply andb_prop in FC. destruct FC as [HT FC].
  destruct (claimer_claim_total d ph items mf ml None ND HT ORD)
    as [wb [wa [cb_rev [s1 [inner [s2 [ca [s3 [WB [WA [F1 [FI [F2 R]]]]]]]]]]]]].
  pose proof (find_outer_None_s _ _ _ _ _ F1) as E1. subst s1.
  pose proof (find_inner_None_s _ _ _ _ _ FI) as E2. subst s2.
  pose proof (find_outer_None_s _ _ _ _ _ F2) as E3. subst s3.
  cbv zeta in R. simpl cs_nonempty in R. cbv iota in R. destruct R as [d2 [P R]].
  cbn [cstep fst snd]. rewrite R. cbn [fst].
  destruct (claimer_claim_covers _ _ _ _ _ _ _ _ ND R) as [_ COV].
  intros t' I' C'.
  pose proof I' as I''. rewrite claim_all_mark in I''. apply mark_flag in I''.
  destruct I'' as [t0 [I0 [EI [EK [ET FL]]]]].
  assert (I0d : In t0 d) by (eapply Permutation_in; eauto).
  destruct (t_claimed t0) eqn:U0; [apply FL; left; reflexivity|].
  rewrite forallb_forall in FC. specialize (FC t0 I0d).
  assert (C0 : is_comment t0 = true) by (unfold is_comment in *; rewrite <- EK; exact C').
  rewrite C0, U0 in FC. simpl in FC.
  destruct (in_range_b_spec _ _ _ _ _ _ FC) as [t [It [Et [_ [_ TE]]]]].
  assert (t = t0) by (apply (nodup_id_inj d); auto; eapply claim_range_in; eauto). subst t.
  apply (COV t' I' C').
  - unfold text_empty in *. rewrite ET. exact TE.
  - rewrite EI. unfold ids. apply in_map. exact It.
Qed.

(* File.auto_claim_comments() = ops1 (the children, last to first) then the File's own claim_interleaving_comments();
   a second run (ops2) changes nothing - no hypothesis that everything is claimed already *)
Theorem idempotent_file : forall ops1 st r ph items mf ml ops2,
  Inv st -> hist_ok (ops1 ++ [OClaimInter r ph items mf ml None]) st = true ->
  file_cover_b (fst (fold_left cstep ops1 st)) ph items mf ml = true ->
  let st2 := fold_left cstep (ops1 ++ [OClaimInter r ph items mf ml None]) st in
  all_claimed (fst st2) /\
  (hist_auto_ok ops2 st2 = true ->
   fst (fold_left cstep ops2 st2) = fst st2 /\ teq (snd (fold_left cstep ops2 st2)) (snd st2)).
Proof.
  intros ops1 st r ph items mf ml ops2 HI OK FC st2.
  assert (I2 : Inv st2) by (apply chistory_inv; auto).
  assert (SPLIT : forall ops st0, hist_ok (ops ++ [OClaimInter r ph items mf ml None]) st0 = true ->
                  hist_ok ops st0 = true /\ op_ok (fold_left cstep ops st0) (OClaimInter r ph items mf ml None) = true).
  { induction ops as [|o ops IH]; intros st0 H.
    - simpl in H. rewrite andb_true_r in H. split; [reflexivity | exact H].
    - simpl in H. apply andb_prop in H. destruct H as [H1 H2]. destruct (IH _ H2) as [A B].
      split; [simpl; rewrite H1, A; reflexivity | exact B]. }
  destruct (SPLIT ops1 st OK) as [OK1 OKc].
  assert (I1 : Inv (fold_left cstep ops1 st)) by (apply chistory_inv; auto).
  assert (A2 : all_claimed (fst st2)).
  { unfold st2. rewrite fold_left_app. simpl fold_left.
    destruct (fold_left cstep ops1 st) as [d1 tb1] eqn:E1.
    simpl in OKc. apply andb_prop in OKc. destruct OKc as [_ ORD].
    apply file_claim_all_claimed; auto. }
  split; [exact A2|]. intros AU. apply auto_history_noop; auto.
Qed.
