(* The public mutators (splice, insert_after, insert_before, replace, remove) in terms of positions
   in the abstract list. *)
From AB Require Export StoreSpliceMain.
From Coq Require Import ZifyBool.

Definition ref_pos (l : list positive) (ref : option positive) (p : nat) : Prop :=
  match ref with None => p = 0%nat | Some r => nth_error l p = Some r end.

Definition end_pos (l : list positive) (del_end : option positive) (p q : nat) : Prop :=
  match del_end with None => q = p | Some d => (p < q)%nat /\ nth_error l (q - 1) = Some d end.

(* inserted tokens are listed once and are free (no store_handle), or lie inside the removed range *)
Definition valid_tokens (s : store) (tokens : list positive) (p q : nat) : Prop :=
  NoDup tokens /\ forall t, In t tokens -> free s t \/ In t (firstn (q - p) (skipn p (abs s))).

(* no token of another store around (handles are None or name this store) *)
Definition pure (s : store) : Prop := forall t, ~ foreign s t.

Lemma pure_free s t : Inv s -> pure s -> ~ In t (abs s) -> free s t.
Proof.
  intros [I _] Hp Hn. destruct (hnd s t) as [[b j]|] eqn:E.
  - exfalso. apply Hn. apply (g_hin _ _ I). rewrite E. discriminate.
  - destruct (hnd_none_cases s t E) as [?|Hf]; [assumption|]. exfalso. exact (Hp t Hf).
Qed.

(* what every mutator leaves alone: the identity of the store, the handle of every token that is neither
   in the store nor inserted (in particular: tokens of other stores), and removed tokens end up detached *)
Definition frames (s s' : store) (tokens : list positive) (p q : nat) : Prop :=
  s_id s' = s_id s /\
  (forall t, ~ In t (abs s) -> ~ In t tokens -> raw s' t = raw s t) /\
  (forall t, In t (firstn (q - p) (skipn p (abs s))) -> ~ In t tokens -> raw s' t = None).

Lemma frames_pure s s' tokens p q : Inv s -> Inv s' -> (p <= q)%nat ->
  abs s' = firstn p (abs s) ++ tokens ++ skipn q (abs s) -> frames s s' tokens p q -> pure s -> pure s'.
Proof.
  intros [I _] [I' _] Lpq Ea (Eid & F1 & F2) Hp t Hf.
  pose proof (foreign_hnd s' t Hf) as Hn.
  assert (~ In t (abs s')) as Hna.
  { intro Hin. apply In_nth_error in Hin as [k Hk]. destruct (locate_inv s' k t I' Hk) as (_ & b & j & _ & _ & _ & Hh & _). congruence. }
  assert (~ In t tokens) as Hnt by (intro; apply Hna; rewrite Ea; apply in_or_app; right; apply in_or_app; auto).
  destruct Hf as (sid & b & j & Er & Ns).
  destruct (in_dec Pos.eq_dec t (abs s)) as [Hin|Hin].
  - destruct (in_dec Pos.eq_dec t (firstn (q - p) (skipn p (abs s)))) as [Hr|Hr]; [rewrite (F2 t Hr Hnt) in Er; discriminate|].
    apply Hna. rewrite Ea. rewrite (three_split (abs s) p q Lpq) in Hin.
    apply in_app_or in Hin as [?|Hin]; [apply in_or_app; auto|].
    apply in_app_or in Hin as [?|?]; [contradiction|apply in_or_app; right; apply in_or_app; auto].
  - apply (Hp t). exists sid, b, j. rewrite <- (F1 t Hin Hnt), <- Eid. auto.
Qed.

Definition list_splice (l tokens : list positive) (p q : nat) : list positive :=
  firstn p l ++ tokens ++ skipn q l.

Lemma first_block s : Inv0 s -> exists b0, nth_error (s_blocks s) 0 = Some b0.
Proof. intro I. destruct (s_blocks s) as [|b0 r] eqn:E; [exfalso; apply (g_ne _ _ I); assumption|]. exists b0. reflexivity. Qed.

Lemma order_of_lt (f : positive -> list positive) l si bs sj ei be ej :
  nth_error l si = Some bs -> nth_error l ei = Some be -> (sj <= length (f bs))%nat -> (ej <= length (f be))%nat ->
  (length (flat_map f (firstn si l)) + sj < length (flat_map f (firstn ei l)) + ej)%nat ->
  (si < ei \/ (si = ei /\ sj <= ej))%nat.
Proof.
  intros Hbs Hbe Lsj Lej H. destruct (Nat.lt_trichotomy si ei) as [?|[->|G]]; [auto|right; split; [reflexivity|lia]|]. exfalso.
  pose proof (flat_firstn_mono f l (S ei) si G) as M. rewrite (flat_firstn_S f _ ei be Hbe), app_length in M. lia.
Qed.

Lemma end_not_before_start (si sj i j : nat) : (si < i \/ (si = i /\ sj <= j))%nat ->
  pair_lt (Z.of_nat i, Z.of_nat j) (Z.of_nat si, Z.of_nat sj) = false.
Proof.
  intro H. unfold pair_lt. cbn [fst snd]. apply Bool.orb_false_iff. split.
  - apply Z.ltb_ge. lia.
  - destruct (Z.eqb_spec (Z.of_nat i) (Z.of_nat si)) as [E|E]; [|reflexivity]. cbn [andb]. apply Z.ltb_ge. lia.
Qed.

Theorem splice_spec LF s tokens ref del_end p q s' r :
  1 <= LF -> Inv s -> ref_pos (abs s) ref p -> end_pos (abs s) del_end p q ->
  valid_tokens s tokens p q ->
  splice LF s tokens ref del_end = (s', r) ->
  r = Ok tt /\ Inv s' /\ abs s' = list_splice (abs s) tokens p q /\ (forall t, txt s' t = txt s t) /\
  frames s s' tokens p q.
Proof.
  intros HLF II Hp Hq [NDt Hv] H. pose proof II as [I L].
  (* start *)
  assert (exists si bs sj, nth_error (s_blocks s) si = Some bs /\ (sj <= length (toks s bs))%nat /\
            p = (length (flat_map (toks s) (firstn si (s_blocks s))) + sj)%nat /\
            match ref with
            | None => Ok (0, 0)
            | Some r0 => match check_handle s r0 with
                         | Ok (hb, hi) => Ok (b_index (bget (s_heap s) hb), hi)
                         | Err e => Err e end
            end = Ok (Z.of_nat si, Z.of_nat sj)) as (si & bs & sj & Hbs & Lsj & Ep & Est).
  { destruct ref as [r0|]; cbn in Hp.
    - destruct (locate_inv s p r0 I Hp) as (i & b & j & Hb & Ht & Ek & Hh & Hi).
      exists i, b, j. split; [exact Hb|]. split; [apply nth_error_in_len in Ht; lia|]. split; [exact Ek|].
      rewrite check_handle_hnd, Hh. fold (bidx s b). rewrite Hi. reflexivity.
    - destruct (first_block s I) as [b0 Hb0]. exists 0%nat, b0, 0%nat.
      split; [exact Hb0|]. split; [lia|]. split; [subst p; reflexivity|reflexivity]. }
  unfold splice in H. rewrite Est in H.
  (* end *)
  assert (exists ei be ej, nth_error (s_blocks s) ei = Some be /\ (ej <= length (toks s be))%nat /\
            q = (length (flat_map (toks s) (firstn ei (s_blocks s))) + ej)%nat /\
            (si < ei \/ (si = ei /\ sj <= ej))%nat /\
            match del_end with
            | None => Ok (Z.of_nat si, Z.of_nat sj)
            | Some d => match check_handle s d with
                        | Ok (hb, hi) =>
                          if pair_lt (b_index (bget (s_heap s) hb), hi) (Z.of_nat si, Z.of_nat sj) then Err ValueError
                          else Ok (b_index (bget (s_heap s) hb), hi + 1)
                        | Err e => Err e end
            end = Ok (Z.of_nat ei, Z.of_nat ej)) as (ei & be & ej & Hbe & Lej & Eq & Hord & Een).
  { destruct del_end as [d|]; cbn in Hq.
    - destruct Hq as [Lpq Hd]. destruct (locate_inv s (q - 1) d I Hd) as (i & b & j & Hb & Ht & Ek & Hh & Hi).
      pose proof (nth_error_in_len _ _ _ Ht) as Lj.
      assert (si < i \/ (si = i /\ sj <= S j))%nat as Hord.
      { apply (order_of_lt (toks s) (s_blocks s) si bs sj i b (S j)); auto. lia. }
      exists i, b, (S j). split; [exact Hb|]. split; [lia|]. split; [lia|]. split; [exact Hord|].
      rewrite check_handle_hnd, Hh. fold (bidx s b). rewrite Hi.
      (* del_end does not come before ref: the early refusal of splice() does not fire *)
      assert (pair_lt (Z.of_nat i, Z.of_nat j) (Z.of_nat si, Z.of_nat sj) = false) as ->.
      { apply end_not_before_start. destruct Hord as [G|[G1 G2]]; [left; exact G|right; split; [exact G1|]]. subst i. lia. }
      do 2 f_equal. lia.
    - exists si, bs, sj. split; [exact Hbs|]. split; [exact Lsj|]. split; [lia|]. split; [right; lia|reflexivity]. }
  rewrite Een in H.
  unfold list_splice. rewrite Ep, Eq. apply (splice__spec LF s tokens si sj ei ej bs be s' r HLF II Hbs Hbe Lsj Lej Hord NDt); [|exact H].
  cbv zeta. rewrite <- Ep, <- Eq. exact Hv.
Qed.

Theorem insert_before_spec LF s tokens ref p s' r :
  1 <= LF -> Inv s -> ref_pos (abs s) ref p -> NoDup tokens -> (forall t, In t tokens -> free s t) ->
  insert_before LF s ref tokens = (s', r) ->
  r = Ok tt /\ Inv s' /\ abs s' = list_splice (abs s) tokens p p /\ (forall t, txt s' t = txt s t) /\
  frames s s' tokens p p.
Proof.
  intros HLF II Hp NDt Hf H. apply (splice_spec LF s tokens ref None p p s' r HLF II Hp); [reflexivity| |exact H].
  split; [assumption|]. intros t Ht. left. apply Hf; assumption.
Qed.

Theorem insert_after_spec LF s tokens ref p s' r :
  1 <= LF -> Inv s ->
  match ref with None => p = 0%nat | Some r0 => (1 <= p)%nat /\ nth_error (abs s) (p - 1) = Some r0 end ->
  NoDup tokens -> (forall t, In t tokens -> free s t) ->
  insert_after LF s ref tokens = (s', r) ->
  r = Ok tt /\ Inv s' /\ abs s' = list_splice (abs s) tokens p p /\ (forall t, txt s' t = txt s t) /\
  frames s s' tokens p p.
Proof.
  intros HLF II Hp NDt Hf H. pose proof II as [I L]. unfold insert_after in H.
  assert (exists si bs sj, nth_error (s_blocks s) si = Some bs /\ (sj <= length (toks s bs))%nat /\
            p = (length (flat_map (toks s) (firstn si (s_blocks s))) + sj)%nat /\
            splice_ LF s tokens (Z.of_nat si, Z.of_nat sj) (Z.of_nat si, Z.of_nat sj) = (s', r))
    as (si & bs & sj & Hbs & Lsj & Ep & H').
  { destruct ref as [r0|].
    - destruct Hp as [L1 Hr]. destruct (locate_inv s (p - 1) r0 I Hr) as (i & b & j & Hb & Ht & Ek & Hh & Hi).
      pose proof (nth_error_in_len _ _ _ Ht) as Lj.
      exists i, b, (S j). split; [exact Hb|]. split; [lia|]. split; [lia|].
      rewrite check_handle_hnd, Hh in H. fold (bidx s b) in H. rewrite Hi in H.
      replace (Z.of_nat j + 1) with (Z.of_nat (S j)) in H by lia. exact H.
    - destruct (first_block s I) as [b0 Hb0]. exists 0%nat, b0, 0%nat.
      split; [exact Hb0|]. split; [lia|]. split; [subst p; reflexivity|exact H]. }
  unfold list_splice, frames. rewrite Ep.
  apply (splice__spec LF s tokens si sj si sj bs bs s' r HLF II Hbs Hbs Lsj Lsj); [right; lia|exact NDt| |exact H'].
  intros t Ht. left. apply Hf; assumption.
Qed.

Theorem replace_spec LF s t r0 k s' r :
  1 <= LF -> Inv s -> nth_error (abs s) k = Some t -> (r0 = t \/ free s r0) ->
  replace LF s t r0 = (s', r) ->
  r = Ok tt /\ Inv s' /\ abs s' = list_splice (abs s) [r0] k (S k) /\ (forall u, txt s' u = txt s u) /\
  frames s s' [r0] k (S k).
Proof.
  intros HLF II Hk Hr H. apply (splice_spec LF s [r0] (Some t) (Some t) k (S k) s' r HLF II); [exact Hk| | |exact H].
  - split; [lia|]. replace (S k - 1)%nat with k by lia. exact Hk.
  - split; [repeat constructor; intros []|]. intros u [<-|[]]. destruct Hr as [->|Hn]; [right|left; assumption].
    replace (S k - k)%nat with 1%nat by lia.
    pose proof (nth_error_skipn_add (abs s) k 0) as E. rewrite Nat.add_0_r, Hk in E.
    destruct (skipn k (abs s)) as [|x rest]; [discriminate|]. cbn in E. injection E as ->. left. reflexivity.
Qed.

Theorem remove_spec LF s a b ka kb s' r :
  1 <= LF -> Inv s -> nth_error (abs s) ka = Some a ->
  match b with None => kb = ka | Some b0 => (ka <= kb)%nat /\ nth_error (abs s) kb = Some b0 end ->
  remove LF s a b = (s', r) ->
  r = Ok tt /\ Inv s' /\ abs s' = list_splice (abs s) [] ka (S kb) /\ (forall u, txt s' u = txt s u) /\
  frames s s' [] ka (S kb).
Proof.
  intros HLF II Ha Hb H. unfold remove in H.
  apply (splice_spec LF s [] (Some a) (Some (match b with Some x => x | None => a end)) ka (S kb) s' r HLF II);
    [exact Ha| |split; [constructor|intros ? []]|exact H].
  cbn. replace (kb - 0)%nat with kb by lia. destruct b as [b0|]; [destruct Hb; split; [lia|assumption]|subst kb; split; [lia|assumption]].
Qed.
