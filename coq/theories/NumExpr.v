(* C13 model: number expressions (models/number_expr.py, number_add_expr.py, number_mul_expr.py,
   number_unary_expr.py, number_paren_expr.py, number_atom_expr.py; grammar rules number_expr,
   number_add_expr, number_mul_expr, number_atom_expr, number_paren_expr, number_unary_expr).

   No proofs here.  The arithmetic carrier D and its operations are Section variables: they are
   interpreted by Python's `decimal` (trusted); no algebraic law is assumed anywhere.

   Trees.  The source keeps `operands : tuple` and `ops : tuple` with len(operands) = len(ops)+1
   and folds them from the left; the model keeps the same data as a left-nested ("snoc") list:
       AOp (AOp (AMul m0) _ o1 _ m1) _ o2 _ m2     <->   operands=(m0,m1,m2) ops=(o1,o2)
   (`add_operands`/`add_ops` give the tuples back; NumExprProofs.value_add_is_fold shows `vadd` is the
   source's loop).  Every gap between two significant tokens carries its whitespace text (`g`). *)
From AB Require Import Prelude.

(* ---------------------------------------------------------------------------------------- *)
(* tokens of a store, and lexemes of a text (the text cannot tell UNARY_OP from ADD_OP)        *)
Inductive tok :=
| TNum (s : str) | TWs (s : str) | TUn (minus : bool) | TAddOp (minus : bool) | TMulOp (div : bool)
| TLp | TRp.

Inductive lexeme := LNum (s : str) | LSign (minus : bool) | LStar (div : bool) | LLp | LRp.

Definition CH_PLUS : Z := 43.  Definition CH_MINUS : Z := 45.  Definition CH_STAR : Z := 42.
Definition CH_SLASH : Z := 47. Definition CH_LP : Z := 40.     Definition CH_RP : Z := 41.
Definition CH_SP : Z := 32.

Definition sign_text (minus : bool) : str := [if minus then CH_MINUS else CH_PLUS].
Definition star_text (div : bool) : str := [if div then CH_SLASH else CH_STAR].

Definition tok_text (t : tok) : str :=
  match t with
  | TNum s => s | TWs s => s | TUn b => sign_text b | TAddOp b => sign_text b
  | TMulOp d => star_text d | TLp => [CH_LP] | TRp => [CH_RP]
  end.
Fixpoint text (l : list tok) : str := match l with [] => [] | t :: r => tok_text t ++ text r end.

Fixpoint significant (l : list tok) : list lexeme :=
  match l with
  | [] => []
  | TWs _ :: r => significant r
  | TNum s :: r => LNum s :: significant r
  | TUn b :: r => LSign b :: significant r
  | TAddOp b :: r => LSign b :: significant r
  | TMulOp d :: r => LStar d :: significant r
  | TLp :: r => LLp :: significant r
  | TRp :: r => LRp :: significant r
  end.

(* ---------------------------------------------------------------------------------------- *)
(* trees: atom ::= NUMBER | "(" add ")" | UNARY_OP atom ; mul ::= atom (MUL_OP atom)* ;
          add ::= mul (ADD_OP mul)*                                                         *)
Inductive atom :=
| Num (s : str)
| Paren (g1 : str) (e : add) (g2 : str)
| Unary (minus : bool) (g : str) (a : atom)
with mul :=
| MAtom (a : atom)
| MOp (m : mul) (g1 : str) (div : bool) (g2 : str) (a : atom)
with add :=
| AMul (m : mul)
| AOp (e : add) (g1 : str) (minus : bool) (g2 : str) (m : mul).

Definition ws (g : str) : list tok := match g with [] => [] | _ => [TWs g] end.

(* the tokens first_token .. last_token of a node, in store order *)
Fixpoint ra (a : atom) : list tok :=
  match a with
  | Num s => [TNum s]
  | Paren g1 e g2 => TLp :: ws g1 ++ re e ++ ws g2 ++ [TRp]
  | Unary b g a' => TUn b :: ws g ++ ra a'
  end
with rm (m : mul) : list tok :=
  match m with
  | MAtom a => ra a
  | MOp m' g1 d g2 a => rm m' ++ ws g1 ++ [TMulOp d] ++ ws g2 ++ ra a
  end
with re (e : add) : list tok :=
  match e with
  | AMul m => rm m
  | AOp e' g1 b g2 m => re e' ++ ws g1 ++ [TAddOp b] ++ ws g2 ++ rm m
  end.

(* the same tree with every gap emptied (what a parser that only sees lexemes can rebuild) *)
Fixpoint sa (a : atom) : atom :=
  match a with
  | Num s => Num s
  | Paren _ e _ => Paren [] (se e) []
  | Unary b _ a' => Unary b [] (sa a')
  end
with sm (m : mul) : mul :=
  match m with
  | MAtom a => MAtom (sa a)
  | MOp m' _ d _ a => MOp (sm m') [] d [] (sa a)
  end
with se (e : add) : add :=
  match e with
  | AMul m => AMul (sm m)
  | AOp e' _ b _ m => AOp (se e') [] b [] (sm m)
  end.

(* the source's tuples *)
Fixpoint mul_operands (m : mul) : list atom :=
  match m with MAtom a => [a] | MOp m' _ _ _ a => mul_operands m' ++ [a] end.
Fixpoint mul_ops (m : mul) : list bool :=
  match m with MAtom _ => [] | MOp m' _ d _ _ => mul_ops m' ++ [d] end.
Fixpoint add_operands (e : add) : list mul :=
  match e with AMul m => [m] | AOp e' _ _ _ m => add_operands e' ++ [m] end.
Fixpoint add_ops (e : add) : list bool :=
  match e with AMul _ => [] | AOp e' _ b _ _ => add_ops e' ++ [b] end.

(* `not expr.raw_ops` *)
Definition add_has_ops (e : add) : bool := match e with AMul _ => false | AOp _ _ _ _ _ => true end.
Definition mul_has_ops (m : mul) : bool := match m with MAtom _ => false | MOp _ _ _ _ _ => true end.

(* ---------------------------------------------------------------------------------------- *)
(* editing a token in place (`number.value = ...`, `number.raw_text = ...`, `op.raw_text = ...`): the
   i-th leaf token of the tree (store order, parentheses count but cannot be edited) takes the text of
   `t` when `t` is of the leaf's kind; anything else leaves the tree as it is.                      *)
Fixpoint na (a : atom) : nat :=
  match a with
  | Num _ => 1
  | Paren _ e _ => 2 + ne e
  | Unary _ _ a' => 1 + na a'
  end
with nm (m : mul) : nat :=
  match m with MAtom a => na a | MOp m' _ _ _ a => nm m' + 1 + na a end
with ne (e : add) : nat :=
  match e with AMul m => nm m | AOp e' _ _ _ m => ne e' + 1 + nm m end.

Fixpoint ea (i : nat) (t : tok) (a : atom) : atom :=
  match a with
  | Num s => match i, t with O, TNum s' => Num s' | _, _ => Num s end
  | Paren g1 e g2 => match i with O => a | S j => Paren g1 (ee j t e) g2 end
  | Unary b g a' =>
    match i with
    | O => match t with TUn b' => Unary b' g a' | _ => a end
    | S j => Unary b g (ea j t a')
    end
  end
with em (i : nat) (t : tok) (m : mul) : mul :=
  match m with
  | MAtom a => MAtom (ea i t a)
  | MOp m' g1 d g2 a =>
    if (i <? nm m')%nat then MOp (em i t m') g1 d g2 a
    else if (i =? nm m')%nat then match t with TMulOp d' => MOp m' g1 d' g2 a | _ => m end
    else MOp m' g1 d g2 (ea (i - nm m' - 1) t a)
  end
with ee (i : nat) (t : tok) (e : add) : add :=
  match e with
  | AMul m => AMul (em i t m)
  | AOp e' g1 b g2 m =>
    if (i <? ne e')%nat then AOp (ee i t e') g1 b g2 m
    else if (i =? ne e')%nat then match t with TAddOp b' => AOp e' g1 b' g2 m | _ => e end
    else AOp e' g1 b g2 (em (i - ne e' - 1) t m)
  end.

(* ---------------------------------------------------------------------------------------- *)
(* grammar: token-level recursive descent, one function per rule (+ one per `( ... )*` loop).
   Fuel is only there for termination (5 per lexeme is enough: NumExprProofs.parse_print).       *)
Fixpoint parse_atom (n : nat) (ts : list lexeme) {struct n} : option (atom * list lexeme) :=
  match n with
  | O => None
  | S n' =>
    match ts with
    | LNum s :: r => Some (Num s, r)                                   (* NUMBER *)
    | LLp :: r =>                                                      (* number_paren_expr *)
      match parse_add n' r with
      | Some (e, LRp :: r') => Some (Paren [] e [], r')
      | _ => None
      end
    | LSign b :: r =>                                                  (* number_unary_expr *)
      match parse_atom n' r with
      | Some (a, r') => Some (Unary b [] a, r')
      | None => None
      end
    | _ => None
    end
  end
with mul_loop (n : nat) (acc : mul) (ts : list lexeme) {struct n} : option (mul * list lexeme) :=
  match n with
  | O => None
  | S n' =>
    match ts with
    | LStar d :: r =>                                                  (* (MUL_OP number_atom_expr)* *)
      match parse_atom n' r with
      | Some (a, r') => mul_loop n' (MOp acc [] d [] a) r'
      | None => None
      end
    | _ => Some (acc, ts)
    end
  end
with parse_mul (n : nat) (ts : list lexeme) {struct n} : option (mul * list lexeme) :=
  match n with
  | O => None
  | S n' =>
    match parse_atom n' ts with
    | Some (a, r) => mul_loop n' (MAtom a) r
    | None => None
    end
  end
with add_loop (n : nat) (acc : add) (ts : list lexeme) {struct n} : option (add * list lexeme) :=
  match n with
  | O => None
  | S n' =>
    match ts with
    | LSign b :: r =>                                                  (* (ADD_OP number_mul_expr)* *)
      match parse_mul n' r with
      | Some (m, r') => add_loop n' (AOp acc [] b [] m) r'
      | None => None
      end
    | _ => Some (acc, ts)
    end
  end
with parse_add (n : nat) (ts : list lexeme) {struct n} : option (add * list lexeme) :=
  match n with
  | O => None
  | S n' =>
    match parse_mul n' ts with
    | Some (m, r) => add_loop n' (AMul m) r
    | None => None
    end
  end.

Definition fuel_of (ts : list lexeme) : nat := 5 * length ts.

(* number_expr: number_add_expr, the whole input *)
Definition parse_top (ts : list lexeme) : option add :=
  match parse_add (fuel_of ts) ts with
  | Some (e, []) => Some e
  | _ => None
  end.

(* ---------------------------------------------------------------------------------------- *)
(* a NumberExpr object: its token store holds  pre ++ re body ++ post  (pre = post = [] when it
   is free-standing; a posting's raw_number has the rest of the file around it)               *)
Record nexpr := NE { pre : list tok; body : add; post : list tok }.
Definition store_toks (x : nexpr) : list tok := pre x ++ re (body x) ++ post x.

Inductive binop := OpAdd | OpSub | OpMul | OpDiv.
Inductive form := Plain | Reflected | InPlace.

(* what the caller can see after a dunder returned *)
Record outcome := OC { o_result : nexpr; o_self : nexpr; o_other : option nexpr }.

Section Arith.
  Variable D : Type.
  Variables dadd dsub dmul ddiv : D -> D -> D.
  Variables dneg dabs : D -> D.
  Variable dltz : D -> bool.                 (* value < 0 *)
  Variable of_int : Z -> D.                  (* decimal.Decimal(int) *)
  Variable num_value : str -> D.             (* Number._parse_value *)
  Variable num_text : D -> str.              (* Number._format_value *)

  (* .value of NumberUnaryExpr / NumberParenExpr / Number, NumberMulExpr, NumberAddExpr *)
  Fixpoint va (a : atom) : D :=
    match a with
    | Num s => num_value s
    | Paren _ e _ => vadd e
    | Unary false _ a' => va a'
    | Unary true _ a' => dneg (va a')
    end
  with vm (m : mul) : D :=
    match m with
    | MAtom a => va a
    | MOp m' _ false _ a => dmul (vm m') (va a)
    | MOp m' _ true _ a => ddiv (vm m') (va a)
    end
  with vadd (e : add) : D :=
    match e with
    | AMul m => vm m
    | AOp e' _ false _ m => dadd (vadd e') (vm m)
    | AOp e' _ true _ m => dsub (vadd e') (vm m)
    end.

  Definition value (x : nexpr) : D := vadd (body x).

  (* the loop of NumberAddExpr.value / NumberMulExpr.value, literally *)
  Definition add_step (v : D) (p : bool * mul) : D := if fst p then dsub v (vm (snd p)) else dadd v (vm (snd p)).
  Definition mul_step (v : D) (p : bool * atom) : D := if fst p then ddiv v (va (snd p)) else dmul v (va (snd p)).

  (* an evaluator that never builds a tree: usual precedence and left associativity *)
  Fixpoint eval_atom (n : nat) (ts : list lexeme) {struct n} : option (D * list lexeme) :=
    match n with
    | O => None
    | S n' =>
      match ts with
      | LNum s :: r => Some (num_value s, r)
      | LLp :: r => match eval_add n' r with Some (v, LRp :: r') => Some (v, r') | _ => None end
      | LSign b :: r =>
        match eval_atom n' r with Some (v, r') => Some (if b then dneg v else v, r') | None => None end
      | _ => None
      end
    end
  with eval_mul_loop (n : nat) (acc : D) (ts : list lexeme) {struct n} : option (D * list lexeme) :=
    match n with
    | O => None
    | S n' =>
      match ts with
      | LStar d :: r =>
        match eval_atom n' r with
        | Some (v, r') => eval_mul_loop n' (if d then ddiv acc v else dmul acc v) r'
        | None => None
        end
      | _ => Some (acc, ts)
      end
    end
  with eval_mul (n : nat) (ts : list lexeme) {struct n} : option (D * list lexeme) :=
    match n with
    | O => None
    | S n' => match eval_atom n' ts with Some (v, r) => eval_mul_loop n' v r | None => None end
    end
  with eval_add_loop (n : nat) (acc : D) (ts : list lexeme) {struct n} : option (D * list lexeme) :=
    match n with
    | O => None
    | S n' =>
      match ts with
      | LSign b :: r =>
        match eval_mul n' r with
        | Some (v, r') => eval_add_loop n' (if b then dsub acc v else dadd acc v) r'
        | None => None
        end
      | _ => Some (acc, ts)
      end
    end
  with eval_add (n : nat) (ts : list lexeme) {struct n} : option (D * list lexeme) :=
    match n with
    | O => None
    | S n' => match eval_mul n' ts with Some (v, r) => eval_add_loop n' v r | None => None end
    end.

  Definition eval_top (ts : list lexeme) : option D :=
    match eval_add (fuel_of ts) ts with Some (v, []) => Some v | _ => None end.

  (* ------------------------------------------------------------------------------------ *)
  (* number_expr.py, top to bottom                                                         *)

  (* _add_expr_from_value *)
  Definition add_expr_from_value (v : D) : add :=
    let number_token := Num (num_text (dabs v)) in
    let atom_expr := if dltz v then Unary true [] number_token else number_token in
    AMul (MAtom atom_expr).

  (* NumberExpr.from_value *)
  Definition from_value (v : D) : nexpr := NE [] (add_expr_from_value v) [].

  (* _operand_type_check: int -> Decimal -> NumberExpr; Decimal -> NumberExpr *)
  Inductive operand := OInt (z : Z) | ODec (d : D) | OExpr (x : nexpr).
  Definition coerce (o : operand) : nexpr :=
    match o with
    | OInt z => from_value (of_int z)
    | ODec d => from_value d
    | OExpr x => x
    end.

  (* _wrap_paren: LeftParen/RightParen.from_default() inserted right before first_token / right after
     last_token of the add expr, in the store the add expr lives in *)
  Definition wrap_paren (e : add) : atom := Paren [] e [].

  (* _as_mul_expr / _as_atom_expr *)
  Definition as_mul_expr (e : add) : mul :=
    if negb (add_has_ops e) then
      match e with AMul m => m | AOp _ _ _ _ _ => MAtom (wrap_paren e) (* unreachable *) end
    else MAtom (wrap_paren e).

  Definition as_atom_expr (e : add) : atom :=
    match (if negb (add_has_ops e) then
             match e with
             | AMul m => if negb (mul_has_ops m)
                         then match m with MAtom a => Some a | MOp _ _ _ _ _ => None end
                         else None
             | AOp _ _ _ _ _ => None
             end
           else None) with
    | Some a => a
    | None => wrap_paren e
    end.

  (* copy.deepcopy(NumberExpr): RawTreeModel.__deepcopy__ copies first_token..last_token into a new store *)
  Definition deepcopy (x : nexpr) : nexpr := NE [] (body x) [].

  (* RawModel.detach: refuses unless the node spans its whole store *)
  Definition detach_check (store_pre store_post : list tok) : res unit :=
    match store_pre, store_post with
    | [], [] => Ok tt
    | _, _ => Err ValueError
    end.

  Definition SP : str := [CH_SP].   (* Whitespace.from_default() *)

  (* _unary *)
  Definition unary (a : nexpr) (minus : bool) : add :=
    let a := deepcopy a in
    let atom_expr := as_atom_expr (body a) in
    AMul (MAtom (Unary minus [] atom_expr)).

  (* NumberExpr._iaddsub (with the operand copy of fixes/number-expr-operand-copy.patch).
     Returns the new state of self; `other` itself is never touched, only its copy. *)
  Definition iaddsub (self other : nexpr) (minus : bool) : res nexpr :=
    let other := deepcopy other in
    let mul_expr := as_mul_expr (body other) in
    match detach_check (pre other) (post other) with
    | Err e => Err e
    | Ok _ => Ok (NE (pre self) (AOp (body self) SP minus SP mul_expr) (post self))
    end.

  (* NumberExpr._imuldiv *)
  Definition imuldiv (self other : nexpr) (div : bool) : res nexpr :=
    let other := deepcopy other in
    let self_mul_expr := as_mul_expr (body self) in
    let atom_expr := as_atom_expr (body other) in
    match detach_check (pre other) (post other) with
    | Err e => Err e
    | Ok _ => Ok (NE (pre self) (AMul (MOp self_mul_expr SP div SP atom_expr)) (post self))
    end.

  Definition inplace (k : binop) (self other : nexpr) : res nexpr :=
    match k with
    | OpAdd => iaddsub self other false
    | OpSub => iaddsub self other true
    | OpMul => imuldiv self other false
    | OpDiv => imuldiv self other true
    end.

  (* __add__/__sub__/__mul__/__truediv__: copy.deepcopy(self).__iXX__(other) *)
  Definition plain (k : binop) (self other : nexpr) : res nexpr := inplace k (deepcopy self) other.

  (* every binary dunder: (result, self afterwards, expression operand afterwards) *)
  Definition dunder (k : binop) (f : form) (self : nexpr) (o : operand) : res outcome :=
    let other := coerce o in
    let keep := match o with OExpr x => Some x | _ => None end in
    match f with
    | InPlace => match inplace k self other with
                 | Ok s' => Ok (OC s' s' keep) | Err e => Err e end
    | Plain => match plain k self other with
               | Ok r => Ok (OC r self keep) | Err e => Err e end
    | Reflected => match plain k other self with                      (* return other OP self *)
                   | Ok r => Ok (OC r self keep) | Err e => Err e end
    end.

  (* __pos__ / __neg__ *)
  Definition dunder_unary (minus : bool) (self : nexpr) : outcome :=
    OC (NE [] (unary self minus) []) self None.

  (* the arithmetic the property compares with *)
  Definition arith (k : binop) (a b : D) : D :=
    match k with OpAdd => dadd a b | OpSub => dsub a b | OpMul => dmul a b | OpDiv => ddiv a b end.

  (* chains of operator applications: the result of one step is `self` of the next *)
  Inductive step :=
  | SBin (k : binop) (f : form) (o : operand)
  | SUn (minus : bool)
  | SEdit (i : nat) (t : tok)          (* a token inside the expression is edited in place *)
  | SSetValue (v : D).                 (* NumberExpr.value = v *)

  (* the value setter: self.raw_number_add_expr = _add_expr_from_value(value) *)
  Definition set_value (x : nexpr) (v : D) : nexpr := NE (pre x) (add_expr_from_value v) (post x).
  Definition edit_token (x : nexpr) (i : nat) (t : tok) : nexpr := NE (pre x) (ee i t (body x)) (post x).

  Definition apply_step (x : nexpr) (s : step) : res nexpr :=
    match s with
    | SBin k f o => match dunder k f x o with Ok oc => Ok (o_result oc) | Err e => Err e end
    | SUn b => Ok (o_result (dunder_unary b x))
    | SEdit i t => Ok (edit_token x i t)
    | SSetValue v => Ok (set_value x v)
    end.

  Fixpoint apply_chain (x : nexpr) (l : list step) : res nexpr :=
    match l with
    | [] => Ok x
    | s :: r => match apply_step x s with Ok x' => apply_chain x' r | Err e => Err e end
    end.

  Definition arith_step (v : D) (s : step) : D :=
    match s with
    | SBin k Reflected o => arith k (value (coerce o)) v
    | SBin k _ o => arith k v (value (coerce o))
    | SUn true => dneg v
    | SUn false => v
    | SEdit _ _ => v        (* not used for edits: see NumExprProofs.history_value *)
    | SSetValue w => value (from_value w)
    end.

  (* steps whose effect on the value is the arithmetic one (everything but token edits) *)
  Definition step_arith (s : step) : bool := match s with SEdit _ _ => false | _ => true end.
End Arith.

Arguments OInt {D} z.
Arguments ODec {D} d.
Arguments OExpr {D} x.
Arguments SBin {D} k f o.
Arguments SUn {D} minus.
Arguments SEdit {D} i t.
Arguments SSetValue {D} v.
