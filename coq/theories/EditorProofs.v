(* C16 - proofs about Editor.v.  All statements are for an arbitrary [world] (any parser, printer, glob,
   path functions, newline mode, makedirs guard), any file system, any include graph, any body.  *)
From AB Require Import Prelude Editor.

(* ---- strings and association lists ----------------------------------------------------------- *)
Lemma list_eqb_Z_eq : forall a b : str, list_eqb Z.eqb a b = true <-> a = b.
Proof.
  induction a as [|x a IH]; destruct b as [|y b]; cbn [list_eqb]; split; intro H;
    try reflexivity; try discriminate.
  - apply andb_true_iff in H. destruct H as [H1 H2]. apply Z.eqb_eq in H1. apply IH in H2. congruence.
  - inversion H; subst. apply andb_true_iff. split. apply Z.eqb_refl. apply IH. reflexivity.
Qed.

Lemma str_eqb_eq : forall a b, str_eqb a b = true <-> a = b.
Proof. exact list_eqb_Z_eq. Qed.
Lemma str_eqb_refl : forall a, str_eqb a a = true.
Proof. intro a. apply str_eqb_eq. reflexivity. Qed.
Lemma str_eqb_neq : forall a b, str_eqb a b = false <-> a <> b.
Proof.
  intros a b. split; intro H.
  - intro E. apply str_eqb_eq in E. congruence.
  - destruct (str_eqb a b) eqn:E; [apply str_eqb_eq in E; contradiction | reflexivity].
Qed.

Ltac case_str a b := let E := fresh "E" in
  destruct (str_eqb a b) eqn:E; [apply str_eqb_eq in E | apply str_eqb_neq in E].

Section Assoc.
Context {V : Type}.
Implicit Types (l : list (str * V)).

Lemma lookup_set_same : forall k v l, lookup k (set k v l) = Some v.
Proof.
  intros k v l. induction l as [|[k' v'] l IH]; cbn [set lookup].
  - rewrite str_eqb_refl. reflexivity.
  - case_str k k'; cbn [lookup].
    + subst. rewrite str_eqb_refl. reflexivity.
    + apply str_eqb_neq in E. rewrite E. exact IH.
Qed.

Lemma lookup_set_other : forall k k' v l, k' <> k -> lookup k' (set k v l) = lookup k' l.
Proof.
  intros k k' v l N. induction l as [|[k2 v2] l IH]; cbn [set lookup].
  - apply str_eqb_neq in N. rewrite N. reflexivity.
  - case_str k k2; cbn [lookup].
    + subst. apply str_eqb_neq in N. rewrite N. reflexivity.
    + rewrite IH. reflexivity.
Qed.

Lemma lookup_remove_same : forall k l, lookup k (remove k l) = None.
Proof.
  intros k l. induction l as [|[k2 v2] l IH]; cbn [remove lookup]; [reflexivity|].
  case_str k k2; [exact IH|]. cbn [lookup]. apply str_eqb_neq in E. rewrite E. exact IH.
Qed.

Lemma lookup_remove_other : forall k k' l, k' <> k -> lookup k' (remove k l) = lookup k' l.
Proof.
  intros k k' l N. induction l as [|[k2 v2] l IH]; cbn [remove lookup]; [reflexivity|].
  case_str k k2.
  - subst. rewrite IH. apply str_eqb_neq in N. rewrite N. reflexivity.
  - cbn [lookup]. rewrite IH. reflexivity.
Qed.

Lemma has_In : forall k l, has k l = true <-> In k (keys l).
Proof.
  intros k l. unfold has. induction l as [|[k2 v2] l IH]; cbn [lookup keys map fst].
  - split; [discriminate | intros []].
  - case_str k k2.
    + subst. split; intros _; [left; reflexivity | reflexivity].
    + split; intro H.
      * right. apply IH. exact H.
      * destruct H as [H|H]; [congruence|]. apply IH. exact H.
Qed.

Lemma has_false_notin : forall k l, has k l = false <-> ~ In k (keys l).
Proof.
  intros k l. split; intro H.
  - intro I. apply has_In in I. congruence.
  - destruct (has k l) eqn:E; [apply has_In in E; contradiction | reflexivity].
Qed.

Lemma lookup_In : forall k v l, lookup k l = Some v -> In (k, v) l.
Proof.
  intros k v l. induction l as [|[k2 v2] l IH]; cbn [lookup]; [discriminate|].
  case_str k k2.
  - intro H. inversion H; subst. left. reflexivity.
  - intro H. right. exact (IH H).
Qed.

Lemma In_lookup_nodup : forall k v l, NoDup (keys l) -> In (k, v) l -> lookup k l = Some v.
Proof.
  intros k v l. induction l as [|[k2 v2] l IH]; cbn [lookup keys map fst]; intros ND I; [destruct I|].
  inversion ND as [|? ? Hn ND']; subst.
  destruct I as [I|I].
  - inversion I; subst. rewrite str_eqb_refl. reflexivity.
  - case_str k k2.
    + subst. exfalso. apply Hn. change (In k2 (map fst l)). apply in_map_iff. exists (k2, v). auto.
    + apply IH; assumption.
Qed.

Lemma lookup_app_notin : forall k l l', ~ In k (keys l) -> lookup k (l ++ l') = lookup k l'.
Proof.
  intros k l l'. induction l as [|[k2 v2] l IH]; cbn [lookup keys map fst app]; intro N; [reflexivity|].
  case_str k k2; [exfalso; apply N; left; congruence|]. apply IH. intro I. apply N. right. exact I.
Qed.

Lemma lookup_app_in : forall k v l l', lookup k l = Some v -> lookup k (l ++ l') = Some v.
Proof.
  intros k v l l'. induction l as [|[k2 v2] l IH]; cbn [lookup app]; [discriminate|].
  case_str k k2; auto.
Qed.
End Assoc.

Lemma mem_In : forall k l, mem k l = true <-> In k l.
Proof.
  intros k l. induction l as [|x l IH]; cbn [mem].
  - split; [discriminate | intros []].
  - case_str k x; cbn [orb].
    + subst. split; intros _; [left; reflexivity | reflexivity].
    + split; intro H.
      * right. apply IH. exact H.
      * destruct H as [H|H]; [congruence|]. apply IH. exact H.
Qed.

Lemma keys_app : forall V (a b : list (str * V)), keys (a ++ b) = keys a ++ keys b.
Proof. intros. unfold keys. apply map_app. Qed.

(* a boolean NoDup, so that the hypotheses of the theorems can be discharged by computation *)
Fixpoint nodupb (l : list str) : bool :=
  match l with [] => true | x :: r => negb (mem x r) && nodupb r end.
Lemma nodupb_sound : forall l, nodupb l = true -> NoDup l.
Proof.
  induction l as [|x l IH]; cbn [nodupb]; intro H; constructor.
  - apply andb_true_iff in H. destruct H as [H _]. intro I. apply mem_In in I. rewrite I in H. discriminate.
  - apply IH. apply andb_true_iff in H. tauto.
Qed.

Lemma NoDup_map_inj_on : forall (f : str -> str) l a b,
  NoDup (map f l) -> In a l -> In b l -> f a = f b -> a = b.
Proof.
  intros f l. induction l as [|x l IH]; cbn [map]; intros a b ND Ia Ib E; [destruct Ia|].
  inversion ND as [|? ? Hn ND']; subst.
  destruct Ia as [Ia|Ia]; destruct Ib as [Ib|Ib]; subst.
  - reflexivity.
  - exfalso. apply Hn. rewrite E. apply in_map. exact Ib.
  - exfalso. apply Hn. rewrite <- E. apply in_map. exact Ia.
  - eapply IH; eassumption.
Qed.

Lemma NoDup_map_keys : forall (f : str -> str) l, NoDup (map f l) -> NoDup l.
Proof.
  intros f l. induction l as [|x l IH]; cbn [map]; intro ND; constructor; inversion ND; subst.
  - intro I. apply H1. apply in_map. exact I.
  - apply IH. assumption.
Qed.

Lemma NoDup_app_r : forall A (a b : list A), NoDup (a ++ b) -> NoDup b.
Proof. intros A a b. induction a as [|x a IH]; cbn [app]; intro H; [exact H|]. inversion H; subst. auto. Qed.
Lemma NoDup_app_disj : forall A (a b : list A) x, NoDup (a ++ b) -> In x a -> In x b -> False.
Proof.
  intros A a b x. induction a as [|y a IH]; cbn [app]; intros H Ia Ib; [destruct Ia|].
  inversion H as [|? ? Hn ND]; subst. destruct Ia as [Ia|Ia].
  - subst. apply Hn. apply in_or_app. right. exact Ib.
  - exact (IH ND Ia Ib).
Qed.
Lemma NoDup_snoc : forall A (l : list A) x, NoDup l -> ~ In x l -> NoDup (l ++ [x]).
Proof.
  intros A l x. induction l as [|y l IH]; cbn [app]; intros ND N.
  - constructor; [intros []|constructor].
  - inversion ND as [|? ? Hn ND']; subst. constructor.
    + intro I. apply in_app_or in I. destruct I as [I|[I|[]]]; [exact (Hn I)|]. apply N. left. symmetry. exact I.
    + apply IH; [exact ND'|]. intro I. apply N. right. exact I.
Qed.

(* ============================================================================================== *)
Section Proofs.
Variable W : world.

Notation cn := (canon W).
Definition content (fs : fsys) (c : path) : option str := lookup c (fs_files fs).

(* ---- the primitive operations ---------------------------------------------------------------- *)
Lemma fs_unlink_spec : forall fs k fs1, fs_unlink W fs k = Some fs1 ->
  fs_dirs fs1 = fs_dirs fs /\ content fs1 (cn k) = None /\
  (forall c, c <> cn k -> content fs1 c = content fs c).
Proof.
  unfold fs_unlink, content. intros fs k fs1 H.
  destruct (traversable W fs k && has (cn k) (fs_files fs)); [|discriminate]. inversion H; subst; cbn [fs_files fs_dirs].
  split; [reflexivity|]. split; [apply lookup_remove_same|]. intros c N. apply lookup_remove_other. exact N.
Qed.

Lemma fs_write_spec : forall fs k s fs1, fs_write W fs k s = Some fs1 ->
  fs_dirs fs1 = fs_dirs fs /\ content fs1 (cn k) = Some s /\
  (forall c, c <> cn k -> content fs1 c = content fs c).
Proof.
  unfold fs_write, content. intros fs k s fs1 H.
  destruct (traversable W fs k && mem (dirname W (cn k)) (fs_dirs fs) && negb (mem (cn k) (fs_dirs fs))); [|discriminate].
  inversion H; subst; cbn [fs_files fs_dirs].
  split; [reflexivity|]. split; [apply lookup_set_same|]. intros c N. apply lookup_set_other. exact N.
Qed.

Lemma fs_makedirs_spec : forall fs d fs1, fs_makedirs W fs d = Some fs1 ->
  fs_files fs1 = fs_files fs /\ d <> [].
Proof.
  unfold fs_makedirs. intros fs d fs1 H. destruct d as [|x d]; [discriminate|].
  destruct (_ || _); [discriminate|]. inversion H; subst. cbn [fs_files]. split; [reflexivity | discriminate].
Qed.

(* ---- unlink phase ---------------------------------------------------------------------------- *)
Lemma unlink_all_ok : forall ks fs fs' tr,
  unlink_all W fs ks = (fs', tr, EOk tt) ->
  tr = map OpUnlink ks /\
  (forall k, In k ks -> content fs' (cn k) = None) /\
  (forall c, ~ In c (map cn ks) -> content fs' c = content fs c).
Proof.
  induction ks as [|k ks IH]; cbn [unlink_all]; intros fs fs' tr H.
  - inversion H; subst. split; [reflexivity|]. split; [intros k []|]. reflexivity.
  - destruct (fs_unlink W fs k) as [fs1|] eqn:U; [|discriminate].
    destruct (unlink_all W fs1 ks) as [[fs2 tr2] r2] eqn:R. inversion H; subst.
    destruct (IH _ _ _ R) as [Ht [Hnone Hframe]].
    destruct (fs_unlink_spec _ _ _ U) as [_ [Hk Hother]].
    split; [cbn [map]; congruence|]. split.
    + intros k' [I|I].
      * subst k'. destruct (in_dec (list_eq_dec Z.eq_dec) (cn k) (map cn ks)) as [J|J].
        -- apply in_map_iff in J. destruct J as [k2 [E2 I2]]. rewrite <- E2. apply Hnone. exact I2.
        -- rewrite (Hframe _ J). exact Hk.
      * apply Hnone. exact I.
    + intros c N. cbn [map] in N. rewrite Hframe by (intro J; apply N; right; exact J).
      apply Hother. intro E. apply N. left. congruence.
Qed.

Lemma unlink_all_trace : forall ks fs fs' tr r,
  unlink_all W fs ks = (fs', tr, r) -> forall o, In o tr -> exists k, o = OpUnlink k /\ In k ks.
Proof.
  induction ks as [|k ks IH]; cbn [unlink_all]; intros fs fs' tr r H o I.
  - inversion H; subst. destruct I.
  - destruct (fs_unlink W fs k) as [fs1|] eqn:U.
    + destruct (unlink_all W fs1 ks) as [[fs2 tr2] r2] eqn:R. inversion H; subst.
      destruct I as [I|I]; [exists k; split; [congruence | left; reflexivity]|].
      destruct (IH _ _ _ _ R _ I) as [k' [E I']]. exists k'. split; [exact E | right; exact I'].
    + inversion H; subst. destruct I as [I|[]]. exists k. split; [congruence | left; reflexivity].
Qed.

(* ---- write phase ----------------------------------------------------------------------------- *)
Definition will_write (texts : list (path * str)) (km : path * model W) : bool :=
  differs (print W (snd km)) (lookup (fst km) texts).
Definition written_keys texts (files' : list (path * model W)) : list path :=
  keys (filter (will_write texts) files').
Definition mk_ops (k : path) : list op :=
  if w_guard W && is_empty (dirname W k) then [] else [OpMakedirs (dirname W k)].
(* the file-system calls of the write loop, exactly *)
Definition write_ops texts (files' : list (path * model W)) : list op :=
  flat_map (fun km => mk_ops (fst km) ++ if will_write texts km then [OpWrite (fst km)] else []) files'.

Lemma write_all_ok : forall texts files' fs fs' tr,
  write_all W fs texts files' = (fs', tr, EOk tt) ->
  tr = write_ops texts files' /\
  (forall c, ~ In c (map cn (written_keys texts files')) -> content fs' c = content fs c).
Proof.
  induction files' as [|[k m] r IH]; cbn [write_all]; intros fs fs' tr H.
  - inversion H; subst. split; reflexivity.
  - unfold write_ops, written_keys. cbn [flat_map filter fst snd]. unfold will_write at 1 3. cbn [fst snd].
    unfold mk_ops at 1. cbn [fst].
    destruct (w_guard W && is_empty (dirname W k)) eqn:G.
    + destruct (differs (print W m) (lookup k texts)) eqn:Df.
      * destruct (fs_write W fs k (print W m)) as [fs2|] eqn:Wr; [|discriminate].
        destruct (write_all W fs2 texts r) as [[fs3 tr3] r3] eqn:R. inversion H; subst.
        destruct (IH _ _ _ R) as [Ht Hf]. destruct (fs_write_spec _ _ _ _ Wr) as [_ [_ Ho]].
        split; [cbn [app]; unfold write_ops in Ht; congruence|].
        intros c N. cbn [keys map fst] in N. rewrite Hf by (intro J; apply N; right; exact J).
        apply Ho. intro E. apply N. left. congruence.
      * destruct (write_all W fs texts r) as [[fs3 tr3] r3] eqn:R. inversion H; subst.
        destruct (IH _ _ _ R) as [Ht Hf]. split; [cbn [app]; unfold write_ops in Ht; congruence | exact Hf].
    + destruct (fs_makedirs W fs (dirname W k)) as [fs1|] eqn:Mk; [|discriminate].
      destruct (fs_makedirs_spec _ _ _ Mk) as [Hfiles _].
      assert (Hc : forall c, content fs1 c = content fs c) by (intro c; unfold content; rewrite Hfiles; reflexivity).
      destruct (differs (print W m) (lookup k texts)) eqn:Df.
      * destruct (fs_write W fs1 k (print W m)) as [fs2|] eqn:Wr; [|discriminate].
        destruct (write_all W fs2 texts r) as [[fs3 tr3] r3] eqn:R. inversion H; subst.
        destruct (IH _ _ _ R) as [Ht Hf]. destruct (fs_write_spec _ _ _ _ Wr) as [_ [_ Ho]].
        split; [cbn [app]; unfold write_ops in Ht; congruence|].
        intros c N. cbn [keys map fst] in N. rewrite Hf by (intro J; apply N; right; exact J).
        rewrite Ho; [apply Hc|]. intro E. apply N. left. congruence.
      * destruct (write_all W fs1 texts r) as [[fs3 tr3] r3] eqn:R. inversion H; subst.
        destruct (IH _ _ _ R) as [Ht Hf]. split; [cbn [app]; unfold write_ops in Ht; congruence|].
        intros c N. rewrite Hf by exact N. apply Hc.
Qed.

Lemma written_keys_incl : forall texts files' k, In k (written_keys texts files') -> In k (keys files').
Proof.
  intros texts files' k I. unfold written_keys, keys in *. apply in_map_iff in I.
  destruct I as [km [E I]]. apply filter_In in I. apply in_map_iff. exists km. tauto.
Qed.

(* with alias-free keys every entry ends up as the loop left it *)
Lemma write_all_entries : forall texts files' fs fs' tr,
  write_all W fs texts files' = (fs', tr, EOk tt) ->
  NoDup (map cn (keys files')) ->
  forall k m, In (k, m) files' ->
    content fs' (cn k) = if will_write texts (k, m) then Some (print W m) else content fs (cn k).
Proof.
  induction files' as [|[k0 m0] r IH]; intros fs fs' tr H ND k m I; [destruct I|].
  cbn [keys map fst] in ND. inversion ND as [|? ? Hn ND']; subst.
  assert (Hrest : forall fsA fsB trB, write_all W fsA texts r = (fsB, trB, EOk tt) ->
                    content fsB (cn k0) = content fsA (cn k0)).
  { intros fsA fsB trB R. destruct (write_all_ok _ _ _ _ _ R) as [_ Hf]. apply Hf.
    intro J. apply Hn. apply in_map_iff in J. destruct J as [x [E J]]. apply in_map_iff. exists x.
    split; [exact E|]. eapply written_keys_incl. exact J. }
  cbn [write_all] in H.
  destruct (w_guard W && is_empty (dirname W k0)) eqn:G.
  - destruct (differs (print W m0) (lookup k0 texts)) eqn:Df.
    + destruct (fs_write W fs k0 (print W m0)) as [fs2|] eqn:Wr; [|discriminate].
      destruct (write_all W fs2 texts r) as [[fs3 tr3] r3] eqn:R. inversion H; subst.
      destruct (fs_write_spec _ _ _ _ Wr) as [_ [Hk Ho]].
      destruct I as [I|I].
      * inversion I; subst. unfold will_write. cbn [fst snd]. rewrite Df. rewrite (Hrest _ _ _ R). exact Hk.
      * rewrite (IH _ _ _ R ND' _ _ I). destruct (will_write texts (k, m)); [reflexivity|].
        apply Ho. intro E. apply Hn. rewrite <- E. apply in_map. apply in_map_iff. exists (k, m). auto.
    + destruct (write_all W fs texts r) as [[fs3 tr3] r3] eqn:R. inversion H; subst.
      destruct I as [I|I].
      * inversion I; subst. unfold will_write. cbn [fst snd]. rewrite Df. apply (Hrest _ _ _ R).
      * apply (IH _ _ _ R ND' _ _ I).
  - destruct (fs_makedirs W fs (dirname W k0)) as [fs1|] eqn:Mk; [|discriminate].
    destruct (fs_makedirs_spec _ _ _ Mk) as [Hfiles _].
    assert (Hc : forall c, content fs1 c = content fs c) by (intro c; unfold content; rewrite Hfiles; reflexivity).
    destruct (differs (print W m0) (lookup k0 texts)) eqn:Df.
    + destruct (fs_write W fs1 k0 (print W m0)) as [fs2|] eqn:Wr; [|discriminate].
      destruct (write_all W fs2 texts r) as [[fs3 tr3] r3] eqn:R. inversion H; subst.
      destruct (fs_write_spec _ _ _ _ Wr) as [_ [Hk Ho]].
      destruct I as [I|I].
      * inversion I; subst. unfold will_write. cbn [fst snd]. rewrite Df. rewrite (Hrest _ _ _ R). exact Hk.
      * rewrite (IH _ _ _ R ND' _ _ I). destruct (will_write texts (k, m)); [reflexivity|].
        rewrite Ho; [apply Hc|]. intro E. apply Hn. rewrite <- E. apply in_map. apply in_map_iff. exists (k, m). auto.
    + destruct (write_all W fs1 texts r) as [[fs3 tr3] r3] eqn:R. inversion H; subst.
      destruct I as [I|I].
      * inversion I; subst. unfold will_write. cbn [fst snd]. rewrite Df. rewrite (Hrest _ _ _ R). apply Hc.
      * rewrite (IH _ _ _ R ND' _ _ I). destruct (will_write texts (k, m)); [reflexivity | apply Hc].
Qed.

(* ---- the whole write phase ------------------------------------------------------------------- *)
Lemma removed_keys_spec : forall texts (files' : list (path * model W)) k,
  In k (removed_keys W texts files') <-> In k (keys texts) /\ ~ In k (keys files').
Proof.
  intros texts files' k. unfold removed_keys. rewrite filter_In. split; intros [A B]; split; try exact A.
  - apply has_false_notin. destruct (has k files'); [discriminate | reflexivity].
  - apply has_false_notin in B. rewrite B. reflexivity.
Qed.

Definition alias_free texts (files' : list (path * model W)) : Prop :=
  NoDup (map cn (removed_keys W texts files' ++ keys files')).

Lemma exit_phase_ok : forall texts files' fs fs' tr,
  exit_phase W fs texts files' = (fs', tr, EOk tt) ->
  alias_free texts files' ->
  tr = map OpUnlink (removed_keys W texts files') ++ write_ops texts files' /\
  (forall k, In k (removed_keys W texts files') -> content fs' (cn k) = None) /\
  (forall k m, In (k, m) files' ->
     content fs' (cn k) = if will_write texts (k, m) then Some (print W m) else content fs (cn k)) /\
  (forall c, ~ In c (map cn (removed_keys W texts files' ++ written_keys texts files')) ->
     content fs' c = content fs c).
Proof.
  unfold exit_phase, alias_free. intros texts files' fs fs' tr H ND.
  destruct (unlink_all W fs (removed_keys W texts files')) as [[fs1 tr1] r1] eqn:U.
  destruct r1 as [[]|e]; [|discriminate].
  destruct (write_all W fs1 texts files') as [[fs2 tr2] r2] eqn:Wr. inversion H; subst.
  destruct (unlink_all_ok _ _ _ _ U) as [Ht1 [Hnone Hf1]].
  destruct (write_all_ok _ _ _ _ _ Wr) as [Ht2 Hf2].
  rewrite map_app in ND.
  assert (ND2 : NoDup (map cn (keys files'))) by (eapply NoDup_app_r; exact ND).
  assert (Hdisj : forall a b, In a (removed_keys W texts files') -> In b (keys files') -> cn a <> cn b).
  { intros a b Ia Ib E. apply (NoDup_app_disj _ _ _ (cn a) ND); [apply in_map; exact Ia|].
    rewrite E. apply in_map. exact Ib. }
  split; [congruence|]. split; [|split].
  - intros k I. rewrite Hf2; [apply Hnone; exact I|].
    intro J. apply in_map_iff in J. destruct J as [b [E J]]. apply written_keys_incl in J.
    exact (Hdisj _ _ I J (eq_sym E)).
  - intros k m I. rewrite (write_all_entries _ _ _ _ _ Wr ND2 _ _ I).
    destruct (will_write texts (k, m)); [reflexivity|]. apply Hf1.
    intro J. apply in_map_iff in J. destruct J as [a [E J]].
    apply (Hdisj _ k J); [|exact E]. apply in_map_iff. exists (k, m). auto.
  - intros c N. rewrite map_app in N. rewrite Hf2 by (intro J; apply N; apply in_or_app; right; exact J).
    apply Hf1. intro J. apply N. apply in_or_app. left. exact J.
Qed.

(* ---- the read phase: only reads, each key once, closed under includes, terminates ------------- *)
Lemma bfs_reads : forall fuel fs queue texts files tr r,
  bfs W fuel fs queue texts files = (tr, r) -> forallb is_read tr = true.
Proof.
  induction fuel as [|f IH]; intros fs queue texts files tr r H; cbn [bfs] in H.
  - destruct (drop_visited texts queue); inversion H; reflexivity.
  - destruct (drop_visited texts queue) as [|cur q]; [inversion H; reflexivity|].
    destruct (fs_read W fs cur) as [text|]; [|inversion H; reflexivity].
    destruct (parse W text) as [m|]; [|inversion H; reflexivity].
    destruct (include_paths W cur m) as [ps|e]; [|inversion H; reflexivity].
    destruct (bfs W f fs (q ++ ps) (texts ++ [(cur, text)]) (files ++ [(cur, m)])) as [tr' r'] eqn:R.
    inversion H; subst. cbn [forallb is_read andb]. eapply IH. exact R.
Qed.

Lemma drop_visited_spec : forall V (texts : list (path * V)) queue,
  match drop_visited texts queue with
  | [] => forall p, In p queue -> In p (keys texts)
  | cur :: q => ~ In cur (keys texts) /\ In cur queue /\
                (forall p, In p queue -> In p (keys texts) \/ p = cur \/ In p q) /\
                (forall p, In p q -> In p queue)
  end.
Proof.
  intros V texts queue. induction queue as [|p0 queue IH]; cbn [drop_visited].
  - intros p [].
  - destruct (has p0 texts) eqn:Hs.
    + apply has_In in Hs. destruct (drop_visited texts queue) as [|cur q].
      * intros p [E|I]; [subst; exact Hs | apply IH; exact I].
      * destruct IH as [A [B [C S]]]. split; [exact A|]. split; [right; exact B|]. split.
        -- intros p [E|I]; [subst; left; exact Hs | apply C; exact I].
        -- intros p I. right. apply S. exact I.
    + apply has_false_notin in Hs. split; [exact Hs|]. split; [left; reflexivity|]. split.
      * intros p [E|I]; [right; left; congruence | right; right; exact I].
      * intros p I. right. exact I.
Qed.

(* what the dicts `texts` and `files` hold about the disk *)
Definition entry_ok (fs : fsys) (kt : path * str) (km : path * model W) : Prop :=
  fst kt = fst km /\ fs_read W fs (fst kt) = Some (snd kt) /\ parse W (snd kt) = Some (snd km).

Definition includes_closed (files : list (path * model W)) (pending : list path) : Prop :=
  forall k m ps, In (k, m) files -> include_paths W k m = EOk ps ->
    forall p, In p ps -> In p pending.

Lemma bfs_ok : forall fuel fs queue texts files tr texts' files',
  bfs W fuel fs queue texts files = (tr, EOk (texts', files')) ->
  Forall2 (entry_ok fs) texts files -> NoDup (keys texts) ->
  includes_closed files (keys texts ++ queue) ->
  exists new_t new_f,
    texts' = texts ++ new_t /\ files' = files ++ new_f /\
    tr = map OpRead (keys new_t) /\
    Forall2 (entry_ok fs) texts' files' /\ NoDup (keys texts') /\
    includes_closed files' (keys texts') /\
    (forall p, In p queue -> In p (keys texts')).
Proof.
  induction fuel as [|f IH]; intros fs queue texts files tr texts' files' H F2 ND Cl; cbn [bfs] in H;
    pose proof (drop_visited_spec _ texts queue) as DV.
  - destruct (drop_visited texts queue) as [|cur q]; [|discriminate]. inversion H; subst.
    exists [], []. rewrite !app_nil_r. repeat split; try assumption.
    intros k m ps I E p Ip. specialize (Cl k m ps I E p Ip). apply in_app_or in Cl. destruct Cl; auto.
  - destruct (drop_visited texts queue) as [|cur q].
    + inversion H; subst. exists [], []. rewrite !app_nil_r. repeat split; try assumption.
      intros k m ps I E p Ip. specialize (Cl k m ps I E p Ip). apply in_app_or in Cl. destruct Cl; auto.
    + destruct DV as [Hnew [Hin [Hq Hsub]]].
      destruct (fs_read W fs cur) as [text|] eqn:Rd; [|discriminate].
      destruct (parse W text) as [m|] eqn:Pa; [|discriminate].
      destruct (include_paths W cur m) as [ps|e] eqn:Inc; [|discriminate].
      destruct (bfs W f fs (q ++ ps) (texts ++ [(cur, text)]) (files ++ [(cur, m)])) as [tr' r'] eqn:R.
      inversion H; subst. clear H.
      assert (F2' : Forall2 (entry_ok fs) (texts ++ [(cur, text)]) (files ++ [(cur, m)])).
      { apply Forall2_app; [exact F2|]. constructor; [|constructor]. unfold entry_ok. cbn [fst snd]. auto. }
      assert (ND' : NoDup (keys (texts ++ [(cur, text)]))).
      { rewrite keys_app. cbn [keys map fst]. apply NoDup_snoc; assumption. }
      assert (Cl' : includes_closed (files ++ [(cur, m)]) (keys (texts ++ [(cur, text)]) ++ q ++ ps)).
      { intros k m0 ps0 I E p Ip. rewrite keys_app. cbn [keys map fst]. apply in_app_or in I. destruct I as [I|[I|[]]].
        - specialize (Cl k m0 ps0 I E p Ip). apply in_app_or in Cl. destruct Cl as [A|A].
          + apply in_or_app. left. apply in_or_app. left. exact A.
          + destruct (Hq _ A) as [B|[B|B]].
            * apply in_or_app. left. apply in_or_app. left. exact B.
            * subst. apply in_or_app. left. apply in_or_app. right. left. reflexivity.
            * apply in_or_app. right. apply in_or_app. left. exact B.
        - inversion I; subst. rewrite Inc in E. inversion E; subst.
          apply in_or_app. right. apply in_or_app. right. exact Ip. }
      destruct (IH _ _ _ _ _ _ _ R F2' ND' Cl') as [nt [nf [Et [Ef [Htr [F2'' [ND'' [Cl'' Hqq]]]]]]]].
      exists ((cur, text) :: nt), ((cur, m) :: nf).
      rewrite <- !app_assoc in Et, Ef. cbn [app] in Et, Ef.
      split; [exact Et|]. split; [exact Ef|]. split; [cbn [keys map fst]; f_equal; exact Htr|].
      split; [exact F2''|]. split; [exact ND''|]. split; [exact Cl''|].
      intros p Ip. destruct (Hq _ Ip) as [B|[B|B]].
      * rewrite Et, keys_app. apply in_or_app. left. exact B.
      * subst p. rewrite Et, keys_app. apply in_or_app. right. left. reflexivity.
      * apply Hqq. apply in_or_app. left. exact B.
Qed.

Lemma include_paths_of_not_oof : forall d ns, include_paths_of W d ns <> EErr EOutOfFuel.
Proof.
  intros d ns. induction ns as [|n ns IHn]; cbn [include_paths_of]; [discriminate|].
  destruct (glob W (join W d n)); [discriminate|].
  destruct (include_paths_of W d ns) as [ps1|e1]; [discriminate|].
  intro X. inversion X; subst. apply IHn. reflexivity.
Qed.

(* fuel: one unit per file actually opened; any finite set of paths closed under includes bounds it *)
Lemma bfs_terminates : forall (U : list path) fuel fs queue texts files,
  (forall p, In p queue -> In p U) ->
  (forall k text m ps, In k U -> fs_read W fs k = Some text -> parse W text = Some m ->
     include_paths W k m = EOk ps -> forall p, In p ps -> In p U) ->
  (forall k, In k (keys texts) -> In k U) -> NoDup (keys texts) ->
  (length U < fuel + length texts)%nat ->
  snd (bfs W fuel fs queue texts files) <> EErr EOutOfFuel.
Proof.
  intros U. induction fuel as [|f IH]; intros fs queue texts files HQ HU HT ND Hlen; cbn [bfs];
    pose proof (drop_visited_spec _ texts queue) as DV;
    destruct (drop_visited texts queue) as [|cur q]; try (cbn [snd]; discriminate).
  - exfalso. destruct DV as [Hnew [Hin _]].
    assert (NoDup (cur :: keys texts)) as ND1 by (constructor; assumption).
    assert (incl (cur :: keys texts) U) as I1 by (intros x [E|I]; [subst; apply HQ; exact Hin | apply HT; exact I]).
    pose proof (NoDup_incl_length ND1 I1) as L. cbn [length] in L. unfold keys in L. rewrite map_length in L. lia.
  - destruct DV as [Hnew [Hin [Hq Hsub]]].
    destruct (fs_read W fs cur) as [text|] eqn:Rd; [|cbn [snd]; discriminate].
    destruct (parse W text) as [m|] eqn:Pa; [|cbn [snd]; discriminate].
    destruct (include_paths W cur m) as [ps|e] eqn:Inc.
    2:{ cbn [snd]. intro E. inversion E; subst. exact (include_paths_of_not_oof _ _ Inc). }
    cbv zeta.
    match goal with |- context [bfs W f fs ?a ?b ?c] =>
      pose proof (IH fs a b c) as IH'; revert IH'; destruct (bfs W f fs a b c) as [tr' r']; intro IH' end.
    cbn [snd] in *. apply IH'.
    + intros p Ip. apply in_app_or in Ip. destruct Ip as [Ip|Ip].
      * apply HQ. apply Hsub. exact Ip.
      * eapply HU; try eassumption. apply HQ. exact Hin.
    + exact HU.
    + intros k Ik. rewrite keys_app in Ik. apply in_app_or in Ik. destruct Ik as [Ik|[Ik|[]]];
        [apply HT; exact Ik | subst; apply HQ; exact Hin].
    + rewrite keys_app. cbn [keys map fst]. apply NoDup_snoc; assumption.
    + rewrite app_length. cbn [length]. unfold path in *. lia.
Qed.

(* ---- what `texts` says about the disk -------------------------------------------------------- *)
Lemma entry_keys : forall fs texts files, Forall2 (entry_ok fs) texts files -> keys texts = keys files.
Proof.
  intros fs texts files F. induction F as [|kt km texts files [E _] F IH]; [reflexivity|].
  cbn [keys map]. f_equal; [exact E | exact IH].
Qed.

Lemma entry_lookup_text : forall fs texts files k t,
  Forall2 (entry_ok fs) texts files -> lookup k texts = Some t -> fs_read W fs k = Some t.
Proof.
  intros fs texts files k t F. induction F as [|[k1 t1] km texts files [E [R P]] F IH]; cbn [lookup]; [discriminate|].
  cbn [fst snd] in *. case_str k k1.
  - intro H. inversion H; subst. exact R.
  - exact IH.
Qed.

Lemma entry_lookup_model : forall fs texts files k m,
  Forall2 (entry_ok fs) texts files -> In (k, m) files ->
  NoDup (keys texts) -> exists t, lookup k texts = Some t /\ parse W t = Some m.
Proof.
  intros fs texts files k m F. induction F as [|[k1 t1] [k2 m2] texts files [E [R P]] F IH]; intros I ND; [destruct I|].
  cbn [fst snd keys map] in *. subst k2. inversion ND as [|? ? Hn ND']; subst. destruct I as [I|I].
  - inversion I; subst. exists t1. cbn [lookup]. rewrite str_eqb_refl. auto.
  - destruct (IH I ND') as [t [L Pt]]. exists t. split; [|exact Pt]. cbn [lookup]. case_str k k1; [|exact L].
    subst. exfalso. apply Hn. change (In k1 (keys texts)). apply has_In. unfold has. rewrite L. reflexivity.
Qed.

Lemma read_raw : forall fs k t, w_translate W = false -> fs_read W fs k = Some t -> content fs (cn k) = Some t.
Proof.
  unfold fs_read, content. intros fs k t T H. rewrite T in H. destruct (traversable W fs k); [|discriminate].
  destruct (lookup (cn k) (fs_files fs)); congruence.
Qed.

Lemma write_ops_writes : forall texts files' k,
  In (OpWrite k) (write_ops texts files') -> In k (written_keys texts files').
Proof.
  intros texts files' k I. unfold write_ops in I. apply in_flat_map in I. destruct I as [km [I J]].
  apply in_app_or in J. destruct J as [J|J].
  - unfold mk_ops in J. destruct (w_guard W && is_empty (dirname W (fst km))); [destruct J|].
    destruct J as [J|[]]. discriminate.
  - destruct (will_write texts km) eqn:Wr; [|destruct J]. destruct J as [J|[]]. inversion J; subst.
    unfold written_keys, keys. apply in_map. apply filter_In. auto.
Qed.

(* ---- edit_file_recursive ---------------------------------------------------------------------- *)
(* 1. the read phase: every key is opened (and parsed) exactly once, in the order of the dict; the root
      is there and the key set is closed under include directives; texts/files describe the disk *)
Theorem visits_each_once : forall fuel fs root tr texts files,
  bfs W fuel fs [normpath W root] [] [] = (tr, EOk (texts, files)) ->
  tr = map OpRead (keys files) /\ NoDup (keys files) /\ keys texts = keys files /\
  In (normpath W root) (keys files) /\ includes_closed files (keys files) /\
  Forall2 (entry_ok fs) texts files.
Proof.
  intros fuel fs root tr texts files H.
  assert (Cl0 : includes_closed [] (keys (@nil (path * str)) ++ [normpath W root])) by (intros k m ps []).
  destruct (bfs_ok _ _ _ _ _ _ _ _ H (Forall2_nil _) (NoDup_nil _) Cl0) as [nt [nf [Et [Ef [Htr [F [ND [Cl Hq]]]]]]]].
  cbn [app] in Et, Ef. subst nt nf. pose proof (entry_keys _ _ _ F) as EK.
  rewrite <- EK. repeat split; try assumption.
  apply Hq. left. reflexivity.
Qed.

(* 2. the BFS stops on every include graph: cycles and diamonds cost nothing, fuel = |U| + 1 suffices for
      any finite set U of spellings that contains the root and is closed under the include directives *)
Theorem read_phase_terminates : forall (U : list path) fuel fs root,
  In (normpath W root) U ->
  (forall k text m ps, In k U -> fs_read W fs k = Some text -> parse W text = Some m ->
     include_paths W k m = EOk ps -> forall p, In p ps -> In p U) ->
  (length U < fuel)%nat ->
  snd (bfs W fuel fs [normpath W root] [] []) <> EErr EOutOfFuel.
Proof.
  intros U fuel fs root Hr HU Hlen. apply (bfs_terminates U); try assumption.
  - intros p [E|[]]. subst. exact Hr.
  - intros k [].
  - constructor.
  - cbn [length]. lia.
Qed.

(* 3. if the block raises - or cannot be entered - nothing is written, unlinked or created *)
Theorem raise_touches_nothing : forall fuel fs root body fs' tr r,
  edit_file_recursive W fuel fs root body = (fs', tr, r) ->
  (forall files, body files = None) ->
  fs' = fs /\ forallb is_read tr = true /\ exists e, r = EErr e.
Proof.
  unfold edit_file_recursive. intros fuel fs root body fs' tr r H Hb.
  destruct (bfs W fuel fs [normpath W root] [] []) as [tr1 [[texts files]|e]] eqn:B.
  - rewrite Hb in H. inversion H; subst. split; [reflexivity|]. split; [eapply bfs_reads; exact B | eauto].
  - inversion H; subst. split; [reflexivity|]. split; [eapply bfs_reads; exact B | eauto].
Qed.

Theorem failed_entry_touches_nothing : forall fuel fs root body tr e,
  bfs W fuel fs [normpath W root] [] [] = (tr, EErr e) ->
  edit_file_recursive W fuel fs root body = (fs, tr, EErr e) /\ forallb is_read tr = true.
Proof.
  unfold edit_file_recursive. intros fuel fs root body tr e B. rewrite B. split; [reflexivity|].
  eapply bfs_reads. exact B.
Qed.

(* 4. a completed block, decomposed *)
Definition completed fuel fs root (body : body_t W) texts files files' fs' tr : Prop :=
  exists tr1 tr2,
    bfs W fuel fs [normpath W root] [] [] = (tr1, EOk (texts, files)) /\ body files = Some files' /\
    exit_phase W fs texts files' = (fs', tr2, EOk tt) /\ tr = tr1 ++ tr2.

Lemma completed_inv : forall fuel fs root body fs' tr,
  edit_file_recursive W fuel fs root body = (fs', tr, EOk tt) ->
  exists texts files files', completed fuel fs root body texts files files' fs' tr.
Proof.
  unfold edit_file_recursive, completed. intros fuel fs root body fs' tr H.
  destruct (bfs W fuel fs [normpath W root] [] []) as [tr1 [[texts files]|e]] eqn:B; [|discriminate].
  destruct (body files) as [files'|] eqn:Bd; [|discriminate].
  destruct (exit_phase W fs texts files') as [[fs2 tr2] r2] eqn:X. inversion H; subst.
  exists texts, files, files', tr1, tr2. auto.
Qed.

(* 5. the file-system calls of a completed block are exactly: one read per key, one unlink per removed
      key, then per entry of the dict the makedirs and - only if the printed text differs - one write;
      removed entries are gone, every entry holds what the loop decided, nothing else changed *)
Theorem completed_spec : forall fuel fs root body texts files files' fs' tr,
  completed fuel fs root body texts files files' fs' tr ->
  alias_free texts files' ->
  tr = map OpRead (keys files) ++ map OpUnlink (removed_keys W texts files') ++ write_ops texts files' /\
  (forall k, In k (removed_keys W texts files') -> content fs' (cn k) = None) /\
  (forall k m, In (k, m) files' ->
     content fs' (cn k) = if will_write texts (k, m) then Some (print W m) else content fs (cn k)) /\
  (forall c, ~ In c (map cn (removed_keys W texts files' ++ written_keys texts files')) ->
     content fs' c = content fs c).
Proof.
  intros fuel fs root body texts files files' fs' tr [tr1 [tr2 [B [Bd [X Et]]]]] AF.
  destruct (visits_each_once _ _ _ _ _ _ B) as [Htr1 _].
  destruct (exit_phase_ok _ _ _ _ _ X AF) as [Htr2 [Hrm [Hen Hfr]]].
  split; [congruence|]. auto.
Qed.

(* 5a. an entry whose model the body did not change is not written: no write call on any spelling of
       it, same content.  (print_parse is C01 for the text that was read.) *)
Theorem unchanged_not_written : forall fuel fs root body texts files files' fs' tr k m,
  completed fuel fs root body texts files files' fs' tr -> alias_free texts files' ->
  (forall t m0, parse W t = Some m0 -> print W m0 = t) ->
  In (k, m) files -> In (k, m) files' ->
  content fs' (cn k) = content fs (cn k) /\
  (forall k', In (OpWrite k') tr -> cn k' <> cn k) /\ ~ In (OpUnlink k) tr.
Proof.
  intros fuel fs root body texts files files' fs' tr k m C AF PP I I'.
  destruct (completed_spec _ _ _ _ _ _ _ _ _ C AF) as [Htr [_ [Hen _]]].
  destruct C as [tr1 [tr2 [B [Bd [X Et]]]]].
  destruct (visits_each_once _ _ _ _ _ _ B) as [_ [ND [EK [_ [_ F]]]]].
  destruct (entry_lookup_model _ _ _ _ _ F I) as [t [L P]]; [rewrite EK; exact ND|].
  assert (Wf : will_write texts (k, m) = false).
  { unfold will_write, differs. cbn [fst snd]. rewrite L. rewrite (PP _ _ P). rewrite str_eqb_refl. reflexivity. }
  split; [rewrite (Hen _ _ I'), Wf; reflexivity|].
  unfold alias_free in AF. rewrite map_app in AF.
  assert (NDc : NoDup (map cn (keys files'))) by (eapply NoDup_app_r; exact AF).
  assert (Ik : In k (keys files')) by (apply in_map_iff; exists (k, m); auto).
  split.
  - intros k' Iw E. rewrite Htr in Iw. apply in_app_or in Iw. destruct Iw as [Iw|Iw];
      [apply in_map_iff in Iw; destruct Iw as [? [? _]]; discriminate|].
    apply in_app_or in Iw. destruct Iw as [Iw|Iw]; [apply in_map_iff in Iw; destruct Iw as [? [? _]]; discriminate|].
    apply write_ops_writes in Iw. pose proof (written_keys_incl _ _ _ Iw) as Ik'.
    assert (k' = k) by (eapply NoDup_map_inj_on; eassumption). subst k'.
    unfold written_keys, keys in Iw. apply in_map_iff in Iw. destruct Iw as [[k2 m2] [E2 Iw]].
    apply filter_In in Iw. destruct Iw as [I2 W2]. cbn [fst] in E2. subst k2.
    assert (m2 = m).
    { pose proof (In_lookup_nodup _ _ _ (NoDup_map_keys _ _ NDc) I2) as L2.
      pose proof (In_lookup_nodup _ _ _ (NoDup_map_keys _ _ NDc) I') as L1. congruence. }
    subst m2. unfold will_write in W2, Wf. cbn [fst snd] in W2, Wf. congruence.
  - intro Iu. rewrite Htr in Iu. apply in_app_or in Iu. destruct Iu as [Iu|Iu];
      [apply in_map_iff in Iu; destruct Iu as [? [? _]]; discriminate|].
    apply in_app_or in Iu. destruct Iu as [Iu|Iu].
    + apply in_map_iff in Iu. destruct Iu as [k2 [E2 Iu]]. inversion E2; subst.
      apply removed_keys_spec in Iu. tauto.
    + unfold write_ops in Iu. apply in_flat_map in Iu. destruct Iu as [km [_ J]].
      apply in_app_or in J. destruct J as [J|J].
      * unfold mk_ops in J. destruct (w_guard W && is_empty (dirname W (fst km))); [destruct J|].
        destruct J as [J|[]]. discriminate.
      * destruct (will_write texts km); [|destruct J]. destruct J as [J|[]]. discriminate.
Qed.

(* 5b. a changed entry holds exactly the printed model *)
Theorem changed_exact : forall fuel fs root body texts files files' fs' tr k m t,
  completed fuel fs root body texts files files' fs' tr -> alias_free texts files' ->
  In (k, m) files' -> lookup k texts = Some t -> print W m <> t ->
  content fs' (cn k) = Some (print W m).
Proof.
  intros fuel fs root body texts files files' fs' tr k m t C AF I L N.
  destruct (completed_spec _ _ _ _ _ _ _ _ _ C AF) as [_ [_ [Hen _]]].
  rewrite (Hen _ _ I). unfold will_write, differs. cbn [fst snd]. rewrite L.
  apply str_eqb_neq in N. rewrite N. reflexivity.
Qed.

(* 5c. ... and when files are opened without newline translation, EVERY entry of the dict holds exactly
       the printed model afterwards, byte for byte: the text the parser saw is the content of the disk,
       so whatever the printer reproduces unchanged (C01/C03) - carriage returns included - is unchanged *)
Theorem every_entry_printed_exactly : forall fuel fs root body texts files files' fs' tr k m,
  completed fuel fs root body texts files files' fs' tr -> alias_free texts files' ->
  w_translate W = false ->
  In (k, m) files' -> content fs' (cn k) = Some (print W m).
Proof.
  intros fuel fs root body texts files files' fs' tr k m C AF T I.
  destruct (completed_spec _ _ _ _ _ _ _ _ _ C AF) as [_ [_ [Hen _]]].
  destruct C as [tr1 [tr2 [B [Bd [X Et]]]]].
  destruct (visits_each_once _ _ _ _ _ _ B) as [_ [_ [_ [_ [_ F]]]]].
  rewrite (Hen _ _ I). unfold will_write, differs. cbn [fst snd].
  destruct (lookup k texts) as [t|] eqn:L; [|reflexivity].
  case_str (print W m) t; cbn [negb]; [|reflexivity].
  rewrite E. apply read_raw; [exact T|]. eapply entry_lookup_text; eassumption.
Qed.

Theorem texts_are_disk_bytes : forall fuel fs root tr texts files k t,
  bfs W fuel fs [normpath W root] [] [] = (tr, EOk (texts, files)) -> w_translate W = false ->
  lookup k texts = Some t -> content fs (cn k) = Some t.
Proof.
  intros fuel fs root tr texts files k t B T L.
  destruct (visits_each_once _ _ _ _ _ _ B) as [_ [_ [_ [_ [_ F]]]]].
  apply read_raw; [exact T|]. eapply entry_lookup_text; eassumption.
Qed.

(* 5d. entries removed from the dict are unlinked; 5e. new entries are created *)
Theorem removed_unlinked : forall fuel fs root body texts files files' fs' tr k,
  completed fuel fs root body texts files files' fs' tr -> alias_free texts files' ->
  In k (keys files) -> ~ In k (keys files') ->
  content fs' (cn k) = None /\ In (OpUnlink k) tr.
Proof.
  intros fuel fs root body texts files files' fs' tr k C AF I N.
  destruct (completed_spec _ _ _ _ _ _ _ _ _ C AF) as [Htr [Hrm _]].
  destruct C as [tr1 [tr2 [B [Bd [X Et]]]]].
  destruct (visits_each_once _ _ _ _ _ _ B) as [_ [_ [EK _]]].
  assert (R : In k (removed_keys W texts files')) by (apply removed_keys_spec; rewrite EK; auto).
  split; [apply Hrm; exact R|]. rewrite Htr. apply in_or_app. right. apply in_or_app. left. apply in_map. exact R.
Qed.

Theorem added_created : forall fuel fs root body texts files files' fs' tr k m,
  completed fuel fs root body texts files files' fs' tr -> alias_free texts files' ->
  In (k, m) files' -> ~ In k (keys files) ->
  content fs' (cn k) = Some (print W m) /\ In (OpWrite k) tr.
Proof.
  intros fuel fs root body texts files files' fs' tr k m C AF I N.
  destruct (completed_spec _ _ _ _ _ _ _ _ _ C AF) as [Htr [_ [Hen _]]].
  destruct C as [tr1 [tr2 [B [Bd [X Et]]]]].
  destruct (visits_each_once _ _ _ _ _ _ B) as [_ [_ [EK _]]].
  assert (L : lookup k texts = None).
  { destruct (lookup k texts) eqn:L; [|reflexivity]. exfalso. apply N. rewrite <- EK. apply has_In.
    unfold has. rewrite L. reflexivity. }
  assert (Wt : will_write texts (k, m) = true) by (unfold will_write, differs; cbn [fst snd]; rewrite L; reflexivity).
  split; [rewrite (Hen _ _ I), Wt; reflexivity|].
  rewrite Htr. apply in_or_app. right. apply in_or_app. right. unfold write_ops. apply in_flat_map.
  exists (k, m). split; [exact I|]. apply in_or_app. right. rewrite Wt. left. reflexivity.
Qed.

(* 5f. no file outside the removed and rewritten entries is touched *)
Theorem nothing_else_touched : forall fuel fs root body texts files files' fs' tr c,
  completed fuel fs root body texts files files' fs' tr -> alias_free texts files' ->
  ~ In c (map cn (removed_keys W texts files' ++ written_keys texts files')) ->
  content fs' c = content fs c.
Proof.
  intros fuel fs root body texts files files' fs' tr c C AF N.
  destruct (completed_spec _ _ _ _ _ _ _ _ _ C AF) as [_ [_ [_ Hfr]]]. apply Hfr. exact N.
Qed.

(* 6. with the guard, a key without directory part never reaches os.makedirs *)
Theorem bare_key_no_makedirs : forall k,
  w_guard W = true -> dirname W k = [] -> mk_ops k = [].
Proof. intros k G D. unfold mk_ops. rewrite G, D. reflexivity. Qed.

(* ---- re-keying: an entry removed under one spelling and re-added under another -------------------
   alias_free forbids it, so it gets its own theorem.  Nothing is assumed about aliasing between removed
   and kept keys: what makes it true is the ORDER of the calls - all unlinks, then all writes. *)
Lemma write_ops_no_unlink : forall texts files' k, ~ In (OpUnlink k) (write_ops texts files').
Proof.
  intros texts files' k I. unfold write_ops in I. apply in_flat_map in I. destruct I as [km [_ J]].
  apply in_app_or in J. destruct J as [J|J].
  - unfold mk_ops in J. destruct (w_guard W && is_empty (dirname W (fst km))); [destruct J|].
    destruct J as [J|[]]. discriminate.
  - destruct (will_write texts km); [|destruct J]. destruct J as [J|[]]. discriminate.
Qed.

Lemma exit_phase_weak : forall texts files' fs fs' tr,
  exit_phase W fs texts files' = (fs', tr, EOk tt) ->
  tr = map OpUnlink (removed_keys W texts files') ++ write_ops texts files' /\
  (NoDup (map cn (keys files')) -> forall k m, In (k, m) files' -> will_write texts (k, m) = true ->
     content fs' (cn k) = Some (print W m)).
Proof.
  unfold exit_phase. intros texts files' fs fs' tr H.
  destruct (unlink_all W fs (removed_keys W texts files')) as [[fs1 tr1] r1] eqn:U.
  destruct r1 as [[]|e]; [|discriminate].
  destruct (write_all W fs1 texts files') as [[fs2 tr2] r2] eqn:Wr. inversion H; subst.
  destruct (unlink_all_ok _ _ _ _ U) as [Ht1 _]. destruct (write_all_ok _ _ _ _ _ Wr) as [Ht2 _].
  split; [congruence|]. intros ND k m I Wt. rewrite (write_all_entries _ _ _ _ _ Wr ND _ _ I), Wt. reflexivity.
Qed.

(* the call sequence of a completed block, with no hypothesis on aliasing *)
Theorem completed_trace : forall fuel fs root body texts files files' fs' tr,
  completed fuel fs root body texts files files' fs' tr ->
  tr = map OpRead (keys files) ++ map OpUnlink (removed_keys W texts files') ++ write_ops texts files'.
Proof.
  intros fuel fs root body texts files files' fs' tr [tr1 [tr2 [B [Bd [X Et]]]]].
  destruct (visits_each_once _ _ _ _ _ _ B) as [Htr1 _]. destruct (exit_phase_weak _ _ _ _ _ X) as [Htr2 _].
  congruence.
Qed.

Theorem rekeyed_entry_survives : forall fuel fs root body texts files files' fs' tr k k' m,
  completed fuel fs root body texts files files' fs' tr ->
  NoDup (map cn (keys files')) ->                    (* the keys that are KEPT denote distinct files *)
  In k (keys files) -> ~ In k (keys files') ->       (* k was removed from the dict ...             *)
  In (k', m) files' -> ~ In k' (keys files) ->       (* ... k' was added ...                        *)
  cn k' = cn k ->                                    (* ... and spells the same file                *)
  content fs' (cn k) = Some (print W m) /\
  exists pre post, tr = pre ++ post /\ In (OpUnlink k) pre /\ In (OpWrite k') post /\
    (forall p, ~ In (OpWrite p) pre) /\ (forall p, ~ In (OpUnlink p) post).
Proof.
  intros fuel fs root body texts files files' fs' tr k k' m C ND Ik Nk I' Nk' E.
  pose proof (completed_trace _ _ _ _ _ _ _ _ _ C) as Htr.
  destruct C as [tr1 [tr2 [B [Bd [X Et]]]]].
  destruct (visits_each_once _ _ _ _ _ _ B) as [_ [_ [EK _]]].
  destruct (exit_phase_weak _ _ _ _ _ X) as [_ Hen].
  assert (L : lookup k' texts = None).
  { destruct (lookup k' texts) eqn:L; [|reflexivity]. exfalso. apply Nk'. rewrite <- EK. apply has_In.
    unfold has. rewrite L. reflexivity. }
  assert (Wt : will_write texts (k', m) = true) by (unfold will_write, differs; cbn [fst snd]; rewrite L; reflexivity).
  split; [rewrite <- E; apply (Hen ND _ _ I' Wt)|].
  exists (map OpRead (keys files) ++ map OpUnlink (removed_keys W texts files')), (write_ops texts files').
  split; [rewrite Htr, app_assoc; reflexivity|]. split; [|split; [|split]].
  - apply in_or_app. right. apply in_map. apply removed_keys_spec. rewrite EK. auto.
  - unfold write_ops. apply in_flat_map. exists (k', m). split; [exact I'|]. apply in_or_app. right.
    rewrite Wt. left. reflexivity.
  - intros p J. apply in_app_or in J. destruct J as [J|J]; apply in_map_iff in J; destruct J as [? [? _]]; discriminate.
  - intro p. apply write_ops_no_unlink.
Qed.

(* ---- edit_file -------------------------------------------------------------------------------- *)
Theorem edit_file_spec : forall fs p body fs' tr r,
  edit_file W fs p body = (fs', tr, r) ->
  match r with
  | EErr _ => fs' = fs /\ (forall o, In o tr -> o = OpRead (ppath W p) \/ (o = OpWrite (ppath W p) /\ r = EErr EOSError))
  | EOk _ => exists text m m', fs_read W fs (ppath W p) = Some text /\ parse W text = Some m /\ body m = Some m' /\
      if str_eqb (print W m') text then fs' = fs /\ tr = [OpRead (ppath W p)]
      else tr = [OpRead (ppath W p); OpWrite (ppath W p)] /\
           content fs' (cn (ppath W p)) = Some (print W m') /\
           forall c, c <> cn (ppath W p) -> content fs' c = content fs c
  end.
Proof.
  unfold edit_file. intros fs p body fs' tr r H.
  destruct (fs_read W fs (ppath W p)) as [text|] eqn:Rd.
  2:{ inversion H; subst. split; [reflexivity|]. intros o [E|[]]. left. auto. }
  destruct (parse W text) as [m|] eqn:Pa.
  2:{ inversion H; subst. split; [reflexivity|]. intros o [E|[]]. left. auto. }
  destruct (body m) as [m'|] eqn:Bd.
  2:{ inversion H; subst. split; [reflexivity|]. intros o [E|[]]. left. auto. }
  destruct (str_eqb (print W m') text) eqn:Eq; cbn [negb] in H.
  - inversion H; subst. exists text, m, m'. rewrite Eq. repeat split; auto.
  - destruct (fs_write W fs (ppath W p) (print W m')) as [fs2|] eqn:Wr; inversion H; subst.
    + exists text, m, m'. rewrite Eq. destruct (fs_write_spec _ _ _ _ Wr) as [_ [A B]]. repeat split; auto.
    + split; [reflexivity|]. intros o [E|[E|[]]]; [left | right]; auto.
Qed.

Theorem edit_file_raise_touches_nothing : forall fs p body fs' tr r,
  edit_file W fs p body = (fs', tr, r) -> (forall m, body m = None) ->
  fs' = fs /\ forallb is_read tr = true /\ exists e, r = EErr e.
Proof.
  unfold edit_file. intros fs p body fs' tr r H Hb.
  destruct (fs_read W fs (ppath W p)) as [text|]; [|inversion H; subst; cbn; eauto].
  destruct (parse W text) as [m|]; [|inversion H; subst; cbn; eauto].
  rewrite Hb in H. inversion H; subst; cbn; eauto.
Qed.

(* any two spellings of the same file give the same disk and the same outcome *)
Theorem edit_file_spelling : forall fs p p' body,
  cn (ppath W p) = cn (ppath W p') ->
  traversable W fs (ppath W p) = traversable W fs (ppath W p') ->      (* both spellings resolve (or neither) *)
  fst (fst (edit_file W fs p body)) = fst (fst (edit_file W fs p' body)) /\
  snd (edit_file W fs p body) = snd (edit_file W fs p' body).
Proof.
  intros fs p p' body E T. unfold edit_file, fs_read, fs_write. rewrite E, T.
  destruct (traversable W fs (ppath W p')); [|split; reflexivity].
  destruct (lookup (cn (ppath W p')) (fs_files fs)) as [raw|]; [|split; reflexivity].
  destruct (parse W _) as [m|]; [|split; reflexivity].
  destruct (body m) as [m'|]; [|split; reflexivity].
  destruct (negb (str_eqb _ _)); [|split; reflexivity].
  destruct (_ && _); split; reflexivity.
Qed.

End Proofs.
