(* C16 - the read phase visits EXACTLY the spellings reachable from the root through include directives
   (the converse of the closure statement of visits_each_once), in discovery order.  Arbitrary world. *)
From AB Require Import Prelude Editor EditorProofs.

Lemma list_eq_snoc_split : forall A (l : list A) x pre y post,
  l ++ [x] = pre ++ y :: post ->
  (exists post', l = pre ++ y :: post' /\ post = post' ++ [x]) \/ (l = pre /\ x = y /\ post = []).
Proof.
  intros A l x pre. revert l. induction pre as [|a pre IH]; intros l y post E.
  - destruct l as [|b l]; cbn [app] in E.
    + inversion E; subst. right. auto.
    + inversion E; subst. left. exists l. split; reflexivity.
  - destruct l as [|b l]; cbn [app] in E.
    + inversion E as [[E1 E2]]. destruct pre; discriminate.
    + inversion E as [[E1 E2]]. subst b. destruct (IH l y post E2) as [[post' [E3 E4]]|[E3 [E4 E5]]].
      * left. exists post'. subst. split; reflexivity.
      * right. subst. auto.
Qed.

Section Reach.
Variable W : world.

(* p is reachable from r on the disk fs: r itself; or a spelling that the include directives of a reachable,
   readable, parsable file expand to (include_paths: dirname + join + glob + normpath, as bfs computes them) *)
Inductive reach (fs : fsys) (r : path) : path -> Prop :=
| reach_root : reach fs r r
| reach_step : forall k t m ps p,
    reach fs r k -> fs_read W fs k = Some t -> parse W t = Some m -> include_paths W k m = EOk ps ->
    In p ps -> reach fs r p.

Lemma bfs_only_reach : forall r fuel fs queue texts files tr texts' files',
  bfs W fuel fs queue texts files = (tr, EOk (texts', files')) ->
  (forall p, In p (keys texts) -> reach fs r p) ->
  (forall p, In p queue -> reach fs r p) ->
  forall p, In p (keys texts') -> reach fs r p.
Proof.
  intros r. induction fuel as [|f IH]; intros fs queue texts files tr texts' files' H HT HQ; cbn [bfs] in H;
    pose proof (drop_visited_spec _ texts queue) as DV.
  - destruct (drop_visited texts queue) as [|cur q]; [|discriminate]. inversion H; subst. exact HT.
  - destruct (drop_visited texts queue) as [|cur q].
    + inversion H; subst. exact HT.
    + destruct DV as [Hnew [Hin [Hq Hsub]]].
      destruct (fs_read W fs cur) as [text|] eqn:Rd; [|discriminate].
      destruct (parse W text) as [m|] eqn:Pa; [|discriminate].
      destruct (include_paths W cur m) as [ps|e] eqn:Inc; [|discriminate].
      destruct (bfs W f fs (q ++ ps) (texts ++ [(cur, text)]) (files ++ [(cur, m)])) as [tr' r'] eqn:R.
      inversion H; subst. clear H.
      eapply IH; [exact R| |].
      * intros p Ip. rewrite keys_app in Ip. apply in_app_or in Ip. destruct Ip as [Ip|[Ip|[]]].
        -- apply HT. exact Ip.
        -- cbn [fst] in Ip. subst p. apply HQ. exact Hin.
      * intros p Ip. apply in_app_or in Ip. destruct Ip as [Ip|Ip].
        -- apply HQ. apply Hsub. exact Ip.
        -- eapply reach_step; [apply HQ; exact Hin|exact Rd|exact Pa|exact Inc|exact Ip].
Qed.

(* every visited key is reachable *)
Theorem only_reachable : forall fuel fs root tr texts files,
  bfs W fuel fs [normpath W root] [] [] = (tr, EOk (texts, files)) ->
  forall k, In k (keys files) -> reach fs (normpath W root) k.
Proof.
  intros fuel fs root tr texts files H k Ik.
  destruct (visits_each_once W _ _ _ _ _ _ H) as [_ [_ [EK _]]].
  rewrite <- EK in Ik.
  eapply bfs_only_reach; [exact H| | |exact Ik].
  - intros p [].
  - intros p [E|[]]. subst p. apply reach_root.
Qed.

Lemma entry_model : forall fs texts files k t m,
  Forall2 (entry_ok W fs) texts files -> In k (keys files) ->
  fs_read W fs k = Some t -> parse W t = Some m -> In (k, m) files.
Proof.
  intros fs texts files k t m F. induction F as [|kt km texts files E F IH]; intros Ik Rd Pa.
  - destruct Ik.
  - cbn [keys map] in Ik. destruct Ik as [Ek|Ik].
    + left. destruct E as [E1 [E2 E3]]. destruct kt as [k1 t1], km as [k2 m2]. cbn [fst snd] in *. subst.
      rewrite Rd in E2. inversion E2; subst. rewrite Pa in E3. inversion E3; subst. reflexivity.
    + right. apply IH; assumption.
Qed.

(* the visited keys are exactly the reachable spellings *)
Theorem visits_exactly_reachable : forall fuel fs root tr texts files,
  bfs W fuel fs [normpath W root] [] [] = (tr, EOk (texts, files)) ->
  forall k, In k (keys files) <-> reach fs (normpath W root) k.
Proof.
  intros fuel fs root tr texts files H k. split; [apply (only_reachable _ _ _ _ _ _ H)|].
  destruct (visits_each_once W _ _ _ _ _ _ H) as [_ [_ [_ [Hroot [Cl F]]]]].
  intro R. induction R as [|k t m ps p Rk IHk Rd Pa Inc Ip].
  - exact Hroot.
  - eapply Cl; [|exact Inc|exact Ip]. eapply entry_model; eassumption.
Qed.

(* discovery order: every visited key other than the root comes after a visited key whose include directives
   expand to it (dict order of `files` = order in which the caller's mapping lists the models) *)
Definition discovered (files : list (path * model W)) (root : path) : Prop :=
  forall pre k m post, files = pre ++ (k, m) :: post -> k = root \/
    exists k0 m0 ps, In (k0, m0) pre /\ include_paths W k0 m0 = EOk ps /\ In k ps.

Lemma bfs_order : forall r fuel fs queue texts files tr texts' files',
  bfs W fuel fs queue texts files = (tr, EOk (texts', files')) ->
  discovered files r ->
  (forall p, In p queue -> p = r \/ exists k0 m0 ps, In (k0, m0) files /\ include_paths W k0 m0 = EOk ps /\ In p ps) ->
  discovered files' r.
Proof.
  intros r. induction fuel as [|f IH]; intros fs queue texts files tr texts' files' H HD HQ; cbn [bfs] in H;
    pose proof (drop_visited_spec _ texts queue) as DV.
  - destruct (drop_visited texts queue) as [|cur q]; [|discriminate]. inversion H; subst. exact HD.
  - destruct (drop_visited texts queue) as [|cur q].
    + inversion H; subst. exact HD.
    + destruct DV as [Hnew [Hin [Hq Hsub]]].
      destruct (fs_read W fs cur) as [text|] eqn:Rd; [|discriminate].
      destruct (parse W text) as [m|] eqn:Pa; [|discriminate].
      destruct (include_paths W cur m) as [ps|e] eqn:Inc; [|discriminate].
      destruct (bfs W f fs (q ++ ps) (texts ++ [(cur, text)]) (files ++ [(cur, m)])) as [tr' r'] eqn:R.
      inversion H; subst. clear H.
      eapply IH; [exact R| |].
      * intros pre k m1 post E.
        destruct (list_eq_snoc_split _ files (cur, m) pre (k, m1) post E) as [[post' [E1 E2]]|[E1 [E2 E3]]].
        -- apply (HD pre k m1 post'). exact E1.
        -- inversion E2; subst. destruct (HQ _ Hin) as [A|A]; [left; exact A|right; exact A].
      * intros p Ip. apply in_app_or in Ip. destruct Ip as [Ip|Ip].
        -- destruct (HQ _ (Hsub _ Ip)) as [A|[k0 [m0 [ps0 [A [B C]]]]]]; [left; exact A|].
           right. exists k0, m0, ps0. split; [apply in_or_app; left; exact A|]. split; assumption.
        -- right. exists cur, m, ps. split; [apply in_or_app; right; left; reflexivity|]. split; assumption.
Qed.

Theorem discovery_order : forall fuel fs root tr texts files,
  bfs W fuel fs [normpath W root] [] [] = (tr, EOk (texts, files)) ->
  discovered files (normpath W root) /\ exists m rest, files = (normpath W root, m) :: rest.
Proof.
  intros fuel fs root tr texts files H. split.
  - eapply bfs_order; [exact H| |].
    + intros pre k m post E. destruct pre; discriminate.
    + intros p [E|[]]. left. symmetry. exact E.
  - assert (DV : drop_visited (@nil (path * str)) [normpath W root] = [normpath W root]) by reflexivity.
    destruct fuel as [|f]; cbn [bfs] in H; rewrite DV in H; [discriminate|].
    destruct (fs_read W fs (normpath W root)) as [text|] eqn:Rd; [|discriminate].
    destruct (parse W text) as [m|] eqn:Pa; [|discriminate].
    destruct (include_paths W (normpath W root) m) as [ps|e] eqn:Inc; [|discriminate].
    cbn [app] in H.
    destruct (bfs W f fs ps [(normpath W root, text)] [(normpath W root, m)]) as [tr' r'] eqn:R.
    inversion H; subst. clear H.
    destruct (bfs_ok W _ _ _ _ _ _ _ _ R) as [nt [nf [_ [Ef _]]]].
    + constructor; [|constructor]. unfold entry_ok. cbn [fst snd]. auto.
    + cbn [keys map fst]. constructor; [intros []|constructor].
    + intros k m0 ps0 [I|[]] E p Ip. inversion I; subst. rewrite Inc in E. inversion E; subst.
      cbn [keys map fst app]. right. exact Ip.
    + exists m, nf. exact Ef.
Qed.

End Reach.
