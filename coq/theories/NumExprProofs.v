(* C13 proofs about NumExpr.v. *)
From AB Require Import Prelude NumExpr.

Scheme atom_mut := Induction for atom Sort Prop
  with mul_mut := Induction for mul Sort Prop
  with add_mut := Induction for add Sort Prop.
Combined Scheme tree_mutind from atom_mut, mul_mut, add_mut.

(* ---------------------------------------------------------------------------------------- *)
(* lexemes of rendered trees                                                                  *)
Lemma sig_app : forall a b, significant (a ++ b) = significant a ++ significant b.
Proof.
  induction a as [|t a IH]; intros b; [reflexivity|].
  destruct t; cbn [app significant]; rewrite ?IH; reflexivity.
Qed.

Lemma sig_ws : forall g, significant (ws g) = [].
Proof. destruct g; reflexivity. Qed.

Lemma text_app : forall a b, text (a ++ b) = text a ++ text b.
Proof.
  induction a as [|t a IH]; intros b; [reflexivity|].
  cbn [app text]. rewrite IH, app_assoc. reflexivity.
Qed.

Lemma text_ws : forall g, text (ws g) = g.
Proof. destruct g; cbn; rewrite ?app_nil_r; reflexivity. Qed.

(* lexemes do not depend on the spacing *)
Lemma sig_strip :
  (forall a, significant (ra (sa a)) = significant (ra a)) /\
  (forall m, significant (rm (sm m)) = significant (rm m)) /\
  (forall e, significant (re (se e)) = significant (re e)).
Proof.
  apply tree_mutind; intros; cbn [sa sm se ra rm re ws app];
    repeat (rewrite ?sig_app, ?sig_ws; cbn [significant app]); congruence.
Qed.

Lemma strip_idem :
  (forall a, sa (sa a) = sa a) /\ (forall m, sm (sm m) = sm m) /\ (forall e, se (se e) = se e).
Proof. apply tree_mutind; intros; cbn [sa sm se]; congruence. Qed.

(* ---------------------------------------------------------------------------------------- *)
(* fuel that the descent needs on a tree (fa/fm/fe) and what its loop has left (lm/le)        *)
Fixpoint fa (a : atom) : nat :=
  match a with
  | Num _ => 1
  | Paren _ e _ => 1 + fe e
  | Unary _ _ a' => 1 + fa a'
  end
with fm (m : mul) : nat :=
  match m with
  | MAtom a => 2 + fa a
  | MOp m' _ _ _ a => fm m' + fa a + 1
  end
with fe (e : add) : nat :=
  match e with
  | AMul m => 2 + fm m
  | AOp e' _ _ _ m => fe e' + fm m + 1
  end.

Fixpoint lm (m : mul) : nat :=
  match m with MAtom a => fa a | MOp m' _ _ _ a => lm m' + fa a end.
Fixpoint le (e : add) : nat :=
  match e with AMul m => fm m | AOp e' _ _ _ m => le e' + fm m end.

Definition no_star (r : list lexeme) : bool := match r with LStar _ :: _ => false | _ => true end.
Definition no_op (r : list lexeme) : bool :=
  match r with LStar _ :: _ => false | LSign _ :: _ => false | _ => true end.

Lemma mul_loop_stop : forall n acc r, no_star r = true -> mul_loop (S n) acc r = Some (acc, r).
Proof. intros n acc [|[]] H; cbn in *; congruence. Qed.

Lemma add_loop_stop : forall n acc r, no_op r = true -> add_loop (S n) acc r = Some (acc, r).
Proof. intros n acc [|[]] H; cbn in *; congruence. Qed.

Lemma no_op_no_star : forall r, no_op r = true -> no_star r = true.
Proof. intros [|[]]; cbn; congruence. Qed.

(* the descent on the lexemes of a tree, followed by anything that cannot continue it *)
Definition P_atom (a : atom) := forall k r,
  parse_atom (fa a + k) (significant (ra a) ++ r) = Some (sa a, r).
Definition P_mul (m : mul) := forall k r,
  parse_mul (fm m + k) (significant (rm m) ++ r) = mul_loop (S (lm m + k)) (sm m) r.
Definition P_add (e : add) := forall k r, no_star r = true ->
  parse_add (fe e + k) (significant (re e) ++ r) = add_loop (S (le e + k)) (se e) r.

Lemma parse_mul_done : forall m, P_mul m -> forall k r, no_star r = true ->
  parse_mul (fm m + k) (significant (rm m) ++ r) = Some (sm m, r).
Proof. intros m H k r Hr. rewrite H. apply mul_loop_stop, Hr. Qed.

Lemma parse_add_done : forall e, P_add e -> forall k r, no_op r = true ->
  parse_add (fe e + k) (significant (re e) ++ r) = Some (se e, r).
Proof.
  intros e H k r Hr. rewrite H by (apply no_op_no_star, Hr). apply add_loop_stop, Hr.
Qed.

Lemma parse_complete : (forall a, P_atom a) /\ (forall m, P_mul m) /\ (forall e, P_add e).
Proof.
  apply tree_mutind.
  - (* Num *) intros s k r. reflexivity.
  - (* Paren *)
    intros g1 e IHe g2 k r.
    cbn [ra fa sa]. repeat (rewrite ?sig_app, ?sig_ws; cbn [significant app]).
    rewrite <- app_assoc. cbn [app].
    change (1 + fe e + k)%nat with (S (fe e + k)). cbn [parse_atom].
    rewrite (parse_add_done e IHe k (LRp :: r)) by reflexivity. reflexivity.
  - (* Unary *)
    intros b g a IHa k r.
    cbn [ra fa sa]. repeat (rewrite ?sig_app, ?sig_ws; cbn [significant app]).
    change (1 + fa a + k)%nat with (S (fa a + k)). cbn [parse_atom].
    rewrite IHa. reflexivity.
  - (* MAtom *)
    intros a IHa k r. cbn [rm fm sm lm].
    change (2 + fa a + k)%nat with (S (S (fa a + k))).
    cbn [parse_mul].
    replace (S (fa a + k)) with (fa a + S k)%nat by lia.
    rewrite IHa. replace (fa a + S k)%nat with (S (fa a + k)) by lia. reflexivity.
  - (* MOp *)
    intros m IHm g1 d g2 a IHa k r. cbn [rm fm sm lm].
    repeat (rewrite ?sig_app, ?sig_ws; cbn [significant app]).
    rewrite <- app_assoc. cbn [app].
    replace (fm m + fa a + 1 + k)%nat with (fm m + (fa a + 1 + k))%nat by lia.
    rewrite IHm. cbn [mul_loop].
    replace (lm m + (fa a + 1 + k))%nat with (fa a + (lm m + 1 + k))%nat by lia.
    rewrite IHa.
    replace (fa a + (lm m + 1 + k))%nat with (S (lm m + fa a + k)) by lia. reflexivity.
  - (* AMul *)
    intros m IHm k r Hr. cbn [re fe se le].
    change (2 + fm m + k)%nat with (S (S (fm m + k))).
    cbn [parse_add].
    replace (S (fm m + k)) with (fm m + S k)%nat by lia.
    rewrite (parse_mul_done m IHm (S k) r Hr).
    replace (fm m + S k)%nat with (S (fm m + k)) by lia. reflexivity.
  - (* AOp *)
    intros e IHe g1 b g2 m IHm k r Hr. cbn [re fe se le].
    repeat (rewrite ?sig_app, ?sig_ws; cbn [significant app]).
    rewrite <- app_assoc. cbn [app].
    replace (fe e + fm m + 1 + k)%nat with (fe e + (fm m + 1 + k))%nat by lia.
    rewrite IHe by reflexivity. cbn [add_loop].
    replace (le e + (fm m + 1 + k))%nat with (fm m + (le e + 1 + k))%nat by lia.
    rewrite (parse_mul_done m IHm _ r Hr).
    replace (fm m + (le e + 1 + k))%nat with (S (le e + fm m + k)) by lia. reflexivity.
Qed.

(* five units of fuel per lexeme are enough *)
Lemma fuel_bound :
  (forall a, (fa a + 4 <= 5 * length (significant (ra a)))%nat) /\
  (forall m, (fm m + 2 <= 5 * length (significant (rm m)))%nat) /\
  (forall e, (fe e <= 5 * length (significant (re e)))%nat).
Proof.
  apply tree_mutind; intros; cbn [ra rm re fa fm fe];
    repeat (rewrite ?sig_app, ?sig_ws, ?app_length; cbn [significant app length]); lia.
Qed.

(* C13, precedence and associativity: the printed tokens of ANY tree, with any spacing, denote
   that tree (with the spacing forgotten) *)
Theorem parse_print : forall e, parse_top (significant (re e)) = Some (se e).
Proof.
  intros e. unfold parse_top, fuel_of.
  destruct parse_complete as (_ & _ & HE).
  destruct fuel_bound as (_ & _ & HB).
  specialize (HB e).
  replace (5 * length (significant (re e)))%nat
    with (fe e + (5 * length (significant (re e)) - fe e))%nat by lia.
  rewrite <- (app_nil_r (significant (re e))) at 2.
  rewrite (parse_add_done e (HE e) _ []) by reflexivity. reflexivity.
Qed.

Corollary parse_print_nospace : forall e, se e = e -> parse_top (significant (re e)) = Some e.
Proof. intros e H. rewrite parse_print. congruence. Qed.

(* a parsed tree has no spacing, and printing it gives back the lexemes it was parsed from
   (so parse_top is injective on its domain: no two texts share a tree)                        *)

(* ---------------------------------------------------------------------------------------- *)
Section Arith.
  Variable D : Type.
  Variables dadd dsub dmul ddiv : D -> D -> D.
  Variables dneg dabs : D -> D.
  Variable dltz : D -> bool.
  Variable of_int : Z -> D.
  Variable num_value : str -> D.
  Variable num_text : D -> str.

  Notation va := (va D dadd dsub dmul ddiv dneg num_value).
  Notation vm := (vm D dadd dsub dmul ddiv dneg num_value).
  Notation vadd := (vadd D dadd dsub dmul ddiv dneg num_value).
  Notation value := (value D dadd dsub dmul ddiv dneg num_value).
  Notation eval_atom := (eval_atom D dadd dsub dmul ddiv dneg num_value).
  Notation eval_mul := (eval_mul D dadd dsub dmul ddiv dneg num_value).
  Notation eval_add := (eval_add D dadd dsub dmul ddiv dneg num_value).
  Notation eval_mul_loop := (eval_mul_loop D dadd dsub dmul ddiv dneg num_value).
  Notation eval_add_loop := (eval_add_loop D dadd dsub dmul ddiv dneg num_value).
  Notation eval_top := (eval_top D dadd dsub dmul ddiv dneg num_value).
  Notation add_step := (add_step D dadd dsub dmul ddiv dneg num_value).
  Notation mul_step := (mul_step D dadd dsub dmul ddiv dneg num_value).
  Notation from_value := (from_value D dabs dltz num_text).
  Notation coerce := (coerce D dabs dltz of_int num_text).
  Notation dunder := (dunder D dabs dltz of_int num_text).
  Notation arith := (arith D dadd dsub dmul ddiv).
  Notation apply_step := (apply_step D dabs dltz of_int num_text).
  Notation apply_chain := (apply_chain D dabs dltz of_int num_text).
  Notation arith_step := (arith_step D dadd dsub dmul ddiv dneg dabs dltz of_int num_value num_text).

  (* unfolding equations (cbn does not refold the mutual fixpoint) *)
  Lemma va_Num : forall s, va (Num s) = num_value s. Proof. reflexivity. Qed.
  Lemma va_Paren : forall g1 e g2, va (Paren g1 e g2) = vadd e. Proof. reflexivity. Qed.
  Lemma va_Unary : forall b g a, va (Unary b g a) = if b then dneg (va a) else va a.
  Proof. destruct b; reflexivity. Qed.
  Lemma vm_MAtom : forall a, vm (MAtom a) = va a. Proof. reflexivity. Qed.
  Lemma vm_MOp : forall m g1 d g2 a,
    vm (MOp m g1 d g2 a) = if d then ddiv (vm m) (va a) else dmul (vm m) (va a).
  Proof. destruct d; reflexivity. Qed.
  Lemma vadd_AMul : forall m, vadd (AMul m) = vm m. Proof. reflexivity. Qed.
  Lemma vadd_AOp : forall e g1 b g2 m,
    vadd (AOp e g1 b g2 m) = if b then dsub (vadd e) (vm m) else dadd (vadd e) (vm m).
  Proof. destruct b; reflexivity. Qed.

  (* spacing does not matter for the value *)
  Lemma value_strip :
    (forall a, va (sa a) = va a) /\ (forall m, vm (sm m) = vm m) /\ (forall e, vadd (se e) = vadd e).
  Proof.
    apply tree_mutind; intros; cbn [sa sm se];
      rewrite ?va_Num, ?va_Paren, ?va_Unary, ?vm_MAtom, ?vm_MOp, ?vadd_AMul, ?vadd_AOp; try congruence; repeat match goal with H : _ = _ |- _ => rewrite H; clear H end; reflexivity.
  Qed.

  (* `vadd`/`vm` are the loops of NumberAddExpr.value / NumberMulExpr.value:
        value = operands[0].value; for op, operand in zip(ops, operands[1:]): value (op)= operand.value *)
  Lemma mul_operands_nonempty : forall m, mul_operands m <> [].
  Proof. destruct m; cbn; [congruence|]. destruct (mul_operands m); cbn; congruence. Qed.
  Lemma add_operands_nonempty : forall e, add_operands e <> [].
  Proof. destruct e; cbn; [congruence|]. destruct (add_operands e); cbn; congruence. Qed.

  Lemma mul_lengths : forall m, length (mul_operands m) = S (length (mul_ops m)).
  Proof. induction m; cbn; [reflexivity|]. rewrite !app_length, IHm. cbn. lia. Qed.
  Lemma add_lengths : forall e, length (add_operands e) = S (length (add_ops e)).
  Proof. induction e; cbn; [reflexivity|]. rewrite !app_length, IHe. cbn. lia. Qed.

  Lemma tl_app_ne : forall A (l : list A) x, l <> [] -> tl (l ++ [x]) = tl l ++ [x].
  Proof. destruct l; cbn; congruence. Qed.
  Lemma hd_app_ne : forall A (d : A) (l : list A) x, l <> [] -> hd d (l ++ [x]) = hd d l.
  Proof. destruct l; cbn; congruence. Qed.

  Lemma combine_snoc : forall A B (l1 : list A) (l2 : list B) a b, length l1 = length l2 ->
    combine (l1 ++ [a]) (l2 ++ [b]) = combine l1 l2 ++ [(a, b)].
  Proof.
    induction l1; destruct l2; cbn; intros; try discriminate; [reflexivity|].
    f_equal. apply IHl1. lia.
  Qed.

  Theorem value_mul_is_fold : forall m d0,
    vm m = fold_left mul_step (combine (mul_ops m) (tl (mul_operands m))) (va (hd d0 (mul_operands m))).
  Proof.
    induction m as [a|m IH g1 d g2 a]; intros d0; [reflexivity|].
    cbn [mul_operands mul_ops].
    rewrite tl_app_ne, hd_app_ne by apply mul_operands_nonempty.
    rewrite combine_snoc.
    2:{ pose proof (mul_lengths m) as L. destruct (mul_operands m); cbn in *; lia. }
    rewrite fold_left_app. cbn [fold_left]. rewrite <- IH.
    destruct d; reflexivity.
  Qed.

  Theorem value_add_is_fold : forall e d0,
    vadd e = fold_left add_step (combine (add_ops e) (tl (add_operands e))) (vm (hd d0 (add_operands e))).
  Proof.
    induction e as [m|e IH g1 b g2 m]; intros d0; [reflexivity|].
    cbn [add_operands add_ops].
    rewrite tl_app_ne, hd_app_ne by apply add_operands_nonempty.
    rewrite combine_snoc.
    2:{ pose proof (add_lengths e) as L. destruct (add_operands e); cbn in *; lia. }
    rewrite fold_left_app. cbn [fold_left]. rewrite <- IH.
    destruct b; reflexivity.
  Qed.

  (* the tree-free evaluator computes the value of the tree the parser builds: same fuel, same rest *)
  Definition lift {A} (f : A -> D) (x : option (A * list lexeme)) : option (D * list lexeme) :=
    match x with Some (a, r) => Some (f a, r) | None => None end.

  Lemma eval_is_value_of_parse : forall n,
    (forall ts, eval_atom n ts = lift va (parse_atom n ts)) /\
    (forall acc ts, eval_mul_loop n (vm acc) ts = lift vm (mul_loop n acc ts)) /\
    (forall ts, eval_mul n ts = lift vm (parse_mul n ts)) /\
    (forall acc ts, eval_add_loop n (vadd acc) ts = lift vadd (add_loop n acc ts)) /\
    (forall ts, eval_add n ts = lift vadd (parse_add n ts)).
  Proof.
    induction n as [|n (IA & IML & IM & IAL & IAD)].
    { repeat split; intros; reflexivity. }
    assert (HA : forall ts, eval_atom (S n) ts = lift va (parse_atom (S n) ts)).
    { intros ts. cbn [NumExpr.eval_atom parse_atom].
      destruct ts as [|[s|b|d| |] r]; try reflexivity.
      - rewrite IA. destruct (parse_atom n r) as [[a r']|]; [|reflexivity].
        destruct b; reflexivity.
      - rewrite IAD. destruct (parse_add n r) as [[e [|[] r']]|]; reflexivity. }
    assert (HML : forall acc ts, eval_mul_loop (S n) (vm acc) ts = lift vm (mul_loop (S n) acc ts)).
    { intros acc ts. cbn [NumExpr.eval_mul_loop mul_loop].
      destruct ts as [|[s|b|d| |] r]; try reflexivity.
      rewrite IA. destruct (parse_atom n r) as [[a r']|]; [|reflexivity].
      cbn [lift]. rewrite <- IML. destruct d; reflexivity. }
    assert (HM : forall ts, eval_mul (S n) ts = lift vm (parse_mul (S n) ts)).
    { intros ts. cbn [NumExpr.eval_mul parse_mul]. rewrite IA.
      destruct (parse_atom n ts) as [[a r]|]; [|reflexivity].
      cbn [lift]. rewrite <- IML. reflexivity. }
    assert (HAL : forall acc ts, eval_add_loop (S n) (vadd acc) ts = lift vadd (add_loop (S n) acc ts)).
    { intros acc ts. cbn [NumExpr.eval_add_loop add_loop].
      destruct ts as [|[s|b|d| |] r]; try reflexivity.
      rewrite IM. destruct (parse_mul n r) as [[m r']|]; [|reflexivity].
      cbn [lift]. rewrite <- IAL. destruct b; reflexivity. }
    assert (HAD : forall ts, eval_add (S n) ts = lift vadd (parse_add (S n) ts)).
    { intros ts. cbn [NumExpr.eval_add parse_add]. rewrite IM.
      destruct (parse_mul n ts) as [[m r]|]; [|reflexivity].
      cbn [lift]. rewrite <- IAL. reflexivity. }
    repeat split; assumption.
  Qed.

  (* C13: the value of the parsed tree is the usual evaluation of the text *)
  Theorem value_parsed : forall ts, eval_top ts = option_map vadd (parse_top ts).
  Proof.
    intros ts. unfold NumExpr.eval_top, parse_top.
    destruct (eval_is_value_of_parse (fuel_of ts)) as (_ & _ & _ & _ & H).
    rewrite H. destruct (parse_add (fuel_of ts) ts) as [[e [|x r]]|]; reflexivity.
  Qed.

  Corollary eval_printed : forall e, eval_top (significant (re e)) = Some (vadd e).
  Proof.
    intros e. rewrite value_parsed, parse_print. cbn [option_map].
    destruct value_strip as (_ & _ & H). rewrite H. reflexivity.
  Qed.

  (* ------------------------------------------------------------------------------------ *)
  (* operators                                                                             *)
  Lemma as_mul_value : forall e, vm (as_mul_expr e) = vadd e.
  Proof. destruct e; reflexivity. Qed.

  Lemma as_atom_value : forall e, va (as_atom_expr e) = vadd e.
  Proof. destruct e as [[a|]|]; reflexivity. Qed.

  (* where the source adds parentheses: exactly when the operand's top operator binds weaker *)
  Lemma as_mul_lexemes : forall e,
    significant (rm (as_mul_expr e)) =
    if add_has_ops e then LLp :: significant (re e) ++ [LRp] else significant (re e).
  Proof.
    destruct e; cbn [as_mul_expr add_has_ops negb wrap_paren rm ra ws app re]; [reflexivity|].
    cbn [significant]. rewrite sig_app. reflexivity.
  Qed.

  Definition needs_paren_as_atom (e : add) : bool :=
    match e with AMul (MAtom _) => false | _ => true end.

  Lemma as_atom_lexemes : forall e,
    significant (ra (as_atom_expr e)) =
    if needs_paren_as_atom e then LLp :: significant (re e) ++ [LRp] else significant (re e).
  Proof.
    destruct e as [[a|m g1 d g2 a]|e g1 b g2 m];
      cbn [as_atom_expr add_has_ops mul_has_ops negb wrap_paren needs_paren_as_atom ra ws app];
      [reflexivity| |]; cbn [significant]; rewrite sig_app; reflexivity.
  Qed.

  Lemma as_mul_text : forall e,
    text (rm (as_mul_expr e)) =
    if add_has_ops e then [CH_LP] ++ text (re e) ++ [CH_RP] else text (re e).
  Proof.
    destruct e; cbn [as_mul_expr add_has_ops negb wrap_paren rm ra ws app]; [reflexivity|].
    cbn [text tok_text]. rewrite text_app. reflexivity.
  Qed.

  Lemma as_atom_text : forall e,
    text (ra (as_atom_expr e)) =
    if needs_paren_as_atom e then [CH_LP] ++ text (re e) ++ [CH_RP] else text (re e).
  Proof.
    destruct e as [[a|m g1 d g2 a]|e g1 b g2 m];
      cbn [as_atom_expr add_has_ops mul_has_ops negb wrap_paren needs_paren_as_atom ra ws app];
      [reflexivity| |]; cbn [text tok_text]; rewrite text_app; reflexivity.
  Qed.

  (* the in-place operators never refuse and edit only first_token..last_token of self *)
  Definition is_minus (k : binop) := match k with OpSub => true | _ => false end.
  Definition is_div (k : binop) := match k with OpDiv => true | _ => false end.
  Definition is_additive (k : binop) := match k with OpAdd | OpSub => true | _ => false end.

  Definition new_body (k : binop) (s o : add) : add :=
    if is_additive k then AOp s SP (is_minus k) SP (as_mul_expr o)
    else AMul (MOp (as_mul_expr s) SP (is_div k) SP (as_atom_expr o)).

  Lemma inplace_total : forall k self other,
    inplace k self other = Ok (NE (pre self) (new_body k (body self) (body other)) (post self)).
  Proof. intros [] self other; reflexivity. Qed.

  Lemma new_body_value : forall k s o, vadd (new_body k s o) = arith k (vadd s) (vadd o).
  Proof.
    intros [] s o; cbn [new_body is_additive is_minus is_div NumExpr.vadd NumExpr.vm NumExpr.arith];
      rewrite ?as_mul_value, ?as_atom_value; reflexivity.
  Qed.

  (* printed text of a result: self, " op ", other - each in parentheses exactly when the rule says *)
  Definition op_text (k : binop) : str :=
    match k with OpAdd => [CH_PLUS] | OpSub => [CH_MINUS] | OpMul => [CH_STAR] | OpDiv => [CH_SLASH] end.
  Definition parens (b : bool) (s : str) : str := if b then [CH_LP] ++ s ++ [CH_RP] else s.
  Definition left_needs_paren (k : binop) (s : add) : bool :=
    if is_additive k then false else add_has_ops s.
  Definition right_needs_paren (k : binop) (o : add) : bool :=
    if is_additive k then add_has_ops o else needs_paren_as_atom o.

  Lemma new_body_text : forall k s o,
    text (re (new_body k s o)) =
    parens (left_needs_paren k s) (text (re s)) ++ [CH_SP] ++ op_text k ++ [CH_SP]
      ++ parens (right_needs_paren k o) (text (re o)).
  Proof.
    intros [] s o;
      cbn [new_body is_additive is_minus is_div re rm left_needs_paren right_needs_paren parens op_text];
      repeat (rewrite ?text_app, ?text_ws; cbn [text tok_text ws SP app sign_text star_text]);
      rewrite ?as_mul_text, ?as_atom_text, ?app_nil_r; unfold parens;
      repeat (rewrite <- ?app_assoc; cbn [app]); reflexivity.
  Qed.

  (* every binary dunder, every form, every kind of operand *)
  Definition lhs (f : form) (self other : nexpr) := match f with Reflected => other | _ => self end.
  Definition rhs (f : form) (self other : nexpr) := match f with Reflected => self | _ => other end.

  Theorem dunder_spec : forall k f self o,
    exists r,
      dunder k f self o = Ok r /\
      (* the result tree *)
      body (o_result r) = new_body k (body (lhs f self (coerce o))) (body (rhs f self (coerce o))) /\
      (* its value is the arithmetic result *)
      value (o_result r) = arith k (value (lhs f self (coerce o))) (value (rhs f self (coerce o))) /\
      (* in-place: same object, edited between its own first and last token; otherwise a fresh store *)
      (match f with
       | InPlace => o_self r = o_result r /\ pre (o_result r) = pre self /\ post (o_result r) = post self
       | _ => o_self r = self /\ pre (o_result r) = [] /\ post (o_result r) = []
       end) /\
      (* an expression operand is returned untouched *)
      o_other r = match o with OExpr x => Some x | _ => None end.
  Proof.
    intros k f self o. unfold NumExpr.dunder.
    destruct f; unfold NumExpr.plain; rewrite inplace_total; eexists; (split; [reflexivity|]);
      cbn [o_result o_self o_other body pre post lhs rhs deepcopy];
      unfold NumExpr.value; cbn [body]; rewrite new_body_value; repeat split; reflexivity.
  Qed.

  (* unary +/- *)
  Theorem unary_spec : forall b self,
    let r := dunder_unary b self in
    body (o_result r) = AMul (MAtom (Unary b [] (as_atom_expr (body self)))) /\
    value (o_result r) = (if b then dneg (value self) else value self) /\
    o_self r = self /\ pre (o_result r) = [] /\ post (o_result r) = [] /\
    text (re (body (o_result r))) =
      sign_text b ++ parens (needs_paren_as_atom (body self)) (text (re (body self))).
  Proof.
    intros b self. cbn.
    repeat split.
    - unfold NumExpr.value. cbn. rewrite as_atom_value. destruct b; reflexivity.
    - rewrite as_atom_text. unfold parens. destruct b; reflexivity.
  Qed.

  (* whatever was built prints to a text that denotes it: re-parsing gives the same tree (spacing
     forgotten) and re-evaluating gives the arithmetic result *)
  Theorem result_reparses : forall x : nexpr,
    parse_top (significant (re (body x))) = Some (se (body x)) /\
    vadd (se (body x)) = value x /\
    eval_top (significant (re (body x))) = Some (value x).
  Proof.
    intros x. split; [apply parse_print|]. split.
    - destruct value_strip as (_ & _ & H). apply H.
    - apply eval_printed.
  Qed.

  (* chains: induction over the list of operator applications *)
  Lemma apply_step_total : forall x s, exists x', apply_step x s = Ok x'.
  Proof.
    intros x [k f o|b|i t|v]; try (eexists; reflexivity).
    destruct (dunder_spec k f x o) as (r & Hr & _).
    exists (o_result r). cbn [NumExpr.apply_step]. rewrite Hr. reflexivity.
  Qed.

  Lemma apply_step_value : forall x s x', step_arith D s = true ->
    apply_step x s = Ok x' -> value x' = arith_step (value x) s.
  Proof.
    intros x [k f o|b|i t|v] x' Hs H; try discriminate.
    - destruct (dunder_spec k f x o) as (r & Hr & _ & Hv & _).
      cbn [NumExpr.apply_step] in H. rewrite Hr in H. injection H as <-.
      rewrite Hv. destruct f; reflexivity.
    - unfold NumExpr.apply_step in H. injection H as <-.
      unfold NumExpr.value. cbn. rewrite as_atom_value. destruct b; reflexivity.
    - cbn [NumExpr.apply_step] in H. injection H as <-. reflexivity.
  Qed.

  (* `.value` has no state: after ANY history of operator applications, in-place edits of tokens inside
     the expression and value assignments, the value is the usual evaluation of the text the expression
     prints NOW, and that text parses back to the current tree *)
  Theorem history_value : forall l x, exists x',
    apply_chain x l = Ok x' /\
    eval_top (significant (re (body x'))) = Some (value x') /\
    parse_top (significant (re (body x'))) = Some (se (body x')).
  Proof.
    induction l as [|s l IH]; intros x.
    - exists x. split; [reflexivity|]. split; [apply eval_printed | apply parse_print].
    - destruct (apply_step_total x s) as (x1 & H1).
      destruct (IH x1) as (x' & H2 & E & Pp).
      exists x'. cbn [NumExpr.apply_chain]. rewrite H1. auto.
  Qed.

  (* a token edit is seen by the value at once: the edited tree is evaluated, not a remembered one *)
  Corollary edit_then_value : forall x i t,
    eval_top (significant (re (ee i t (body x)))) = Some (value (edit_token x i t)).
  Proof. intros. apply eval_printed. Qed.

  Theorem chain_spec : forall l x, forallb (step_arith D) l = true -> exists x',
    apply_chain x l = Ok x' /\
    value x' = fold_left arith_step l (value x) /\
    eval_top (significant (re (body x'))) = Some (fold_left arith_step l (value x)).
  Proof.
    induction l as [|s l IH]; intros x Hall.
    - exists x. cbn. repeat split. apply eval_printed.
    - cbn [forallb] in Hall. apply andb_prop in Hall as [Hs Hl].
      destruct (apply_step_total x s) as (x1 & H1).
      pose proof (apply_step_value x s x1 Hs H1) as V1.
      destruct (IH x1 Hl) as (x' & H2 & V2 & E2).
      exists x'. cbn [NumExpr.apply_chain fold_left]. rewrite H1, H2, <- V1. repeat split; assumption.
  Qed.

  (* in-place chains on an expression inside a document edit the document only between the
     expression's own first and last token *)
  Definition step_inplace (s : step D) : bool :=
    match s with SBin _ InPlace _ | SEdit _ _ | SSetValue _ => true | _ => false end.

  Theorem inplace_chain_frame : forall l x x',
    forallb step_inplace l = true -> apply_chain x l = Ok x' ->
    store_toks x' = pre x ++ re (body x') ++ post x.
  Proof.
    induction l as [|s l IH]; intros x x' Hall H.
    - cbn in H. injection H as <-. reflexivity.
    - cbn [forallb] in Hall. apply andb_prop in Hall as [Hs Hl].
      cbn [NumExpr.apply_chain] in H.
      destruct s as [k f o|b|i t|v]; [|discriminate| |].
      + destruct f; try discriminate.
        destruct (dunder_spec k InPlace x o) as (r & Hr & _ & _ & (_ & Hp & Hq) & _).
        cbn [NumExpr.apply_step] in H. rewrite Hr in H.
        specialize (IH _ _ Hl H). rewrite IH, Hp, Hq. reflexivity.
      + cbn [NumExpr.apply_step] in H. specialize (IH _ _ Hl H). rewrite IH. reflexivity.
      + cbn [NumExpr.apply_step] in H. specialize (IH _ _ Hl H). rewrite IH. reflexivity.
  Qed.

  (* _add_expr_from_value: negative numbers become a unary minus on the absolute value *)
  Theorem from_value_spec : forall v,
    value (from_value v) =
      (if dltz v then dneg (num_value (num_text (dabs v))) else num_value (num_text (dabs v))) /\
    text (re (body (from_value v))) =
      (if dltz v then [CH_MINUS] ++ num_text (dabs v) else num_text (dabs v)).
  Proof.
    intros v. unfold NumExpr.from_value, NumExpr.add_expr_from_value, NumExpr.value. cbn [body].
    destruct (dltz v); cbn; rewrite ?app_nil_r; split; reflexivity.
  Qed.

  (* with the three laws of the carrier that `_add_expr_from_value` relies on (validated against CPython's
     decimal on every scalar the harness uses: dabs = copy_abs, dneg = copy_negate, num_text = format(.,'f')) *)
  Theorem from_value_exact :
    (forall v, num_value (num_text (dabs v)) = dabs v) ->
    (forall v, dltz v = true -> dneg (dabs v) = v) ->
    (forall v, dltz v = false -> dabs v = v) ->
    forall v, value (from_value v) = v.
  Proof.
    intros Hrt Hneg Hpos v. destruct (from_value_spec v) as (Hv & _). rewrite Hv, Hrt.
    destruct (dltz v) eqn:E; [apply Hneg | apply Hpos]; exact E.
  Qed.
End Arith.
