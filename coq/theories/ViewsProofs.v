(* C10 proofs: the index cache of every view is exact after every history (ViewInv), hence every view
   equals the raw list filtered at that moment and has Python list semantics on the filtered list. *)
From AB Require Import Prelude PySeq PySeqProofs Views.
From Coq Require Import ZifyBool.

(* ---- the invariant -------------------------------------------------------------------------- *)
Definition ViewInv (its : list elem) (v : view) : Prop :=
  v_idx v = positions_from 0 (v_tags v) its.
Definition AllInv (s : st) : Prop := Forall (ViewInv (items s)) (views s).

(* the raw list filtered by a view's type: what the view is supposed to show *)
Definition filtered (tags : list Z) (its : list elem) : list elem := filter (matches tags) its.

(* ---- positions_from ------------------------------------------------------------------------- *)
Lemma positions_app tags : forall a b i,
  positions_from i tags (a ++ b) = positions_from i tags a ++ positions_from (i + zlen a) tags b.
Proof.
  induction a as [|x a IH]; intros b i; cbn [positions_from app].
  - rewrite zlen_nil. now replace (i + 0) with i by lia.
  - rewrite zlen_cons, IH. replace (i + 1 + zlen a) with (i + (1 + zlen a)) by lia.
    now destruct (matches tags x).
Qed.

Lemma positions_shift tags : forall l i d,
  positions_from (i + d) tags l = map (fun y => y + d) (positions_from i tags l).
Proof.
  induction l as [|x l IH]; intros i d; cbn [positions_from map]; [reflexivity|].
  replace (i + d + 1) with (i + 1 + d) by lia. rewrite IH.
  now destruct (matches tags x).
Qed.

Lemma positions_bounds tags : forall l i,
  Forall (fun y => i <= y < i + zlen l) (positions_from i tags l).
Proof.
  induction l as [|x l IH]; intros i; cbn [positions_from]; [constructor|].
  rewrite zlen_cons. pose proof (zlen_nonneg l).
  assert (H1 : Forall (fun y => i <= y < i + (1 + zlen l)) (positions_from (i + 1) tags l)).
  { eapply Forall_impl; [|apply IH]. intros a0 Ha0. cbv beta in *. lia. }
  destruct (matches tags x); [constructor; [lia|assumption] | assumption].
Qed.

Lemma positions_length tags : forall l i,
  zlen (positions_from i tags l) = zlen (filtered tags l).
Proof.
  induction l as [|x l IH]; intros i; cbn [positions_from filtered filter]; [reflexivity|].
  destruct (matches tags x); [rewrite !zlen_cons|]; apply IH || (f_equal; apply IH).
Qed.

Lemma filtered_app tags a b : filtered tags (a ++ b) = filtered tags a ++ filtered tags b.
Proof. unfold filtered. apply filter_app. Qed.

(* ---- bisect_left on an exact cache ---------------------------------------------------------- *)
Lemma bisect_positions tags (a b : list elem) :
  bisect_left (positions_from 0 tags (a ++ b)) (zlen a) = zlen (positions_from 0 tags a).
Proof.
  rewrite positions_app. apply bisect_left_partition.
  - eapply Forall_impl; [|apply positions_bounds]. intros a0 Ha0. cbv beta in *. pose proof (zlen_nonneg a). lia.
  - eapply Forall_impl; [|apply positions_bounds]. intros a0 Ha0. cbv beta in *. pose proof (zlen_nonneg a). lia.
Qed.

(* ---- the heart: handle_splice keeps the cache exact ------------------------------------------ *)
Lemma handle_splice_exact_parts tags (a b c values : list elem) :
  handle_splice_idx tags (positions_from 0 tags (a ++ b ++ c)) (zlen a) (zlen a + zlen b) values
  = positions_from 0 tags (a ++ values ++ c).
Proof.
  unfold handle_splice_idx.
  set (PA := positions_from 0 tags a).
  set (PB := positions_from (zlen a) tags b).
  set (PC := positions_from (zlen a + zlen b) tags c).
  set (F := positions_from (zlen a) tags values).
  assert (Hidx : positions_from 0 tags (a ++ b ++ c) = PA ++ PB ++ PC).
  { rewrite !positions_app. subst PA PB PC. now rewrite !Z.add_0_l. }
  assert (Hll : bisect_left (positions_from 0 tags (a ++ b ++ c)) (zlen a) = zlen PA).
  { apply bisect_positions. }
  assert (Hrr : bisect_left (positions_from 0 tags (a ++ b ++ c)) (zlen a + zlen b) = zlen PA + zlen PB).
  { replace (a ++ b ++ c) with ((a ++ b) ++ c) by (now rewrite app_assoc).
    rewrite <- zlen_app, bisect_positions, positions_app, zlen_app. subst PA PB.
    now rewrite Z.add_0_l. }
  rewrite Hll, Hrr, Hidx.
  pose proof (zlen_nonneg PA). pose proof (zlen_nonneg PB). pose proof (zlen_nonneg PC).
  rewrite list_set_slice_plain by (rewrite !zlen_app; lia).
  rewrite splice_mid.
  assert (Hgoal : positions_from 0 tags (a ++ values ++ c)
                  = PA ++ F ++ positions_from (zlen a + zlen values) tags c).
  { rewrite !positions_app. subst PA F. now rewrite !Z.add_0_l. }
  rewrite Hgoal.
  destruct (zlen values - (zlen a + zlen b) + zlen a =? 0) eqn:Ed.
  - subst PC. replace (zlen a + zlen b) with (zlen a + zlen values) by lia. reflexivity.
  - unfold shift_from.
    replace (PA ++ F ++ PC) with ((PA ++ F) ++ PC) by (now rewrite app_assoc).
    rewrite <- zlen_app, zfirstn_app_exact, zskipn_app_exact.
    rewrite <- app_assoc. do 2 f_equal.
    subst PC.
    replace (zlen a + zlen values)
      with (zlen a + zlen b + (zlen values - (zlen a + zlen b) + zlen a)) by lia.
    symmetry. apply positions_shift.
Qed.

(* the same, for positions l <= r inside the list *)
Lemma handle_splice_exact tags (its values : list elem) (l r : Z) :
  0 <= l <= r -> r <= zlen its ->
  handle_splice_idx tags (positions_from 0 tags its) l r values
  = positions_from 0 tags (splice its l r values).
Proof.
  intros Hl Hr.
  destruct (split_at its l) as (a & bc & -> & Ha); [lia|].
  rewrite zlen_app in Hr.
  destruct (split_at bc (r - l)) as (b & c & -> & Hb); [lia|].
  replace r with (zlen a + zlen b) by lia. subst l.
  rewrite handle_splice_exact_parts, splice_mid. reflexivity.
Qed.

(* ---- notifications -------------------------------------------------------------------------- *)
Lemma notify_inv (s : st) : AllInv (notify s).
Proof.
  unfold AllInv, notify. cbn [items views]. apply Forall_forall. intros v Hv.
  apply in_map_iff in Hv. destruct Hv as (w & <- & _). reflexivity.
Qed.

Lemma notify_splice_inv (s : st) (its' values : list elem) (l r : Z) :
  AllInv s -> 0 <= l <= r -> r <= zlen (items s) -> its' = splice (items s) l r values ->
  AllInv (notify_splice l r values (with_items s its')).
Proof.
  unfold AllInv, notify_splice, with_items. cbn [items views]. intros H Hl Hr ->.
  apply Forall_forall. intros v Hv. apply in_map_iff in Hv. destruct Hv as (w & <- & Hw).
  rewrite Forall_forall in H. specialize (H w Hw). unfold ViewInv in *.
  cbn [handle_splice v_idx v_tags]. rewrite H. now apply handle_splice_exact.
Qed.

(* writing an element of the same class in place needs no notification *)
Lemma positions_same_tag tags (a c : list elem) (x y : elem) i :
  e_tag x = e_tag y ->
  positions_from i tags (a ++ y :: c) = positions_from i tags (a ++ x :: c).
Proof.
  intros Ht. rewrite !positions_app. f_equal. cbn [positions_from]. unfold matches. now rewrite Ht.
Qed.

Lemma inplace_inv (s : st) (a c : list elem) (x y : elem) :
  AllInv s -> items s = a ++ x :: c -> e_tag x = e_tag y -> AllInv (with_items s (a ++ y :: c)).
Proof.
  unfold AllInv, with_items. cbn [items views]. intros H E Ht.
  eapply Forall_impl; [|exact H]. intros v Hv. unfold ViewInv in *.
  rewrite Hv, E. symmetry. now apply positions_same_tag.
Qed.

Lemma list_get_int_split {A} (l : list A) (i : Z) (x : A) :
  list_get_int l i = Ok x ->
  exists a c j, l = a ++ x :: c /\ zlen a = j /\ norm_index (zlen l) i = Ok j.
Proof.
  unfold list_get_int. destruct (norm_index (zlen l) i) as [j|] eqn:E; [|discriminate].
  destruct (nth_error l (Z.to_nat j)) as [y|] eqn:En; [|discriminate].
  intros H; inversion H; subst y.
  apply nth_error_split in En. destruct En as (a & c & -> & Hlen).
  exists a, c, j. repeat split; auto.
  apply norm_index_ok in E. unfold zlen. lia.
Qed.

(* ---- every operation of the raw list keeps every cache exact (repaired code, fx = true) ------ *)
Lemma raw_setitem_int_inv s i x : AllInv s -> AllInv (fst (raw_setitem_int true s i x)).
Proof.
  intros H. unfold raw_setitem_int.
  destruct (list_get_int (items s) i) as [y|] eqn:E; [|exact H].
  destruct (list_get_int_split _ _ _ E) as (a & c & j & Es & Ha & Hn).
  unfold list_set_int. rewrite Hn. cbn [fst].
  pose proof (norm_index_ok _ _ _ Hn) as (Hj & Hij).
  assert (Hi' : (if true && (i <? 0) then i + zlen (items s) else i) = j).
  { cbn [andb]. destruct (i <? 0) eqn:Ei; lia. }
  rewrite Hi'. apply notify_splice_inv; auto; lia.
Qed.

Lemma raw_drop_many_inv s ps : AllInv s -> AllInv (fst (raw_drop_many s ps)).
Proof.
  intros H. unfold raw_drop_many. destruct (norm_all (zlen (items s)) ps); [apply notify_inv|exact H].
Qed.

Lemma norm_all_valid n : forall ps, Forall (fun p => 0 <= p < n) ps -> norm_all n ps = Ok ps.
Proof.
  induction ps as [|p ps IH]; intros H; [reflexivity|]. inversion H as [|? ? Hp Hps]; subst.
  cbn [norm_all]. unfold norm_index. replace ((0 <=? p) && (p <? n)) with true by lia.
  now rewrite IH.
Qed.

(* with positions inside the list, drop_many is the plain removal *)
Lemma raw_drop_many_valid s ps :
  Forall (fun p => 0 <= p < zlen (items s)) ps ->
  raw_drop_many s ps = (notify (with_items s (remove_positions ps (items s))), OkNone).
Proof. intros H. unfold raw_drop_many. now rewrite norm_all_valid. Qed.

Lemma raw_setitem_slice_inv s sl values :
  AllInv s -> AllInv (fst (raw_setitem_slice true s sl values)).
Proof.
  intros H. unfold raw_setitem_slice, range_from_index, range_getslice.
  pose proof (zlen_nonneg (items s)) as Hn.
  destruct (slice_indices (zlen (items s)) sl) as [[[a b] k]|] eqn:E; [|exact H].
  cbn [r_step r_start r_stop].
  destruct (k =? 1) eqn:Ek.
  - assert (k = 1) by lia. subst k.
    destruct (slice_indices_range _ _ _ _ _ Hn E) as (_ & Hpos & _).
    destruct (Hpos ltac:(lia)) as (Ha & Hb).
    unfold slice_from_range. cbn [r_step r_start r_stop].
    replace (b =? -1) with false by lia.
    unfold list_set_slice, slice_indices. cbn [sl_step sl_start sl_stop].
    cbn [Z.eqb Z.ltb Z.compare].
    replace (a <? 0) with false by lia. replace (b <? 0) with false by lia.
    replace (Z.min a (zlen (items s))) with a by lia.
    replace (Z.min b (zlen (items s))) with b by lia.
    cbn [fst].
    apply notify_splice_inv; auto; try lia.
    unfold splice. do 3 f_equal. lia.
  - destruct (negb (range_len (mkrng a b k) =? zlen values)); [exact H|].
    pose proof (assign_each_ok (range_list (mkrng a b k)) (items s) values
                  (range_list_bounds _ _ _ _ _ Hn E)) as Hok.
    destruct (assign_each (items s) (range_list (mkrng a b k)) values) as [its [u|e]];
      cbn [fst snd] in *; [apply notify_inv|discriminate].
Qed.

Lemma raw_setitem_inv s i xs : AllInv s -> AllInv (fst (raw_setitem true s i xs)).
Proof.
  intros H. destruct i as [i|sl]; cbn [raw_setitem].
  - destruct xs as [|x [|y r]]; try exact H. now apply raw_setitem_int_inv.
  - now apply raw_setitem_slice_inv.
Qed.

Lemma raw_delitem_inv s i : AllInv s -> AllInv (fst (raw_delitem true s i)).
Proof.
  intros H. unfold raw_delitem.
  destruct (range_from_index i (zlen (items s))) as [r|]; [|exact H].
  destruct (r_step r =? 1); [now apply raw_setitem_slice_inv | now apply raw_drop_many_inv].
Qed.

Lemma raw_insert_inv s i x : AllInv s -> AllInv (fst (raw_insert true s i x)).
Proof.
  intros H. unfold raw_insert. cbn [fst andb].
  pose proof (zlen_nonneg (items s)) as Hn.
  set (n := zlen (items s)) in *.
  set (j := Z.min (if i <? 0 then Z.max (i + n) 0 else i) n).
  assert (Hj : 0 <= j <= n) by (subst j; destruct (i <? 0) eqn:Ei; lia).
  apply notify_splice_inv; auto; try lia.
  assert (Hp : insert_pos n j = j).
  { assert (Hj0 : (j <? 0) = false) by lia. assert (Hj1 : (n <? j) = false) by lia.
    unfold insert_pos. cbv zeta. rewrite !Hj0, Hj1. reflexivity. }
  unfold list_insert. fold n. now rewrite Hp.
Qed.

Lemma splice_end {A} (l xs : list A) : splice l (zlen l) (zlen l) xs = l ++ xs.
Proof.
  rewrite <- (app_nil_r l) at 1. rewrite splice_ins by lia. now rewrite app_nil_r.
Qed.

Lemma raw_extend_inv s xs : AllInv s -> AllInv (fst (raw_extend s xs)).
Proof.
  intros H. unfold raw_extend. cbn [fst]. pose proof (zlen_nonneg (items s)).
  apply notify_splice_inv; auto; try lia. now rewrite splice_end.
Qed.

Lemma raw_append_inv s x : AllInv s -> AllInv (fst (raw_append s x)).
Proof. apply (raw_extend_inv s [x]). Qed.

Lemma raw_pop_inv s i : AllInv s -> AllInv (fst (raw_pop s i)).
Proof.
  intros H. unfold raw_pop.
  destruct (list_get_int (items s) i) as [y|] eqn:E; [|exact H].
  destruct (list_get_int_split _ _ _ E) as (a & c & j & Es & Ha & Hn).
  unfold range_from_index, list_pop. rewrite E, Hn. cbn [fst r_start r_stop].
  pose proof (norm_index_ok _ _ _ Hn) as (Hj & _).
  apply notify_splice_inv; auto; lia.
Qed.

Lemma raw_inv_all :
  (forall s, AllInv (fst (raw_clear s))) /\ (forall s its, AllInv (fst (raw_reset s its))).
Proof. split; intros; apply notify_inv. Qed.

(* ---- every operation through a view ---------------------------------------------------------- *)
Lemma register_inv s tags k : AllInv s -> AllInv (fst (register s tags k)).
Proof.
  unfold AllInv, register. cbn [fst items views]. intros H.
  apply Forall_app. split; [assumption|]. constructor; [reflexivity|constructor].
Qed.

Lemma v_assign_inv k : forall ps s xs, AllInv s -> AllInv (fst (v_assign true k s ps xs)).
Proof.
  induction ps as [|p ps IH]; intros s xs H; cbn [v_assign]; [exact H|].
  destruct xs as [|x xs]; [exact H|].
  destruct (list_get_int (items s) p) as [cur|] eqn:E; [|exact H].
  destruct (update_raw k cur x) as [cur'|] eqn:Eu.
  - destruct (list_get_int_split _ _ _ E) as (a & c & j & Es & Ha & Hn).
    unfold list_set_int. rewrite Hn.
    apply IH. rewrite Es at 1. rewrite <- Ha, splice_one.
    apply (inplace_inv s a c cur cur' H Es).
    destruct k; cbn [update_raw] in Eu; try discriminate.
    + inversion Eu. reflexivity.
    + destruct ((e_tag cur =? e_tag x) && (1 <=? e_tag cur) && (e_tag cur <=? 4)); inversion Eu. reflexivity.
  - pose proof (raw_setitem_int_inv s p x H) as H'.
    destruct (raw_setitem_int true s p x) as [s' [o|e]]; cbn [fst] in *; [now apply IH | exact H'].
Qed.

Lemma v_pop_like_inv s p : AllInv s ->
  AllInv (fst (match raw_pop s p with (s', Ok _) => (s', OkNone) | q => q end)).
Proof.
  intros H. pose proof (raw_pop_inv s p H). now destruct (raw_pop s p) as [s' [o|e]].
Qed.

Lemma v_remove_inv k : forall ps s x, AllInv s -> AllInv (fst (v_remove_go k s ps x)).
Proof.
  induction ps as [|p ps IH]; intros s x H; cbn [v_remove_go]; [exact H|].
  destruct (list_get_int (items s) p) as [y|]; [|exact H].
  destruct (elem_eqb (from_raw k y) x); [now apply v_pop_like_inv | now apply IH].
Qed.

Lemma v_pop_inv s v i : AllInv s -> AllInv (fst (v_pop s v i)).
Proof.
  intros H. unfold v_pop.
  destruct (negb ((- zlen (v_idx v) <=? i) && (i <? zlen (v_idx v)))); [exact H|].
  destruct (list_get_int (v_idx v) i) as [p|]; [|exact H].
  pose proof (raw_pop_inv s p H). destruct (raw_pop s p) as [s' [[|x [|y r]]|e]]; assumption.
Qed.

Lemma v_setitem_inv s v i xs : AllInv s -> AllInv (fst (v_setitem true s v i xs)).
Proof.
  intros H. unfold v_setitem.
  destruct (range_from_index i (zlen (v_idx v))) as [r|]; [|exact H].
  cbn match.
  destruct (negb (zlen (pick (v_idx v) (range_list r)) =? zlen xs)); [exact H|].
  now apply v_assign_inv.
Qed.

Lemma v_delitem_inv s v i : AllInv s -> AllInv (fst (v_delitem s v i)).
Proof.
  intros H. unfold v_delitem.
  destruct (range_from_index i (zlen (v_idx v))); [now apply raw_drop_many_inv | exact H].
Qed.

Lemma v_insert_inv s v i x : AllInv s -> AllInv (fst (v_insert true s v i x)).
Proof.
  intros H. unfold v_insert.
  destruct (zlen (v_idx v) <=? i); [now apply raw_insert_inv|].
  destruct (i <? - zlen (v_idx v)); [now apply raw_insert_inv|].
  destruct (list_get_int (v_idx v) i); [now apply raw_insert_inv | exact H].
Qed.

Lemma m_find_some its key : forall ps i r, m_find its key ps i = Ok (Some r) ->
  let '(_, p, cur) := r in list_get_int its p = Ok cur.
Proof.
  induction ps as [|p ps IH]; intros i r; cbn [m_find]; [discriminate|].
  destruct (list_get_int its p) as [x|] eqn:E; [|discriminate].
  destruct (e_key x =? key); [|apply IH].
  intros Hr; inversion Hr; subst. exact E.
Qed.

Lemma raw_pop_all_inv : forall fuel s acc, AllInv s -> AllInv (fst (raw_pop_all fuel s acc)).
Proof.
  induction fuel as [|f IH]; intros s acc H; cbn [raw_pop_all]; [exact H|].
  pose proof (raw_pop_inv s (-1) H) as Hp.
  destruct (raw_pop s (-1)) as [s' [[|y [|z r]]|e]]; cbn [fst] in *; auto.
Qed.

Lemma raw_reverse_inv s : AllInv s -> AllInv (fst (raw_reverse s)).
Proof.
  intros H. unfold raw_reverse. pose proof (raw_pop_all_inv (length (items s)) s [] H) as Hp.
  destruct (raw_pop_all (length (items s)) s []) as [s' [values|e]]; cbn [fst] in *; [|exact Hp].
  now apply raw_extend_inv.
Qed.

Lemma v_pop_each_inv : forall ps s acc, AllInv s -> AllInv (fst (v_pop_each s ps acc)).
Proof.
  induction ps as [|p ps IH]; intros s acc H; cbn [v_pop_each]; [exact H|].
  pose proof (raw_pop_inv s p H) as Hp.
  destruct (raw_pop s p) as [s' [[|y [|z r]]|e]]; cbn [fst] in *; auto.
Qed.

Lemma v_insert_each_inv : forall ps s xs, AllInv s -> AllInv (fst (v_insert_each true s ps xs)).
Proof.
  induction ps as [|p ps IH]; intros s xs H; cbn [v_insert_each]; [exact H|].
  destruct xs as [|x xs]; [exact H|]. apply IH. now apply raw_insert_inv.
Qed.

Lemma v_reverse_inv s v : AllInv s -> AllInv (fst (v_reverse true s v)).
Proof.
  intros H. unfold v_reverse. pose proof (v_pop_each_inv (rev (v_idx v)) s [] H) as Hp.
  destruct (v_pop_each s (rev (v_idx v)) []) as [s' [values|e]]; cbn [fst] in *; [|exact Hp].
  now apply v_insert_each_inv.
Qed.

Lemma step_inv s o : AllInv s -> AllInv (fst (step true s o)).
Proof.
  intros H.
  destruct o; cbn [step]; unfold with_view;
    try (destruct (nth_error (views s) k) as [v|]; [|exact H]).
  - now apply register_inv.
  - now apply raw_setitem_inv.
  - now apply raw_delitem_inv.
  - now apply raw_insert_inv.
  - now apply raw_append_inv.
  - apply notify_inv.
  - now apply raw_extend_inv.
  - now apply raw_pop_inv.
  - now apply raw_drop_many_inv.
  - apply notify_inv.
  - constructor.
  - exact H.
  - exact H.
  - unfold v_getitem. destruct i.
    + now destruct (list_get_int (v_idx v) i).
    + now destruct (list_get_slice (v_idx v) s0).
  - now apply v_setitem_inv.
  - now apply v_delitem_inv.
  - now apply v_insert_inv.
  - now apply raw_append_inv.
  - now apply raw_drop_many_inv.
  - now apply raw_extend_inv.
  - now apply v_pop_inv.
  - now apply v_remove_inv.
  - unfold v_discard. destruct (v_discard_sel (v_kind v) (items s) (v_idx v) x);
      [now apply raw_drop_many_inv | exact H].
  - unfold m_getitem. now destruct (m_find (items s) key (v_idx v) 0) as [[[[? ?] ?]|]|].
  - unfold m_contains. now destruct (m_find (items s) key (v_idx v) 0) as [[?|]|].
  - unfold m_delitem. destruct (m_find (items s) key (v_idx v) 0) as [[[[? ?] ?]|]|]; try exact H.
    now apply v_delitem_inv.
  - unfold m_setitem.
    destruct (m_find (items s) key (v_idx v) 0) as [[[[i p] cur]|]|] eqn:Em; try exact H.
    + destruct raw; [now apply v_setitem_inv|].
      pose proof (m_find_some _ _ _ _ _ Em) as Hg. cbn in Hg.
      destruct (list_get_int_split _ _ _ Hg) as (a & c & j & Es & Ha & Hn).
      unfold list_set_int. rewrite Hn. cbn [fst].
      rewrite Es at 1. rewrite <- Ha, splice_one.
      now apply (inplace_inv s a c cur _ H Es).
    + now apply raw_append_inv.
  - unfold m_pop. destruct (m_find (items s) key (v_idx v) 0) as [[[[i p] cur]|]|]; try exact H.
    + pose proof (v_pop_inv s v i H). destruct (v_pop s v i) as [s' [[|x [|y r]]|e]]; assumption.
    + now destruct dflt.
  - unfold m_keys. now destruct (fetch KNode (items s) (v_idx v)).
  - unfold m_values. now destruct (fetch KNode (items s) (v_idx v)).
  - unfold m_items. now destruct (fetch KNode (items s) (v_idx v)).
  - unfold m_popitem. destruct (v_idx v) as [|p ?]; [exact H|].
    destruct (list_get_int (items s) p) as [item|]; [|exact H].
    assert (Hp : AllInv (fst (m_pop raw s v (e_key item) false))).
    { unfold m_pop. destruct (m_find (items s) (e_key item) (v_idx v) 0) as [[[[i q] cur]|]|]; try exact H.
      pose proof (v_pop_inv s v i H). destruct (v_pop s v i) as [s' [[|x [|y r]]|e]]; assumption. }
    destruct (m_pop raw s v (e_key item) false) as [s' [[|x [|y r]]|e]]; exact Hp.
  - now apply raw_reverse_inv.
  - now apply v_reverse_inv.
  - now apply raw_extend_inv.
  - now apply raw_extend_inv.
  - unfold m_dict. destruct q; try exact H;
      match goal with |- context [fetch ?k ?i ?p] => now destruct (fetch k i p) end.
Qed.

(* ViewInv after every history, whatever views the edits went through *)
Theorem view_inv_history : forall ops s, AllInv s -> AllInv (run true s ops).
Proof.
  induction ops as [|o ops IH]; intros s H; cbn [run]; [exact H|].
  apply IH. now apply step_inv.
Qed.

(* ============ what a view shows: the raw list filtered at that moment ========================== *)
(* the j-th cached position, when the cache is exact, cuts the raw list at the j-th matching element *)
Lemma nth_positions tags : forall l i j p,
  nth_error (positions_from i tags l) j = Some p ->
  exists a x c, l = a ++ x :: c /\ zlen a = p - i /\ matches tags x = true
                /\ length (filtered tags a) = j.
Proof.
  induction l as [|y l IH]; intros i j p H; cbn [positions_from] in H.
  - destruct j; discriminate.
  - destruct (matches tags y) eqn:Em.
    + destruct j as [|j]; cbn [nth_error] in H.
      * inversion H; subst. exists [], y, l. repeat split; auto. rewrite zlen_nil. lia.
      * destruct (IH _ _ _ H) as (a & x & c & -> & Ha & Hx & Hj).
        exists (y :: a), x, c. repeat split; auto.
        -- rewrite zlen_cons. lia.
        -- cbn [filtered filter]. rewrite Em. cbn [length]. f_equal. exact Hj.
    + destruct (IH _ _ _ H) as (a & x & c & -> & Ha & Hx & Hj).
      exists (y :: a), x, c. repeat split; auto.
      * rewrite zlen_cons. lia.
      * cbn [filtered filter]. rewrite Em. exact Hj.
Qed.

Lemma filtered_cut tags a x c :
  matches tags x = true -> filtered tags (a ++ x :: c) = filtered tags a ++ x :: filtered tags c.
Proof. intros H. rewrite filtered_app. cbn [filtered filter]. now rewrite H. Qed.

Lemma nth_error_cut {A} (a c : list A) (x : A) : nth_error (a ++ x :: c) (length a) = Some x.
Proof. rewrite nth_error_app2 by lia. now rewrite Nat.sub_diag. Qed.

(* cache entry j and filtered element j designate the same element of the raw list *)
Lemma cache_entry tags its j :
  match nth_error (positions_from 0 tags its) j with
  | Some q => exists x, nth_error (filtered tags its) j = Some x /\ list_get_int its q = Ok x
  | None => nth_error (filtered tags its) j = None
  end.
Proof.
  destruct (nth_error (positions_from 0 tags its) j) as [q|] eqn:E.
  - destruct (nth_positions _ _ _ _ _ E) as (a & x & c & -> & Ha & Hx & Hj).
    exists x. split.
    + rewrite filtered_cut by assumption. subst j. apply nth_error_cut.
    + replace q with (zlen a) by lia. apply list_get_int_mid.
  - apply nth_error_None in E. apply nth_error_None.
    pose proof (positions_length tags its 0) as HL. unfold zlen in HL. lia.
Qed.

Lemma fetch_app k its a b :
  fetch k its (a ++ b) =
  match fetch k its a with
  | Err e => Err e
  | Ok xs => match fetch k its b with Err e => Err e | Ok ys => Ok (xs ++ ys) end
  end.
Proof.
  induction a as [|p a IH]; cbn [fetch app].
  - now destruct (fetch k its b).
  - destruct (list_get_int its p); [|reflexivity]. rewrite IH.
    destruct (fetch k its a); [|reflexivity]. now destruct (fetch k its b).
Qed.

(* reading the elements at picked cache entries = picking from the filtered list *)
Lemma fetch_pick k tags its : forall js,
  fetch k its (pick (positions_from 0 tags its) js)
  = Ok (map (from_raw k) (pick (filtered tags its) js)).
Proof.
  induction js as [|j js IH]; [reflexivity|].
  unfold pick in *. cbn [flat_map]. rewrite fetch_app, IH, map_app.
  destruct (j <? 0); [reflexivity|].
  pose proof (cache_entry tags its (Z.to_nat j)) as Hc.
  destruct (nth_error (positions_from 0 tags its) (Z.to_nat j)) as [q|].
  - destruct Hc as (x & -> & Hg). cbn [fetch]. now rewrite Hg.
  - now rewrite Hc.
Qed.

Lemma pick_all {A} (l : list A) : pick l (map Z.of_nat (seq 0 (length l))) = l.
Proof.
  unfold pick.
  assert (G : forall (pre suf : list A),
             flat_map (fun p => if p <? 0 then []
                                else match nth_error (pre ++ suf) (Z.to_nat p) with Some x => [x] | None => [] end)
                      (map Z.of_nat (seq (length pre) (length suf))) = suf).
  { intros pre suf. revert pre. induction suf as [|x suf IH]; intros pre; [reflexivity|].
    cbn [length seq map flat_map].
    replace (Z.of_nat (length pre) <? 0) with false by lia.
    rewrite Nat2Z.id, nth_error_cut. cbn [app]. f_equal.
    specialize (IH (pre ++ [x])). rewrite <- app_assoc in IH. cbn [app] in IH.
    rewrite app_length in IH. cbn [length] in IH.
    replace (length pre + 1)%nat with (S (length pre)) in IH by lia. exact IH. }
  apply (G [] l).
Qed.

Lemma fetch_all k tags its :
  fetch k its (positions_from 0 tags its) = Ok (map (from_raw k) (filtered tags its)).
Proof.
  pose proof (fetch_pick k tags its (map Z.of_nat (seq 0 (length (positions_from 0 tags its))))) as H.
  rewrite pick_all in H. rewrite H. do 2 f_equal.
  pose proof (positions_length tags its 0) as HL. unfold zlen in HL.
  replace (length (positions_from 0 tags its)) with (length (filtered tags its)) by lia.
  apply pick_all.
Qed.

Section Observers.
Variables (s : st) (v : view).
Hypothesis HV : ViewInv (items s) v.
Let F := filtered (v_tags v) (items s).

(* len(view), list(view) *)
Lemma v_len_spec : v_len s v = (s, Ok [mkelem 0 0 (zlen F)]).
Proof. unfold v_len. rewrite HV. subst F. now rewrite positions_length. Qed.

Lemma v_iter_spec : v_iter s v = (s, Ok (map (from_raw (v_kind v)) F)).
Proof. unfold v_iter. rewrite HV. now rewrite fetch_all. Qed.

(* view[i], view[a:b:k]: Python list indexing of the filtered list, same exception *)
Lemma v_getitem_spec (fx : bool) (index : pyidx) :
  v_getitem s v index =
  (s, match index with
      | IInt i => match list_get_int F i with
                  | Ok x => Ok [from_raw (v_kind v) x] | Err e => Err e end
      | ISlice sl => match list_get_slice F sl with
                     | Ok xs => Ok (map (from_raw (v_kind v)) xs) | Err e => Err e end
      end).
Proof.
  unfold v_getitem. rewrite HV. destruct index as [i|sl].
  - unfold list_get_int. rewrite positions_length. fold F.
    destruct (norm_index (zlen F) i) as [j|e]; [|reflexivity].
    pose proof (cache_entry (v_tags v) (items s) (Z.to_nat j)) as Hc.
    destruct (nth_error (positions_from 0 (v_tags v) (items s)) (Z.to_nat j)) as [q|].
    + destruct Hc as (x & Hx & Hg). fold F in Hx. rewrite Hx. cbn [fetch].
      now rewrite Hg.
    + fold F in Hc. now rewrite Hc.
  - unfold list_get_slice. rewrite positions_length. fold F.
    destruct (slice_indices (zlen F) sl) as [[[a b] k]|e]; [|reflexivity].
    now rewrite fetch_pick.
Qed.
End Observers.

(* ============ mutations through a view: Python list semantics on the filtered list ============= *)
Lemma cache_cut tags its i q :
  list_get_int (positions_from 0 tags its) i = Ok q ->
  exists a y c j, its = a ++ y :: c /\ zlen a = q /\ matches tags y = true
                  /\ norm_index (zlen (filtered tags its)) i = Ok j /\ zlen (filtered tags a) = j.
Proof.
  unfold list_get_int. rewrite positions_length.
  destruct (norm_index (zlen (filtered tags its)) i) as [j|] eqn:En; [|discriminate].
  destruct (nth_error (positions_from 0 tags its) (Z.to_nat j)) as [q'|] eqn:E; [|discriminate].
  intros H; inversion H; subst q'.
  destruct (nth_positions _ _ _ _ _ E) as (a & y & c & -> & Ha & Hy & Hj).
  exists a, y, c, j. repeat split; auto; [lia|].
  apply norm_index_ok in En. unfold zlen. lia.
Qed.



Ltac split_ifs :=
  repeat match goal with
         | |- context [if ?c then _ else _] =>
             lazymatch c with
             | context [if _ then _ else _] => fail
             | _ => destruct c eqn:?
             end
         end.

Lemma insert_pos_cases n i :
  insert_pos n i = (if i <? 0 then (if i + n <? 0 then (if n <? 0 then n else 0)
                                    else (if n <? i + n then n else i + n))
                    else (if n <? i then n else i)).
Proof. unfold insert_pos. cbv zeta. split_ifs; lia. Qed.

Lemma insert_pos_id n j : 0 <= j <= n -> insert_pos n j = j.
Proof. intros H. rewrite insert_pos_cases. split_ifs; lia. Qed.
Lemma insert_pos_big n i : 0 <= n <= i -> insert_pos n i = n.
Proof. intros H. rewrite insert_pos_cases. split_ifs; lia. Qed.
Lemma insert_pos_small n i : 0 <= n -> i < - n -> insert_pos n i = 0.
Proof. intros H H'. rewrite insert_pos_cases. split_ifs; lia. Qed.
Lemma insert_pos_norm n i j : norm_index n i = Ok j -> insert_pos n i = j.
Proof.
  intros H. apply norm_index_ok in H. rewrite insert_pos_cases. split_ifs; lia.
Qed.

Section Mutations.
Variables (s : st) (v : view) (x : elem).
Hypothesis HA : AllInv s.
Hypothesis HV : ViewInv (items s) v.
Hypothesis HX : matches (v_tags v) x = true.
Let F := filtered (v_tags v) (items s).
Let Fof (s' : st) := filtered (v_tags v) (items s').

(* view[i] = x on a node view (the raw element is replaced) *)
Lemma v_setitem_int_spec i :
  v_kind v = KNode ->
  match list_set_int F i x with
  | Ok F' => exists s', v_setitem true s v (IInt i) [x] = (s', OkNone) /\ Fof s' = F'
  | Err e => v_setitem true s v (IInt i) [x] = (s, Err e)
  end.
Proof.
  intros HK. unfold v_setitem, range_from_index, list_set_int. rewrite HV.
  rewrite positions_length. fold F.
  destruct (norm_index (zlen F) i) as [j|e] eqn:En.
  2:{ apply norm_index_err in En. destruct En as (-> & _). reflexivity. }
  cbn match. rewrite range_one.
  pose proof (norm_index_ok _ _ _ En) as (Hj & _).
  assert (Hg : exists q, list_get_int (positions_from 0 (v_tags v) (items s)) i = Ok q
                         /\ pick (positions_from 0 (v_tags v) (items s)) [j] = [q]).
  { unfold list_get_int, pick. rewrite positions_length. fold F. rewrite En.
    cbn [flat_map]. replace (j <? 0) with false by lia.
    pose proof (cache_entry (v_tags v) (items s) (Z.to_nat j)) as Hc.
    destruct (nth_error (positions_from 0 (v_tags v) (items s)) (Z.to_nat j)) as [q|].
    - exists q. split; [reflexivity|now rewrite app_nil_r].
    - exfalso. fold F in Hc. apply nth_error_None in Hc. unfold zlen in Hj. lia. }
  destruct Hg as (q & Hq & Hp). rewrite Hp.
  destruct (cache_cut _ _ _ _ Hq) as (a & y & c & j' & Es & Ha & Hy & Hn' & Hj').
  fold F in Hn'. assert (Hjj : j' = j) by congruence. rewrite Hjj in Hj'. clear Hn' Hjj.
  replace (negb (zlen [q] =? zlen [x])) with false by reflexivity.
  cbn [v_assign]. subst q.
  rewrite Es, list_get_int_mid, HK. cbn [update_raw].
  unfold raw_setitem_int. rewrite Es, list_get_int_mid, list_set_int_mid.
  eexists. split; [reflexivity|].
  unfold Fof, notify_splice, with_items. cbn [items].
  subst F. rewrite Es, !filtered_cut by assumption.
  rewrite <- Hj'. now rewrite splice_one.
Qed.

(* view.append(x), view.extend(xs) *)
Lemma v_extend_spec xs :
  forallb (matches (v_tags v)) xs = true ->
  exists s', v_extend s xs = (s', OkNone) /\ Fof s' = F ++ xs.
Proof.
  intros Hxs. eexists. split; [reflexivity|].
  unfold Fof, raw_extend, notify_splice, with_items. cbn [fst items].
  rewrite filtered_app. fold F. f_equal.
  unfold filtered. induction xs as [|z xs IH]; [reflexivity|].
  cbn [forallb filter] in *. apply andb_prop in Hxs. destruct Hxs as (-> & H2). f_equal. auto.
Qed.

Lemma v_append_spec : exists s', v_append s x = (s', OkNone) /\ Fof s' = F ++ [x].
Proof. apply (v_extend_spec [x]). cbn [forallb]. now rewrite HX. Qed.

(* view.pop(i) *)
Lemma v_pop_spec i :
  match list_pop F i with
  | Ok (y, F') => exists s', v_pop s v i = (s', Ok [from_raw (v_kind v) y]) /\ Fof s' = F'
  | Err e => v_pop s v i = (s, Err e)
  end.
Proof.
  unfold v_pop, list_pop. rewrite HV. rewrite positions_length. fold F.
  destruct (norm_index (zlen F) i) as [j|e] eqn:En.
  2:{ pose proof (norm_index_err _ _ _ En) as (-> & Hr).
      unfold list_get_int. rewrite En.
      replace (negb ((- zlen F <=? i) && (i <? zlen F))) with true by lia. reflexivity. }
  pose proof (norm_index_ok _ _ _ En) as (Hj & Hij).
  replace (negb ((- zlen F <=? i) && (i <? zlen F))) with false by lia.
  destruct (list_get_int (positions_from 0 (v_tags v) (items s)) i) as [q|e] eqn:Hq.
  2:{ exfalso. unfold list_get_int in Hq. rewrite positions_length in Hq.
      fold F in Hq. rewrite En in Hq.
      pose proof (cache_entry (v_tags v) (items s) (Z.to_nat j)) as Hc.
      destruct (nth_error (positions_from 0 (v_tags v) (items s)) (Z.to_nat j)); [discriminate|].
      fold F in Hc. apply nth_error_None in Hc. unfold zlen in Hj. lia. }
  destruct (cache_cut _ _ _ _ Hq) as (a & y & c & j' & Es & Ha & Hy & Hn' & Hj').
  fold F in Hn'. assert (Hjj : j' = j) by congruence. rewrite Hjj in Hj'. clear Hn' Hjj.
  assert (EF : F = filtered (v_tags v) a ++ y :: filtered (v_tags v) c).
  { subst F. rewrite Es. now apply filtered_cut. }
  assert (HgF : list_get_int F i = Ok y).
  { unfold list_get_int. rewrite En, EF, <- Hj', nth_error_mid. reflexivity. }
  rewrite HgF.
  unfold raw_pop, range_from_index, list_pop.
  pose proof (zlen_nonneg a). pose proof (zlen_nonneg c).
  assert (Hnq : norm_index (zlen (items s)) q = Ok q).
  { unfold norm_index. rewrite Es, zlen_app, zlen_cons.
    now replace ((0 <=? q) && (q <? zlen a + (1 + zlen c))) with true by lia. }
  rewrite Hnq. subst q. rewrite Es, list_get_int_mid.
  cbn [r_start r_stop].
  eexists. split; [reflexivity|].
  unfold Fof, notify_splice, with_items. cbn [items].
  rewrite splice_one. cbn [app]. rewrite filtered_app.
  rewrite EF, <- Hj', splice_one. reflexivity.
Qed.

(* view.insert(i, x) *)
Lemma v_insert_spec i :
  exists s', v_insert true s v i x = (s', OkNone) /\ Fof s' = list_insert F i x.
Proof.
  unfold v_insert. rewrite HV. rewrite positions_length. fold F.
  pose proof (zlen_nonneg F) as HF. pose proof (zlen_nonneg (items s)) as HN.
  unfold list_insert at 1.
  destruct (zlen F <=? i) eqn:E1.
  - (* past the end: appended to the raw list *)
    eexists. split; [reflexivity|].
    unfold Fof, raw_insert, notify_splice, with_items. cbn [fst items andb].
    replace (zlen (items s) <? 0) with false by lia.
    rewrite Z.min_id. unfold list_insert.
    assert (Hp : insert_pos (zlen (items s)) (zlen (items s)) = zlen (items s)) by (apply insert_pos_id; lia).
    assert (Hp' : insert_pos (zlen F) i = zlen F) by (apply insert_pos_big; lia).
    rewrite Hp, Hp', !splice_end, filtered_app. fold F. cbn [filtered filter]. now rewrite HX.
  - destruct (i <? - zlen F) eqn:E2.
    + (* before the start: prepended to the raw list *)
      eexists. split; [reflexivity|].
      unfold Fof, raw_insert, notify_splice, with_items. cbn [fst items andb Z.ltb Z.compare].
      replace (Z.min 0 (zlen (items s))) with 0 by lia.
      unfold list_insert.
      assert (Hp : insert_pos (zlen (items s)) 0 = 0) by (apply insert_pos_id; lia).
      assert (Hp' : insert_pos (zlen F) i = 0) by (apply insert_pos_small; lia).
      rewrite Hp, Hp'. change 0 with (zlen (@nil elem)).
      rewrite (splice_ins [] (items s)), (splice_ins [] F) by (rewrite zlen_nil; lia).
      cbn [app filtered filter]. now rewrite HX.
    + (* before element i of the view: before its raw position *)
      assert (En : exists j, norm_index (zlen F) i = Ok j).
      { unfold norm_index. destruct ((0 <=? i) && (i <? zlen F)) eqn:Ea; [eauto|].
        replace ((i <? 0) && (0 <=? i + zlen F)) with true by lia. eauto. }
      destruct En as (j & En). pose proof (insert_pos_norm _ _ _ En) as Hp'. pose proof (norm_index_ok _ _ _ En) as (Hj & _).
      destruct (list_get_int (positions_from 0 (v_tags v) (items s)) i) as [q|e] eqn:Hq.
      2:{ exfalso. unfold list_get_int in Hq. rewrite positions_length in Hq.
          fold F in Hq. rewrite En in Hq.
          pose proof (cache_entry (v_tags v) (items s) (Z.to_nat j)) as Hc.
          destruct (nth_error (positions_from 0 (v_tags v) (items s)) (Z.to_nat j)); [discriminate|].
          fold F in Hc. apply nth_error_None in Hc. unfold zlen in Hj. lia. }
      destruct (cache_cut _ _ _ _ Hq) as (a & y & c & j' & Es & Ha & Hy & Hn' & Hj').
      fold F in Hn'. assert (Hjj : j' = j) by congruence. rewrite Hjj in Hj'. clear Hn' Hjj.
      eexists. split; [reflexivity|].
      pose proof (zlen_nonneg a). pose proof (zlen_nonneg c).
      unfold Fof, raw_insert, notify_splice, with_items. cbn [fst items andb].
      replace (q <? 0) with false by lia.
      assert (Hlen : zlen (items s) = zlen a + (1 + zlen c)) by (rewrite Es, zlen_app, zlen_cons; lia).
      replace (Z.min q (zlen (items s))) with q by lia.
      unfold list_insert.
      assert (Hp : insert_pos (zlen (items s)) q = q) by (apply insert_pos_id; lia).
      rewrite Hp, Hp'.
      assert (EF : F = filtered (v_tags v) a ++ y :: filtered (v_tags v) c).
      { subst F. rewrite Es. now apply filtered_cut. }
      rewrite EF, Es, <- Ha, <- Hj'.
      rewrite !splice_ins by lia. cbn [app].
      rewrite filtered_app. cbn [filtered filter]. now rewrite HX, Hy.
Qed.
End Mutations.

(* view.clear(): nothing of the view's type is left, everything else stays *)
Lemma remove_cached_positions tags : forall l i ps,
  (forall p, In p (positions_from i tags l) -> In p ps) ->
  filtered tags (remove_positions_from i ps l) = [].
Proof.
  induction l as [|y l IH]; intros i ps H; cbn [remove_positions_from]; [reflexivity|].
  cbn [positions_from] in H.
  destruct (matches tags y) eqn:Em.
  - assert (Hin : existsb (Z.eqb i) ps = true).
    { apply existsb_exists. exists i. split; [apply H; now left | lia]. }
    rewrite Hin. apply IH. intros p Hp. apply H. now right.
  - destruct (existsb (Z.eqb i) ps); [now apply IH|].
    cbn [filtered filter]. rewrite Em. now apply IH.
Qed.

Lemma v_clear_spec s v :
  ViewInv (items s) v ->
  exists s', v_clear s v = (s', OkNone) /\ filtered (v_tags v) (items s') = [].
Proof.
  intros HV. unfold v_clear. rewrite raw_drop_many_valid.
  2:{ rewrite HV. eapply Forall_impl; [|apply positions_bounds]. intros a0 Ha0. cbv beta in *. lia. }
  eexists. split; [reflexivity|].
  unfold notify, with_items. cbn [fst items].
  rewrite HV. apply remove_cached_positions. auto.
Qed.
