(* C04 proofs for the non-edit operations other than comment attribution (that part is CommentsProofs.v):
     A  Views.v       reading through a view (len, iteration, getitem, mapping get / contains / keys / values /
                      items, the dict views) returns the state it was given; creating a view (ORegister) appends one
                      handler and leaves the raw list alone
     B  WholeField.v  the lazily created, cached wrappers and views (get_wrapper, get_view), the deep copy of a wrapper
                      (copy_wrapper) and reads through any wrapper / view DO write the heap (caches, handler lists,
                      the copy's new objects) but every Repeated that existed keeps its items, attachment and
                      liveness, every instance keeps its field, every handler list only grows - for every step, every
                      history of such steps, every variant of the code
     C  Tree.v        clone is a function of the source (nothing is written); in a forest of live trees a deep copy
                      appends one tree, every tree that was there is the same value at the same place, and the new tree
                      shares no store and no token identity with ANY of them
     D  Store.v       the observers are functions of the store; in a history that interleaves them with edits,
                      deleting them gives the same final store
   node_eq / hash (Tree.v, properties/C20.v) are pure functions of their arguments: nothing to prove. *)
From AB Require Import Prelude PySeq Views WholeField WholeFieldProofs.

(* ==== A. Views.v ========================================================================================== *)
Ltac ro_cases :=
  repeat match goal with
         | |- context [match ?x with _ => _ end] => destruct x
         end; reflexivity.

(* a read through a view returns the very state it was given (raw list AND every handler cache) *)
Lemma step_read_state fx s o : read_only o = true -> fst (Views.step fx s o) = s.
Proof.
  intros H. destruct o; try discriminate H; cbn [Views.step]; unfold with_view;
    (destruct (nth_error (views s) k) as [v|]; [|reflexivity]).
  - reflexivity.
  - reflexivity.
  - unfold v_getitem. ro_cases.
  - unfold m_getitem. ro_cases.
  - unfold m_contains. ro_cases.
  - unfold m_keys. ro_cases.
  - unfold m_values. ro_cases.
  - unfold m_items. ro_cases.
  - unfold m_dict. ro_cases.
Qed.

Definition view_read (o : op) : bool :=
  match o with ORegister _ _ => true | _ => read_only o end.

(* creating a view or reading through one: same raw list, the handlers that were there are there unchanged *)
Lemma step_view_read fx s o : view_read o = true ->
  items (fst (Views.step fx s o)) = items s /\ exists more, views (fst (Views.step fx s o)) = views s ++ more.
Proof.
  intros H. destruct o; try (rewrite step_read_state by exact H; split; [reflexivity|exists []; now rewrite app_nil_r]).
  cbn [Views.step register fst items views]. split; [reflexivity|eexists; reflexivity].
Qed.

Theorem views_read_history fx : forall ops s, Forall (fun o => view_read o = true) ops ->
  items (Views.run fx s ops) = items s /\ exists more, views (Views.run fx s ops) = views s ++ more.
Proof.
  induction ops as [|o ops IH]; intros s HF; cbn [Views.run].
  - split; [reflexivity|exists []; now rewrite app_nil_r].
  - inversion HF as [|? ? Ho Hr]; subst.
    destruct (step_view_read fx s o Ho) as (E1 & m1 & E2).
    destruct (IH (fst (Views.step fx s o)) Hr) as (E3 & m2 & E4).
    split; [now rewrite E3|]. exists (m1 ++ m2). now rewrite E4, E2, app_assoc.
Qed.

(* what a read returns does not depend on the reads made before it *)
Theorem views_reads_do_not_interfere fx : forall ops s o, Forall (fun o => read_only o = true) ops ->
  Views.step fx (Views.run fx s ops) o = Views.step fx s o.
Proof.
  induction ops as [|q ops IH]; intros s o HF; cbn [Views.run]; [reflexivity|].
  inversion HF as [|? ? Hq Hr]; subst. rewrite step_read_state by exact Hq. now apply IH.
Qed.

(* ==== B. WholeField.v ===================================================================================== *)
(* the steps that are not edits: attribute reads that create and cache a wrapper / a view, the deep copy of a wrapper,
   and reads through a wrapper's views *)
Definition wread (o : wop) : bool :=
  match o with
  | WGetWrapper _ | WGetView _ _ _ _ | WCopy _ => true
  | WEdit _ o => read_only o
  | _ => false
  end.

(* h' keeps everything h had: identities below the allocator denote the same Repeated (none appears there either),
   every instance holds the same field, every wrapper wraps the same Repeated and its handler list only grew *)
Definition keeps (h h' : heap) : Prop :=
  h_next h <= h_next h'
  /\ (forall k, k < h_next h -> lookup k (h_reps h') = lookup k (h_reps h))
  /\ (forall i ins, lookup i (h_insts h) = Some ins ->
        exists ins', lookup i (h_insts h') = Some ins' /\ i_field ins' = i_field ins /\ i_inter ins' = i_inter ins)
  /\ (forall w W, w < h_next h -> lookup w (h_wrps h) = Some W ->
        exists W', lookup w (h_wrps h') = Some W' /\ w_rep W' = w_rep W /\ w_inter W' = w_inter W
                   /\ exists more, w_views W' = w_views W ++ more).

Lemma keeps_refl h : keeps h h.
Proof.
  split; [lia|]. split; [reflexivity|]. split.
  - intros i ins H. now exists ins.
  - intros w W _ H. exists W. repeat split; try assumption. exists []. now rewrite app_nil_r.
Qed.

Lemma keeps_trans h1 h2 h3 : keeps h1 h2 -> keeps h2 h3 -> keeps h1 h3.
Proof.
  intros (N1 & R1 & I1 & W1) (N2 & R2 & I2 & W2). split; [lia|]. split; [|split].
  - intros k Hk. rewrite R2 by lia. now apply R1.
  - intros i ins H. destruct (I1 _ _ H) as (a & Ha & Fa & Ia). destruct (I2 _ _ Ha) as (b & Hb & Fb & Ib).
    exists b. repeat split; congruence.
  - intros w W Hw H. destruct (W1 _ _ Hw H) as (A & HA & RA & IA & mA & VA).
    destruct (W2 w A ltac:(lia) HA) as (B & HB & RB & IB & mB & VB).
    exists B. repeat split; try congruence. exists (mA ++ mB). now rewrite VB, VA, app_assoc.
Qed.

Lemma get_wrapper_keeps h i : keeps h (fst (get_wrapper h i)).
Proof.
  unfold get_wrapper. destruct (lookup i (h_insts h)) as [ins|] eqn:Ei; [|apply keeps_refl].
  destruct (i_wrapper ins) as [w|]; [apply keeps_refl|]. cbn [fst].
  split; [cbn [h_next]; lia|]. split; [reflexivity|]. split.
  - intros j jns Hj. cbn [h_insts]. rewrite lookup_upd. destruct (Z.eqb_spec i j) as [E|E].
    + subst j. rewrite Ei in Hj. inversion Hj; subst jns. eexists. split; [reflexivity|]. split; reflexivity.
    + exists jns. repeat split; assumption.
  - intros w W Hw HW. cbn [h_wrps]. rewrite lookup_upd_other by lia. exists W. repeat split; try assumption.
    exists []. now rewrite app_nil_r.
Qed.

Lemma get_view_keeps h i name tags kd : keeps h (fst (get_view h i name tags kd)).
Proof.
  unfold get_view. destruct (lookup i (h_insts h)) as [ins|] eqn:Ei; [|apply keeps_refl].
  destruct (lookup name (i_views ins)) as [vh|]; [apply keeps_refl|].
  pose proof (get_wrapper_keeps h i) as K1.
  destruct (get_wrapper h i) as [h1 [w|e]]; cbn [fst] in K1; [|exact K1].
  destruct (lookup w (h_wrps h1)) as [W|] eqn:EW; [|exact K1].
  destruct (lookup i (h_insts h1)) as [ins1|] eqn:Ei1; [|exact K1].
  destruct (lookup (w_rep W) (h_reps h1)) as [R|] eqn:ER; [|exact K1].
  cbn [fst]. apply (keeps_trans h h1); [exact K1|].
  split; [cbn [h_next]; lia|]. split; [reflexivity|]. split.
  - intros j jns Hj. cbn [h_insts]. rewrite lookup_upd. destruct (Z.eqb_spec i j) as [E|E].
    + subst j. rewrite Ei1 in Hj. inversion Hj; subst jns. eexists. split; [reflexivity|]. split; reflexivity.
    + exists jns. repeat split; assumption.
  - intros w0 W0 Hw0 HW0. cbn [h_wrps]. rewrite lookup_upd. destruct (Z.eqb_spec w w0) as [E|E].
    + subst w0. rewrite EW in HW0. inversion HW0; subst W0. eexists. split; [reflexivity|].
      cbn [w_rep w_inter w_views register fst views]. repeat split. eexists. reflexivity.
    + exists W0. repeat split; try assumption. exists []. now rewrite app_nil_r.
Qed.

Lemma copy_keeps var h w : keeps h (fst (copy_wrapper var h w)).
Proof.
  unfold copy_wrapper. destruct (lookup w (h_wrps h)) as [W|] eqn:EW; [|apply keeps_refl].
  destruct (lookup (w_rep W) (h_reps h)) as [R|] eqn:ER; [|apply keeps_refl].
  assert (Hmain : keeps h (fst (if negb (r_live R) then (h, Err ValueError)
      else (mkheap (upd (h_next h) (mkrep (r_items R) true true) (h_reps h))
                   (upd (h_next h + 1) (mkwrp (h_next h) false []) (h_wrps h)) (h_insts h) (h_next h + 2),
            Ok (RW (h_next h + 1)))))).
  { destruct (negb (r_live R)); [apply keeps_refl|]. cbn [fst].
    split; [cbn [h_next]; lia|]. split; [|split].
    - intros k Hk. cbn [h_reps]. apply lookup_upd_other. lia.
    - intros j jns Hj. exists jns. repeat split; assumption.
    - intros w0 W0 Hw0 HW0. cbn [h_wrps]. rewrite lookup_upd_other by lia. exists W0. repeat split; try assumption.
      exists []. now rewrite app_nil_r. }
  assert (Hshare : keeps h (mkheap (h_reps h) (upd (h_next h) (mkwrp (w_rep W) false []) (h_wrps h)) (h_insts h)
                                   (h_next h + 1))).
  { split; [cbn [h_next]; lia|]. split; [reflexivity|]. split.
    - intros j jns Hj. exists jns. repeat split; assumption.
    - intros w0 W0 Hw0 HW0. cbn [h_wrps]. rewrite lookup_upd_other by lia. exists W0. repeat split; try assumption.
      exists []. now rewrite app_nil_r. }
  destruct var; try exact Hmain. destruct (r_items R); [exact Hshare|exact Hmain].
Qed.

Lemma wrp_eta W : mkwrp (w_rep W) (w_inter W) (w_views W) = W.
Proof. now destruct W. Qed.

(* a read through a wrapper or one of its views returns the very heap it was given *)
Lemma edit_read_heap h w o : read_only o = true -> fst (edit h w o) = h.
Proof.
  intros Hro. unfold edit. destruct (lookup w (h_wrps h)) as [W|] eqn:EW; [|reflexivity].
  destruct (lookup (w_rep W) (h_reps h)) as [R|] eqn:ER; [|reflexivity].
  destruct (negb (edit_ok o)); [reflexivity|].
  rewrite Hro, orb_true_r. cbn [fst]. rewrite step_read_state by exact Hro. cbn [items views].
  rewrite rep_eta, wrp_eta, (upd_same _ _ _ ER), (upd_same _ _ _ EW). apply heap_eta.
Qed.

Lemma wstep_read_keeps var h o : wread o = true -> keeps h (fst (wstep var h o)).
Proof.
  intros H. destruct o; try discriminate H; cbn [wstep].
  - pose proof (get_wrapper_keeps h i) as K. now destruct (get_wrapper h i) as [h1 [?|?]].
  - pose proof (get_view_keeps h i name tags kd) as K. now destruct (get_view h i name tags kd) as [h1 [?|?]].
  - cbn [wread] in H. rewrite edit_read_heap by exact H. apply keeps_refl.
  - apply copy_keeps.
Qed.

Theorem wrun_read_keeps var : forall ops h, Forall (fun o => wread o = true) ops -> keeps h (wrun var h ops).
Proof.
  induction ops as [|o ops IH]; intros h HF; cbn [wrun]; [apply keeps_refl|].
  inversion HF as [|? ? Ho Hr]; subst. eapply keeps_trans; [apply wstep_read_keeps; exact Ho|apply IH; exact Hr].
Qed.

(* every identity in use was handed out by the allocator (part of the invariant of reachable heaps) *)
Definition reps_bounded (h : heap) : Prop := forall k R, lookup k (h_reps h) = Some R -> k < h_next h.
Definition wrps_bounded (h : heap) : Prop := forall w W, lookup w (h_wrps h) = Some W -> w < h_next h.

(* B1: one non-edit step, any variant of the code: every Repeated that existed is exactly as it was *)
Theorem read_step_keeps_reps var h o : wread o = true -> reps_bounded h ->
  forall k R, lookup k (h_reps h) = Some R -> lookup k (h_reps (fst (wstep var h o))) = Some R.
Proof.
  intros Ho Hb k R Hk. destruct (wstep_read_keeps var h o Ho) as (_ & HR & _). rewrite HR; [exact Hk|]. eapply Hb; eauto.
Qed.

(* B2: any history of non-edit steps *)
Theorem read_history_keeps_reps var ops h : Forall (fun o => wread o = true) ops -> reps_bounded h ->
  forall k R, lookup k (h_reps h) = Some R -> lookup k (h_reps (wrun var h ops)) = Some R.
Proof.
  intros HF Hb k R Hk. destruct (wrun_read_keeps var ops h HF) as (_ & HR & _). rewrite HR; [exact Hk|]. eapply Hb; eauto.
Qed.

(* B3: the list every model instance holds is the same list object with the same items *)
Theorem read_history_keeps_fields var ops h : Forall (fun o => wread o = true) ops -> reps_bounded h ->
  forall i ins its, lookup i (h_insts h) = Some ins -> field_items h ins = Some its ->
  exists ins', lookup i (h_insts (wrun var h ops)) = Some ins' /\ i_field ins' = i_field ins
               /\ field_items (wrun var h ops) ins' = Some its.
Proof.
  intros HF Hb i ins its Hi Hf. destruct (wrun_read_keeps var ops h HF) as (_ & HR & HI & _).
  destruct (HI _ _ Hi) as (ins' & Hi' & Ef & _). exists ins'. split; [exact Hi'|]. split; [exact Ef|].
  unfold field_items in *. rewrite Ef. destruct (lookup (i_field ins) (h_reps h)) as [R|] eqn:ER; [|discriminate].
  rewrite HR by (eapply Hb; eauto). now rewrite ER.
Qed.

(* B4: every wrapper that existed wraps the same Repeated and the handlers (views with their index caches) that were
   registered on it are still there, in place, unchanged *)
Theorem read_history_keeps_views var ops h : Forall (fun o => wread o = true) ops -> wrps_bounded h ->
  forall w W, lookup w (h_wrps h) = Some W ->
  exists W', lookup w (h_wrps (wrun var h ops)) = Some W' /\ w_rep W' = w_rep W
             /\ forall k v, nth_error (w_views W) k = Some v -> nth_error (w_views W') k = Some v.
Proof.
  intros HF Hb w W Hw. destruct (wrun_read_keeps var ops h HF) as (_ & _ & _ & HW).
  destruct (HW w W ltac:(eapply Hb; eauto) Hw) as (W' & H1 & H2 & _ & more & H3).
  exists W'. split; [exact H1|]. split; [exact H2|]. intros k v Hk. rewrite H3.
  rewrite nth_error_app1; [exact Hk|]. apply nth_error_Some. congruence.
Qed.

(* B5: in every heap reachable from a parsed document by ANY history (edits, assignments, copies ...), a further
   history of non-edit steps keeps every Repeated and every instance's list *)
Theorem reachable_read_history its pre ops : Forall (fun o => wread o = true) ops ->
  let h := wrun VRepaired (init_heap its) pre in
  let h' := wrun VRepaired h ops in
  (forall k R, lookup k (h_reps h) = Some R -> lookup k (h_reps h') = Some R)
  /\ (forall i ins, lookup i (h_insts h) = Some ins ->
        exists ins' its0, lookup i (h_insts h') = Some ins' /\ i_field ins' = i_field ins
                          /\ field_items h ins = Some its0 /\ field_items h' ins' = Some its0).
Proof.
  intros HF h h'.
  assert (HI : Inv h) by (apply wrun_inv, init_inv).
  assert (Hb : reps_bounded h) by (destruct HI as (_ & _ & _ & _ & _ & _ & Hb & _); exact Hb).
  split.
  - intros k R Hk. now apply read_history_keeps_reps.
  - intros i ins Hi. destruct HI as (_ & _ & _ & _ & _ & Ha & _). destruct (Ha _ _ Hi) as (R & HR & _).
    assert (Hf : field_items h ins = Some (r_items R)) by (unfold field_items; now rewrite HR).
    destruct (read_history_keeps_fields VRepaired ops h HF Hb i ins _ Hi Hf) as (ins' & H1 & H2 & H3).
    exists ins', (r_items R). repeat split; assumption.
Qed.

(* non-vacuity: a history of reads and a copy on the example document really allocates (the allocator moves from 2 to
   6: two wrappers, a copied Repeated and its wrapper; two handlers are registered on wrapper 2) *)
Definition ex_ro : list wop :=
  ex_read ++ [WCopy 3; WEdit 2 (VIter 0); WEdit 2 (VGet 1 (IInt 0)); WGetView 0 1 [1] KString; WEdit 2 (VLen 1)].
Lemma ex_ro_reads : Forall (fun o => wread o = true) ex_ro.
Proof. repeat constructor. Qed.

(* B6: what a read through an existing view returns after a history of non-edit steps is what it returned before it
   (the wrapper's list is the same, the view is still the k-th handler with the cache it had) *)
Definition op_view (o : op) : nat :=
  match o with
  | VLen k | VIter k | VGet k _ | MGet k _ _ | MContains k _ | MKeys k | MValues k _ | MItems k _ | MDict k _ _ _ => k
  | _ => O
  end.

Lemma step_read_more fx its vs more o : read_only o = true -> (op_view o < length vs)%nat ->
  snd (Views.step fx (mkst its (vs ++ more)) o) = snd (Views.step fx (mkst its vs) o).
Proof.
  intros H Hk. destruct o; try discriminate H; cbn [op_view] in Hk; cbn [Views.step]; unfold with_view; cbn [views];
    rewrite nth_error_app1 by exact Hk; (destruct (nth_error vs k) as [v|]; [|reflexivity]).
  - reflexivity.
  - reflexivity.
  - unfold v_getitem. cbn [items]. ro_cases.
  - unfold m_getitem. cbn [items]. ro_cases.
  - unfold m_contains. cbn [items]. ro_cases.
  - unfold m_keys. cbn [items]. ro_cases.
  - unfold m_values. cbn [items]. ro_cases.
  - unfold m_items. cbn [items]. ro_cases.
  - unfold m_dict. cbn [items]. ro_cases.
Qed.

Theorem read_history_same_answers var ops h w W R o :
  Forall (fun o => wread o = true) ops -> w < h_next h -> w_rep W < h_next h ->
  lookup w (h_wrps h) = Some W -> lookup (w_rep W) (h_reps h) = Some R ->
  read_only o = true -> (op_view o < length (w_views W))%nat ->
  snd (edit (wrun var h ops) w o) = snd (edit h w o).
Proof.
  intros HF Hw Hr EW ER Hro Hk. destruct (wrun_read_keeps var ops h HF) as (_ & HR & _ & HW).
  destruct (HW w W Hw EW) as (W' & EW' & Erep & _ & more & Ev).
  unfold edit. rewrite EW', EW, Erep, (HR _ Hr), ER.
  assert (Hok : edit_ok o = true) by (destruct o; try discriminate Hro; reflexivity).
  rewrite Hok, Hro, orb_true_r. cbn [negb snd]. rewrite Ev. now rewrite step_read_more.
Qed.

(* ==== C. Tree.v: copy.deepcopy of a model ================================================================== *)
From AB Require Import Desc Tree TreeDefs TreeProofs TreeProofs2.

(* Tree.clone is a function: its source is a value and cannot be written.  What the source's SURROUNDINGS need is stated
   on a forest: every live tree (the document and every free-standing model made so far).  RawTreeModel.__deepcopy__
   deep-copies the tokens the source spans (token map f), makes a new store (identity `new`) and clones into it. *)
Section Forest.
Variable cs : classes_t.

Definition forest := list node.
Definition forest_toks (F : forest) : list tk := flat_map (fun b => node_toks b ++ leaves b) F.
Definition forest_sids (F : forest) : list Z := flat_map sids F.

Definition deepcopy (F : forest) (k : nat) (new : Z) (f : tk -> tk) : forest :=
  match nth_error F k with None => F | Some a => F ++ [clone cs new f a] end.
Fixpoint deepcopies (F : forest) (rq : list (nat * Z * (tk -> tk))) : forest :=
  match rq with
  | [] => F
  | (k, new, f) :: r => deepcopies (deepcopy F k new f) r
  end.

Lemma deepcopy_prefix F k new f : exists more, deepcopy F k new f = F ++ more.
Proof. unfold deepcopy. destruct (nth_error F k); [eexists; reflexivity|exists []; now rewrite app_nil_r]. Qed.

(* C1: after any number of deep copies every tree that was there is the same value (tokens, identities, texts, store
   ids, fields) at the same place *)
Theorem deepcopies_keep : forall rq F, exists more, deepcopies F rq = F ++ more.
Proof.
  induction rq as [|[[k new] f] rq IH]; intros F; cbn [deepcopies]; [exists []; now rewrite app_nil_r|].
  destruct (deepcopy_prefix F k new f) as (m1 & E1). destruct (IH (deepcopy F k new f)) as (m2 & E2).
  exists (m1 ++ m2). now rewrite E2, E1, app_assoc.
Qed.
Corollary deepcopies_keep_nth rq F j a : nth_error F j = Some a -> nth_error (deepcopies F rq) j = Some a.
Proof.
  intros H. destruct (deepcopies_keep rq F) as (more & E). rewrite E, nth_error_app1; [exact H|].
  apply nth_error_Some. congruence.
Qed.

(* C2: the tree a deep copy adds prints the text its source spans and shares no token identity and no store with ANY
   live tree (not only with its source): nothing done through the copy can reach them *)
Theorem deepcopy_apart F k new f a :
  classes_ok cs -> nth_error F k = Some a -> conforms cs a = true ->
  (forall t, k_rule (f t) = k_rule t /\ k_text (f t) = k_text t) ->
  (forall t y, In t (node_toks a ++ leaves a) -> In y (forest_toks F) -> k_id (f t) <> k_id y) ->
  ~ In new (forest_sids F) ->
  exists c, deepcopy F k new f = F ++ [c]
    /\ text_of (node_toks c) = text_of (node_toks a)
    /\ (forall x y, In x (node_toks c ++ leaves c) -> In y (forest_toks F) -> k_id x <> k_id y)
    /\ (forall s, In s (sids c) -> ~ In s (forest_sids F)).
Proof.
  intros Hok Hk Hc Hf Hfresh Hnew. exists (clone cs new f a). unfold deepcopy. rewrite Hk.
  split; [reflexivity|]. split; [now apply clone_text|]. split.
  - intros x y Hx Hy. rewrite clone_toks, clone_leaves, <- map_app in Hx by assumption.
    apply in_map_iff in Hx. destruct Hx as (t & <- & Ht). now apply Hfresh.
  - intros s Hs. rewrite (clone_sids cs new f a Hc s Hs). exact Hnew.
Qed.

Lemma fresh_b_ok (f : tk -> tk) ts ys :
  forallb (fun t => forallb (fun y => negb (k_id (f t) =? k_id y)%Z) ys) ts = true ->
  forall t y, In t ts -> In y ys -> k_id (f t) <> k_id y.
Proof.
  intros H t y Ht Hy E. rewrite forallb_forall in H. specialize (H t Ht). rewrite forallb_forall in H.
  specialize (H y Hy). rewrite E, Z.eqb_refl in H. discriminate.
Qed.
End Forest.

(* ==== D. Store.v: the observers of the token store ========================================================= *)
From AB Require Import Store StoreRun StoreTop.

(* get_index, get_position, get_prev, get_next, get_first, get_last, iteration (whole / range), len take a store and
   return a value: the model has no way to write through them.  The consequence worth stating: a history may interleave
   any observers with its edits; deleting them gives the same final store (hence the same token list `abs`, texts,
   positions), and every observer returns what it returns in the history without the other observers. *)
Inductive squery :=
| QIndex (t : Z) | QPosition (t : Z) | QPrev (t : Z) | QNext (t : Z) | QFirst | QLast | QIter | QRange (a b : Z) | QLen.
Inductive sobs :=
| BIndex (r : res Z) | BPos (r : res pos) | BTok (r : res (option positive)) | BToks (r : res (list positive)) | BLen (z : Z).
Definition observe (s : Store.store) (q : squery) : sobs :=
  match q with
  | QIndex t => BIndex (get_index s (P t))
  | QPosition t => BPos (get_position s (P t))
  | QPrev t => BTok (get_prev s (P t))
  | QNext t => BTok (get_next s (P t))
  | QFirst => BTok (get_first s)
  | QLast => BTok (get_last s)
  | QIter => BToks (Ok (all_tokens s))
  | QRange a b => BToks (iter_range s (P a) (P b))
  | QLen => BLen (Store.len s)
  end.
Inductive mop := MEdit (o : sop) | MRead (q : squery).
Fixpoint mrun (LF : Z) (s : Store.store) (ops : list mop) : Store.store * list sobs :=
  match ops with
  | [] => (s, [])
  | MEdit o :: r => mrun LF (fst (StoreRun.step LF s o)) r
  | MRead q :: r => let (s', obs) := mrun LF s r in (s', observe s q :: obs)
  end.
Fixpoint edits_of (ops : list mop) : list sop :=
  match ops with [] => [] | MEdit o :: r => o :: edits_of r | MRead _ :: r => edits_of r end.

Theorem store_reads_erasable LF : forall ops s, fst (mrun LF s ops) = run_ops LF s (edits_of ops).
Proof.
  induction ops as [|[o|q] ops IH]; intros s; cbn [mrun edits_of run_ops]; [reflexivity|apply IH|].
  specialize (IH s). destruct (mrun LF s ops) as [s' obs]. exact IH.
Qed.

(* with the refinement theorem of the store (StoreTop.run_ops_spec): the token list and the texts after the mixed history
   are those of the reference list semantics of its edits alone *)
Theorem store_reads_erasable_abs LF ops s : 1 <= LF -> Inv s -> pure s -> ops_valid (abs s) (edits_of ops) ->
  abs (fst (mrun LF s ops)) = ref_run (abs s) (edits_of ops)
  /\ (forall t, txt (fst (mrun LF s ops)) t = ref_texts (txt s) (edits_of ops) t).
Proof.
  intros HLF HI Hp Hv. rewrite store_reads_erasable.
  destruct (run_ops_spec LF HLF (edits_of ops) s HI Hp Hv) as (_ & H1 & H2). split; assumption.
Qed.

(* the example history of StoreTop with observers between the edits *)
Definition ex_mixed : list mop :=
  MRead QIter :: MRead (QPosition 6) ::
  flat_map (fun o => [MEdit o; MRead QLen; MRead (QIndex 3); MRead (QRange 1 7); MRead QLast; MRead (QNext 3)]) ex_ops.
Lemma ex_mixed_edits : edits_of ex_mixed = ex_ops.
Proof. reflexivity. Qed.
