(* Extended-slice assignment (step <> 1) under the layout invariant: the loop that replaces the
   addressed items one at a time (_del_tokens i i+1, _insert_tokens i [v], items[i] = v). *)
From AB Require Import Prelude PySeq RepeatedLib Repeated Fields RepeatedProofs RepeatedLayout RepeatedInsert RepeatedCells RepeatedSep
  RepeatedOps RepeatedSlices RepeatedDrop.
From Coq Require Import ZifyBool Permutation.

Lemma in_flat : forall cs t, In t (flat cs) -> exists c, In c cs /\ (In t (c_gap c) \/ In t (c_body c)).
Proof.
  induction cs as [|c cs IH]; intros t H; [destruct H|]. rewrite flat_cons in H.
  apply in_app_or in H. destruct H as [H|H]; [exists c; split; [now left|now left]|].
  apply in_app_or in H. destruct H as [H|H]; [exists c; split; [now left|now right]|].
  destruct (IH t H) as (c' & Hc & Ht). exists c'. split; [now right|exact Ht].
Qed.

Lemma in_flat_body : forall cs c t, In c cs -> In t (c_body c) -> In t (flat cs).
Proof.
  induction cs as [|c0 cs IH]; intros c t Hc Ht; [destruct Hc|]. rewrite flat_cons.
  destruct Hc as [->|Hc]; apply in_or_app; right; apply in_or_app; [now left|right; eapply IH; eassumption].
Qed.

Lemma in_flat_gap : forall cs c t, In c cs -> In t (c_gap c) -> In t (flat cs).
Proof.
  induction cs as [|c0 cs IH]; intros c t Hc Ht; [destruct Hc|]. rewrite flat_cons.
  destruct Hc as [->|Hc]; apply in_or_app; [now left|right; apply in_or_app; right; eapply IH; eassumption].
Qed.

Lemma in_lay : forall pre pht cs post t,
  In t (lay pre pht cs post) <-> In t pre \/ t = pht \/ In t (flat cs) \/ In t post.
Proof.
  intros. unfold lay. rewrite in_app_iff. cbn [In]. rewrite in_app_iff. intuition.
Qed.

Section Ext.
Variable ph : Z.
Variables seps sepsb : list (kind * str).
Hypothesis Hseps : seps_ok seps.
Hypothesis Hsepsb : seps_ok sepsb.

Notation ins_res := (ins_res seps sepsb).
Notation ins_fr := (ins_fr seps sepsb).

(* one inserted value: every token of the new cells is an old token, a token of the value, or a fresh
   separator whose id lies in [fr, fr') *)
Lemma ins_one_tokens : forall A B fr v t, In t (flat (ins_res A B fr [v])) ->
  In t (flat (A ++ B)) \/ In t (d_store v) \/ fr <= tid t < ins_fr A B fr [v].
Proof.
  intros A B fr v t H.
  assert (R : forall s, In t (mk_seps fr s) -> fr <= tid t < fr + zlen s).
  { intros s Hs. apply mk_seps_ids_range. unfold ids. now apply in_map. }
  destruct A as [|a A].
  - destruct B as [|b0 B'].
    + cbn [RepeatedCells.ins_res cells3 cells1 RepeatedCells.ins_fr fr_after3 fr_after] in *.
      rewrite flat_cons, flat_nil, app_nil_r in H. cbn [c_gap c_body] in H.
      apply in_app_or in H. destruct H as [H|H]; [right; right; apply R in H; unfold nsepsb; lia|right; now left].
    + cbn [RepeatedCells.ins_res shift RepeatedCells.ins_fr fr_after app] in *.
      rewrite flat_cons, flat_cons in H. cbn [c_gap c_body] in H. rewrite flat_cons.
      apply in_app_or in H. destruct H as [H|H]; [left; apply in_or_app; now left|].
      apply in_app_or in H. destruct H as [H|H]; [right; now left|].
      apply in_app_or in H. destruct H as [H|H]; [right; right; apply R in H; unfold nseps; lia|].
      left. apply in_or_app. right. exact H.
  - cbn [RepeatedCells.ins_res cells1 RepeatedCells.ins_fr fr_after] in *.
    rewrite flat_app in H. apply in_app_or in H. destruct H as [H|H]; [left; rewrite flat_app; apply in_or_app; now left|].
    cbn [app] in H. rewrite flat_cons in H. cbn [c_gap c_body] in H.
    apply in_app_or in H. destruct H as [H|H]; [right; right; apply R in H; unfold nseps; lia|].
    apply in_app_or in H. destruct H as [H|H]; [right; now left|].
    left. rewrite flat_app. apply in_or_app. now right.
Qed.

Lemma ins_fr_ge : forall A B fr v, fr <= ins_fr A B fr [v].
Proof.
  intros A B fr v. pose proof (zlen_nonneg seps). pose proof (zlen_nonneg sepsb).
  unfold RepeatedCells.ins_fr. destruct A, B; cbn [fr_after fr_after3]; unfold nseps, nsepsb; lia.
Qed.

(* the invariant tying separators_before_last (computed once, before the loop) to the current cells *)
Definition SblInv (pre : list tok) (pht : tok) (sbl : option Z) (cs : list cell) : Prop :=
  2 <= zlen cs -> exists c0 rest, cs = c0 :: rest /\ sbl = Some (tid (last (pre ++ pht :: c_gap c0) dft)).

Lemma ins_res_len1 : forall A B fr v, zlen (ins_res A B fr [v]) = zlen A + 1 + zlen B.
Proof.
  intros A B fr v. replace (zlen (ins_res A B fr [v])) with (zlen (map c_body (ins_res A B fr [v]))) by apply zlen_map.
  destruct (ins_res_shape seps sepsb A B fr [v]) as (Nc & B' & -> & E1 & E2).
  apply tail_eq_bodies in E2. rewrite !map_app, E1, E2, !zlen_app, !zlen_map. change (zlen [v]) with 1. lia.
Qed.

Theorem ext_step_layout : forall pre pht A c B post v rest sbl fr,
  WF ph pre pht (A ++ c :: B) post -> donors_ok fr (lay pre pht (A ++ c :: B) post) (v :: rest) ->
  SblInv pre pht sbl (A ++ c :: B) ->
  let cs := A ++ c :: B in
  let cs1 := ins_res A (del_tail A [c] B post) fr [v] in
  let fr1 := ins_fr A (del_tail A [c] B post) fr [v] in
  del_tokens ph (lay pre pht cs post) (map item_of cs) (zlen A) (zlen A + 1)
    = (lay pre pht (A ++ del_tail A [c] B post) post, Ok tt) /\
  insert_tokens ph seps sepsb (lay pre pht (A ++ del_tail A [c] B post) post) (map item_of cs) (zlen A) [v]
      (zlen (map item_of cs) - 1) sbl fr = (lay pre pht cs1 post, [emptied v], fr1, Ok tt) /\
  list_set_int (map item_of cs) (zlen A) (node_item v) = Ok (map item_of cs1) /\
  WF ph pre pht cs1 post /\ zlen cs1 = zlen cs /\ Edit cs cs1 [c] [d_store v] /\
  (Sep seps sepsb cs -> Sep seps sepsb cs1) /\
  donors_ok fr1 (lay pre pht cs1 post) rest /\ SblInv pre pht sbl cs1.
Proof.
  intros pre pht A c B post v rest sbl fr Hwf Hdon Hinv. cbv zeta.
  pose proof (zlen_nonneg A) as HzA. pose proof (zlen_nonneg B) as HzB.
  (* deletion *)
  pose proof (del_layout ph pre pht A [c] B post Hwf ltac:(discriminate)) as Hdel.
  change (zlen [c]) with 1 in Hdel. cbn [app] in Hdel. rewrite del_res_tail in Hdel.
  destruct (del_res_wf ph pre pht A [c] B post Hwf) as [Hwf1 Hsub]. rewrite del_res_tail in Hwf1, Hsub. cbn [app] in Hsub.
  (* the single donor *)
  destruct Hdon as (Hvs & Hdb & Hvb & Hnn).
  assert (Hdon1 : donors_ok fr (lay pre pht (A ++ del_tail A [c] B post) post) [v]).
  { repeat split.
    - constructor; [exact (Forall_inv Hvs)|constructor].
    - intros x Hx. apply Hdb. now apply Hsub.
    - intros x Hx. apply Hvb. cbn [dids flat_map] in *. rewrite app_nil_r in Hx. apply in_or_app. now left.
    - cbn [dids flat_map] in *. rewrite app_nil_r. apply nodup_app_intro; [apply Hwf1| |].
      + eapply nodup_app_l. eapply nodup_app_rr. exact Hnn.
      + intros x Hx Hin. eapply nodup_app_disj; [exact Hnn|apply Hsub; exact Hx|apply in_or_app; now left]. }
  assert (Hsbl : A = [] -> forall b0 B', del_tail A [c] B post = b0 :: B' ->
           sbl = Some (tid (last (pre ++ pht :: c_gap b0) dft)) \/ (sbl = None /\ [c] ++ B = del_tail A [c] B post)).
  { intros -> b0 B' E. left. destruct B as [|b1 B1]; [discriminate|]. cbn [del_tail] in E. inversion E; subst b0 B'.
    cbn [c_gap].
    assert (H2 : 2 <= zlen ([] ++ c :: b1 :: B1)) by (cbn [app]; rewrite !zlen_cons; pose proof (zlen_nonneg B1); lia).
    destruct (Hinv H2) as (c0 & rst & E0 & Es). cbn [app] in E0. injection E0 as <- <-. exact Es. }
  destruct (ins_layout ph seps sepsb Hseps Hsepsb pre pht A (del_tail A [c] B post) post (map item_of (A ++ ([c] ++ B))) ([c] ++ B) [v] sbl fr
              Hwf1 eq_refl Hsbl Hdon1) as (Hi & Hwf' & Hit).
  cbn [app] in Hi. rewrite del_tail_items in Hit.
  assert (Hlen : zlen (map item_of (A ++ c :: B)) - 1 = zlen (A ++ del_tail A [c] B post)).
  { rewrite zlen_map, !zlen_app, zlen_cons, del_tail_len. lia. }
  assert (Hl1 : zlen (ins_res A (del_tail A [c] B post) fr [v]) = zlen (A ++ c :: B)).
  { rewrite ins_res_len1, del_tail_len, zlen_app, zlen_cons. lia. }
  split; [exact Hdel|]. split; [rewrite Hlen; exact Hi|].
  split.
  { rewrite Hit. rewrite map_app. cbn [map]. replace (zlen A) with (zlen (map item_of A)) by apply zlen_map.
    now rewrite list_set_int_mid. }
  split; [exact Hwf'|]. split; [exact Hl1|].
  split.
  { destruct (ins_res_shape seps sepsb A (del_tail A [c] B post) fr [v]) as (Nc & B' & E & E1 & E2).
    exists A, B, Nc, B'. split; [reflexivity|]. split; [exact E|]. split; [exact E1|].
    eapply tail_eq_trans; [apply del_tail_tail|exact E2]. }
  split.
  { intro HS. apply Sep_ins. rewrite <- del_res_tail. apply (Sep_del seps sepsb A [c] B). exact HS. }
  split.
  - (* the remaining donors are still new to the document *)
    assert (Htok : forall x, In x (ids (lay pre pht (ins_res A (del_tail A [c] B post) fr [v]) post)) ->
              In x (ids (lay pre pht (A ++ c :: B) post)) \/ In x (ids (d_store v)) \/ fr <= x < ins_fr A (del_tail A [c] B post) fr [v]).
    { intros x Hx. unfold ids in Hx. apply in_map_iff in Hx. destruct Hx as (t & <- & Ht).
      apply in_lay in Ht. destruct Ht as [Ht|[Ht|[Ht|Ht]]].
      - left. unfold ids. apply in_map. apply in_lay. now left.
      - left. unfold ids. apply in_map. apply in_lay. right. now left.
      - apply ins_one_tokens in Ht. destruct Ht as [Ht|[Ht|Ht]].
        + left. apply Hsub. unfold ids. apply in_map. apply in_lay. right. right. now left.
        + right. left. unfold ids. now apply in_map.
        + right. now right.
      - left. unfold ids. apply in_map. apply in_lay. right. right. now right. }
    pose proof (ins_fr_ge A (del_tail A [c] B post) fr v) as Hge.
    cbn [dids flat_map] in Hvb, Hnn.
    repeat split.
    + exact (Forall_inv_tail Hvs).
    + intros x Hx. destruct (Htok x Hx) as [H|[H|H]]; [apply Hdb in H; lia| |lia].
      assert (x < fr) by (apply Hvb; apply in_or_app; now left). lia.
    + intros x Hx. assert (x < fr) by (apply Hvb; apply in_or_app; now right). lia.
    + apply nodup_app_intro; [apply Hwf'|eapply nodup_app_rr; eapply nodup_app_rr; exact Hnn|].
      intros x Hx Hr. destruct (Htok x Hx) as [H|[H|H]].
      * eapply nodup_app_disj; [exact Hnn|exact H|apply in_or_app; now right].
      * apply nodup_app_rr in Hnn. eapply nodup_app_disj; [exact Hnn|exact H|exact Hr].
      * assert (x < fr) by (apply Hvb; apply in_or_app; now right). lia.
  - (* separators_before_last still describes the first gap *)
    intros H2. rewrite Hl1 in H2. destruct (Hinv H2) as (c0 & rst & E0 & Es).
    destruct A as [|a0 A'].
    + cbn [app] in E0. injection E0 as <- <-.
      destruct B as [|b1 B1]; [cbn [app] in H2; rewrite zlen_cons in H2; change (zlen (@nil cell)) with 0 in H2; lia|].
      cbn [del_tail RepeatedCells.ins_res shift app]. eexists _, _. split; [reflexivity|]. exact Es.
    + cbn [app] in E0. injection E0 as <- <-.
      cbn [RepeatedCells.ins_res app]. eexists _, _. split; [reflexivity|]. exact Es.
Qed.

(* the loop *)
Theorem ext_loop_layout : forall ps vs pre pht cs post sbl fr done,
  WF ph pre pht cs post -> donors_ok fr (lay pre pht cs post) vs -> SblInv pre pht sbl cs ->
  Forall (fun p => 0 <= p < zlen cs) ps -> zlen ps = zlen vs ->
  exists cs' M fr' dl,
    ext_loop ph seps sepsb (mkst (lay pre pht cs post) (map item_of cs)) sbl fr ps vs done
      = (mkst (lay pre pht cs' post) (map item_of cs'), dl, fr', Ok tt) /\
    WF ph pre pht cs' post /\ Edits cs cs' M (map d_store vs) /\ (Sep seps sepsb cs -> Sep seps sepsb cs').
Proof.
  induction ps as [|p ps IH]; intros vs pre pht cs post sbl fr done Hwf Hdon Hinv Hps Hlen.
  - destruct vs as [|v vs]; [|rewrite zlen_cons in Hlen; pose proof (zlen_nonneg vs); change (zlen (@nil Z)) with 0 in Hlen; lia].
    exists cs, [], fr, (done ++ []). cbn. repeat split; try apply Hwf; [constructor|tauto].
  - destruct vs as [|v vs]; [rewrite zlen_cons in Hlen; pose proof (zlen_nonneg ps); change (zlen (@nil donor)) with 0 in Hlen; lia|].
    pose proof (Forall_inv Hps) as Hp. pose proof (Forall_inv_tail Hps) as Hps'. cbn beta in Hp.
    destruct (cut3 cs p 1) as (A & M & B & -> & HA & HM); [lia|lia|lia|].
    destruct M as [|c [|c2 M]]; [discriminate| |rewrite !zlen_cons in HM; pose proof (zlen_nonneg M); lia].
    cbn [app] in *.
    destruct (ext_step_layout pre pht A c B post v vs sbl fr Hwf Hdon Hinv)
      as (Hd & Hi & Hset & Hwf1 & Hl1 & He & HS & Hdon1 & Hinv1).
    cbn [ext_loop s_doc s_items]. rewrite <- HA.
    rewrite Hd. rewrite Hi. rewrite Hset.
    destruct (IH vs pre pht _ post sbl _ (done ++ [emptied v]) Hwf1 Hdon1 Hinv1) as (cs' & M2 & fr' & dl & E & Hw & Hes & HS2).
    + rewrite Hl1. exact Hps'.
    + rewrite !zlen_cons in Hlen. lia.
    + exists cs', ([c] ++ M2), fr', dl. split; [exact E|]. split; [exact Hw|]. split.
      * change (map d_store (v :: vs)) with ([d_store v] ++ map d_store vs).
        eapply Ed_step; [apply Hwf1|exact He|exact Hes].
      * intro H0. apply HS2. now apply HS.
Qed.

Theorem setslice_ext_layout : forall pre pht cs post sl vs fr a b k,
  WF ph pre pht cs post -> donors_ok fr (lay pre pht cs post) vs -> NoDup (map d_node vs) ->
  slice_indices (zlen cs) sl = Ok (a, b, k) -> k <> 1 -> range_len (mkrng a b k) = zlen vs ->
  exists cs' M dl,
    setitem_slice ph seps sepsb (mkst (lay pre pht cs post) (map item_of cs)) sl vs fr
      = (mkst (lay pre pht cs' post) (map item_of cs'), dl, Ok tt) /\
    WF ph pre pht cs' post /\ Edits cs cs' M (map d_store vs) /\ (Sep seps sepsb cs -> Sep seps sepsb cs').
Proof.
  intros pre pht cs post sl vs fr a b k Hwf Hdon Hnn Hsl Hk Hrl.
  pose proof (zlen_nonneg cs) as Hn.
  unfold setitem_slice. cbn [s_doc s_items]. rewrite zlen_map.
  unfold range_from_index, range_getslice. rewrite Hsl. cbn [r_start r_stop r_step].
  rewrite check_detachable_pass; [|eapply donors_ok_detachable; exact Hdon|exact Hnn].
  assert (Hsbl : exists sbl,
     match map item_of cs with [] => Ok None | it0 :: _ => st_get_prev (fst it0) (lay pre pht cs post) end = Ok sbl
     /\ SblInv pre pht sbl cs).
  { destruct cs as [|c0 rest].
    - exists None. split; [reflexivity|]. intros H. change (zlen (@nil cell)) with 0 in H. lia.
    - destruct Hwf as (Hph & Hnd & Hok). pose proof (Forall_inv Hok) as [Hc0 _].
      exists (Some (tid (last (pre ++ pht :: c_gap c0) dft))). split; [cbn [map]; now apply sbl_first|].
      intros _. now exists c0, rest. }
  destruct Hsbl as (sbl & -> & Hinv).
  replace (k =? 1) with false by lia. rewrite Hrl, Z.eqb_refl. cbn [negb].
  destruct (ext_loop_layout (range_list (mkrng a b k)) vs pre pht cs post sbl fr [] Hwf Hdon Hinv)
    as (cs' & M & fr' & dl & E & Hw & He & HS).
  - eapply range_list_bounds; eassumption.
  - rewrite <- Hrl. unfold range_list. rewrite zlen_map. unfold zlen. rewrite seq_length.
    pose proof (zlen_nonneg vs). unfold zlen in *. lia.
  - exists cs', M, dl. rewrite E. repeat split; try assumption; apply Hw.
Qed.

End Ext.
