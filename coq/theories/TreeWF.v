(* The C05 statement ("the tree is a valid syntax tree of its tokens") as a predicate on the generic
   tree model, and its boolean checker. It mirrors harness/treewalk.wf_problems, the monitor of the
   same property, with positions taken in the span of the enclosing node instead of the whole store:

   a *unit* is a tree model: a generated/hand-written tree node, or a Repeated. For every unit
     - it lives in the root's store;
     - its token list `toks` is non-empty, starts at its first_token and ends at its last_token;
     - each child's token list is a contiguous slice of `toks` (child span inside parent span);
     - going through the children in field order, a child may start before the end of the previous
       siblings only over invisible tokens (raw_text == ''): zero-width placeholders may be permuted
       by comment claiming, exactly the tolerance of wf_problems;
   and for the root: no token occurs twice, no token is a leaf at two positions, every leaf is a
   token of the root's span, every significant token of the span is a leaf.
   Tokens are compared as (identity, rule, text) triples: a dump of one object graph gives the same
   triple for the same object. Definitions only; proofs in TreeWFProofs.v. *)
From AB Require Import Desc Tree TreeDefs.
From Coq Require Import ZArith List Bool.
Import ListNotations.
Open Scope list_scope.

Definition tk_same (a b : tk) : bool := (k_id a =? k_id b)%Z && tk_eqb a b.
Definition toks_same (a b : list tk) : bool := list_eqb tk_same a b.
Definition invisible (t : tk) : bool := match k_text t with EmptyString => true | _ => false end.
Definition trivia_rules : list string :=
  ["WHITESPACE"; "_NEWLINE"; "_COMMA"; "BLOCK_COMMENT"; "PLACEHOLDER"]%string.
Definition significant (t : tk) : bool := negb (invisible t) && negb (mem (k_rule t) trivia_rules).
Definition ids (l : list tk) : list Z := map k_id l.

(* Python's T[a:e] *)
Definition slice {A} (T : list A) (a e : nat) : list A := firstn (e - a) (skipn a T).

(* ---- units ------------------------------------------------------------------------------------- *)
Inductive unit :=
| UNode (n : node)
| URep (sid : Z) (toks : list tk) (ph : tk) (items : list node).

Definition slot_subunits (rec : node -> list unit) (sl : slot) : list unit :=
  match sl with
  | SReq x => rec x
  | SOpt None => []
  | SOpt (Some x) => rec x
  | SRep s t ph items => URep s t ph items :: flat_map rec items
  | SSeq items => flat_map rec items
  end.
(* all tree models of a tree, the node itself first *)
Fixpoint subunits (n : node) : list unit :=
  match n with
  | Leaf _ => []
  | Tree _ _ _ kids _ => UNode n :: kids_flat (slot_subunits subunits) kids
  end.

(* the token lists of the direct children of a slot / of a node, in field order
   (treewalk.children: None skipped, a Repeated is one child, number-expression operands are direct) *)
Definition slot_units (sl : slot) : list (list tk) :=
  match sl with
  | SReq x => [node_toks x]
  | SOpt None => []
  | SOpt (Some x) => [node_toks x]
  | SRep _ t _ _ => [t]
  | SSeq items => map node_toks items
  end.
Definition kids_units (kids : list (string * slot)) : list (list tk) := kids_flat slot_units kids.

Definition unit_sid (u : unit) : option Z :=
  match u with
  | UNode (Tree _ s _ _ _) => Some s
  | UNode (Leaf _) => None
  | URep s _ _ _ => Some s
  end.
Definition unit_toks (u : unit) : list tk :=
  match u with UNode n => node_toks n | URep _ t _ _ => t end.
Definition unit_children (u : unit) : list (list tk) :=
  match u with
  | UNode (Tree _ _ _ kids _) => kids_units kids
  | UNode (Leaf _) => []
  | URep _ _ ph items => [ph] :: map node_toks items        (* placeholder, then the items *)
  end.
Definition unit_slot (u : unit) : slot :=
  match u with UNode n => SReq n | URep s t ph items => SRep s t ph items end.

(* ---- the local statement about one unit --------------------------------------------------------- *)
(* spans are half-open index ranges [a, e) into the unit's own token list T *)
Definition placed (T : list tk) (u : list tk) (sp : nat * nat) : Prop :=
  slice T (fst sp) (snd sp) = u /\ snd sp = fst sp + length u.

(* wf_problems: `if prev_end is not None and csp[0] <= prev_end: if any(toks[i].raw_text for i in
   range(csp[0], min(prev_end, csp[1]) + 1)): problem`; prev_end = max(prev_end, csp[1]).
   With exclusive ends: the tokens T[a : min(prev, e)] are all invisible. *)
Fixpoint ordered (T : list tk) (prev : nat) (sp : list (nat * nat)) : Prop :=
  match sp with
  | [] => True
  | (a, e) :: r =>
    (forall t, In t (slice T a (Nat.min prev e)) -> invisible t = true)
    /\ ordered T (Nat.max prev e) r
  end.

Definition local_ok (T : list tk) (children : list (list tk)) : Prop :=
  exists sp, Forall2 (placed T) children sp /\ ordered T 0 sp.

Section WithClasses.
Variable cs : classes_t.

(* models/file.py overrides first_token/last_token of File to be the first/last token of the whole
   store (`self._token_store.get_first() or ...`), so for a File "toks runs from first_token to
   last_token" says nothing beyond non-emptiness; its children must still lie inside, in order. *)
Definition store_spanning : list string := ["File"]%string.
Definition exempt (u : unit) : bool :=
  match u with UNode (Tree c _ _ _ _) => mem c store_spanning | _ => false end.

(* toks is non-empty, begins with first_token and ends with last_token *)
Definition first_last (u : unit) : Prop :=
  unit_toks u <> []
  /\ (exempt u = true
      \/ exists fuel,
           slot_border (border cs fuel SFirst) SFirst (unit_slot u) = Some (hd_error (unit_toks u))
           /\ slot_border (border cs fuel SLast) SLast (unit_slot u) = Some (hd_error (rev (unit_toks u)))).

Definition unit_ok (sid : Z) (u : unit) : Prop :=
  unit_sid u = Some sid /\ first_last u /\ local_ok (unit_toks u) (unit_children u).

Definition root_sid (n : node) : Z := match n with Tree _ s _ _ _ => s | Leaf _ => 0%Z end.

Definition WF (root : node) : Prop :=
  NoDup (ids (node_toks root))
  /\ (forall u, In u (subunits root) -> unit_ok (root_sid root) u)
  /\ NoDup (ids (leaves root))
  /\ (forall t, In t (leaves root) -> In t (node_toks root))
  /\ (forall t, In t (node_toks root) -> significant t = true -> In t (leaves root)).

(* self-contained: the node's tokens are the whole store, up to invisible tokens around them *)
Definition whole_store (root : node) (store : list tk) : Prop :=
  exists pre post, store = pre ++ node_toks root ++ post
                   /\ (forall t, In t pre -> invisible t = true)
                   /\ (forall t, In t post -> invisible t = true).

(* ---- the checker -------------------------------------------------------------------------------- *)
Fixpoint find_off (x : tk) (T : list tk) : option nat :=
  match T with
  | [] => None
  | y :: r => if tk_same x y then Some 0 else option_map S (find_off x r)
  end.
Definition span_of (T u : list tk) : option (nat * nat) :=
  match u with
  | [] => None
  | x :: _ =>
    match find_off x T with
    | None => None
    | Some a => if toks_same (slice T a (a + length u)) u then Some (a, a + length u) else None
    end
  end.
Fixpoint spans_of (T : list tk) (us : list (list tk)) : option (list (nat * nat)) :=
  match us with
  | [] => Some []
  | u :: r => match span_of T u, spans_of T r with
              | Some s, Some l => Some (s :: l)
              | _, _ => None
              end
  end.
Fixpoint ordered_b (T : list tk) (prev : nat) (sp : list (nat * nat)) : bool :=
  match sp with
  | [] => true
  | (a, e) :: r => forallb invisible (slice T a (Nat.min prev e)) && ordered_b T (Nat.max prev e) r
  end.
Definition local_ok_b (T : list tk) (children : list (list tk)) : bool :=
  match spans_of T children with
  | None => false
  | Some sp => ordered_b T 0 sp
  end.

Definition opt_tk_same (a : option (option tk)) (b : option tk) : bool :=
  match a, b with
  | Some (Some x), Some y => tk_same x y
  | _, _ => false
  end.
Definition first_last_b (u : unit) : bool :=
  let fuel := S (slot_depth depth (unit_slot u)) in
  match unit_toks u with [] => false | _ :: _ => true end
  && (exempt u
      || (opt_tk_same (slot_border (border cs fuel SFirst) SFirst (unit_slot u)) (hd_error (unit_toks u))
          && opt_tk_same (slot_border (border cs fuel SLast) SLast (unit_slot u)) (hd_error (rev (unit_toks u))))).
Definition unit_ok_b (sid : Z) (u : unit) : bool :=
  match unit_sid u with Some s => (s =? sid)%Z | None => false end
  && first_last_b u && local_ok_b (unit_toks u) (unit_children u).

Fixpoint nodupz (l : list Z) : bool :=
  match l with [] => true | x :: r => negb (existsb (Z.eqb x) r) && nodupz r end.
Definition tk_in (t : tk) (l : list tk) : bool := existsb (tk_same t) l.

Definition wf_b (root : node) : bool :=
  nodupz (ids (node_toks root))
  && forallb (unit_ok_b (root_sid root)) (subunits root)
  && nodupz (ids (leaves root))
  && forallb (fun t => tk_in t (node_toks root)) (leaves root)
  && forallb (fun t => negb (significant t) || tk_in t (leaves root)) (node_toks root).

(* store = pre ++ toks ++ post with pre, post invisible *)
Definition whole_store_b (root : node) (store : list tk) : bool :=
  match node_toks root with
  | [] => false
  | x :: _ =>
    match find_off x store with
    | None => false
    | Some a =>
      let e := a + length (node_toks root) in
      toks_same (slice store a e) (node_toks root)
      && forallb invisible (firstn a store) && forallb invisible (skipn e store)
    end
  end.
End WithClasses.
