(* L2: the generic tree model. A node is what the implementation's RawModel objects are:
   a token leaf, or a tree node of some class holding its token store id, the token list it spans
   (`.tokens`), its children by field name, and its data fields. Equality, cloning, re-attaching and
   first/last token are *driven by the class descriptors extracted from the source* (Desc.cdesc):
   `_eq` looks at exactly the fields listed in c_eq, `clone` at c_clone, `_reattach` at c_reattach,
   first_token/last_token follow c_first/c_last. No proofs in this file. *)
From AB Require Export Desc.
From Coq Require Export ZArith.
Open Scope list_scope.

Record tk := mktk { k_id : Z; k_rule : string; k_text : string }.
Definition tk_eqb (a b : tk) : bool := String.eqb (k_rule a) (k_rule b) && String.eqb (k_text a) (k_text b).

Inductive node :=
| Leaf (t : tk)
| Tree (cls : string) (sid : Z) (toks : list tk) (kids : list (string * slot)) (data : list (string * string))
with slot :=
| SReq (n : node)
| SOpt (o : option node)
| SRep (sid : Z) (toks : list tk) (ph : tk) (items : list node)     (* internal.Repeated *)
| SSeq (items : list node).                                         (* tuple of children (number expressions) *)

Definition classes_t := list cdesc.
Fixpoint find_class (cs : classes_t) (n : string) : option cdesc :=
  match cs with [] => None | c :: r => if String.eqb (c_name c) n then Some c else find_class r n end.

Fixpoint kid (kids : list (string * slot)) (n : string) : option slot :=
  match kids with [] => None | (k, s) :: r => if String.eqb k n then Some s else kid r n end.
Fixpoint datum (d : list (string * string)) (n : string) : option string :=
  match d with [] => None | (k, s) :: r => if String.eqb k n then Some s else datum r n end.

Definition toks_eqb (a b : list tk) : bool := list_eqb tk_eqb a b.
Definition optstr_eqb (a b : option string) : bool :=
  match a, b with Some x, Some y => String.eqb x y | None, None => true | _, _ => false end.

Section WithClasses.
Variable cs : classes_t.

(* ---- equality: RawTokenModel.__eq__, RawTreeModel.__eq__ + generated _eq, Repeated._eq ---------- *)
Fixpoint node_eq (a b : node) {struct a} : bool :=
  match a, b with
  | Leaf x, Leaf y => tk_eqb x y
  | Tree ca _ ta ka da, Tree cb _ tb kb db =>
    toks_eqb ta tb
    && match find_class cs ca with
       | None => false
       | Some c =>
         String.eqb ca cb                                     (* isinstance(other, Cls) *)
         && forallb (fun n => match kid ka n, kid kb n with Some _, Some _ => true | _, _ => false end) (c_eq c)
         && (fix fields (ks : list (string * slot)) : bool :=
               match ks with
               | [] => true
               | (n, sa) :: r =>
                 (if existsb (String.eqb n) (c_eq c) then
                    match kid kb n with
                    | Some sb =>
                      match sa, sb with
                      | SReq x, SReq y => node_eq x y
                      | SOpt None, SOpt None => true
                      | SOpt (Some x), SOpt (Some y) => node_eq x y
                      | SRep _ t1 _ i1, SRep _ t2 _ i2 =>
                        toks_eqb t1 t2
                        && (fix items (l1 l2 : list node) : bool :=
                              match l1, l2 with
                              | [], [] => true
                              | x :: r1, y :: r2 => node_eq x y && items r1 r2
                              | _, _ => false
                              end) i1 i2
                      | SSeq i1, SSeq i2 =>
                        (fix items (l1 l2 : list node) : bool :=
                           match l1, l2 with
                           | [], [] => true
                           | x :: r1, y :: r2 => node_eq x y && items r1 r2
                           | _, _ => false
                           end) i1 i2
                      | _, _ => false
                      end
                    | None => false
                    end
                  else true) && fields r
               end) ka
         && forallb (fun n => optstr_eqb (datum da n) (datum db n)) (c_eq_data c)
       end
  | _, _ => false
  end.

(* ---- first_token / last_token via the extracted chains ------------------------------------------ *)
Definition slot_border (border : node -> option tk) (sd : side) (s : slot) : option (option tk) :=
  (* Some None = the field is absent (falsy guard); None = malformed *)
  match s with
  | SReq n => match border n with Some t => Some (Some t) | None => None end
  | SOpt None => Some None
  | SOpt (Some n) => match border n with Some t => Some (Some t) | None => None end
  | SRep _ _ ph items =>
    match sd with
    | SFirst => Some (Some ph)
    | SLast => match rev items with
               | [] => Some (Some ph)
               | n :: _ => match border n with Some t => Some (Some t) | None => None end
               end
    end
  | SSeq items =>
    match (match sd with SFirst => items | SLast => rev items end) with
    | [] => None
    | n :: _ => match border n with Some t => Some (Some t) | None => None end
    end
  end.

Fixpoint eval_chain (get : string -> side -> option (option tk)) (ch : chain) : option tk :=
  match ch with
  | [] => None
  | AGuard f s :: r => match get f s with
                       | Some (Some t) => Some t
                       | Some None => eval_chain get r
                       | None => None
                       end
  | APlain f s :: r => match get f s with
                       | Some (Some t) => Some t       (* tokens are truthy objects *)
                       | Some None => None             (* self._f is None: AttributeError *)
                       | None => None
                       end
  end.

Fixpoint border (fuel : nat) (sd : side) (n : node) : option tk :=
  match fuel with
  | O => None
  | S f =>
    match n with
    | Leaf t => Some t
    | Tree c _ _ kids _ =>
      match find_class cs c with
      | None => None
      | Some d =>
        eval_chain (fun name s => match kid kids name with
                                  | Some sl => slot_border (border f s) s sl
                                  | None => None end)
                   (match sd with SFirst => c_first d | SLast => c_last d end)
      end
    end
  end.

(* ---- all leaf tokens of a tree, in field order --------------------------------------------------- *)
Fixpoint leaves (n : node) : list tk :=
  match n with
  | Leaf t => [t]
  | Tree _ _ _ kids _ =>
    (fix go (ks : list (string * slot)) : list tk :=
       match ks with
       | [] => []
       | (_, s) :: r =>
         (match s with
          | SReq x => leaves x
          | SOpt None => []
          | SOpt (Some x) => leaves x
          | SRep _ _ ph items => ph :: (fix it (l : list node) : list tk :=
                                          match l with [] => [] | x :: r' => leaves x ++ it r' end) items
          | SSeq items => (fix it (l : list node) : list tk :=
                             match l with [] => [] | x :: r' => leaves x ++ it r' end) items
          end) ++ go r
       end) kids
  end.

(* store ids of all tree nodes (incl. Repeated) *)
Fixpoint sids (n : node) : list Z :=
  match n with
  | Leaf _ => []
  | Tree _ s _ kids _ =>
    s :: (fix go (ks : list (string * slot)) : list Z :=
            match ks with
            | [] => []
            | (_, sl) :: r =>
              (match sl with
               | SReq x => sids x
               | SOpt None => []
               | SOpt (Some x) => sids x
               | SRep s' _ _ items => s' :: (fix it (l : list node) : list Z :=
                                               match l with [] => [] | x :: r' => sids x ++ it r' end) items
               | SSeq items => (fix it (l : list node) : list Z :=
                                  match l with [] => [] | x :: r' => sids x ++ it r' end) items
               end) ++ go r
            end) kids
  end.

(* ---- _reattach(token_store): generated code re-attaches exactly the fields in c_reattach and sets
        _token_store iff c_reattach_store; Repeated / number expressions re-attach all their items ----- *)
Fixpoint reattach (new : Z) (n : node) : node :=
  match n with
  | Leaf t => Leaf t
  | Tree c s toks kids data =>
    match find_class cs c with
    | None => n
    | Some d =>
      Tree c (if c_reattach_store d then new else s) toks
           ((fix go (ks : list (string * slot)) : list (string * slot) :=
               match ks with
               | [] => []
               | (name, sl) :: r =>
                 (name,
                  if existsb (String.eqb name) (c_reattach d) then
                    match sl with
                    | SReq x => SReq (reattach new x)
                    | SOpt None => SOpt None
                    | SOpt (Some x) => SOpt (Some (reattach new x))
                    | SRep _ t ph items => SRep new t ph (map (reattach new) items)
                    | SSeq items => SSeq (map (reattach new) items)
                    end
                  else sl) :: go r
               end) kids) data
    end
  end.

(* ---- clone(token_store, transformer): a new node built from the fields in c_clone (a field that
        clone forgets is simply absent in the copy), tokens mapped by f, data from c_clone_data -------- *)
Fixpoint clone (new : Z) (f : tk -> tk) (n : node) : node :=
  match n with
  | Leaf t => Leaf (f t)
  | Tree c s toks kids data =>
    match find_class cs c with
    | None => n
    | Some d =>
      Tree c new (map f toks)
           ((fix go (ks : list (string * slot)) : list (string * slot) :=
               match ks with
               | [] => []
               | (name, sl) :: r =>
                 if existsb (String.eqb name) (c_clone d) then
                   (name,
                    match sl with
                    | SReq x => SReq (clone new f x)
                    | SOpt None => SOpt None
                    | SOpt (Some x) => SOpt (Some (clone new f x))
                    | SRep _ t ph items => SRep new (map f t) (f ph) (map (clone new f) items)
                    | SSeq items => SSeq (map (clone new f) items)
                    end) :: go r
                 else go r
               end) kids)
           (filter (fun kv => existsb (String.eqb (fst kv)) (c_clone_data d)) data)
    end
  end.

End WithClasses.
