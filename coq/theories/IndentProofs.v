(* Proofs about Indent.v (C18). *)
From AB Require Import Prelude Indent.

Definition parent_indent (p : parent) : str := match p_indent p with Some i => i | None => [] end.

Lemma default_indent_rule p : get_default_indent p = parent_indent p ++ p_indent_by p.
Proof. unfold get_default_indent, parent_indent. destruct (p_indent p); reflexivity. Qed.

(* the new item of a mapping assignment *)
Theorem setitem_creates p k : has_key k (p_items p) = false ->
  setitem p k = with_items p (p_items p ++ [IMeta (get_indent p) k]).
Proof. intros H. unfold setitem. rewrite H. reflexivity. Qed.

Theorem setitem_existing p k : has_key k (p_items p) = true -> setitem p k = p.
Proof. intros H. unfold setitem. rewrite H. reflexivity. Qed.

Theorem indent_shared p i :
  metas (p_items p) <> [] -> (forall m, In m (metas (p_items p)) -> item_indent m = i) ->
  get_indent p = i.
Proof.
  intros Hne Hall. unfold get_indent. destruct (metas (p_items p)) as [|f r]; [congruence|].
  apply Hall. left. reflexivity.
Qed.

Theorem indent_default p : metas (p_items p) = [] -> get_indent p = parent_indent p ++ p_indent_by p.
Proof. intros H. unfold get_indent. rewrite H. apply default_indent_rule. Qed.

(* comments among the items do not count as siblings *)
Lemma metas_no_meta l : (forall it, In it l -> is_meta it = false) -> metas l = [].
Proof.
  induction l as [|x r IH]; intros H; [reflexivity|].
  unfold metas. cbn [filter]. rewrite (H x (or_introl eq_refl)). apply IH. intros it Hi. apply H. right. exact Hi.
Qed.

(* frame: every route leaves the parent's own indent, its indent_by and all existing items (hence their
   indents and their order) as they were; at most one item is new *)
Definition extends (p p' : parent) (new : list item) : Prop :=
  p_indent p' = p_indent p /\ p_indent_by p' = p_indent_by p
  /\ exists a b, p_items p = a ++ b /\ p_items p' = a ++ new ++ b.

Theorem setitem_frame p k :
  extends p (setitem p k) (if has_key k (p_items p) then [] else [IMeta (get_indent p) k]).
Proof.
  unfold setitem. destruct (has_key k (p_items p)).
  - split; [reflexivity|]. split; [reflexivity|]. exists (p_items p), []. rewrite !app_nil_r. split; reflexivity.
  - split; [reflexivity|]. split; [reflexivity|]. exists (p_items p), []. cbn. rewrite !app_nil_r. split; reflexivity.
Qed.

Theorem append_raw_frame p it : extends p (append_raw p it) [it].
Proof.
  split; [reflexivity|]. split; [reflexivity|]. exists (p_items p), []. cbn. rewrite !app_nil_r. split; reflexivity.
Qed.

Theorem insert_raw_frame p index it : extends p (insert_raw p index it) [it].
Proof.
  split; [reflexivity|]. split; [reflexivity|]. unfold insert_raw. cbn [p_items with_items].
  match goal with |- context [zfirstn ?n _] => set (n0 := n) end.
  exists (zfirstn n0 (p_items p)), (zskipn n0 (p_items p)). split; [|reflexivity].
  unfold zfirstn, zskipn. symmetry. apply firstn_skipn.
Qed.

(* a raw node keeps its indent verbatim: it is the inserted item itself *)
Theorem raw_kept p it : p_items (append_raw p it) = p_items p ++ [it].
Proof. reflexivity. Qed.

(* existing indents, as the list the harness observes *)
Lemma extends_indents p p' new : extends p p' new ->
  exists a b, map item_indent (p_items p) = a ++ b
              /\ map item_indent (p_items p') = a ++ map item_indent new ++ b.
Proof.
  intros (_ & _ & a & b & H1 & H2). exists (map item_indent a), (map item_indent b).
  rewrite H1, H2, !map_app. split; reflexivity.
Qed.

(* ---- comments *)
Theorem comment_created owner_indent ls :
  set_comment None owner_indent (Some ls) = Some (mkcomment owner_indent ls).
Proof. reflexivity. Qed.

Theorem comment_updated c owner_indent ls :
  set_comment (Some c) owner_indent (Some ls) = Some (mkcomment (c_indent c) ls).
Proof. reflexivity. Qed.

Definition starts_with (pre s : str) : Prop := exists rest, s = pre ++ rest.

Theorem comment_lines_indented c :
  Forall (starts_with (c_indent c ++ [SEMI])) (format_value c).
Proof.
  unfold format_value. apply Forall_forall. intros s Hs. apply in_map_iff in Hs as (line & <- & _).
  unfold format_line. destruct (only_breaks line); eexists; rewrite <- app_assoc; reflexivity.
Qed.

(* the documented rule for a created comment, in one statement *)
Theorem comment_rule cur owner_indent ls c :
  set_comment cur owner_indent (Some ls) = Some c ->
  c_lines c = ls
  /\ (cur = None -> c_indent c = owner_indent /\ Forall (starts_with (owner_indent ++ [SEMI])) (format_value c))
  /\ (forall c0, cur = Some c0 -> c_indent c = c_indent c0).
Proof.
  destruct cur as [c0|]; cbn; intros H; injection H as <-; cbn.
  - split; [reflexivity|]. split; [discriminate|]. intros c1 E. injection E as <-. reflexivity.
  - split; [reflexivity|]. split; [|discriminate]. intros _. split; [reflexivity|].
    apply (comment_lines_indented (mkcomment owner_indent ls)).
Qed.

(* the documented rule for a created meta item, in one statement *)
Theorem meta_rule p k : has_key k (p_items p) = false ->
  let p' := setitem p k in
  exists new, p_items p' = p_items p ++ [IMeta new k]
    /\ (forall i, metas (p_items p) <> [] ->
                  (forall m, In m (metas (p_items p)) -> item_indent m = i) -> new = i)
    /\ (metas (p_items p) = [] -> new = parent_indent p ++ p_indent_by p)
    /\ p_indent p' = p_indent p /\ p_indent_by p' = p_indent_by p.
Proof.
  intros H p'. exists (get_indent p). unfold p'. rewrite (setitem_creates p k H). cbn [p_items with_items].
  split; [reflexivity|]. split; [intros i; apply indent_shared|]. split; [apply indent_default|].
  split; reflexivity.
Qed.

(* ---------- histories ---------- *)
Inductive subseq : list item -> list item -> Prop :=
| ss_nil : subseq [] []
| ss_skip x a b : subseq a b -> subseq a (x :: b)
| ss_keep x a b : subseq a b -> subseq (x :: a) (x :: b).

Lemma subseq_refl l : subseq l l.
Proof. induction l; constructor; assumption. Qed.

Lemma del_key_subseq k l : subseq (del_key k l) l.
Proof.
  induction l as [|[i k'|i] r IH]; cbn [del_key]; [constructor| |constructor; exact IH].
  destruct (k' =? k); [apply ss_skip, subseq_refl|apply ss_keep, IH].
Qed.

Lemma del_last_meta_subseq l : subseq (del_last_meta l) l.
Proof.
  induction l as [|it r IH]; cbn [del_last_meta]; [constructor|].
  destruct (is_meta it && negb (existsb is_meta r)); [apply ss_skip, subseq_refl|apply ss_keep, IH].
Qed.

Lemma filter_subseq f l : subseq (filter f l) l.
Proof. induction l as [|x r IH]; cbn [filter]; [constructor|]. destruct (f x); constructor; exact IH. Qed.

(* the C18 statement for one step, relative to the state the step starts from *)
Definition step_spec (p : parent) (o : hop) (p' : parent) : Prop :=
  match o with
  | HSetItem k =>
    if has_key k (p_items p) then p' = p
    else exists new, p_items p' = p_items p ++ [IMeta new k]
      /\ (forall i, metas (p_items p) <> [] ->
                    (forall m, In m (metas (p_items p)) -> item_indent m = i) -> new = i)
      /\ (metas (p_items p) = [] -> new = parent_indent p ++ p_indent_by p)
      /\ p_indent p' = p_indent p /\ p_indent_by p' = p_indent_by p
  | HAppendRaw it | HInsertRaw _ it => extends p p' [it]
  | HDelKey _ | HPop | HClear =>
    subseq (p_items p') (p_items p) /\ p_indent p' = p_indent p /\ p_indent_by p' = p_indent_by p
  | HSetIndentBy s => p_items p' = p_items p /\ p_indent p' = p_indent p /\ p_indent_by p' = s
  | HSetIndent s =>
    p_items p' = p_items p /\ p_indent_by p' = p_indent_by p
    /\ p_indent p' = match p_indent p with Some _ => Some s | None => None end
  | HDeepCopy => p_items p' = p_items p /\ p_indent p' = p_indent p /\ p_indent_by p' = p_indent_by p
  end.

Theorem hstep_spec p o : step_spec p o (fst (hstep p o)).
Proof.
  destruct o as [k|it|n it|k| | |s|s|]; cbn [hstep step_spec fst].
  - destruct (has_key k (p_items p)) eqn:H.
    + apply setitem_existing, H.
    + apply (meta_rule p k H).
  - apply append_raw_frame.
  - apply insert_raw_frame.
  - destruct (has_key k (p_items p)); cbn [fst].
    + split; [apply del_key_subseq|split; reflexivity].
    + split; [apply subseq_refl|split; reflexivity].
  - destruct (existsb is_meta (p_items p)); cbn [fst].
    + split; [apply del_last_meta_subseq|split; reflexivity].
    + split; [apply subseq_refl|split; reflexivity].
  - split; [apply filter_subseq|split; reflexivity].
  - repeat split.
  - repeat split.
  - repeat split.
Qed.

(* every step of every history satisfies the statement w.r.t. the state current at that step *)
Fixpoint trace_ok (p : parent) (ops : list hop) : Prop :=
  match ops with
  | [] => True
  | o :: r => step_spec p o (fst (hstep p o)) /\ trace_ok (fst (hstep p o)) r
  end.

Theorem history_ok : forall ops p, trace_ok p ops.
Proof.
  induction ops as [|o r IH]; intros p; [exact I|]. split; [apply hstep_spec|apply IH].
Qed.

Lemma hrun_app p a b : hrun p (a ++ b) = hrun (hrun p a) b.
Proof. revert p. induction a as [|o r IH]; intros p; [reflexivity|]. cbn. apply IH. Qed.

(* after any history, a mapping assignment into an empty meta block uses the parent indent and the
   indent_by that are current then - in particular the ones assigned last *)
Theorem default_is_current : forall ops p k, let q := hrun p ops in
  metas (p_items q) = [] ->
  p_items (hrun p (ops ++ [HSetItem k])) = p_items q ++ [IMeta (parent_indent q ++ p_indent_by q) k].
Proof.
  intros ops p k q Hm. rewrite hrun_app. fold q. cbn [hrun hstep fst].
  assert (Hk : has_key k (p_items q) = false).
  { clear -Hm. induction (p_items q) as [|[i k'|i] r IH]; [reflexivity|discriminate|].
    cbn in *. apply IH, Hm. }
  rewrite (setitem_creates q k Hk). cbn [p_items with_items]. rewrite (indent_default q Hm). reflexivity.
Qed.

Theorem assigned_is_current : forall ops p s,
  p_indent_by (hrun p (ops ++ [HSetIndentBy s])) = s
  /\ (p_indent (hrun p ops) <> None -> p_indent (hrun p (ops ++ [HSetIndent s])) = Some s).
Proof.
  intros ops p s. rewrite !hrun_app. cbn [hrun hstep fst p_indent_by p_indent]. split; [reflexivity|].
  destruct (p_indent (hrun p ops)); [reflexivity|congruence].
Qed.

(* a deep copy anywhere in a history changes nothing the rule reads: the default rule under the copy uses
   the original's parent indent and the indent_by configured on the original *)
Theorem copy_keeps_rule : forall ops p k, let q := hrun p ops in
  metas (p_items q) = [] ->
  p_items (hrun p (ops ++ [HDeepCopy; HSetItem k])) = p_items q ++ [IMeta (parent_indent q ++ p_indent_by q) k]
  /\ p_indent_by (hrun p (ops ++ [HDeepCopy])) = p_indent_by q
  /\ p_indent (hrun p (ops ++ [HDeepCopy])) = p_indent q.
Proof.
  intros ops p k q Hm.
  assert (Hc : hrun p (ops ++ [HDeepCopy]) = q).
  { rewrite hrun_app. fold q. cbn. destruct q; reflexivity. }
  split; [|rewrite Hc; split; reflexivity].
  replace (ops ++ [HDeepCopy; HSetItem k]) with ((ops ++ [HDeepCopy]) ++ [HSetItem k])
    by (rewrite <- app_assoc; reflexivity).
  pose proof (default_is_current (ops ++ [HDeepCopy]) p k) as H. cbn zeta in H. rewrite Hc in H.
  apply H, Hm.
Qed.
