(* Link for the position-based list models: Spacing.v (setters), NumExpr.v (in-place arithmetic) and
   Builder.v (the store a ModelBuilder fills).  These models name tokens by their position, so the link
   is: (1) their result is a positional splice `gsplice d new p q` of the document, and (2) the positional
   call `pos_call` on any store with that many tokens computes `gsplice (abs s) N p q` for fresh ids N. *)
From AB Require Import StoreLink StoreRun.
From AB Require Spacing SpacingProofs NumExpr.
From Coq Require Import ZifyBool.

Definition gsplice {A} (l ts : list A) (p q : nat) : list A := firstn p l ++ ts ++ skipn q l.

Lemma gsplice_list_splice l ts p q : list_splice l ts p q = gsplice l ts p q.
Proof. reflexivity. Qed.

Lemma gsplice_map {A B} (f : A -> B) l ts p q : map f (gsplice l ts p q) = gsplice (map f l) (map f ts) p q.
Proof. unfold gsplice. rewrite !map_app, firstn_map, skipn_map. reflexivity. Qed.

Lemma gsplice_decomp {A} (X old Y new : list A) :
  X ++ new ++ Y = gsplice (X ++ old ++ Y) new (length X) (length X + length old).
Proof.
  unfold gsplice. rewrite firstn_app, Nat.sub_diag, firstn_all. cbn [firstn]. rewrite app_nil_r. do 2 f_equal.
  rewrite app_assoc. replace (length X + length old)%nat with (length (X ++ old)) by apply app_length.
  rewrite skipn_app, Nat.sub_diag, skipn_all. reflexivity.
Qed.

(* the store call that realises a positional splice *)
Definition pos_call (LF : Z) (s : store) (N : list positive) (p q : nat) : store * res unit :=
  if (p <? q)%nat then splice LF s N (nth_error (abs s) p) (nth_error (abs s) (q - 1))
  else match p with
       | O => insert_after LF s None N
       | S p' => insert_after LF s (nth_error (abs s) p') N
       end.

Theorem pos_call_spec LF s N p q s' r : 1 <= LF -> Inv s -> (p <= q <= length (abs s))%nat ->
  NoDup N -> (forall t, In t N -> free s t) ->
  pos_call LF s N p q = (s', r) ->
  r = Ok tt /\ Inv s' /\ abs s' = gsplice (abs s) N p q /\ (forall t, txt s' t = txt s t) /\ frames s s' N p q.
Proof.
  intros HLF II Hpq ND Hf H. unfold pos_call in H. destruct (Nat.ltb_spec p q) as [L|L].
  - destruct (nth_error (abs s) p) as [a|] eqn:Ea; [|apply nth_error_None in Ea; lia].
    destruct (nth_error (abs s) (q - 1)) as [b|] eqn:Eb; [|apply nth_error_None in Eb; lia].
    apply (splice_spec LF s N (Some a) (Some b) p q s' r HLF II Ea); [split; assumption| |exact H].
    split; [exact ND|]. intros t Ht. left. apply Hf; exact Ht.
  - assert (q = p) as -> by lia. destruct p as [|p'].
    + apply (insert_after_spec LF s N None 0 s' r HLF II); auto.
    + destruct (nth_error (abs s) p') as [a|] eqn:Ea; [|apply nth_error_None in Ea; lia].
      apply (insert_after_spec LF s N (Some a) (S p') s' r HLF II); auto.
      split; [lia|]. replace (S p' - 1)%nat with p' by lia. exact Ea.
Qed.

(* ---------- Spacing.v ---------- *)
Module Sp := Spacing.

Lemma frame_gsplice d d' new old : SpacingProofs.frame_ok d d' new old ->
  exists p q, (p <= q <= length d)%nat /\ d' = gsplice d new p q.
Proof.
  intros (X & o & Y & -> & -> & _). exists (length X), (length X + length o)%nat.
  split; [rewrite !app_length; lia|apply gsplice_decomp].
Qed.

Theorem link_spacing_after d j new :
  exists p q, (p <= q <= length d)%nat /\ Sp.set_raw_spacing_after d j new = gsplice d new p q.
Proof. apply (frame_gsplice _ _ _ _ (SpacingProofs.set_after_frame d j new)). Qed.

Theorem link_spacing_before d i new :
  exists p q, (p <= q <= length d)%nat /\ Sp.set_raw_spacing_before d i new = gsplice d new p q.
Proof. apply (frame_gsplice _ _ _ _ (SpacingProofs.set_before_frame d i new)). Qed.

(* ---------- NumExpr.v ---------- *)
Module NE := NumExpr.

Lemma rm_MOp m g1 d g2 a :
  NE.rm (NE.MOp m g1 d g2 a) = NE.rm m ++ NE.ws g1 ++ [NE.TMulOp d] ++ NE.ws g2 ++ NE.ra a.
Proof. reflexivity. Qed.

Lemma as_mul_tokens e : exists L R, (L = [] /\ R = [] \/ L = [NE.TLp] /\ R = [NE.TRp]) /\
  NE.rm (NE.as_mul_expr e) = L ++ NE.re e ++ R.
Proof.
  unfold NE.as_mul_expr. destruct e as [m|e' g1 b g2 m]; cbn [NE.add_has_ops negb].
  - exists [], []. split; [auto|]. cbn. rewrite app_nil_r. reflexivity.
  - exists [NE.TLp], [NE.TRp]. split; [auto|]. reflexivity.
Qed.

(* every in-place operator is: (optionally) one token inserted before first_token and a run of tokens
   inserted after last_token of the expression, inside whatever store it lives in *)
Theorem link_numexpr_inplace k self other r : NE.inplace k self other = Ok r ->
  exists L R, (L = [] \/ L = [NE.TLp]) /\
    NE.store_toks r = NE.pre self ++ L ++ NE.re (NE.body self) ++ R ++ NE.post self /\
    let p := length (NE.pre self) in let q := (p + length (NE.re (NE.body self)))%nat in
    NE.store_toks r = gsplice (gsplice (NE.store_toks self) R q q) L p p.
Proof.
  intro H.
  assert (forall L R, NE.pre self ++ L ++ NE.re (NE.body self) ++ R ++ NE.post self =
            gsplice (gsplice (NE.store_toks self) R (length (NE.pre self) + length (NE.re (NE.body self)))
                             (length (NE.pre self) + length (NE.re (NE.body self)))) L (length (NE.pre self)) (length (NE.pre self))) as G.
  { intros L R. unfold NE.store_toks.
    pose proof (gsplice_decomp (NE.pre self ++ NE.re (NE.body self)) [] (NE.post self) R) as G1.
    cbn [app length] in G1. rewrite Nat.add_0_r, app_length, <- !app_assoc in G1. rewrite <- G1.
    pose proof (gsplice_decomp (NE.pre self) [] (NE.re (NE.body self) ++ R ++ NE.post self) L) as G2.
    cbn [app length] in G2. rewrite Nat.add_0_r in G2. rewrite <- G2. reflexivity. }
  assert (forall L R, (L = [] \/ L = [NE.TLp]) ->
            NE.store_toks r = NE.pre self ++ L ++ NE.re (NE.body self) ++ R ++ NE.post self ->
            exists L R, (L = [] \/ L = [NE.TLp]) /\
              NE.store_toks r = NE.pre self ++ L ++ NE.re (NE.body self) ++ R ++ NE.post self /\
              NE.store_toks r = gsplice (gsplice (NE.store_toks self) R (length (NE.pre self) + length (NE.re (NE.body self)))
                             (length (NE.pre self) + length (NE.re (NE.body self)))) L (length (NE.pre self)) (length (NE.pre self))) as Fin.
  { intros L R HL E. exists L, R. split; [exact HL|]. split; [exact E|]. rewrite E. apply G. }
  assert (forall minus, NE.iaddsub self other minus = Ok r -> exists L R, (L = [] \/ L = [NE.TLp]) /\
              NE.store_toks r = NE.pre self ++ L ++ NE.re (NE.body self) ++ R ++ NE.post self /\
              NE.store_toks r = gsplice (gsplice (NE.store_toks self) R (length (NE.pre self) + length (NE.re (NE.body self)))
                             (length (NE.pre self) + length (NE.re (NE.body self)))) L (length (NE.pre self)) (length (NE.pre self))) as Hadd.
  { intros minus Ha. unfold NE.iaddsub in Ha. destruct (NE.detach_check _ _); [|discriminate]. injection Ha as <-.
    apply (Fin [] (NE.ws NE.SP ++ [NE.TAddOp minus] ++ NE.ws NE.SP ++ NE.rm (NE.as_mul_expr (NE.body (NE.deepcopy other))))); [auto|].
    unfold NE.store_toks. cbn [NE.pre NE.body NE.post NE.re app]. rewrite <- !app_assoc. reflexivity. }
  assert (forall div, NE.imuldiv self other div = Ok r -> exists L R, (L = [] \/ L = [NE.TLp]) /\
              NE.store_toks r = NE.pre self ++ L ++ NE.re (NE.body self) ++ R ++ NE.post self /\
              NE.store_toks r = gsplice (gsplice (NE.store_toks self) R (length (NE.pre self) + length (NE.re (NE.body self)))
                             (length (NE.pre self) + length (NE.re (NE.body self)))) L (length (NE.pre self)) (length (NE.pre self))) as Hmul.
  { intros div Ha. unfold NE.imuldiv in Ha. destruct (NE.detach_check _ _); [|discriminate]. injection Ha as <-.
    destruct (as_mul_tokens (NE.body self)) as (L & R0 & HLR & Em).
    apply (Fin L (R0 ++ NE.ws NE.SP ++ [NE.TMulOp div] ++ NE.ws NE.SP ++ NE.ra (NE.as_atom_expr (NE.body (NE.deepcopy other))))).
    - destruct HLR as [[-> _]|[-> _]]; auto.
    - unfold NE.store_toks. cbn [NE.pre NE.body NE.post NE.re].
      rewrite rm_MOp, Em, <- !app_assoc. reflexivity. }
  destruct k; cbn [NE.inplace] in H; [exact (Hadd _ H)|exact (Hadd _ H)|exact (Hmul _ H)|exact (Hmul _ H)].
Qed.

(* ---------- Builder.v: the store a ModelBuilder fills, and the spans read back from it ---------- *)
Theorem link_builder_store LF sid tk built : 1 <= LF -> clean tk -> NoDup built ->
  let s' := fst (insert_after LF (empty_store sid tk) None built) in
  insert_after LF (empty_store sid tk) None built = (s', Ok tt) /\ Inv s' /\ abs s' = built /\
  (forall k1 k2 a b, nth_error built k1 = Some a -> nth_error built k2 = Some b ->
     iter_range s' a b = Ok (firstn (k2 + 1 - k1) (skipn k1 built))).
Proof.
  intros HLF Hc ND s'. destruct (insert_after LF (empty_store sid tk) None built) as [s1 r1] eqn:H. cbn [fst] in s'. subst s'.
  destruct (empty_inv sid tk Hc) as [I0 E0].
  assert (forall t, In t built -> free (empty_store sid tk) t) as Hfresh by (intros t _; apply (proj1 Hc)).
  destruct (insert_after_spec LF (empty_store sid tk) built None 0 s1 r1 HLF I0 eq_refl ND Hfresh H) as (-> & I' & Ea & _).
  rewrite E0 in Ea. unfold list_splice in Ea. cbn in Ea. rewrite app_nil_r in Ea.
  split; [reflexivity|]. split; [exact I'|]. split; [exact Ea|].
  intros k1 k2 a b Ha Hb. rewrite <- Ea in *. apply (proj1 (proj2 (proj2 (proj2 (proj2 (proj2 (observers_spec s1 I'))))))); assumption.
Qed.
