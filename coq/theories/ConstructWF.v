(* Proofs about the generic from_children model, part 2: the constructed tree satisfies the C05
   statement (TreeWF.WF). *)
From AB Require Import Desc Tree TreeDefs TreeProofs TreeProofs2 TreeProofs3 TreeProofs4 TreeWF TreeWFProofs.
From AB Require Import Construct ConstructProofs.
From Coq Require Import ZArith List Bool Lia.
Import ListNotations.
Open Scope list_scope.

(* ---- lists ------------------------------------------------------------------------------------- *)
Lemma ids_app : forall a b, ids (a ++ b) = ids a ++ ids b.
Proof. intros. unfold ids. apply map_app. Qed.

Lemma NoDup_app_l' : forall {A} (a b : list A), NoDup (a ++ b) -> NoDup a.
Proof.
  induction a as [|x a IH]; intros b H; [constructor|]. simpl in H. inversion H as [|? ? Hni Hnd]. subst.
  constructor; [|eapply IH; eauto]. intro Hin. apply Hni. apply in_or_app. left. exact Hin.
Qed.

Lemma NoDup_app_r' : forall {A} (a b : list A), NoDup (a ++ b) -> NoDup b.
Proof. induction a as [|x a IH]; intros b H; simpl in H; auto. inversion H. auto. Qed.

Lemma NoDup_ids_app_l : forall a b, NoDup (ids (a ++ b)) -> NoDup (ids a).
Proof. intros a b H. rewrite ids_app in H. eapply NoDup_app_l'. exact H. Qed.

Lemma NoDup_ids_app_r : forall a b, NoDup (ids (a ++ b)) -> NoDup (ids b).
Proof. intros a b H. rewrite ids_app in H. eapply NoDup_app_r'. exact H. Qed.

Lemma NoDup_ids_disjoint : forall a b x y, NoDup (ids (a ++ b)) -> In x a -> In y b -> k_id x <> k_id y.
Proof.
  induction a as [|z a IH]; intros b x y H Hx Hy; [destruct Hx|].
  simpl in H. inversion H as [|? ? Hni Hnd]. subst. destruct Hx as [E|Hx].
  - subst z. intro E. apply Hni. rewrite E. fold (ids (a ++ b)). rewrite ids_app. apply in_or_app. right.
    unfold ids. apply in_map. exact Hy.
  - eapply IH; eauto.
Qed.

Lemma NoDup_ids_app_intro : forall a b, NoDup (ids a) -> NoDup (ids b) ->
  (forall x y, In x a -> In y b -> k_id x <> k_id y) -> NoDup (ids (a ++ b)).
Proof.
  induction a as [|z a IH]; intros b Ha Hb Hd; simpl; auto.
  simpl in Ha. inversion Ha as [|? ? Hni Hnd]. subst. constructor.
  - fold (ids (a ++ b)). rewrite ids_app. intro Hin. apply in_app_or in Hin. destruct Hin as [Hin|Hin]; auto.
    unfold ids in Hin. apply in_map_iff in Hin. destruct Hin as (y & E & Hy).
    apply (Hd z y); auto. left. reflexivity.
  - apply IH; auto. intros x y Hx Hy. apply Hd; auto. right. exact Hx.
Qed.

Lemma slice_mid : forall {A} (p u r : list A), slice (p ++ u ++ r) (length p) (length p + length u) = u.
Proof.
  intros A p u r. unfold slice. replace (length p + length u - length p) with (length u) by lia.
  rewrite skipn_app, skipn_all, Nat.sub_diag. simpl.
  rewrite firstn_app, firstn_all, Nat.sub_diag. simpl. apply app_nil_r.
Qed.

Fixpoint sorted_from (prev : nat) (sp : list (nat * nat)) : Prop :=
  match sp with
  | [] => True
  | (a, e) :: r => prev <= a /\ a <= e /\ sorted_from e r
  end.

Lemma sorted_from_le : forall sp p p', sorted_from p sp -> p' <= p -> sorted_from p' sp.
Proof. intros [|[a e] r] p p' H Hle; simpl in *; auto. destruct H as (H1 & H2 & H3). split; [lia|split; auto]. Qed.

Lemma ordered_of_sorted : forall T sp prev, sorted_from prev sp -> ordered T prev sp.
Proof.
  intros T sp. induction sp as [|[a e] r IH]; intros prev H; simpl in *; auto.
  destruct H as (H1 & H2 & H3). split.
  - intros t Ht. unfold slice in Ht. replace (Nat.min prev e - a) with 0 in Ht by lia. destruct Ht.
  - rewrite Nat.max_r by lia. apply IH. exact H3.
Qed.


(* ---- stretches: where the children lie in the store --------------------------------------------- *)
Definition slot_unit1 (sl : slot) : option (list tk) :=
  match sl with
  | SReq x => Some (node_toks x)
  | SOpt None => None
  | SOpt (Some x) => Some (node_toks x)
  | SRep _ t _ _ => Some t
  | SSeq _ => None
  end.
Definition simple (sl : slot) : Prop := match sl with SSeq _ => False | _ => True end.
Definition seg_simple (s : seg) : Prop := match s with SGlue _ => True | SKid _ sl _ _ => simple sl end.

Lemma slot_units_unit1 : forall sl, simple sl ->
  slot_units sl = match slot_unit1 sl with Some u => [u] | None => [] end.
Proof. intros [x|[x|]|s t ph items|items] H; simpl in *; auto. contradiction. Qed.

Lemma slot_own_unit1 : forall sl, simple sl ->
  slot_own sl = match slot_unit1 sl with Some u => u | None => [] end.
Proof.
  intros sl H. unfold slot_own. rewrite slot_units_unit1 by assumption.
  destruct (slot_unit1 sl); simpl; auto. apply app_nil_r.
Qed.

Fixpoint seg_spans (off : nat) (segs : list seg) : list (nat * nat) :=
  match segs with
  | [] => []
  | SGlue ts :: r => seg_spans (off + length ts) r
  | SKid _ sl pre post :: r =>
    match slot_unit1 sl with
    | Some u => (off + length pre, off + length pre + length u)
                :: seg_spans (off + (length pre + (length u + length post))) r
    | None => seg_spans (off + (length pre + length post)) r
    end
  end.

Lemma kids_units_cons : forall n sl r, kids_units ((n, sl) :: r) = slot_units sl ++ kids_units r.
Proof. reflexivity. Qed.

Lemma placement : forall segs prefix, Forall seg_simple segs ->
  Forall2 (placed (prefix ++ flat_map seg_toks segs)) (kids_units (seg_kids segs))
          (seg_spans (length prefix) segs)
  /\ sorted_from (length prefix) (seg_spans (length prefix) segs).
Proof.
  induction segs as [|s segs IH]; intros prefix Hs.
  - simpl. split; constructor.
  - inversion Hs as [|? ? Hs1 Hs2]. subst. destruct s as [ts|n sl pre post].
    + simpl. destruct (IH (prefix ++ ts) Hs2) as [IH1 IH2].
      rewrite app_length, <- app_assoc in *. split; auto.
      eapply sorted_from_le; eauto. lia.
    + simpl in Hs1. cbn [seg_kids seg_spans]. rewrite kids_units_cons.
      change (flat_map seg_toks (SKid n sl pre post :: segs))
        with ((pre ++ slot_own sl ++ post) ++ flat_map seg_toks segs).
      set (F := flat_map seg_toks segs) in *.
      rewrite slot_own_unit1, slot_units_unit1 by assumption.
      destruct (slot_unit1 sl) as [u|].
      * destruct (IH (prefix ++ pre ++ u ++ post) Hs2) as [IH1 IH2].
        rewrite !app_length in IH1, IH2.
        replace (prefix ++ (pre ++ u ++ post) ++ F)
          with ((prefix ++ pre ++ u ++ post) ++ F)
          by (rewrite <- !app_assoc; reflexivity).
        split.
        -- simpl. constructor; auto. split; simpl; auto.
           replace ((prefix ++ pre ++ u ++ post) ++ F)
             with ((prefix ++ pre) ++ u ++ (post ++ F))
             by (rewrite <- !app_assoc; reflexivity).
           rewrite <- (app_length prefix pre). apply slice_mid.
        -- simpl. repeat split; try lia. eapply sorted_from_le; eauto. lia.
      * destruct (IH (prefix ++ pre ++ post) Hs2) as [IH1 IH2].
        rewrite !app_length in IH1, IH2. simpl.
        replace (prefix ++ (pre ++ post) ++ F)
          with ((prefix ++ pre ++ post) ++ F)
          by (rewrite <- !app_assoc; reflexivity).
        split; auto. eapply sorted_from_le; eauto. lia.
Qed.

Lemma segs_local_ok : forall segs, Forall seg_simple segs ->
  local_ok (flat_map seg_toks segs) (kids_units (seg_kids segs)).
Proof.
  intros segs H. destruct (placement segs [] H) as [H1 H2]. simpl in *.
  exists (seg_spans 0 segs). split; auto. apply ordered_of_sorted. exact H2.
Qed.

(* ---- stretches: leaves and significant tokens ---------------------------------------------------- *)
Definition kid_lv (sl : slot) : Prop :=
  (forall t, In t (slot_leaves sl) -> In t (slot_own sl))
  /\ NoDup (ids (slot_leaves sl))
  /\ (forall t, In t (slot_own sl) -> significant t = true -> In t (slot_leaves sl)).
Definition glue_ok (ts : list tk) : Prop := forall t, In t ts -> significant t = false.
Definition seg_lv (s : seg) : Prop :=
  match s with
  | SGlue ts => glue_ok ts
  | SKid _ sl pre post => glue_ok pre /\ glue_ok post /\ (NoDup (ids (slot_own sl)) -> kid_lv sl)
  end.

Lemma segs_leaves : forall segs, Forall seg_lv segs -> NoDup (ids (flat_map seg_toks segs)) ->
  (forall t, In t (kids_flat slot_leaves (seg_kids segs)) -> In t (flat_map seg_toks segs))
  /\ NoDup (ids (kids_flat slot_leaves (seg_kids segs)))
  /\ (forall t, In t (flat_map seg_toks segs) -> significant t = true ->
                In t (kids_flat slot_leaves (seg_kids segs))).
Proof.
  induction segs as [|s segs IH]; intros Hs Hnd.
  - simpl. split; [intros t []|split; [constructor|intros t []]].
  - inversion Hs as [|? ? Hs1 Hs2]. subst.
    change (flat_map seg_toks (s :: segs)) with (seg_toks s ++ flat_map seg_toks segs) in *.
    set (F := flat_map seg_toks segs) in *.
    destruct (IH Hs2 (NoDup_ids_app_r _ _ Hnd)) as (IHa & IHb & IHc).
    destruct s as [ts|n sl pre post].
    + cbn [seg_kids seg_toks] in *. repeat split; auto.
      * intros t Ht. apply in_or_app. right. auto.
      * intros t Ht Hsig. apply in_app_or in Ht. destruct Ht as [Ht|Ht]; auto.
        rewrite (Hs1 t Ht) in Hsig. discriminate.
    + cbn [seg_kids seg_toks] in *. destruct Hs1 as (Hpre & Hpost & Hk).
      assert (Hown : NoDup (ids (slot_own sl))).
      { apply NoDup_ids_app_l in Hnd. apply NoDup_ids_app_r in Hnd. apply NoDup_ids_app_l in Hnd. exact Hnd. }
      destruct (Hk Hown) as (Ka & Kb & Kc).
      change (kids_flat slot_leaves ((n, sl) :: seg_kids segs))
        with (slot_leaves sl ++ kids_flat slot_leaves (seg_kids segs)).
      set (L := kids_flat slot_leaves (seg_kids segs)) in *.
      repeat split.
      * intros t Ht. apply in_app_or in Ht. apply in_or_app. destruct Ht as [Ht|Ht]; [left|right; auto].
        apply in_or_app. right. apply in_or_app. left. auto.
      * apply NoDup_ids_app_intro; auto. intros x y Hx Hy.
        apply (NoDup_ids_disjoint _ _ x y Hnd); auto.
        apply in_or_app. right. apply in_or_app. left. auto.
      * intros t Ht Hsig. apply in_or_app. apply in_app_or in Ht. destruct Ht as [Ht|Ht]; [|right; auto].
        apply in_app_or in Ht. destruct Ht as [Ht|Ht]; [rewrite (Hpre t Ht) in Hsig; discriminate|].
        apply in_app_or in Ht. destruct Ht as [Ht|Ht]; [left; auto|rewrite (Hpost t Ht) in Hsig; discriminate].
Qed.

(* ---- what a well-formed free-standing argument contributes --------------------------------------- *)
Section Good.
Variable cs : classes_t.
Variable new mid : Z.
Hypothesis Hok : classes_ok cs.

Definition node_fl (x : node) : Prop :=
  exists fuel, border cs fuel SFirst x = hd_error (node_toks x)
               /\ border cs fuel SLast x = hd_error (rev (node_toks x)).

Definition child_good (x : node) : Prop :=
  (forall u, In u (subunits x) -> unit_ok cs new u)
  /\ node_toks x <> [] /\ node_fl x
  /\ (forall t, In t (leaves x) -> In t (node_toks x))
  /\ NoDup (ids (leaves x))
  /\ (forall t, In t (node_toks x) -> significant t = true -> In t (leaves x)).

(* an argument of from_children: a conforming, well-formed tree (not a File) *)
Definition arg_good (n : node) : Prop :=
  conforms cs n = true /\ WF cs n /\ exempt (UNode n) = false.

Lemma exempt_reattach : forall s n, exempt (UNode (reattach cs s n)) = exempt (UNode n).
Proof.
  intros s [t|c s0 T kids d]; auto. rewrite reattach_tree. destruct (find_class cs c); reflexivity.
Qed.

Lemma arg_good_reattach : forall s n, arg_good n -> arg_good (reattach cs s n).
Proof.
  intros s n (Hc & Hwf & He). split; [|split].
  - apply reattach_conforms. exact Hc.
  - apply reattach_WF; assumption.
  - rewrite exempt_reattach. exact He.
Qed.

Lemma root_sid_reattach : forall c s T kids d, conforms cs (Tree c s T kids d) = true ->
  root_sid (reattach cs new (Tree c s T kids d)) = new.
Proof.
  intros c s T kids d H. destruct (conforms_parts _ _ _ _ _ _ H) as (dd & Hc & _).
  destruct (classes_ok_find _ _ _ Hok Hc) as [_ _ _ Hst _ _ _ _ _].
  rewrite reattach_tree, Hc, Hst. reflexivity.
Qed.

Lemma WF_child_good : forall x, WF cs x -> exempt (UNode x) = false ->
  (forall c s T kids d, x = Tree c s T kids d -> s = new) -> child_good x.
Proof.
  intros x (H1 & H2 & H3 & H4 & H5) He Hsid. destruct x as [t|c s T kids d].
  - split; [intros u []|]. split; [discriminate|]. split; [exists 1; split; reflexivity|]. auto.
  - assert (s = new) by (eapply Hsid; reflexivity). subst s. simpl root_sid in H2.
    split; [exact H2|].
    destruct (H2 (UNode (Tree c new T kids d))) as (_ & (Hne & Hfl) & _).
    { rewrite subunits_tree. left. reflexivity. }
    split; [exact Hne|]. split; [|auto].
    destruct Hfl as [Hx|(fuel & Hf & Hl)]; [rewrite Hx in He; discriminate|].
    exists fuel. simpl in Hf, Hl.
    destruct (border cs fuel SFirst (Tree c new T kids d)); try discriminate.
    destruct (border cs fuel SLast (Tree c new T kids d)); try discriminate.
    inversion Hf. inversion Hl. auto.
Qed.

Lemma reattach_child_good : forall n, arg_good n -> child_good (reattach cs new n).
Proof.
  intros n Hg. destruct (arg_good_reattach new n Hg) as (Hc & Hwf & He).
  apply WF_child_good; auto.
  intros c s T kids d E. destruct Hg as (Hcn & _). destruct n as [t|c0 s0 T0 kids0 d0]; [discriminate|].
  pose proof (root_sid_reattach _ _ _ _ _ Hcn) as Hs. rewrite E in Hs. exact Hs.
Qed.

Lemma item_final_child_good : forall n, arg_good n -> child_good (item_final cs new mid n).
Proof. intros n Hg. unfold item_final. apply reattach_child_good. apply arg_good_reattach. exact Hg. Qed.

(* ---- slots of the constructed node ------------------------------------------------------------------ *)
Definition slot_good (sl : slot) : Prop :=
  simple sl
  /\ (forall u, In u (slot_units sl) -> u <> [])
  /\ (forall u, In u (slot_subunits subunits sl) -> unit_ok cs new u)
  /\ (NoDup (ids (slot_own sl)) -> kid_lv sl).

Lemma child_kid_lv : forall x, child_good x -> kid_lv (SReq x).
Proof.
  intros x (_ & _ & _ & Ha & Hb & Hc). unfold kid_lv, slot_own. simpl. rewrite app_nil_r. auto.
Qed.

Lemma slot_good_req : forall x, child_good x -> slot_good (SReq x).
Proof.
  intros x Hg. pose proof (child_kid_lv x Hg) as Hlv. destruct Hg as (Hu & Hne & _).
  split; [exact I|]. split; [|split; auto].
  intros u [E|[]]. subst. exact Hne.
Qed.

Lemma slot_good_opt : forall o, (forall x, o = Some x -> child_good x) -> slot_good (SOpt o).
Proof.
  intros [x|] H.
  - destruct (slot_good_req x (H x eq_refl)) as (_ & H2 & H3 & H4). split; [exact I|]. auto.
  - split; [exact I|]. split; [intros u []|]. split; [intros u []|].
    intros _. split; [intros t []|]. split; [constructor|intros t []].
Qed.
End Good.

Lemma sep_rule_trivia : forall x, mem (sep_rule x) trivia_rules = true.
Proof.
  intro x. unfold sep_rule. destruct (String.eqb x ","); [reflexivity|].
  destruct (String.eqb x nl_string); reflexivity.
Qed.

Lemma fresh_glue_ok : forall seps next, glue_ok (fresh_toks next seps).
Proof.
  induction seps as [|x r IH]; intros next t Ht; [destruct Ht|]. simpl in Ht. destruct Ht as [E|Ht].
  - subst t. unfold significant. change (k_rule (mktk next (sep_rule x) x)) with (sep_rule x).
    rewrite sep_rule_trivia. apply andb_false_r.
  - eapply IH. exact Ht.
Qed.

Lemma nil_glue_ok : glue_ok [].
Proof. intros t []. Qed.

Section Rep.
Variable cs : classes_t.
Variable new mid : Z.
Hypothesis Hok : classes_ok cs.

Let fin := item_final cs new mid.

Lemma rep_segs_spec : forall items next fs seps segs n',
  rep_segs cs new mid next fs seps items = (segs, n') ->
  (forall x, In x items -> arg_good cs x) ->
  seg_kids segs = map (fun x => ("item"%string, SReq (fin x))) items
  /\ Forall seg_simple segs /\ Forall (seg_lv) segs.
Proof.
  induction items as [|x r IH]; intros next fs seps segs n' H Hg; simpl in H.
  - inversion H. repeat split; constructor.
  - destruct (rep_segs cs new mid (next + Z.of_nat (length fs)) seps seps r) as [rest n2] eqn:E.
    inversion H. subst. destruct (IH _ _ _ _ _ E) as (I1 & I2 & I3).
    { intros y Hy. apply Hg. right. exact Hy. }
    repeat split.
    + simpl. rewrite I1. reflexivity.
    + constructor; [exact I|exact I2].
    + constructor; [|exact I3]. simpl. split; [apply fresh_glue_ok|]. split; [apply nil_glue_ok|].
      intros _. apply (child_kid_lv cs new). apply item_final_child_good; auto. apply Hg. left. reflexivity.
Qed.

Lemma hd_rev_app : forall {A} (p q : list A), q <> [] -> hd_error (rev (p ++ q)) = hd_error (rev q).
Proof.
  intros A p q Hq. rewrite rev_app_distr. destruct (rev q) as [|y l] eqn:E; [|reflexivity].
  exfalso. apply Hq. rewrite <- (rev_involutive q), E. reflexivity.
Qed.

Lemma rep_segs_last : forall items next fs seps segs n' p,
  rep_segs cs new mid next fs seps items = (segs, n') ->
  (forall x, In x items -> node_toks (fin x) <> []) ->
  hd_error (rev (p ++ flat_map seg_toks segs)) =
  match rev (map fin items) with
  | [] => hd_error (rev p)
  | y :: _ => hd_error (rev (node_toks y))
  end.
Proof.
  induction items as [|x r IH]; intros next fs seps segs n' p H Hne; simpl in H.
  - inversion H. simpl. rewrite app_nil_r. reflexivity.
  - destruct (rep_segs cs new mid (next + Z.of_nat (length fs)) seps seps r) as [rest n2] eqn:E.
    inversion H. subst. clear H.
    change (flat_map seg_toks (SKid "item" (SReq (item_final cs new mid x)) (fresh_toks next fs) [] :: rest))
      with ((fresh_toks next fs ++ slot_own (SReq (fin x)) ++ []) ++ flat_map seg_toks rest).
    unfold slot_own. simpl slot_units. simpl concat. rewrite !app_nil_r.
    replace (p ++ (fresh_toks next fs ++ node_toks (fin x)) ++ flat_map seg_toks rest)
      with (((p ++ fresh_toks next fs) ++ node_toks (fin x)) ++ flat_map seg_toks rest)
      by (rewrite <- !app_assoc; reflexivity).
    rewrite (IH _ _ _ _ _ _ E) by (intros y Hy; apply Hne; right; exact Hy).
    simpl map. simpl rev. destruct (rev (map fin r)) as [|y l]; simpl; auto.
    apply hd_rev_app. apply Hne. left. reflexivity.
Qed.

Lemma slot_good_rep : forall next seps sb items ph rsegs n',
  rep_all_segs cs new mid next seps sb items = (ph, rsegs, n') ->
  (forall x, In x items -> arg_good cs x) ->
  slot_good cs new (SRep new (flat_map seg_toks rsegs) ph (map fin items)).
Proof.
  intros next seps sb items ph rsegs n' H Hg. unfold rep_all_segs in H.
  destruct (rep_segs cs new mid (next + 1) match sb with Some b => b | None => seps end seps items)
    as [rest n2] eqn:E.
  inversion H. subst ph rsegs n'. clear H.
  set (ph := mktk next "PLACEHOLDER" "") in *.
  destruct (rep_segs_spec _ _ _ _ _ _ E Hg) as (K1 & K2 & K3).
  set (rsegs := SKid "placeholder" (SReq (Leaf ph)) [] [] :: rest).
  change (slot_good cs new (SRep new (flat_map seg_toks rsegs) ph (map fin items))).
  assert (Hgood : forall x, In x items -> child_good cs new (fin x))
    by (intros x Hx; apply item_final_child_good; auto).
  assert (Ksimple : Forall seg_simple rsegs) by (constructor; [exact I|exact K2]).
  assert (Klv : Forall seg_lv rsegs).
  { constructor; [|exact K3]. simpl. split; [apply nil_glue_ok|]. split; [apply nil_glue_ok|].
    intros _. unfold kid_lv, slot_own. simpl. repeat split; auto. constructor; [intros []|constructor]. }
  assert (Kkids : seg_kids rsegs = ("placeholder"%string, SReq (Leaf ph))
                                   :: map (fun x => ("item"%string, SReq (fin x))) items)
    by (simpl; rewrite K1; reflexivity).
  assert (Kunits : kids_units (seg_kids rsegs) = [ph] :: map node_toks (map fin items)).
  { rewrite Kkids. rewrite kids_units_cons. simpl. f_equal.
    clear. induction items as [|x r IH]; [reflexivity|]. cbn [map]. rewrite kids_units_cons, IH. reflexivity. }
  assert (Kleaves : kids_flat slot_leaves (seg_kids rsegs) = ph :: flat_map leaves (map fin items)).
  { rewrite Kkids. simpl. f_equal. clear. induction items as [|x r IH]; simpl; auto. rewrite IH. reflexivity. }
  assert (Hrt : exists tl, flat_map seg_toks rsegs = ph :: tl) by (eexists; reflexivity).
  destruct Hrt as [tl Hrt].
  pose proof (rep_segs_last items _ _ _ _ _ [ph] E) as Hl.
  change ([ph] ++ flat_map seg_toks rest) with (flat_map seg_toks rsegs) in Hl.
  specialize (Hl (fun x Hx => proj1 (proj2 (Hgood x Hx)))).
  clearbody rsegs.
  split; [exact I|]. split; [|split].
  - intros u [Eu|[]]. subst u. intro E0. rewrite E0 in Hrt. discriminate.
  - intros u Hu. simpl in Hu. destruct Hu as [Eu|Hu].
    + subst u. split; [reflexivity|]. split.
      * split; [simpl; intro E0; rewrite E0 in Hrt; discriminate|]. right.
        simpl unit_slot. simpl unit_toks. rewrite Hl. clear Hl.
        destruct (rev (map fin items)) as [|y l] eqn:Er.
        -- exists 1. simpl slot_border. rewrite Er, Hrt. split; reflexivity.
        -- assert (Hy : In y (map fin items)) by (apply in_rev; rewrite Er; left; reflexivity).
           apply in_map_iff in Hy. destruct Hy as (x & Ex & Hx). subst y.
           destruct (Hgood x Hx) as (_ & Hne & (fuel & _ & Hfl) & _).
           exists fuel. simpl slot_border. rewrite Er, Hrt, Hfl. split; [reflexivity|].
           destruct (rev (node_toks (fin x))) as [|z zs] eqn:Ez; [|reflexivity].
           exfalso. apply Hne. rewrite <- (rev_involutive (node_toks (fin x))), Ez. reflexivity.
      * simpl unit_toks. simpl unit_children. rewrite <- Kunits. apply segs_local_ok. exact Ksimple.
    + apply in_flat_map in Hu. destruct Hu as (y & Hy & Hu).
      apply in_map_iff in Hy. destruct Hy as (x & Ex & Hx). subst y.
      destruct (Hgood x Hx) as (Hsub & _). auto.
  - intros Hnd. unfold slot_own in Hnd. simpl in Hnd. rewrite app_nil_r in Hnd.
    destruct (segs_leaves rsegs Klv Hnd) as (La & Lb & Lc). rewrite Kleaves in *.
    unfold kid_lv, slot_own. simpl. rewrite app_nil_r. auto.
Qed.
End Rep.

(* ---- span from first to last token ----------------------------------------------------------------- *)
Lemma find_off_nth : forall x T a, find_off x T = Some a -> nth_error T a = Some x.
Proof.
  intros x T. induction T as [|y T IH]; simpl; intros a H; try discriminate.
  destruct (tk_same x y) eqn:E.
  - inversion H. apply tk_same_eq in E. subst. reflexivity.
  - destruct (find_off x T) as [b|]; try discriminate. inversion H. simpl. auto.
Qed.

Lemma hd_rev_nth : forall {A} (T : list A), hd_error (rev T) = nth_error T (length T - 1).
Proof.
  intros A T. destruct T as [|x T] using rev_ind; [reflexivity|].
  rewrite rev_app_distr, app_length. simpl. rewrite nth_error_app2 by lia.
  replace (length T + 1 - 1 - length T) with 0 by lia. reflexivity.
Qed.

Lemma slice_length : forall {A} (T : list A) a e, length (slice T a e) = Nat.min (e - a) (length T - a).
Proof. intros. unfold slice. rewrite firstn_length, skipn_length. reflexivity. Qed.

Lemma span_whole : forall store x y, store <> [] -> span_toks store (Some x) (Some y) = store ->
  hd_error store = Some x /\ hd_error (rev store) = Some y.
Proof.
  intros store x y Hne H. unfold span_toks in H.
  destruct (find_off x store) as [a|] eqn:Ea; [|exfalso; auto].
  destruct (find_off y store) as [b|] eqn:Eb; [|exfalso; auto].
  pose proof (find_off_lt _ _ _ Ea). pose proof (find_off_lt _ _ _ Eb).
  pose proof (f_equal (@length tk) H) as Hlen. rewrite slice_length in Hlen.
  assert (a = 0) by lia. assert (b = length store - 1) by lia. subst a b.
  split.
  - apply find_off_nth in Ea. destruct store; [discriminate|exact Ea].
  - rewrite hd_rev_nth. apply find_off_nth. exact Eb.
Qed.

(* ---- the constructed tree --------------------------------------------------------------------------- *)
Section Final.
Variable cs : classes_t.
Variable new mid : Z.
Hypothesis Hok : classes_ok cs.
Variable c : cdesc.
Variable args : list (string * arg).

Lemma field_seg_good : forall k f a next s n',
  field_seg cs new mid k f a next = Some (s, n') ->
  (forall x, In x (arg_nodes a) -> arg_good cs x) ->
  exists sl pre post, s = SKid f sl pre post /\ slot_good cs new sl /\ glue_ok pre /\ glue_ok post.
Proof.
  intros k f a next s n' H Hg.
  destruct k as [|seps|seps|seps sb], a as [n|[n|]|items]; simpl in H; try discriminate.
  - inversion H. do 3 eexists. split; [reflexivity|]. split; [|split; apply nil_glue_ok].
    apply slot_good_req. apply reattach_child_good; auto. apply Hg. left. reflexivity.
  - inversion H. do 3 eexists. split; [reflexivity|]. split; [|split; [apply fresh_glue_ok|apply nil_glue_ok]].
    apply slot_good_opt. intros x E. inversion E. apply reattach_child_good; auto. apply Hg. left. reflexivity.
  - inversion H. do 3 eexists. split; [reflexivity|]. split; [|split; apply nil_glue_ok].
    apply slot_good_opt. intros x E. discriminate.
  - inversion H. do 3 eexists. split; [reflexivity|]. split; [|split; [apply nil_glue_ok|apply fresh_glue_ok]].
    apply slot_good_opt. intros x E. inversion E. apply reattach_child_good; auto. apply Hg. left. reflexivity.
  - inversion H. do 3 eexists. split; [reflexivity|]. split; [|split; apply nil_glue_ok].
    apply slot_good_opt. intros x E. discriminate.
  - destruct (rep_all_segs cs new mid next seps sb items) as [[ph rsegs] n2] eqn:E.
    inversion H. do 3 eexists. split; [reflexivity|]. split; [|split; apply nil_glue_ok].
    eapply slot_good_rep; eauto.
Qed.

Lemma build_good : forall l next segs, build cs new mid c args l next = Some segs ->
  args_all args (arg_good cs) ->
  Forall seg_simple segs /\ Forall seg_lv segs
  /\ (forall name sl, In (name, sl) (seg_kids segs) -> slot_good cs new sl).
Proof.
  induction l as [|x r IH]; intros next segs H Hg.
  - inversion H. split; [constructor|split; [constructor|intros ? ? []]].
  - destruct (build_cons _ _ _ _ _ _ _ _ _ H) as (s & n' & segs' & Hs & Hb & E). subst segs.
    destruct (IH _ _ Hb Hg) as (I1 & I2 & I3).
    destruct (lay_seg_field _ _ _ _ _ _ _ _ _ Hs) as [(text & Ex & Es & _)|(f & k & a & Ef & Ek & Ea & Hf)].
    + subst. split; [constructor; [exact I|exact I1]|].
      split; [constructor; [exact (fresh_glue_ok [text] next)|exact I2]|exact I3].
    + destruct (field_seg_good _ _ _ _ _ _ Hf) as (sl & pre & post & Es & Hsg & Hpre & Hpost).
      { intros y Hy. eapply Hg; eauto. }
      subst s. pose proof Hsg as (Hsimple & _ & _ & Hlv). split; [|split].
      * constructor; auto.
      * constructor; auto. simpl. auto.
      * intros nm sl' [E|Hin]; [inversion E; subst; exact Hsg|eauto].
Qed.

Theorem constructed_wf : forall data next store n,
  classes_anchored cs -> find_class cs (c_name c) = Some c -> wf_desc c = true -> NoDup (names c) ->
  args_all args (arg_good cs) ->
  construct cs new mid c args data next = Some (store, n) ->
  NoDup (ids store) ->              (* the arguments' tokens and the fresh ones are distinct objects *)
  node_toks n = store ->            (* the node spans its whole store (self-contained) *)
  WF cs n.
Proof.
  intros data next store n Hanch Hfind Hwf Hnd Hargs H Hndstore Hspan.
  assert (Hconf : conforms cs n = true).
  { eapply constructed_conforms; eauto. intros f a Ha x Hx. apply (Hargs f a Ha x Hx). }
  destruct (construct_inv _ _ _ _ _ _ _ _ _ H) as (l & segs & El & Eb & Es & T & En & ET).
  destruct (build_good _ _ _ Eb Hargs) as (Ksimple & Klv & Kgood).
  subst n. simpl in Hspan. subst T.
  set (kids := seg_kids segs) in *.
  destruct (segs_leaves segs Klv) as (La & Lb & Lc); [rewrite <- Es; exact Hndstore|].
  fold kids in La, Lb, Lc. rewrite <- Es in La, Lc.
  set (fuel := S (S (kids_depth (slot_depth depth) kids))) in *.
  assert (Hdepth : depth (Tree (c_name c) new store kids data) < fuel) by (simpl; unfold fuel; lia).
  destruct (border_total cs Hok Hanch _ fuel SFirst Hdepth Hconf) as (x & Hbx & Hx).
  destruct (border_total cs Hok Hanch _ fuel SLast Hdepth Hconf) as (y & Hby & Hy).
  rewrite leaves_tree in Hx, Hy.
  assert (Hne : store <> []) by (intro E0; specialize (La x Hx); rewrite E0 in La; destruct La).
  unfold fuel in Hbx, Hby, ET. rewrite border_tree in Hbx, Hby. rewrite !border_tree in ET.
  rewrite Hbx, Hby in ET.
  destruct (span_whole store x y Hne (eq_sym ET)) as (Hhd & Hlast).
  unfold WF. rewrite leaves_tree. simpl node_toks. simpl root_sid.
  split; [exact Hndstore|]. split; [|split; [exact Lb|split; [exact La|exact Lc]]].
  intros u Hu. rewrite subunits_tree in Hu. destruct Hu as [E|Hu].
  - subst u. split; [reflexivity|]. split.
    + split; [exact Hne|]. right. exists (S (S (kids_depth (slot_depth depth) kids))).
      cbn [unit_slot unit_toks slot_border node_toks].
      rewrite !border_tree, Hbx, Hby, Hhd, Hlast. auto.
    + simpl unit_toks. simpl unit_children. rewrite Es. apply segs_local_ok. exact Ksimple.
  - apply In_kids_flat in Hu. destruct Hu as (k & sl & Hin & Hu).
    destruct (Kgood k sl Hin) as (_ & _ & Hsub & _). auto.
Qed.
End Final.
