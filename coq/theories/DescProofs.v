(* Soundness of the boolean scheme check: what `wf_desc c = true` means as propositions. *)
From AB Require Import Desc.
From Coq Require Import Lia.

Lemma list_eqb_string_eq : forall a b, names_eqb a b = true -> a = b.
Proof.
  unfold names_eqb. induction a as [|x a IH]; intros [|y b] H; cbn [list_eqb] in H; try discriminate; auto.
  apply andb_true_iff in H as [H1 H2]. apply String.eqb_eq in H1. subst. f_equal. auto.
Qed.

Lemma names_eqb_refl : forall a, names_eqb a a = true.
Proof. induction a as [|x a IH]; [reflexivity|]. unfold names_eqb in *. cbn [list_eqb]. rewrite String.eqb_refl. exact IH. Qed.

Definition field_names (c : cdesc) : list string := map f_name (c_fields c).

(* splitting the big conjunction once *)
Lemma wf_desc_parts : forall c, wf_desc c = true ->
  c_init c = field_names c /\ c_init_data c = c_data c /\
  c_clone c = field_names c /\ c_clone_data c = c_data c /\
  c_reattach c = field_names c /\ c_reattach_store c = true /\
  c_eq_isinstance c = c_name c /\
  c_eq c = field_names c /\ c_eq_data c = c_data c /\
  pivots_ok c = true /\ claim_ok c = true /\ layout_ok c = true.
Proof.
  intros c H. unfold wf_desc in H.
  repeat (apply andb_true_iff in H; destruct H as [H ?]).
  repeat match goal with
         | X : names_eqb _ _ = true |- _ => apply list_eqb_string_eq in X
         | X : String.eqb _ _ = true |- _ => apply String.eqb_eq in X
         end.
  unfold field_names. repeat split; assumption.
Qed.

(* no field is forgotten by _eq / clone / _reattach / __init__ *)
Lemma wf_eq_complete : forall c f, wf_desc c = true -> In f (c_fields c) -> In (f_name f) (c_eq c).
Proof. intros c f H Hin. destruct (wf_desc_parts c H) as (_&_&_&_&_&_&_&E&_). rewrite E. apply in_map. exact Hin. Qed.
Lemma wf_clone_complete : forall c f, wf_desc c = true -> In f (c_fields c) -> In (f_name f) (c_clone c).
Proof. intros c f H Hin. destruct (wf_desc_parts c H) as (_&_&E&_). rewrite E. apply in_map. exact Hin. Qed.
Lemma wf_reattach_complete : forall c f, wf_desc c = true -> In f (c_fields c) ->
  In (f_name f) (c_reattach c) /\ c_reattach_store c = true.
Proof. intros c f H Hin. destruct (wf_desc_parts c H) as (_&_&_&_&E&S&_). rewrite E. split; [apply in_map; exact Hin|exact S]. Qed.
Lemma wf_data_complete : forall c d, wf_desc c = true -> In d (c_data c) ->
  In d (c_eq_data c) /\ In d (c_clone_data c) /\ In d (c_init_data c).
Proof. intros c d H Hin. destruct (wf_desc_parts c H) as (_&I&_&C&_&_&_&_&E&_). rewrite I, C, E. auto. Qed.

(* from_children / iter_children_formatted enumerate every declared field exactly once, in order *)
Definition fmt_fields (l : list fmt) : list string :=
  flat_map (fun f => match f with FmtField n _ => [n] | FmtLit _ => [] end) l.
Lemma wf_formatted_order : forall c, wf_desc c = true -> fmt_fields (c_formatted c) = field_names c.
Proof.
  intros c H. destruct (wf_desc_parts c H) as (_&_&_&_&_&_&_&_&_&_&_&L).
  unfold layout_ok in L. apply andb_true_iff in L as [_ L]. apply list_eqb_string_eq in L. exact L.
Qed.

Definition lay_field (l : lay) : list string :=
  match l with LSeps f => [f] | LDetach a => [("_" ++ a)%string] | LLit _ => [] end.
Lemma lay_fmt_fields : forall l f, list_eqb lay_fmt_match l f = true -> flat_map lay_field l = fmt_fields f.
Proof.
  induction l as [|x l IH]; intros [|y f] H; cbn [list_eqb] in H; try discriminate; auto.
  apply andb_true_iff in H as [H1 H2]. unfold fmt_fields in *. cbn [flat_map]. rewrite (IH _ H2).
  destruct x, y; cbn [lay_fmt_match] in H1; try discriminate;
    try (apply String.eqb_eq in H1; subst; reflexivity).
Qed.
Lemma wf_layout_order : forall c l, wf_desc c = true -> c_layout c = Some l ->
  flat_map lay_field l = field_names c.
Proof.
  intros c l H E. rewrite <- (wf_formatted_order c H).
  destruct (wf_desc_parts c H) as (_&_&_&_&_&_&_&_&_&_&_&L).
  unfold layout_ok in L. rewrite E in L. apply andb_true_iff in L as [L _].
  apply lay_fmt_fields. exact L.
Qed.

(* the first_token / last_token chains are the scheme's, so they end in a required field whenever the
   class has one on that side: the chain can always produce a token *)
Fixpoint ends_plain (ch : chain) : bool :=
  match ch with [] => false | [APlain _ _] => true | _ :: r => ends_plain r end.
Lemma scheme_chain_ends_plain : forall s fs,
  existsb (fun f => match f_kind f with FReq => true | _ => false end) fs = true ->
  ends_plain (scheme_chain s fs) = true.
Proof.
  induction fs as [|f fs IH]; simpl; intro H; [discriminate|].
  destruct (f_kind f) eqn:K; simpl in *.
  - reflexivity.
  - destruct (scheme_chain s fs) eqn:E; [rewrite IH in *; auto; discriminate|]. apply IH. exact H.
  - destruct (scheme_chain s fs) eqn:E; [rewrite IH in *; auto; discriminate|]. apply IH. exact H.
  - destruct (scheme_chain s fs) eqn:E.
    + specialize (IH H). discriminate.
    + apply IH. exact H.
Qed.
