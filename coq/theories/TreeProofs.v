(* Proofs about the generic tree model (Tree.v), for arbitrary class lists and arbitrary nodes.
   Part 1: induction principle, unfolding lemmas, equality (C20). *)
From AB Require Import Desc Tree TreeDefs.
From Coq Require Import ZArith List Bool Lia.
Import ListNotations.
Open Scope list_scope.

(* ---- nested induction over node / slot --------------------------------------------------------- *)
Section NodeInd.
Variable P : node -> Prop.
Variable Q : slot -> Prop.
Hypothesis HLeaf : forall t, P (Leaf t).
Hypothesis HTree : forall c s t kids d, Forall (fun kv => Q (snd kv)) kids -> P (Tree c s t kids d).
Hypothesis HReq : forall n, P n -> Q (SReq n).
Hypothesis HOptN : Q (SOpt None).
Hypothesis HOptS : forall n, P n -> Q (SOpt (Some n)).
Hypothesis HRep : forall s t ph items, Forall P items -> Q (SRep s t ph items).
Hypothesis HSeq : forall items, Forall P items -> Q (SSeq items).

Fixpoint node_ind2 (n : node) : P n :=
  match n with
  | Leaf t => HLeaf t
  | Tree c s t kids d =>
    HTree c s t kids d
      ((fix go (ks : list (string * slot)) : Forall (fun kv => Q (snd kv)) ks :=
          match ks with
          | [] => Forall_nil _
          | kv :: r => Forall_cons kv (slot_ind2 (snd kv)) (go r)
          end) kids)
  end
with slot_ind2 (s : slot) : Q s :=
  match s with
  | SReq n => HReq n (node_ind2 n)
  | SOpt None => HOptN
  | SOpt (Some n) => HOptS n (node_ind2 n)
  | SRep s t ph items =>
    HRep s t ph items
      ((fix go (l : list node) : Forall P l :=
          match l with [] => Forall_nil _ | x :: r => Forall_cons x (node_ind2 x) (go r) end) items)
  | SSeq items =>
    HSeq items
      ((fix go (l : list node) : Forall P l :=
          match l with [] => Forall_nil _ | x :: r => Forall_cons x (node_ind2 x) (go r) end) items)
  end.
End NodeInd.

(* ---- unfolding lemmas: Tree.v's local functions are the named ones of TreeDefs.v ---------------- *)
Lemma node_eq_tree : forall cs ca sa ta ka da cb sb tb kb db,
  node_eq cs (Tree ca sa ta ka da) (Tree cb sb tb kb db) =
  toks_eqb ta tb
  && match find_class cs ca with
     | None => false
     | Some c =>
       String.eqb ca cb
       && forallb (present ka kb) (c_eq c)
       && fields_eq (node_eq cs) (c_eq c) kb ka
       && forallb (fun n => optstr_eqb (datum da n) (datum db n)) (c_eq_data c)
     end.
Proof. reflexivity. Qed.

Lemma leaves_tree : forall c s t kids d, leaves (Tree c s t kids d) = kids_flat slot_leaves kids.
Proof. reflexivity. Qed.

Lemma sids_tree : forall c s t kids d, sids (Tree c s t kids d) = s :: kids_flat slot_sids kids.
Proof. reflexivity. Qed.

Lemma reattach_tree : forall cs new c s t kids d,
  reattach cs new (Tree c s t kids d) =
  match find_class cs c with
  | None => Tree c s t kids d
  | Some dd => Tree c (if c_reattach_store dd then new else s) t
                    (kids_reattach cs new (c_reattach dd) kids) d
  end.
Proof. reflexivity. Qed.

Lemma clone_tree : forall cs new f c s t kids d,
  clone cs new f (Tree c s t kids d) =
  match find_class cs c with
  | None => Tree c s t kids d
  | Some dd => Tree c new (map f t) (kids_clone cs new f (c_clone dd) kids)
                    (filter (fun kv => existsb (String.eqb (fst kv)) (c_clone_data dd)) d)
  end.
Proof. reflexivity. Qed.

Lemma keys_ok_tree : forall c s t kids d,
  keys_ok (Tree c s t kids d) = nodupb (map fst kids) && kids_all (slot_all keys_ok) kids.
Proof. reflexivity. Qed.

Lemma conforms_tree : forall cs c s t kids d,
  conforms cs (Tree c s t kids d) =
  match find_class cs c with
  | None => false
  | Some dd =>
    forallb (fun f => match kid kids (f_name f) with
                      | Some sl => kind_ok (f_kind f) sl
                      | None => false end) (c_fields dd)
    && forallb (fun k => mem k (names dd)) (map fst kids)
    && nodupb (map fst kids)
    && kids_all (slot_all (conforms cs)) kids
  end.
Proof. reflexivity. Qed.

(* ---- small lemmas ------------------------------------------------------------------------------ *)
Lemma seqb_sym : forall a b, String.eqb a b = String.eqb b a.
Proof. intros. apply String.eqb_sym. Qed.

Lemma list_eqb_eq : forall {A} (e : A -> A -> bool),
  (forall x y, e x y = true -> x = y) -> forall a b, list_eqb e a b = true -> a = b.
Proof.
  intros A e He a. induction a as [|x a IH]; intros [|y b] H; simpl in H; try discriminate; auto.
  apply andb_true_iff in H. destruct H as [H1 H2]. f_equal; auto.
Qed.

Lemma list_eqb_sym : forall {A} (e : A -> A -> bool),
  (forall x y, e x y = e y x) -> forall a b, list_eqb e a b = list_eqb e b a.
Proof.
  intros A e He a. induction a as [|x a IH]; intros [|y b]; simpl; auto.
  rewrite He, IH. reflexivity.
Qed.

Lemma list_eqb_refl : forall {A} (e : A -> A -> bool),
  (forall x, e x x = true) -> forall a, list_eqb e a a = true.
Proof. intros A e He a. induction a; simpl; auto. rewrite He, IHa. reflexivity. Qed.

Lemma names_eqb_eq : forall a b, names_eqb a b = true -> a = b.
Proof. apply list_eqb_eq. intros x y H. apply String.eqb_eq. exact H. Qed.

Lemma alt_eqb_eq : forall a b, alt_eqb a b = true -> a = b.
Proof.
  intros [f [|]|f [|]] [g [|]|g [|]] H; simpl in H; try discriminate;
    apply String.eqb_eq in H; subst; reflexivity.
Qed.

Lemma chain_eqb_eq : forall a b, chain_eqb a b = true -> a = b.
Proof. apply list_eqb_eq. exact alt_eqb_eq. Qed.

Lemma tk_eqb_sym : forall a b, tk_eqb a b = tk_eqb b a.
Proof. intros. unfold tk_eqb. rewrite (seqb_sym (k_rule a)), (seqb_sym (k_text a)). reflexivity. Qed.

Lemma tk_eqb_refl : forall a, tk_eqb a a = true.
Proof. intros. unfold tk_eqb. rewrite !String.eqb_refl. reflexivity. Qed.

Lemma tk_eqb_true : forall a b, tk_eqb a b = true <-> k_rule a = k_rule b /\ k_text a = k_text b.
Proof.
  intros. unfold tk_eqb. rewrite andb_true_iff, !String.eqb_eq. tauto.
Qed.

Lemma toks_eqb_sym : forall a b, toks_eqb a b = toks_eqb b a.
Proof. apply list_eqb_sym. exact tk_eqb_sym. Qed.

Lemma toks_eqb_refl : forall a, toks_eqb a a = true.
Proof. apply list_eqb_refl. exact tk_eqb_refl. Qed.

Lemma toks_eqb_map : forall f, (forall t, k_rule (f t) = k_rule t /\ k_text (f t) = k_text t) ->
  forall a, toks_eqb (map f a) a = true.
Proof.
  intros f Hf a. induction a as [|x a IH]; simpl; auto.
  unfold toks_eqb in *. simpl. rewrite IH, andb_true_r. apply tk_eqb_true. apply Hf.
Qed.

Lemma toks_eqb_text : forall a b, toks_eqb a b = true -> text_of a = text_of b.
Proof.
  induction a as [|x a IH]; intros [|y b] H; try discriminate; auto.
  unfold toks_eqb in H. simpl in H. apply andb_true_iff in H. destruct H as [H1 H2].
  apply tk_eqb_true in H1. unfold text_of. simpl. rewrite (proj2 H1). f_equal. apply IH. exact H2.
Qed.

Lemma toks_eqb_length : forall a b, toks_eqb a b = true -> length a = length b.
Proof.
  induction a as [|x a IH]; intros [|y b] H; try discriminate; auto.
  unfold toks_eqb in H. simpl in H. apply andb_true_iff in H. simpl. f_equal. apply IH. apply H.
Qed.

Lemma optstr_eqb_sym : forall a b, optstr_eqb a b = optstr_eqb b a.
Proof. intros [a|] [b|]; simpl; auto. apply seqb_sym. Qed.

Lemma optstr_eqb_eq : forall a b, optstr_eqb a b = true <-> a = b.
Proof.
  intros [a|] [b|]; simpl; split; intro H; try discriminate; auto.
  - apply String.eqb_eq in H. subst. reflexivity.
  - inversion H. apply String.eqb_refl.
Qed.

Lemma mem_In : forall n l, mem n l = true <-> In n l.
Proof.
  intros n l. unfold mem. rewrite existsb_exists. split.
  - intros [x [Hx He]]. apply String.eqb_eq in He. subst. exact Hx.
  - intro H. exists n. split; auto. apply String.eqb_refl.
Qed.

Lemma mem_false : forall n l, mem n l = false <-> ~ In n l.
Proof.
  intros. rewrite <- mem_In. destruct (mem n l); split; intro H; auto; try discriminate.
  exfalso. apply H. reflexivity.
Qed.

Lemma nodupb_NoDup : forall l, nodupb l = true <-> NoDup l.
Proof.
  induction l as [|x l IH]; simpl.
  - split; auto. constructor.
  - rewrite andb_true_iff, negb_true_iff, mem_false, IH. split.
    + intros [H1 H2]. constructor; auto.
    + intro H. inversion H. auto.
Qed.

Lemma find_class_In : forall cs n c, find_class cs n = Some c -> In c cs /\ c_name c = n.
Proof.
  induction cs as [|d cs IH]; simpl; intros n c H; try discriminate.
  destruct (String.eqb (c_name d) n) eqn:E.
  - inversion H. subst. apply String.eqb_eq in E. auto.
  - destruct (IH _ _ H). auto.
Qed.

Lemma kid_In : forall ks n s, kid ks n = Some s -> In (n, s) ks.
Proof.
  induction ks as [|[k s'] ks IH]; simpl; intros n s H; try discriminate.
  destruct (String.eqb k n) eqn:E.
  - apply String.eqb_eq in E. inversion H. subst. auto.
  - right. apply IH. exact H.
Qed.

Lemma In_kid : forall ks n s, NoDup (map fst ks) -> In (n, s) ks -> kid ks n = Some s.
Proof.
  induction ks as [|[k s'] ks IH]; simpl; intros n s Hnd Hin; try contradiction.
  inversion Hnd as [|? ? Hni Hnd']. subst. destruct Hin as [Hin|Hin].
  - inversion Hin. subst. rewrite String.eqb_refl. reflexivity.
  - destruct (String.eqb k n) eqn:E.
    + apply String.eqb_eq in E. subst. exfalso. apply Hni.
      change n with (fst (n, s)). apply in_map. exact Hin.
    + apply IH; auto.
Qed.

Lemma kid_None : forall ks n, kid ks n = None <-> ~ In n (map fst ks).
Proof.
  induction ks as [|[k s'] ks IH]; simpl; intros n.
  - tauto.
  - destruct (String.eqb k n) eqn:E.
    + apply String.eqb_eq in E. subst. split; intro H; try discriminate. exfalso. apply H. auto.
    + apply String.eqb_neq in E. rewrite IH. tauto.
Qed.

Lemma kids_all_In : forall p ks, kids_all p ks = true <-> (forall k sl, In (k, sl) ks -> p sl = true).
Proof.
  intros p ks. induction ks as [|[k sl] ks IH]; simpl.
  - split; [intros _ k sl H; destruct H | reflexivity].
  - rewrite andb_true_iff, IH. split.
    + intros [H1 H2] k' sl' [E|Hin]. inversion E. subst. exact H1. eauto.
    + intro H. split; eauto.
Qed.

Lemma Forall_kids_In : forall (P : string * slot -> Prop) (ks : list (string * slot)) k sl,
  Forall P ks -> In (k, sl) ks -> P (k, sl).
Proof.
  intros P ks k sl H Hin. rewrite Forall_forall in H. apply (H (k, sl)). exact Hin.
Qed.

Lemma forallb_ext2 : forall {A} (f g : A -> bool) l, (forall x, f x = g x) -> forallb f l = forallb g l.
Proof. intros A f g l H. induction l; simpl; auto. rewrite H, IHl. reflexivity. Qed.

Lemma datum_filter : forall p d n,
  datum (filter (fun kv => p (fst kv)) d) n = if p n then datum d n else None.
Proof.
  intros p d n. induction d as [|[k v] d IH]; simpl.
  - destruct (p n); reflexivity.
  - destruct (p k) eqn:Ep; simpl.
    + destruct (String.eqb k n) eqn:E.
      * apply String.eqb_eq in E. subst. rewrite Ep. reflexivity.
      * exact IH.
    + destruct (String.eqb k n) eqn:E.
      * apply String.eqb_eq in E. subst. rewrite Ep in IH. rewrite Ep. exact IH.
      * exact IH.
Qed.

(* ---- wf_tree: what it gives -------------------------------------------------------------------- *)
Lemma wf_desc_wf_tree : forall c, wf_desc c = true -> wf_tree c = true.
Proof.
  intros c H. unfold wf_desc in H. unfold wf_tree, names.
  repeat (apply andb_true_iff in H; destruct H as [H ?]).
  repeat (apply andb_true_iff; split); assumption.
Qed.

Record wf_tree_facts (c : cdesc) : Prop := {
  wt_clone : c_clone c = names c;
  wt_clone_data : c_clone_data c = c_data c;
  wt_reattach : c_reattach c = names c;
  wt_store : c_reattach_store c = true;
  wt_isinstance : c_eq_isinstance c = c_name c;
  wt_eq : c_eq c = names c;
  wt_eq_data : c_eq_data c = c_data c;
  wt_first : c_first c = scheme_first (c_fields c);
  wt_last : c_last c = scheme_last (c_fields c)
}.

Lemma wf_tree_spec : forall c, wf_tree c = true -> wf_tree_facts c.
Proof.
  intros c H. unfold wf_tree in H.
  repeat (apply andb_true_iff in H; destruct H as [H ?]).
  constructor; try (apply names_eqb_eq; assumption); try (apply chain_eqb_eq; assumption); auto.
  apply String.eqb_eq. assumption.
Qed.

Lemma classes_ok_find : forall cs n c, classes_ok cs -> find_class cs n = Some c -> wf_tree_facts c.
Proof. intros cs n c Hok Hf. apply wf_tree_spec. apply Hok. apply (find_class_In _ _ _ Hf). Qed.

(* ---- the core of the generated _eq: presence + pairwise comparison == field_rel on every field -- *)
Section EqCore.
Variable eq : node -> node -> bool.

Lemma fields_eq_spec : forall sel kb ks,
  fields_eq eq sel kb ks = true <->
  (forall n sa, In (n, sa) ks -> In n sel -> exists sb, kid kb n = Some sb /\ slot_eq eq sa sb = true).
Proof.
  intros sel kb ks. induction ks as [|[k s] ks IH]; simpl.
  - split; [intros _ n sa H; destruct H | reflexivity].
  - rewrite andb_true_iff, IH. split.
    + intros [H1 H2] n sa [E|Hin] Hsel.
      * inversion E; subst. apply mem_In in Hsel. unfold mem in Hsel. rewrite Hsel in H1.
        destruct (kid kb n) as [sb|]; try discriminate. exists sb. auto.
      * eauto.
    + intro H. split.
      * destruct (existsb (String.eqb k) sel) eqn:E; auto.
        destruct (H k s (or_introl eq_refl)) as [sb [Hk He]]. { apply mem_In. exact E. }
        rewrite Hk. exact He.
      * intros n sa Hin Hsel. apply (H n sa); auto.
Qed.

Lemma present_spec : forall ka kb sel,
  forallb (present ka kb) sel = true <->
  (forall n, In n sel -> exists sa sb, kid ka n = Some sa /\ kid kb n = Some sb).
Proof.
  intros ka kb sel. rewrite forallb_forall. unfold present. split; intros H n Hn; specialize (H n Hn).
  - destruct (kid ka n) as [sa|]; try discriminate. destruct (kid kb n) as [sb|]; try discriminate. eauto.
  - destruct H as (sa & sb & Ha & Hb). rewrite Ha, Hb. reflexivity.
Qed.

(* no field of `sel` is forgotten: needs no hypothesis on the nodes *)
Lemma eq_core_complete : forall sel ka kb,
  forallb (present ka kb) sel = true -> fields_eq eq sel kb ka = true ->
  forall n, In n sel -> field_rel eq ka kb n.
Proof.
  intros sel ka kb Hp Hf n Hn.
  destruct (proj1 (present_spec ka kb sel) Hp n Hn) as (sa & sb & Ha & Hb).
  destruct (proj1 (fields_eq_spec sel kb ka) Hf n sa (kid_In _ _ _ Ha) Hn) as (sb' & Hb' & He).
  rewrite Hb in Hb'. inversion Hb'. subst sb'. exists sa, sb. auto.
Qed.

Lemma eq_core_sound : forall sel ka kb, NoDup (map fst ka) ->
  (forall n, In n sel -> field_rel eq ka kb n) ->
  forallb (present ka kb) sel = true /\ fields_eq eq sel kb ka = true.
Proof.
  intros sel ka kb Hnd H. split.
  - apply present_spec. intros n Hn. destruct (H n Hn) as (sa & sb & Ha & Hb & _). eauto.
  - apply fields_eq_spec. intros n sa Hin Hn. destruct (H n Hn) as (sa' & sb & Ha & Hb & He).
    rewrite (In_kid _ _ _ Hnd Hin) in Ha. inversion Ha. subst sa'. eauto.
Qed.

Lemma eq_core_iff : forall sel ka kb, NoDup (map fst ka) ->
  (forallb (present ka kb) sel && fields_eq eq sel kb ka = true
   <-> (forall n, In n sel -> field_rel eq ka kb n)).
Proof.
  intros sel ka kb Hnd. rewrite andb_true_iff. split.
  - intros [H1 H2]. apply eq_core_complete; assumption.
  - apply eq_core_sound. exact Hnd.
Qed.

Lemma items_eq_sym : forall (ok : node -> bool) l1 l2,
  Forall (fun x => forall y, ok x = true -> ok y = true -> eq x y = eq y x) l1 ->
  forallb ok l1 = true -> forallb ok l2 = true -> items_eq eq l1 l2 = items_eq eq l2 l1.
Proof.
  intros ok l1. induction l1 as [|x l1 IH]; intros [|y l2] HF H1 H2; simpl; auto.
  simpl in H1, H2. apply andb_true_iff in H1. apply andb_true_iff in H2.
  inversion HF as [|? ? Hx HF']. subst. rewrite (Hx y); try tauto. rewrite IH; tauto.
Qed.

Lemma items_eq_refl : forall (ok : node -> bool) l,
  Forall (fun x => ok x = true -> eq x x = true) l -> forallb ok l = true -> items_eq eq l l = true.
Proof.
  intros ok l. induction l as [|x l IH]; intros HF H; simpl; auto.
  simpl in H. apply andb_true_iff in H. inversion HF as [|? ? Hx HF']. subst.
  rewrite Hx, IH; tauto.
Qed.
End EqCore.

(* ---- C20: symmetry ------------------------------------------------------------------------------ *)
(* Symmetry needs NO hypothesis on the class list: when the class names differ both directions give
   false (isinstance fails, or the class is unknown), when they agree both look up the same class.
   It does need that no node has two children under one field name (keys_ok): node_eq walks the
   left node's children and looks fields up by name in the right node, so with a duplicated key on
   one side only, the two directions compare different pairs (see keys_ok_needed below). Python
   objects have one attribute per name, so dumps of real models always satisfy keys_ok. *)
Lemma node_eq_sym : forall cs a b,
  keys_ok a = true -> keys_ok b = true -> node_eq cs a b = node_eq cs b a.
Proof.
  intros cs a.
  apply (node_ind2
    (fun a => forall b, keys_ok a = true -> keys_ok b = true -> node_eq cs a b = node_eq cs b a)
    (fun sa => forall sb, slot_all keys_ok sa = true -> slot_all keys_ok sb = true ->
               slot_eq (node_eq cs) sa sb = slot_eq (node_eq cs) sb sa)); clear a.
  - intros t [t'|] _ _; simpl; auto. apply tk_eqb_sym.
  - intros ca sa ta ka da IH [t'|cb sb tb kb db] Ha Hb; [reflexivity|].
    rewrite !node_eq_tree. rewrite (toks_eqb_sym ta tb).
    rewrite keys_ok_tree in Ha, Hb.
    apply andb_true_iff in Ha. destruct Ha as [Hnda Hka].
    apply andb_true_iff in Hb. destruct Hb as [Hndb Hkb].
    apply nodupb_NoDup in Hnda. apply nodupb_NoDup in Hndb.
    rewrite kids_all_In in Hka, Hkb.
    destruct (String.eqb ca cb) eqn:E.
    + apply String.eqb_eq in E. subst cb. f_equal.
      destruct (find_class cs ca) as [c|]; auto.
      rewrite String.eqb_refl. simpl. f_equal.
      * assert (Hsym : forall n x y, kid ka n = Some x -> kid kb n = Some y ->
                  slot_eq (node_eq cs) x y = slot_eq (node_eq cs) y x).
        { intros n x y Hx Hy. pose proof (Forall_kids_In _ _ _ _ IH (kid_In _ _ _ Hx)) as HQ.
          simpl in HQ. apply HQ; [apply (Hka n) | apply (Hkb n)]; apply kid_In; assumption. }
        apply eq_true_iff_eq. rewrite !eq_core_iff by assumption.
        split; intros H n Hn; destruct (H n Hn) as (x & y & Hx & Hy & He); exists y, x;
          repeat split; auto.
        -- rewrite <- (Hsym n x y); assumption.
        -- rewrite (Hsym n y x); assumption.
      * apply forallb_ext2. intros n. apply optstr_eqb_sym.
    + rewrite (seqb_sym cb ca), E.
      destruct (find_class cs ca), (find_class cs cb); simpl; rewrite ?andb_false_r; reflexivity.
  - intros n IH [y|[y|]|? ? ? ?|?] Ha Hb; simpl; auto.
  - intros [y|[y|]|? ? ? ?|?] Ha Hb; simpl; auto.
  - intros n IH [y|[y|]|? ? ? ?|?] Ha Hb; simpl; auto.
  - intros s t ph items IH [y|[y|]|s' t' ph' items'|?] Ha Hb; simpl; auto.
    rewrite (toks_eqb_sym t t'). f_equal. apply (items_eq_sym _ keys_ok); assumption.
  - intros items IH [y|[y|]|s' t' ph' items'|items'] Ha Hb; simpl; auto.
    apply (items_eq_sym _ keys_ok); assumption.
Qed.

(* without keys_ok symmetry fails: a duplicated field name on one side *)
Definition dup_cls : cdesc :=
  mkcdesc "K" "k" true false [mkfdesc "_x" FReq] [] ["_x"] [] ["_x"] [] ["_x"] true "K" ["_x"] []
          [APlain "_x" SFirst] [APlain "_x" SLast] [] None [] [].
Lemma keys_ok_needed : exists cs a b, node_eq cs a b <> node_eq cs b a.
Proof.
  exists [dup_cls],
    (Tree "K" 0 [] [("_x", SReq (Leaf (mktk 1 "A" "a"))); ("_x", SReq (Leaf (mktk 2 "A" "b")))] []),
    (Tree "K" 0 [] [("_x", SReq (Leaf (mktk 3 "A" "a")))] []).
  vm_compute. discriminate.
Qed.

(* ---- C20: equal => same type, same token texts ------------------------------------------------- *)
Lemma node_eq_toks : forall cs a b, node_eq cs a b = true -> toks_eqb (node_toks a) (node_toks b) = true.
Proof.
  intros cs [x|ca sa ta ka da] [y|cb sb tb kb db] H; try discriminate.
  - simpl in *. unfold toks_eqb. simpl. rewrite H. reflexivity.
  - rewrite node_eq_tree in H. apply andb_true_iff in H. simpl. apply H.
Qed.

Lemma node_eq_text : forall cs a b, node_eq cs a b = true -> text_of (node_toks a) = text_of (node_toks b).
Proof. intros. apply toks_eqb_text. eapply node_eq_toks. eassumption. Qed.

Lemma node_eq_type : forall cs a b, node_eq cs a b = true -> node_type a = node_type b.
Proof.
  intros cs [x|ca sa ta ka da] [y|cb sb tb kb db] H; try discriminate.
  - simpl in *. apply tk_eqb_true in H. f_equal. apply H.
  - rewrite node_eq_tree in H. apply andb_true_iff in H. destruct H as [_ H].
    destruct (find_class cs ca); try discriminate.
    apply andb_true_iff in H. destruct H as [H _].
    apply andb_true_iff in H. destruct H as [H _].
    apply andb_true_iff in H. destruct H as [H _].
    apply String.eqb_eq in H. simpl. f_equal. exact H.
Qed.

Lemma leaf_eq_hash : forall cs x y, node_eq cs (Leaf x) (Leaf y) = true -> tk_hash_key x = tk_hash_key y.
Proof.
  intros cs x y H. simpl in H. apply tk_eqb_true in H. unfold tk_hash_key.
  destruct H as [H1 H2]. rewrite H1, H2. reflexivity.
Qed.

Lemma leaf_eq_iff : forall cs x y, node_eq cs (Leaf x) (Leaf y) = true <-> tk_hash_key x = tk_hash_key y.
Proof.
  intros cs x y. simpl. rewrite tk_eqb_true. unfold tk_hash_key. split.
  - intros [H1 H2]. rewrite H1, H2. reflexivity.
  - intro H. inversion H. auto.
Qed.

(* ---- C20: no forgotten field (complete) and nothing else compared (sound) ---------------------- *)
Lemma node_eq_complete : forall cs c ca sa ta ka da cb sb tb kb db,
  find_class cs ca = Some c -> wf_tree c = true ->
  node_eq cs (Tree ca sa ta ka da) (Tree cb sb tb kb db) = true ->
  ca = cb /\ toks_eqb ta tb = true
  /\ (forall f, In f (c_fields c) -> field_rel (node_eq cs) ka kb (f_name f))
  /\ (forall d, In d (c_data c) -> datum da d = datum db d).
Proof.
  intros cs c ca sa ta ka da cb sb tb kb db Hc Hwf H.
  destruct (wf_tree_spec _ Hwf) as [_ _ _ _ _ Heq Heqd _ _].
  rewrite node_eq_tree, Hc in H.
  apply andb_true_iff in H. destruct H as [Ht H].
  apply andb_true_iff in H. destruct H as [H Hdat].
  apply andb_true_iff in H. destruct H as [H Hfld].
  apply andb_true_iff in H. destruct H as [Hcls Hpres].
  apply String.eqb_eq in Hcls.
  repeat split; auto.
  - intros f Hf. eapply eq_core_complete; eauto. rewrite Heq. unfold names. apply in_map. exact Hf.
  - intros d Hd. apply optstr_eqb_eq. rewrite forallb_forall in Hdat. apply Hdat.
    rewrite Heqd. exact Hd.
Qed.

Lemma node_eq_sound : forall cs c ca sa ta ka da sb tb kb db,
  find_class cs ca = Some c -> wf_tree c = true -> NoDup (map fst ka) ->
  toks_eqb ta tb = true ->
  (forall f, In f (c_fields c) -> field_rel (node_eq cs) ka kb (f_name f)) ->
  (forall d, In d (c_data c) -> datum da d = datum db d) ->
  node_eq cs (Tree ca sa ta ka da) (Tree ca sb tb kb db) = true.
Proof.
  intros cs c ca sa ta ka da sb tb kb db Hc Hwf Hnd Ht Hf Hd.
  destruct (wf_tree_spec _ Hwf) as [_ _ _ _ _ Heq Heqd _ _].
  rewrite node_eq_tree, Hc, Ht, String.eqb_refl. simpl.
  destruct (eq_core_sound (node_eq cs) (c_eq c) ka kb Hnd) as [H1 H2].
  { intros n Hn. rewrite Heq in Hn. unfold names in Hn. apply in_map_iff in Hn.
    destruct Hn as (f & Hfn & Hin). subst n. apply Hf. exact Hin. }
  rewrite H1, H2. simpl. apply forallb_forall. intros d Hin. apply optstr_eqb_eq. apply Hd.
  rewrite <- Heqd. exact Hin.
Qed.

(* together: for a class that is an instance of the scheme, == on two tree models is exactly
   "same class, same token (rule, text) list, pairwise-equal children on every declared field,
   equal data fields" *)
Lemma node_eq_exact : forall cs c ca sa ta ka da cb sb tb kb db,
  find_class cs ca = Some c -> wf_tree c = true -> NoDup (map fst ka) ->
  (node_eq cs (Tree ca sa ta ka da) (Tree cb sb tb kb db) = true
   <-> ca = cb /\ toks_eqb ta tb = true
       /\ (forall f, In f (c_fields c) -> field_rel (node_eq cs) ka kb (f_name f))
       /\ (forall d, In d (c_data c) -> datum da d = datum db d)).
Proof.
  intros cs c ca sa ta ka da cb sb tb kb db Hc Hwf Hnd. split.
  - apply node_eq_complete; assumption.
  - intros (E & Ht & Hf & Hd). subst cb. eapply node_eq_sound; eassumption.
Qed.

(* ---- C20: reflexivity --------------------------------------------------------------------------- *)
Lemma conforms_parts : forall cs c s t kids d, conforms cs (Tree c s t kids d) = true ->
  exists dd, find_class cs c = Some dd
  /\ (forall f, In f (c_fields dd) -> exists sl, kid kids (f_name f) = Some sl /\ kind_ok (f_kind f) sl = true)
  /\ (forall k, In k (map fst kids) -> In k (names dd))
  /\ NoDup (map fst kids)
  /\ (forall k sl, In (k, sl) kids -> slot_all (conforms cs) sl = true).
Proof.
  intros cs c s t kids d H. rewrite conforms_tree in H.
  destruct (find_class cs c) as [dd|]; try discriminate. exists dd. split; auto.
  apply andb_true_iff in H. destruct H as [H Hall].
  apply andb_true_iff in H. destruct H as [H Hnd].
  apply andb_true_iff in H. destruct H as [Hfl Hkeys].
  repeat split.
  - intros f Hf. rewrite forallb_forall in Hfl. specialize (Hfl f Hf).
    destruct (kid kids (f_name f)) as [sl|]; try discriminate. eauto.
  - intros k Hk. apply mem_In. rewrite forallb_forall in Hkeys. apply Hkeys. exact Hk.
  - apply nodupb_NoDup. assumption.
  - apply kids_all_In. assumption.
Qed.

Lemma node_eq_refl : forall cs, classes_ok cs -> forall a, conforms cs a = true -> node_eq cs a a = true.
Proof.
  intros cs Hok a.
  apply (node_ind2
    (fun a => conforms cs a = true -> node_eq cs a a = true)
    (fun sl => slot_all (conforms cs) sl = true -> slot_eq (node_eq cs) sl sl = true)); clear a.
  - intros t _. simpl. apply tk_eqb_refl.
  - intros c s t kids d IH H.
    destruct (conforms_parts _ _ _ _ _ _ H) as (dd & Hc & Hf & _ & Hnd & Hk).
    eapply node_eq_sound; eauto.
    + apply Hok. apply (find_class_In _ _ _ Hc).
    + apply toks_eqb_refl.
    + intros f Hin. destruct (Hf f Hin) as (sl & Hsl & _). exists sl, sl. repeat split; auto.
      pose proof (Forall_kids_In _ _ _ _ IH (kid_In _ _ _ Hsl)) as HQ. simpl in HQ.
      apply HQ. eapply Hk. apply kid_In. eassumption.
  - intros n IH H. simpl in *. auto.
  - intros _. reflexivity.
  - intros n IH H. simpl in *. auto.
  - intros s t ph items IH H. simpl in *. rewrite toks_eqb_refl. simpl.
    apply (items_eq_refl _ (conforms cs)); assumption.
  - intros items IH H. simpl in *. apply (items_eq_refl _ (conforms cs)); assumption.
Qed.
