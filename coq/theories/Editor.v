(* C16 - model of autobean_refactor/editor.py over a model file system.

   Transcribed statement by statement from editor.py (Editor.edit_file, Editor.edit_file_recursive,
   _get_include_paths).  Exceptions are values; every file-system operation the code performs is
   appended to a trace in program order.  NO PROOFS in this file.

   What is a Section variable (record [world]; nothing is assumed about it here):
     model / parse / print / includes   the parser, the printer and "filenames of the Include
                                        directives of a File, in order" (parser.py, printer.py)
     glob                               glob.glob(pattern, recursive=True) on the tree as it is while
                                        edit_file_recursive reads (the read phase never writes)
     normpath dirname join              os.path.normpath / dirname / join (posixpath)
     ppath                              str(pathlib.Path(p))
     canon                              which file a spelling denotes (os.path.abspath w.r.t. the cwd; a leading
                                        "//" is "/" as on Linux)
     prefixes                           the directories the OS walks through to resolve a spelling, component by
                                        component ("x/../m" needs x to exist although canon drops it)
     w_translate                        true  = files are opened with newline=None (universal newlines:
                                                "\r\n" and "\r" arrive as "\n")
                                        false = files are opened with newline=''   (no translation)
     w_guard                            true  = os.makedirs is skipped when dirname(path) is ''
     escape / w_escape                  glob.escape; true = the directory part of the include pattern is
                                        escaped before it is joined with the Include filename
   The three flags are read from the source by the harness (tie).  *)
From AB Require Import Prelude.

Definition path := str.
Definition str_eqb : str -> str -> bool := list_eqb Z.eqb.

Inductive eexn := EOSError | EValueError | EParseError | EBodyRaised | EOutOfFuel.
Inductive eres (A : Type) := EOk (a : A) | EErr (e : eexn).
Arguments EOk {A} a.
Arguments EErr {A} e.

(* file-system operations, in the order the code performs them (paths as the code spells them) *)
Inductive op := OpRead (p : path) | OpWrite (p : path) | OpUnlink (p : path) | OpMakedirs (p : path).

Definition is_read (o : op) : bool := match o with OpRead _ => true | _ => false end.

(* ---- association lists = Python dicts in insertion order ------------------------------------ *)
Fixpoint lookup {V} (k : str) (l : list (str * V)) : option V :=
  match l with
  | [] => None
  | (k', v) :: r => if str_eqb k k' then Some v else lookup k r
  end.
Definition has {V} (k : str) (l : list (str * V)) : bool :=
  match lookup k l with Some _ => true | None => false end.
Definition keys {V} (l : list (str * V)) : list str := map fst l.
Fixpoint mem (k : str) (l : list str) : bool :=
  match l with [] => false | x :: r => str_eqb k x || mem k r end.
(* d[k] = v : in place when present, appended otherwise *)
Fixpoint set {V} (k : str) (v : V) (l : list (str * V)) : list (str * V) :=
  match l with
  | [] => [(k, v)]
  | (k', v') :: r => if str_eqb k k' then (k', v) :: r else (k', v') :: set k v r
  end.
Fixpoint remove {V} (k : str) (l : list (str * V)) : list (str * V) :=
  match l with
  | [] => []
  | (k', v') :: r => if str_eqb k k' then remove k r else (k', v') :: remove k r
  end.

(* ---- the file system: regular files (canonical path -> bytes) and directories --------------- *)
Record fsys := mkfs { fs_files : list (path * str); fs_dirs : list path }.

(* text-mode read with newline=None: "\r\n" -> "\n", lone "\r" -> "\n" *)
Fixpoint univ_nl (s : str) : str :=
  match s with
  | [] => []
  | c :: r =>
    if c =? CR then
      NL :: match r with
            | d :: r' => if d =? NL then univ_nl r' else univ_nl r
            | [] => []
            end
    else c :: univ_nl r
  end.

Record world := mkworld {
  model : Type;
  parse : str -> option model;          (* None: the parser raised *)
  print : model -> str;
  includes : model -> list str;
  glob : path -> list path;
  normpath : path -> path;
  dirname : path -> path;
  join : path -> path -> path;
  ppath : path -> path;
  canon : path -> path;
  prefixes : path -> list path;
  escape : path -> path;
  w_translate : bool;
  w_guard : bool;
  w_escape : bool
}.

Section WithWorld.
Variable W : world.

(* every directory component of the spelling exists (else FileNotFoundError / NotADirectoryError) *)
Definition traversable (fs : fsys) (p : path) : bool :=
  forallb (fun d => mem d (fs_dirs fs)) (prefixes W p).

(* open(p).read() / Path.read_text() *)
Definition fs_read (fs : fsys) (p : path) : option str :=
  if traversable fs p then
    match lookup (canon W p) (fs_files fs) with
    | None => None                                      (* FileNotFoundError / IsADirectoryError *)
    | Some raw => Some (if w_translate W then univ_nl raw else raw)
    end
  else None.

(* open(p, 'w').write(s) / Path.write_text(s): the parent directory must exist.
   (POSIX: os.linesep = "\n", so text mode writes "\n" as "\n" whatever `newline` is.) *)
Definition fs_write (fs : fsys) (p : path) (s : str) : option fsys :=
  if traversable fs p && mem (dirname W (canon W p)) (fs_dirs fs)
     && negb (mem (canon W p) (fs_dirs fs))            (* a directory in the way: IsADirectoryError *)
  then Some (mkfs (set (canon W p) s (fs_files fs)) (fs_dirs fs))
  else None.

Definition fs_unlink (fs : fsys) (p : path) : option fsys :=
  if traversable fs p && has (canon W p) (fs_files fs)
  then Some (mkfs (remove (canon W p) (fs_files fs)) (fs_dirs fs))
  else None.

(* os.makedirs(d, exist_ok=True): '' -> FileNotFoundError; a regular file at d or at one of the components
   it walks through -> FileExistsError / NotADirectoryError; otherwise d and every missing component exist
   afterwards (makedirs('x/..') creates x). *)
Definition fs_makedirs (fs : fsys) (d : path) : option fsys :=
  match d with
  | [] => None
  | _ => if has (canon W d) (fs_files fs) || existsb (fun q => has q (fs_files fs)) (prefixes W d) then None
         else Some (mkfs (fs_files fs) (canon W d :: prefixes W d ++ fs_dirs fs))
  end.

(* ---- _get_include_paths ---------------------------------------------------------------------
   for directive in file.raw_directives: (Include only)
       matches = glob.glob(os.path.join([glob.escape](os.path.dirname(path)), directive.filename),
                           recursive=True)
       if not matches: raise ValueError
       for match in matches: yield os.path.normpath(match)                                        *)
Fixpoint include_paths_of (dir : path) (names : list str) : eres (list path) :=
  match names with
  | [] => EOk []
  | n :: r =>
    match glob W (join W dir n) with
    | [] => EErr EValueError
    | ms =>
      match include_paths_of dir r with
      | EErr e => EErr e
      | EOk ps => EOk (map (normpath W) ms ++ ps)
      end
    end
  end.
Definition include_paths (cur : path) (m : model W) : eres (list path) :=
  include_paths_of (if w_escape W then escape W (dirname W cur) else dirname W cur) (includes W m).

(* ---- the read phase of edit_file_recursive ---------------------------------------------------
   while queue:
       current_path = queue.popleft()
       if current_path in texts: continue
       with open(current_path) as f: texts[current_path] = f.read()
       files[current_path] = self._parser.parse(texts[current_path], models.File)
       queue.extend(_get_include_paths(current_path, files[current_path]))
   The `continue` iterations are [drop_visited]; one unit of fuel is one file actually opened.   *)
Fixpoint drop_visited {V} (texts : list (path * V)) (queue : list path) : list path :=
  match queue with
  | [] => []
  | p :: q => if has p texts then drop_visited texts q else p :: q
  end.

Definition rstate : Type := list (path * str) * list (path * model W).

Fixpoint bfs (fuel : nat) (fs : fsys) (queue : list path) (texts : list (path * str))
         (files : list (path * model W)) : list op * eres rstate :=
  match drop_visited texts queue with
  | [] => ([], EOk (texts, files))
  | cur :: q =>
    match fuel with
    | O => ([], EErr EOutOfFuel)
    | S f =>
      match fs_read fs cur with
      | None => ([OpRead cur], EErr EOSError)
      | Some text =>
        let texts' := texts ++ [(cur, text)] in
        match parse W text with
        | None => ([OpRead cur], EErr EParseError)
        | Some m =>
          let files' := files ++ [(cur, m)] in
          match include_paths cur m with
          | EErr e => ([OpRead cur], EErr e)
          | EOk ps =>
            let '(tr, r) := bfs f fs (q ++ ps) texts' files' in
            (OpRead cur :: tr, r)
          end
        end
      end
    end
  end.

(* ---- the write phase -------------------------------------------------------------------------
   for current_path in set(texts) - set(files): os.unlink(current_path)                          *)
Fixpoint unlink_all (fs : fsys) (ks : list path) : fsys * list op * eres unit :=
  match ks with
  | [] => (fs, [], EOk tt)
  | k :: r =>
    match fs_unlink fs k with
    | None => (fs, [OpUnlink k], EErr EOSError)
    | Some fs1 =>
      let '(fs2, tr, res) := unlink_all fs1 r in
      (fs2, OpUnlink k :: tr, res)
    end
  end.

Definition removed_keys (texts : list (path * str)) (files' : list (path * model W)) : list path :=
  filter (fun k => negb (has k files')) (keys texts).

(* updated_text != texts.get(current_path): for a key that was not read, .get gives None, and None differs
   from every string - "" included - so a new entry is always written (an option, not a default "") *)
Definition differs (upd : str) (old : option str) : bool :=
  match old with Some t => negb (str_eqb upd t) | None => true end.

Definition is_empty (s : str) : bool := match s with [] => true | _ => false end.

(* for current_path, file in files.items():
       os.makedirs(os.path.dirname(current_path), exist_ok=True)      [skipped for '' when w_guard]
       updated_text = printer.print_model(file, io.StringIO()).getvalue()
       if updated_text != texts.get(current_path):
           with open(current_path, 'w') as f: f.write(updated_text)                              *)
Fixpoint write_all (fs : fsys) (texts : list (path * str)) (files' : list (path * model W))
  : fsys * list op * eres unit :=
  match files' with
  | [] => (fs, [], EOk tt)
  | (k, m) :: r =>
    let d := dirname W k in
    let mk : option fsys * list op :=
      if w_guard W && is_empty d then (Some fs, []) else (fs_makedirs fs d, [OpMakedirs d]) in
    match mk with
    | (None, tr0) => (fs, tr0, EErr EOSError)
    | (Some fs1, tr0) =>
      let upd := print W m in
      if differs upd (lookup k texts) then
        match fs_write fs1 k upd with
        | None => (fs1, tr0 ++ [OpWrite k], EErr EOSError)
        | Some fs2 =>
          let '(fs3, tr, res) := write_all fs2 texts r in
          (fs3, tr0 ++ OpWrite k :: tr, res)
        end
      else
        let '(fs3, tr, res) := write_all fs1 texts r in
        (fs3, tr0 ++ tr, res)
    end
  end.

Definition exit_phase (fs : fsys) (texts : list (path * str)) (files' : list (path * model W))
  : fsys * list op * eres unit :=
  match unlink_all fs (removed_keys texts files') with
  | (fs1, tr1, EErr e) => (fs1, tr1, EErr e)
  | (fs1, tr1, EOk _) =>
    let '(fs2, tr2, res) := write_all fs1 texts files' in
    (fs2, tr1 ++ tr2, res)
  end.

(* ---- edit_file_recursive as a @contextmanager -------------------------------------------------
   The body of the `with` block is a function of the yielded dict: None = it raised (the generator
   is resumed with the exception at the `yield`, which skips everything after it); Some files' =
   the dict as the body left it (entries edited in place, deleted, added).                        *)
Definition body_t : Type := list (path * model W) -> option (list (path * model W)).

Definition edit_file_recursive (fuel : nat) (fs : fsys) (root : path) (body : body_t)
  : fsys * list op * eres unit :=
  match bfs fuel fs [normpath W root] [] [] with
  | (tr, EErr e) => (fs, tr, EErr e)
  | (tr, EOk (texts, files)) =>
    match body files with
    | None => (fs, tr, EErr EBodyRaised)
    | Some files' =>
      let '(fs', tr', res) := exit_phase fs texts files' in
      (fs', tr ++ tr', res)
    end
  end.

(* what the `with` statement binds: the keys (and models) of the yielded dict *)
Definition entered (fuel : nat) (fs : fsys) (root : path) : eres rstate :=
  snd (bfs fuel fs [normpath W root] [] []).

(* ---- edit_file --------------------------------------------------------------------------------
   p = pathlib.Path(path); text = p.read_text(); file = parse(text); yield file
   updated_text = print(file); if updated_text != text: p.write_text(updated_text)               *)
Definition edit_file (fs : fsys) (pth : path) (body : model W -> option (model W))
  : fsys * list op * eres unit :=
  let p := ppath W pth in
  match fs_read fs p with
  | None => (fs, [OpRead p], EErr EOSError)
  | Some text =>
    match parse W text with
    | None => (fs, [OpRead p], EErr EParseError)
    | Some m =>
      match body m with
      | None => (fs, [OpRead p], EErr EBodyRaised)
      | Some m' =>
        let upd := print W m' in
        if negb (str_eqb upd text) then
          match fs_write fs p upd with
          | None => (fs, [OpRead p; OpWrite p], EErr EOSError)
          | Some fs' => (fs', [OpRead p; OpWrite p], EOk tt)
          end
        else (fs, [OpRead p], EOk tt)
      end
    end
  end.

End WithWorld.
