(* Executable glue for the C16 correspondence.
   The Section of Editor.v is instantiated with
     - posixpath.normpath / dirname / join, str(pathlib.PurePosixPath(p)) and os.path.abspath written out
       in Gallina (validated against CPython on every path the harness meets: [check_paths]);
     - a toy parser: model = the text itself, print = identity, parse fails on the texts listed as
       unparsable, `includes` is a table text -> filenames that the harness read off the real parser;
     - glob as a table pattern -> matches recorded from the real glob.glob;
     - the body of the `with` block as data: the dict it left behind (printed), or "raised".
   [check_case] evaluates the model on one scenario and compares with what the real Editor did.  *)
From AB Require Import Prelude Editor EditorProofs.

Definition SL : Z := 47.   (* '/' *)
Definition DOT : Z := 46.  (* '.' *)

(* s.split('/') *)
Fixpoint split_sl (s : str) (cur : str) : list str :=
  match s with
  | [] => [rev cur]
  | c :: r => if c =? SL then rev cur :: split_sl r [] else split_sl r (c :: cur)
  end.
(* '/'.join(comps) *)
Fixpoint join_sl (comps : list str) : str :=
  match comps with
  | [] => []
  | [c] => c
  | c :: r => c ++ SL :: join_sl r
  end.

Definition starts_sl (s : str) : bool := match s with c :: _ => c =? SL | [] => false end.
(* posixpath.normpath: 1 leading slash, or exactly 2 when the path starts with exactly two *)
Definition initial_slashes (s : str) : Z :=
  match s with
  | a :: b :: c :: _ => if a =? SL then (if (b =? SL) && negb (c =? SL) then 2 else 1) else 0
  | [a; b] => if a =? SL then (if b =? SL then 2 else 1) else 0
  | [a] => if a =? SL then 1 else 0
  | [] => 0
  end.
Definition is_dot (c : str) := str_eqb c [DOT].
Definition is_dotdot (c : str) := str_eqb c [DOT; DOT].

Definition is_empty_list (l : list str) : bool := match l with [] => true | _ => false end.
(* the loop of normpath; the stack of kept components is reversed *)
Fixpoint norm_comps (dotdot : bool) (ini : Z) (comps : list str) (stack : list str) : list str :=
  match comps with
  | [] => rev stack
  | c :: r =>
    if is_empty c || is_dot c then norm_comps dotdot ini r stack
    else if negb dotdot then norm_comps dotdot ini r (c :: stack)
    else if negb (is_dotdot c)
            || ((ini =? 0) && is_empty_list stack)
            || (match stack with t :: _ => is_dotdot t | [] => false end)
         then norm_comps dotdot ini r (c :: stack)
         else match stack with
              | _ :: st => norm_comps dotdot ini r st
              | [] => norm_comps dotdot ini r stack
              end
  end.

Definition or_dot (s : str) : str := match s with [] => [DOT] | _ => s end.

Definition px_normpath (s : str) : str :=
  match s with
  | [] => [DOT]
  | _ => let ini := initial_slashes s in
         or_dot (repeat SL (Z.to_nat ini) ++ join_sl (norm_comps true ini (split_sl s []) []))
  end.

(* str(pathlib.PurePosixPath(s)): collapse slashes, drop '.' components, keep '..' *)
Definition px_ppath (s : str) : str :=
  let ini := initial_slashes s in
  or_dot (repeat SL (Z.to_nat ini) ++ join_sl (norm_comps false ini (split_sl s []) [])).

(* posixpath.dirname:  i = p.rfind('/') + 1; head = p[:i];
                       if head and head != '/' * len(head): head = head.rstrip('/') *)
Fixpoint rstrip_sl_rev (r : str) : str :=       (* on the reversed string: drop leading slashes *)
  match r with c :: t => if c =? SL then rstrip_sl_rev t else r | [] => [] end.
Fixpoint drop_to_sl_rev (r : str) : str :=      (* on the reversed string: drop up to (excluding) the first '/' *)
  match r with c :: t => if c =? SL then r else drop_to_sl_rev t | [] => [] end.
Definition px_dirname (s : str) : str :=
  let head_rev := drop_to_sl_rev (rev s) in
  if forallb (fun c => c =? SL) head_rev then rev head_rev else rev (rstrip_sl_rev head_rev).

Definition ends_sl (s : str) : bool := match rev s with c :: _ => c =? SL | [] => false end.
(* posixpath.join(a, b) *)
Definition px_join (a b : str) : str :=
  if starts_sl b then b
  else if is_empty a || ends_sl a then a ++ b
  else a ++ SL :: b.

(* glob.escape (posix): every '*', '?', '[' becomes "[*]", "[?]", "[[]" *)
Fixpoint px_escape (s : str) : str :=
  match s with
  | [] => []
  | c :: r => if (c =? 42) || (c =? 63) || (c =? 91) then 91 :: c :: 93 :: px_escape r else c :: px_escape r
  end.

(* os.path.abspath with the given cwd; "//x" is the same file as "/x" (Linux) although normpath keeps it *)
Definition one_slash (s : str) : str :=
  match s with a :: b :: r => if (a =? SL) && (b =? SL) then b :: r else s | _ => s end.
Definition px_canon (cwd : str) (p : str) : str :=
  one_slash (if starts_sl p then px_normpath p else px_normpath (px_join cwd p)).

(* the directories walked through while resolving p: every component but the last, in order; "" and "."
   stay, ".." goes to the parent, a name goes down *)
Fixpoint walk (cur : str) (comps : list str) : list str :=
  match comps with
  | [] | [_] => []
  | c :: r =>
    let nxt := if is_empty c || is_dot c then cur
               else if is_dotdot c then (match px_dirname cur with [] => cur | d => d end)
               else (if ends_sl cur then cur ++ c else cur ++ SL :: c) in
    nxt :: walk nxt r
  end.
Definition px_prefixes (cwd : str) (p : str) : list str :=
  let start := if starts_sl p then [SL] else cwd in
  start :: walk start (split_sl p []).

(* ---- one scenario ---------------------------------------------------------------------------- *)
Record ecase := mkcase {
  c_translate : bool;  c_guard : bool;  c_escape : bool;   (* read off editor.py by the harness (tie) *)
  c_cwd : path;
  c_files : list (path * str);                     (* canonical path -> bytes (ASCII) *)
  c_dirs : list path;
  c_includes : list (str * list str);              (* text handed to the parser -> Include filenames *)
  c_unparsable : list str;
  c_globs : list (path * list path);               (* normpath(pattern) -> normpath of each match of glob.glob(pattern, recursive=True) *)
  c_mode : Z;                                      (* 0 = edit_file, 1 = edit_file_recursive *)
  c_root : path;
  c_body : option (list (path * str));             (* dict left by the body, printed; None = raised *)
  (* observed on the implementation *)
  o_res : Z;                                       (* 0 = completed, else the exception class *)
  o_keys : option (list path);                     (* keys of the yielded dict, in order *)
  o_trace : list (Z * path);                       (* (kind, canonical path) of each FS call *)
  o_final : list (path * str);                     (* every regular file afterwards *)
  o_paths : list (str * (str * str * str * (str * str)));  (* p -> normpath, dirname, str(Path), abspath, glob.escape *)
  o_hyps : list bool                               (* [alias_free; kept keys distinct; read keys distinct] computed by the harness *)
}.

Definition world_of (c : ecase) : world :=
  mkworld str
          (fun t => if mem t (c_unparsable c) then None else Some t)
          (fun m => m)
          (fun m => match lookup m (c_includes c) with Some l => l | None => [] end)
          (* the table is keyed by the normalised pattern and holds normalised matches: spelling a
             pattern "./x" or "x" is the same question to glob, and matches are normalised by the code *)
          (fun pat => match lookup (px_normpath pat) (c_globs c) with Some l => l | None => [] end)
          px_normpath px_dirname px_join px_ppath (px_canon (c_cwd c)) (px_prefixes (c_cwd c)) px_escape
          (c_translate c) (c_guard c) (c_escape c).

Definition exn_code (e : eexn) : Z :=
  match e with EOSError => 1 | EValueError => 2 | EParseError => 3 | EBodyRaised => 4 | EOutOfFuel => 5 end.
Definition res_code (r : eres unit) : Z := match r with EOk _ => 0 | EErr e => exn_code e end.

Definition enc_op (W : world) (o : op) : Z * path :=
  match o with
  | OpRead p => (0, canon W p) | OpWrite p => (1, canon W p)
  | OpUnlink p => (2, canon W p) | OpMakedirs p => (3, canon W p)
  end.
Definition zp_eqb (a b : Z * path) : bool := (fst a =? fst b) && str_eqb (snd a) (snd b).
Definition is_unlink (x : Z * path) : bool := fst x =? 2.

(* set(texts) - set(files) is iterated in hash order: the unlink calls are compared as a set *)
Definition sub_list (a b : list (Z * path)) : bool := forallb (fun x => existsb (zp_eqb x) b) a.
Definition blank_unlink (x : Z * path) : Z * path := if is_unlink x then (2, []) else x.
Definition trace_eqb (a b : list (Z * path)) : bool :=
  list_eqb zp_eqb (map blank_unlink a) (map blank_unlink b)      (* same calls at the same positions *)
  && let ua := filter is_unlink a in let ub := filter is_unlink b in
     (Nat.eqb (length ua) (length ub)) && sub_list ua ub && sub_list ub ua.

Definition files_eqb (a b : list (path * str)) : bool :=
  Nat.eqb (length a) (length b)
  && forallb (fun kv => match lookup (fst kv) b with Some s => str_eqb s (snd kv) | None => false end) a.

Definition check_paths (c : ecase) : bool :=
  forallb (fun x => let '(p, (n, d, pp, (ab, es))) := x in
                    str_eqb (px_normpath p) n && str_eqb (px_dirname p) d
                    && str_eqb (px_ppath p) pp && str_eqb (px_canon (c_cwd c) p) ab
                    && str_eqb (px_escape p) es) (o_paths c).

(* one unit of fuel per key; a key is the root or the normpath of a glob match (two spellings of one file
   are two keys), so the number of recorded matches bounds it *)
Definition fuel_of (c : ecase) : nat := S (S (length (flat_map snd (c_globs c)))).

Definition run_case (c : ecase) : fsys * list op * eres unit * option (list path) :=
  let W := world_of c in
  let fs := mkfs (c_files c) (c_dirs c) in
  if c_mode c =? 0 then
    let body (m : model W) : option (model W) :=
      match c_body c with Some ((_, t) :: _) => Some t | _ => None end in
    let ks := match fs_read W fs (ppath W (c_root c)) with
              | Some t => if mem t (c_unparsable c) then None else Some [ppath W (c_root c)]
              | None => None end in
    (edit_file W fs (c_root c) body, ks)
  else
    let body : body_t W := fun _ => c_body c in
    (edit_file_recursive W (fuel_of c) fs (c_root c) body,
     match entered W (fuel_of c) fs (c_root c) with
     | EOk (_, files) => Some (keys files)
     | EErr _ => None
     end).

(* ---- the hypotheses of the C16 theorems, as booleans evaluated on every scenario of a run ----------
   alias_free: the removed and the kept keys denote pairwise distinct files (needed by C16_completed_calls_exactly
   and its corollaries); kept_distinct: the kept keys do (enough for C16_rekeyed_entry_survives).
   [false] also when the block did not complete.  Soundness of nodupb: EditorProofs.nodupb_sound. *)
Definition case_texts (c : ecase) : list (path * str) :=
  match entered (world_of c) (fuel_of c) (mkfs (c_files c) (c_dirs c)) (c_root c) with
  | EOk (t, _) => t | EErr _ => [] end.
Definition completed_rec (c : ecase) : bool :=
  (c_mode c =? 1) && (o_res c =? 0) && (match c_body c with Some _ => true | None => false end).
Definition hyp_alias_free (c : ecase) : bool :=
  let W := world_of c in
  completed_rec c &&
  match c_body c with
  | Some f' => nodupb (map (canon W) (removed_keys W (case_texts c) (f' : list (path * model W)) ++ keys f'))
  | None => false
  end.
Definition hyp_kept_distinct (c : ecase) : bool :=
  let W := world_of c in
  completed_rec c && match c_body c with Some f' => nodupb (map (canon W) (keys f')) | None => false end.
(* the keys the read phase produced denote pairwise distinct files (the reading of "exactly once" per FILE) *)
Definition hyp_read_keys_distinct (c : ecase) : bool :=
  negb (c_mode c =? 1) || nodupb (map (canon (world_of c)) (keys (case_texts c))).
Definition hyps (c : ecase) : list bool := [hyp_alias_free c; hyp_kept_distinct c; hyp_read_keys_distinct c].

Definition check_case (c : ecase) : bool :=
  let W := world_of c in
  let '(fs', tr, r, ks) := run_case c in
  check_paths c
  && (res_code r =? o_res c)
  && opt_eqb (list_eqb str_eqb) (if c_mode c =? 0 then o_keys c else ks) (o_keys c)
  && trace_eqb (map (enc_op W) tr) (o_trace c)
  && files_eqb (fs_files fs') (o_final c) && files_eqb (o_final c) (fs_files fs')
  && list_eqb Bool.eqb (hyps c) (o_hyps c).

(* for diagnosis *)
Definition model_out (c : ecase) :=
  let W := world_of c in
  let '(fs', tr, r, ks) := run_case c in
  (res_code r, ks, map (enc_op W) tr, fs_files fs', check_paths c).

(* ---- a concrete tiny scenario, used for the non-vacuity examples and the refutation witnesses ----
   cwd /t;  /t/m = "A\r\n" includes a, b and itself (cycle);  /t/a = "B\n" includes b (diamond);
   /t/b = "C\n".  Root spelled "m" (bare).  The body edits m (first character only), leaves a alone,
   deletes b and adds the bare key n.                                                              *)
From Coq Require Import String Ascii.
Definition zs (x : string) : str := map (fun a => Z.of_nat (nat_of_ascii a)) (list_ascii_of_string x).
Definition CRLF : str := [CR; NL].
Definition ex_case (translate guard : bool) : ecase :=
  let tm := zs "A" ++ (if translate then [NL] else CRLF) in
  mkcase translate guard true (zs "/t")
         [(zs "/t/m", zs "A" ++ CRLF); (zs "/t/a", zs "B" ++ [NL]); (zs "/t/b", zs "C" ++ [NL])]
         [zs "/t"; zs "/"]
         [(tm, [zs "a"; zs "b"; zs "m"]); (zs "B" ++ [NL], [zs "b"])]
         []
         [(zs "a", [zs "a"]); (zs "b", [zs "b"]); (zs "m", [zs "m"])]
         1 (zs "m")
         (Some [(zs "m", zs "Z" ++ (if translate then [NL] else CRLF)); (zs "a", zs "B" ++ [NL]); (zs "n", zs "N" ++ [NL])])
         0 None [] [] [] [].
Definition ex_W (t g : bool) : world := world_of (ex_case t g).
Definition ex_fs : fsys := mkfs (c_files (ex_case false true)) (c_dirs (ex_case false true)).
Definition ex_root : path := zs "m".
Definition ex_body (t g : bool) : body_t (ex_W t g) := fun _ => c_body (ex_case t g).
Definition ex_fuel : nat := 4.
Definition ex_bfs (t g : bool) := bfs (ex_W t g) ex_fuel ex_fs [normpath (ex_W t g) ex_root] [] [].
Definition ex_texts (t g : bool) : list (path * str) :=
  match snd (ex_bfs t g) with EOk (x, _) => x | EErr _ => [] end.
Definition ex_files (t g : bool) : list (path * model (ex_W t g)) :=
  match snd (ex_bfs t g) with EOk (_, x) => x | EErr _ => [] end.
Definition ex_files' (t g : bool) : list (path * model (ex_W t g)) :=
  match ex_body t g (ex_files t g) with Some x => x | None => [] end.
Definition ex_out (t g : bool) := edit_file_recursive (ex_W t g) ex_fuel ex_fs ex_root (ex_body t g).
Definition ex_fs' (t g : bool) : fsys := fst (fst (ex_out t g)).
Definition ex_tr (t g : bool) : list op := snd (fst (ex_out t g)).

(* same world, another body: a is removed and re-added under its absolute spelling "/t/a" (re-keying),
   b is removed *)
Definition ex_body2 : body_t (ex_W false true) :=
  fun _ => Some [(zs "m", zs "A" ++ CRLF); (zs "/t/a", zs "Q" ++ [NL])].
Definition ex_files2' : list (path * model (ex_W false true)) :=
  match ex_body2 (ex_files false true) with Some x => x | None => [] end.
Definition ex_out2 := edit_file_recursive (ex_W false true) ex_fuel ex_fs ex_root ex_body2.

(* another body: nothing changed, and a NEW entry "e" whose model prints as the empty string *)
Definition ex_body3 : body_t (ex_W false true) :=
  fun _ => Some [(zs "m", zs "A" ++ CRLF); (zs "a", zs "B" ++ [NL]); (zs "b", zs "C" ++ [NL]); (zs "e", [])].
Definition ex_files3' : list (path * model (ex_W false true)) :=
  match ex_body3 (ex_files false true) with Some x => x | None => [] end.
Definition ex_out3 := edit_file_recursive (ex_W false true) ex_fuel ex_fs ex_root ex_body3.

(* the same file under two spellings: m includes "a" and "/t/a" *)
Definition ex_caseA : ecase :=
  mkcase false true true (zs "/t")
         [(zs "/t/m", zs "A" ++ [NL]); (zs "/t/a", zs "B" ++ [NL])]
         [zs "/t"; zs "/"]
         [(zs "A" ++ [NL], [zs "a"; zs "/t/a"])] []
         [(zs "a", [zs "a"]); (zs "/t/a", [zs "/t/a"])]
         1 (zs "m") None 0 None [] [] [] [].
Definition ex_WA : world := world_of ex_caseA.
Definition ex_bfsA := bfs ex_WA 4 (mkfs (c_files ex_caseA) (c_dirs ex_caseA)) [normpath ex_WA (zs "m")] [] [].
