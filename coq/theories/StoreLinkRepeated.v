(* Link for Repeated.v / Fields.v (RepeatedNodeWrapper, optional fields, replace_node): their abstract
   store operations st_insert_after / st_insert_before / st_splice / st_remove / st_get_prev / st_get_next /
   st_iter on `doc = list tok` are what the blocked store computes, through the id projection
   Pid t = P (tid t).  A document d represents s when abs s = map Pid d. *)
From AB Require Import StoreLink StoreRun.
From AB Require Repeated.
From Coq Require Import ZifyBool.

Module R := Repeated.
Notation RPid := (Pid R.tid).

Lemma rsplit_spec i d :
  match R.split_at i d with
  | Some (a, t, b) => d = a ++ t :: b /\ R.tid t = i /\ ~ In i (map R.tid a)
  | None => ~ In i (map R.tid d)
  end.
Proof.
  induction d as [|x r IH]; cbn [R.split_at]; [intros []|].
  destruct (Z.eqb_spec (R.tid x) i) as [E|N].
  - split; [reflexivity|]. split; [exact E|intros []].
  - destruct (R.split_at i r) as [[[a t] b]|].
    + destruct IH as (-> & Et & Ha). split; [reflexivity|]. split; [exact Et|]. cbn [map]. intros [?|?]; [contradiction|auto].
    + cbn [map]. intros [?|?]; [contradiction|auto].
Qed.

Lemma guard_spec ts d :
  if R.guard ts d then forall x, In x ts -> ~ In (R.tid x) (R.ids d)
  else exists x, In x ts /\ In (R.tid x) (R.ids d).
Proof.
  unfold R.guard. destruct (existsb _ ts) eqn:E; cbn [negb].
  - apply existsb_exists in E as (x & Hx & Hm). exists x. split; [exact Hx|].
    unfold R.zmem in Hm. apply existsb_exists in Hm as (z & Hz & Ez). apply Z.eqb_eq in Ez. subst z. exact Hz.
  - intros x Hx Hin. assert (existsb (fun t => R.zmem (R.tid t) (R.ids d)) ts = true) as C; [|congruence].
    apply existsb_exists. exists x. split; [exact Hx|]. unfold R.zmem. apply existsb_exists. exists (R.tid x).
    split; [exact Hin|apply Z.eqb_refl].
Qed.

Lemma last_in_cons {A} (q : list A) : forall y, In (last q y) (y :: q).
Proof.
  induction q as [|z q IH]; intro y; [left; reflexivity|]. right.
  destruct q as [|w q]; [left; reflexivity|]. change (last (z :: w :: q) y) with (last (w :: q) y).
  rewrite (last_indep (w :: q) y z) by discriminate. apply IH.
Qed.

Section RepeatedLink.
Variable LF : Z.
Hypothesis HLF : 1 <= LF.
Variables (s : store) (d : R.doc).
Hypothesis II : Inv s.
Hypothesis Pure : pure s.
Hypothesis Rep : abs s = map RPid d.
Hypothesis Dpos : ids_pos R.tid d.

Lemma in_store_iff z : 0 < z -> (In (P z) (abs s) <-> In z (R.ids d)).
Proof. intro Hz. rewrite Rep. apply in_ids_iff; assumption. Qed.

Lemma fresh_of_guard ts : ids_pos R.tid ts -> (forall x, In x ts -> ~ In (R.tid x) (R.ids d)) ->
  forall x, In x ts -> ~ In (RPid x) (abs s).
Proof.
  intros Tp H x Hx Hin. apply (H x Hx). apply in_store_iff; [|exact Hin].
  unfold ids_pos in Tp. rewrite Forall_forall in Tp. apply Tp; exact Hx.
Qed.

Theorem link_insert_after ref ts : 0 < ref -> ids_pos R.tid ts -> NoDup (map R.tid ts) ->
  match R.st_insert_after ref ts d with
  | Ok d' => let s' := fst (insert_after LF s (Some (P ref)) (map RPid ts)) in
             insert_after LF s (Some (P ref)) (map RPid ts) = (s', Ok tt) /\ Inv s' /\
             abs s' = map RPid d' /\ (forall u, txt s' u = txt s u) /\ pure s'
  | Err e => e = ValueError /\ insert_after LF s (Some (P ref)) (map RPid ts) = (s, Err ValueError)
  end.
Proof.
  intros Hr Tp ND. unfold R.st_insert_after. pose proof (rsplit_spec ref d) as Sp.
  destruct (R.split_at ref d) as [[[a t] b]|].
  - destruct Sp as (Ed & Et & _). pose proof (guard_spec ts d) as G. pose proof Rep as Rep'. rewrite Ed in Rep'.
    assert (P ref = RPid t) as -> by (unfold Pid; rewrite Et; reflexivity).
    destruct (R.guard ts d).
    + apply (bridge_insert_after R.tid LF HLF s II Pure a t b ts Rep' (nodup_pid R.tid ts Tp ND)).
      apply fresh_of_guard; assumption.
    + split; [reflexivity|]. destruct G as (x & Hx & Hin).
      apply (bridge_insert_refuses R.tid LF s II a t b ts x Rep' Hx).
      unfold Pid. apply in_store_iff; [|exact Hin].
      unfold ids_pos in Tp. rewrite Forall_forall in Tp. apply Tp; exact Hx.
  - split; [reflexivity|]. refine (proj1 (proj2 (proj2 (bridge_absent_ref LF s II (P ref) (map RPid ts) None _)))).
    rewrite in_store_iff by assumption. exact Sp.
Qed.

Theorem link_insert_before ref ts : 0 < ref -> ids_pos R.tid ts -> NoDup (map R.tid ts) ->
  match R.st_insert_before ref ts d with
  | Ok d' => let s' := fst (insert_before LF s (Some (P ref)) (map RPid ts)) in
             insert_before LF s (Some (P ref)) (map RPid ts) = (s', Ok tt) /\ Inv s' /\
             abs s' = map RPid d' /\ (forall u, txt s' u = txt s u) /\ pure s'
  | Err e => e = ValueError /\ insert_before LF s (Some (P ref)) (map RPid ts) = (s, Err ValueError)
  end.
Proof.
  intros Hr Tp ND. unfold R.st_insert_before. pose proof (rsplit_spec ref d) as Sp.
  destruct (R.split_at ref d) as [[[a t] b]|].
  - destruct Sp as (Ed & Et & _). pose proof (guard_spec ts d) as G. pose proof Rep as Rep'. rewrite Ed in Rep'.
    assert (P ref = RPid t) as -> by (unfold Pid; rewrite Et; reflexivity).
    destruct (R.guard ts d).
    + apply (bridge_insert_before R.tid LF HLF s II Pure a t b ts Rep' (nodup_pid R.tid ts Tp ND)).
      apply fresh_of_guard; assumption.
    + split; [reflexivity|]. destruct G as (x & Hx & Hin).
      apply (bridge_insert_refuses R.tid LF s II a t b ts x Rep' Hx).
      unfold Pid. apply in_store_iff; [|exact Hin].
      unfold ids_pos in Tp. rewrite Forall_forall in Tp. apply Tp; exact Hx.
  - split; [reflexivity|]. refine (proj1 (proj2 (bridge_absent_ref LF s II (P ref) (map RPid ts) None _))).
    rewrite in_store_iff by assumption. exact Sp.
Qed.

(* splice / remove: whenever the list model performs the replacement, the store performs the same one *)
Theorem link_splice ts first last d' : ids_pos R.tid ts -> NoDup (map R.tid ts) ->
  R.st_splice ts first last d = Ok d' ->
  let s' := fst (splice LF s (map RPid ts) (Some (P first)) (Some (P last))) in
  splice LF s (map RPid ts) (Some (P first)) (Some (P last)) = (s', Ok tt) /\ Inv s' /\
  abs s' = map RPid d' /\ (forall u, txt s' u = txt s u) /\ pure s'.
Proof.
  intros Tp ND H. unfold R.st_splice in H. pose proof (rsplit_spec first d) as Sp.
  destruct (R.split_at first d) as [[[a t] b]|]; [|discriminate]. destruct Sp as (Ed & Et & _).
  pose proof (guard_spec ts d) as G.
  assert (P first = RPid t) as -> by (unfold Pid; rewrite Et; reflexivity).
  destruct (Z.eqb_spec first last) as [<-|Ne].
  - destruct (R.guard ts d); [|discriminate]. injection H as <-.
    assert (P first = RPid t) as -> by (unfold Pid; rewrite Et; reflexivity).
    assert (abs s = map RPid (a ++ [t] ++ b)) as Rep' by (rewrite Rep, Ed; reflexivity).
    apply (bridge_splice R.tid LF HLF s II Pure a [t] b ts t t Rep'); [reflexivity|reflexivity|apply nodup_pid; assumption|].
    intros x Hx. left. apply (fresh_of_guard ts Tp G x Hx).
  - pose proof (rsplit_spec last b) as Sl. destruct (R.split_at last b) as [[[m0 l] c]|]; [|discriminate].
    destruct Sl as (Eb & El & _). destruct (R.guard ts d); [|discriminate]. injection H as <-.
    assert (P last = RPid l) as -> by (unfold Pid; rewrite El; reflexivity).
    assert (abs s = map RPid (a ++ (t :: m0 ++ [l]) ++ c)) as Rep'.
    { rewrite Rep, Ed, Eb. f_equal. f_equal. cbn [app]. f_equal. rewrite <- app_assoc. reflexivity. }
    apply (bridge_splice R.tid LF HLF s II Pure a (t :: m0 ++ [l]) c ts t l Rep'); [reflexivity| |apply nodup_pid; assumption|].
    + replace (length (t :: m0 ++ [l]) - 1)%nat with (S (length m0)) by (cbn [length]; rewrite app_length; cbn; lia).
      cbn [nth_error]. apply nth_error_app_mid.
    + intros x Hx. left. apply (fresh_of_guard ts Tp G x Hx).
Qed.

Theorem link_remove first last d' : R.st_remove first last d = Ok d' ->
  let s' := fst (remove LF s (P first) (Some (P last))) in
  remove LF s (P first) (Some (P last)) = (s', Ok tt) /\ Inv s' /\
  abs s' = map RPid d' /\ (forall u, txt s' u = txt s u) /\ pure s'.
Proof. intro H. exact (link_splice [] first last d' (Forall_nil _) (NoDup_nil _) H). Qed.

(* a reference that is not in the document: both sides raise ValueError, nothing changes *)
Theorem link_absent first last ts : 0 < first -> 0 < last ->
  (~ In first (R.ids d) \/ ~ In last (R.ids d)) ->
  R.st_splice ts first last d = Err ValueError /\
  splice LF s (map RPid ts) (Some (P first)) (Some (P last)) = (s, Err ValueError).
Proof.
  intros Hf Hl H. unfold R.st_splice. pose proof (rsplit_spec first d) as Sp.
  destruct (R.split_at first d) as [[[a t] b]|].
  - destruct Sp as (Ed & Et & _).
    assert (In first (R.ids d)) as Hin by (unfold R.ids; rewrite Ed, map_app; apply in_or_app; right; left; exact Et).
    destruct H as [H|H]; [contradiction|].
    destruct (Z.eqb_spec first last) as [E|Ne]; [subst; contradiction|].
    pose proof (rsplit_spec last b) as Sl. destruct (R.split_at last b) as [[[m0 l] c]|].
    + exfalso. destruct Sl as (Eb & El & _). apply H. unfold R.ids. rewrite Ed, Eb, !map_app. cbn [map]. rewrite map_app. cbn [map].
      apply in_or_app; right. right. apply in_or_app; right. left. exact El.
    + split; [reflexivity|]. apply (bridge_absent_end LF s II); rewrite in_store_iff by assumption; assumption.
  - split; [reflexivity|]. refine (proj1 (bridge_absent_ref LF s II (P first) (map RPid ts) (Some (P last)) _)).
    rewrite in_store_iff by assumption. exact Sp.
Qed.

Theorem link_get_prev_next i : 0 < i ->
  R.st_get_prev i d = match get_prev s (P i) with Ok o => Ok (option_map Zpos o) | Err e => Err e end /\
  R.st_get_next i d = match get_next s (P i) with Ok o => Ok (option_map Zpos o) | Err e => Err e end.
Proof.
  intro Hi. unfold R.st_get_prev, R.st_get_next. pose proof (rsplit_spec i d) as Sp.
  destruct (R.split_at i d) as [[[a t] b]|].
  - destruct Sp as (Ed & Et & _). assert (P i = RPid t) as -> by (unfold Pid; rewrite Et; reflexivity).
    pose proof Rep as Rep'. rewrite Ed in Rep'. destruct (bridge_prev_next R.tid s II a t b Rep') as [-> ->].
    assert (forall x, In x d -> Zpos (RPid x) = R.tid x) as Hz.
    { intros x Hx. unfold ids_pos in Dpos. rewrite Forall_forall in Dpos. specialize (Dpos x Hx). unfold Pid, P. lia. }
    split; f_equal.
    + unfold R.last_opt. destruct a as [|y q]; [reflexivity|]. cbn [option_map]. f_equal. symmetry. apply Hz.
      rewrite Ed. apply in_or_app. left. apply last_in_cons.
    + unfold R.hd_opt. destruct b as [|y q]; [reflexivity|]. cbn [option_map]. f_equal. symmetry. apply Hz.
      rewrite Ed. apply in_or_app. right. right. left. reflexivity.
  - destruct (bridge_absent_ref LF s II (P i) [] None) as (_ & _ & _ & -> & ->); [|auto].
    rewrite in_store_iff by assumption. exact Sp.
Qed.

Theorem link_iter first last : R.st_iter first last d <> [] ->
  iter_range s (P first) (P last) = Ok (map RPid (R.st_iter first last d)).
Proof.
  unfold R.st_iter. pose proof (rsplit_spec first d) as Sp.
  destruct (R.split_at first d) as [[[a t] b]|]; [|intro H; contradiction]. destruct Sp as (Ed & Et & _).
  assert (P first = RPid t) as -> by (unfold Pid; rewrite Et; reflexivity).
  destruct (Z.eqb_spec first last) as [<-|Ne]; intros Hne.
  - assert (P first = RPid t) as -> by (unfold Pid; rewrite Et; reflexivity).
    assert (abs s = map RPid (a ++ [t] ++ b)) as Rep' by (rewrite Rep, Ed; reflexivity).
    apply (bridge_iter R.tid s II a [t] b t t Rep'); reflexivity.
  - pose proof (rsplit_spec last b) as Sl. destruct (R.split_at last b) as [[[m0 l] c]|].
    + destruct Sl as (Eb & El & _). assert (P last = RPid l) as -> by (unfold Pid; rewrite El; reflexivity).
      assert (abs s = map RPid (a ++ (t :: m0 ++ [l]) ++ c)) as Rep'.
      { rewrite Rep, Ed, Eb. f_equal. f_equal. cbn [app]. f_equal. rewrite <- app_assoc. reflexivity. }
      apply (bridge_iter R.tid s II a (t :: m0 ++ [l]) c t l Rep'); [reflexivity|].
      replace (length (t :: m0 ++ [l]) - 1)%nat with (S (length m0)) by (cbn [length]; rewrite app_length; cbn; lia).
      cbn [nth_error]. apply nth_error_app_mid.
    + exfalso. apply Hne. reflexivity.
Qed.
End RepeatedLink.
