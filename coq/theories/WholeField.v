(* C10 / C19 / C11 model: WHOLE-FIELD ASSIGNMENT of a repeated field and the caches around it.
   Transcribed statement by statement from
     autobean_refactor/models/internal/properties.py
        repeated_node_property._get / __set__, drop_views_of, replace_node (the `node is repl` no-op, the refusal
        by repl.detach()), cached_custom_property._get / __set__ (the `x.view += values` self-assignment no-op),
        RepeatedNodeWrapper.__init__ / register_update_handler / __deepcopy__
     autobean_refactor/models/internal/interleaving_comments.py
        repeated_node_with_interleaving_comments_property._get / __set__   (same statements, other wrapper class)
     autobean_refactor/models/internal/value_properties.py
        RepeatedValueWrapper.__init__ (computes _raw_indexes from the wrapper it is given, registers its update
        handler on THAT wrapper: `_raw_wrapper`), MutableSequence.__iadd__ (extend; return self)
   on top of Views.v (the list operations themselves: Views.step on the edited wrapper's list and handler list).

   Objects have identities (Z), because the questions here are about sharing:
     rep   a Repeated: its items; r_spans = the test of RawModel.detach passes (first/last token are the first/last
           of its store: a free-standing deep copy); r_live = its tokens are in a store (false once it was spliced
           out of the document by an accepted assignment: every token-level edit through it then raises ValueError)
     wrp   a RepeatedNodeWrapper: which Repeated it wraps, its class (w_inter = the interleaving-comments
           subclass), its `_update_handlers` in registration order.  A handler and the view that registered it share
           one `_raw_indexes` list object, so the handler list owns the views' caches (exactly Views.st), and a view
           handle is (wrapper id, position in that wrapper's handler list) - positions are stable, handler lists
           only grow.  `view._raw_wrapper` is the first component of the handle.
     inst  a model instance, restricted to ONE repeated field: i_field = the Repeated the inner field holds;
           i_wrapper = instance.__dict__.get(attr); i_views = the cached value views in instance.__dict__, in
           insertion order (name -> view handle).
   Exceptions are values; the heap returned with an exception is the heap written so far.  No proofs here. *)
From AB Require Import Prelude PySeq Views.

(* ---- identities -> objects ------------------------------------------------------------------------ *)
Fixpoint lookup {A : Type} (k : Z) (l : list (Z * A)) : option A :=
  match l with
  | [] => None
  | (k', a) :: r => if k' =? k then Some a else lookup k r
  end.
(* dict[k] = a : replaces in place, a new key goes last (Python dict order) *)
Fixpoint upd {A : Type} (k : Z) (a : A) (l : list (Z * A)) : list (Z * A) :=
  match l with
  | [] => [(k, a)]
  | (k', a') :: r => if k' =? k then (k, a) :: r else (k', a') :: upd k a r
  end.

Record rep := mkrep { r_items : list elem; r_spans : bool; r_live : bool }.
Record wrp := mkwrp { w_rep : Z; w_inter : bool; w_views : list view }.
Definition vhandle := (Z * nat)%type.
Record inst := mkinst { i_field : Z; i_inter : bool; i_wrapper : option Z; i_views : list (Z * vhandle) }.
Record heap := mkheap { h_reps : list (Z * rep); h_wrps : list (Z * wrp); h_insts : list (Z * inst); h_next : Z }.

Inductive ret := RNone | RW (w : Z) | RV (w : Z) (k : nat) | RL (l : list elem).

(* the code (VRepaired) and the changes it must not suffer:
   VKeepViews      as found (defect D-c10-d): __set__ did not call drop_views_of
   VDropFirst      seeded C10-m3: drop_views_of stops after the first cached view it deletes
   VCacheFirst     seeded C19-m5: the cache is replaced (views dropped) BEFORE replace_node may refuse
   VShareEmptyCopy seeded C11-m10: __deepcopy__ of an empty list wraps the ORIGINAL Repeated
   VIaddRaises     as found: cached_custom_property had no __set__, `x.view += xs` extended and then raised *)
Inductive variant := VRepaired | VKeepViews | VDropFirst | VCacheFirst | VShareEmptyCopy | VIaddRaises.

Definition set_reps (h : heap) (x : list (Z * rep)) : heap := mkheap x (h_wrps h) (h_insts h) (h_next h).
Definition set_insts (h : heap) (x : list (Z * inst)) : heap := mkheap (h_reps h) (h_wrps h) x (h_next h).

(* ---- repeated_node_property._get (and the interleaving twin) --------------------------------------- *)
Definition get_wrapper (h : heap) (i : Z) : heap * res Z :=
  match lookup i (h_insts h) with
  | None => (h, Err ModelStuck)
  | Some ins =>
      match i_wrapper ins with                      (* wrapper = instance.__dict__.get(self._attr) *)
      | Some w => (h, Ok w)
      | None =>                                   (* wrapper = RepeatedNodeWrapper(repeated, field); cache it *)
          let w := h_next h in
          (mkheap (h_reps h)
                  (upd w (mkwrp (i_field ins) (i_inter ins) []) (h_wrps h))
                  (upd i (mkinst (i_field ins) (i_inter ins) (Some w) (i_views ins)) (h_insts h))
                  (w + 1), Ok w)
      end
  end.

(* ---- cached_custom_property._get with fget = RepeatedValueWrapper(inner_property.__get__(instance), ...) *)
Definition get_view (h : heap) (i name : Z) (tags : list Z) (kd : vkind) : heap * res vhandle :=
  match lookup i (h_insts h) with
  | None => (h, Err ModelStuck)
  | Some ins =>
      match lookup name (i_views ins) with          (* if self._attr in instance.__dict__: return it *)
      | Some vh => (h, Ok vh)
      | None =>
          match get_wrapper h i with              (* raw_wrapper = inner_property.__get__(instance) *)
          | (h1, Err e) => (h1, Err e)
          | (h1, Ok w) =>
              match lookup w (h_wrps h1), lookup i (h_insts h1) with
              | Some W, Some ins1 =>
                  match lookup (w_rep W) (h_reps h1) with
                  | None => (h1, Err ModelStuck)
                  | Some R =>
                      (* self._raw_indexes = [i for i, item in enumerate(raw_wrapper) if isinstance(...)]
                         raw_wrapper.register_update_handler(handler sharing that list) *)
                      let s' := fst (register (mkst (r_items R) (w_views W)) tags kd) in
                      let vh := (w, length (w_views W)) in
                      (mkheap (h_reps h1)
                              (upd w (mkwrp (w_rep W) (w_inter W) (views s')) (h_wrps h1))
                              (* instance.__dict__[self._attr] = value *)
                              (upd i (mkinst (i_field ins1) (i_inter ins1) (i_wrapper ins1) (upd name vh (i_views ins1)))
                                   (h_insts h1))
                              (h_next h1), Ok vh)
                  end
              | _, _ => (h1, Err ModelStuck)
              end
          end
      end
  end.

(* ---- replace_node(node, repl) at the level of Repeated objects -------------------------------------
   token_store.splice(repl.detach(), node.first_token, node.last_token); repl.reattach(token_store):
   repl takes the place of node in node's store (so it spans that store iff node did); node's tokens are out of
   any store from now on. *)
Definition replace_rep (h : heap) (node repl : Z) : heap * res unit :=
  match lookup node (h_reps h), lookup repl (h_reps h) with
  | Some Nd, Some P =>
      if node =? repl then (h, Ok tt)             (* if node is repl: return *)
      else if negb (r_live Nd) then (h, Err ModelStuck)   (* not reachable from the API: an instance's field is live *)
      else if negb (r_spans P) then (h, Err ValueError)  (* repl.detach(): Cannot reuse node *)
      else (set_reps h (upd repl (mkrep (r_items P) (r_spans Nd) true)
                            (upd node (mkrep (r_items Nd) false false) (h_reps h))), Ok tt)
  | _, _ => (h, Err ModelStuck)
  end.

(* ---- drop_views_of(instance, old_wrapper, new_wrapper) -------------------------------------------- *)
Definition built_on (o : Z) (e : Z * vhandle) : bool := fst (snd e) =? o.
Fixpoint drop_first (o : Z) (l : list (Z * vhandle)) : list (Z * vhandle) :=
  match l with
  | [] => []
  | e :: r => if built_on o e then r else e :: drop_first o r
  end.
Definition drop_views_of (var : variant) (old : option Z) (new : Z) (vs : list (Z * vhandle)) :=
  match old with
  | None => vs                                    (* if old_wrapper is None ...: return *)
  | Some o =>
      if o =? new then vs                         (* ... or old_wrapper is new_wrapper: return *)
      else match var with
           | VKeepViews => vs
           | VDropFirst => drop_first o vs
           | _ => filter (fun e => negb (built_on o e)) vs   (* every cached view whose _raw_wrapper is old *)
           end
  end.

(* drop_views_of(instance, instance.__dict__.get(self._attr), value); instance.__dict__[self._attr] = value *)
Definition set_cache (var : variant) (ins : inst) (w : Z) : inst :=
  mkinst (i_field ins) (i_inter ins) (Some w) (drop_views_of var (i_wrapper ins) w (i_views ins)).
Definition set_field (ins : inst) (r : Z) : inst := mkinst r (i_inter ins) (i_wrapper ins) (i_views ins).

(* ---- repeated_node_property.__set__(instance, value) ---------------------------------------------- *)
Definition assign (var : variant) (h : heap) (i w : Z) : heap * res ret :=
  match lookup i (h_insts h), lookup w (h_wrps h) with
  | Some ins, Some W =>
      match var with
      | VCacheFirst =>
          let ins1 := set_cache var ins w in
          let h0 := set_insts h (upd i ins1 (h_insts h)) in
          match replace_rep h0 (i_field ins) (w_rep W) with
          | (h1, Err e) => (h1, Err e)
          | (h1, Ok _) => (set_insts h1 (upd i (set_field ins1 (w_rep W)) (h_insts h1)), Ok RNone)
          end
      | _ =>
          (* repeated = self._inner_field.__get__(instance); replace_node(repeated, value.repeated) *)
          match replace_rep h (i_field ins) (w_rep W) with
          | (h1, Err e) => (h1, Err e)
          | (h1, Ok _) =>
              (* self._inner_field.__set__(instance, value.repeated); drop_views_of(...); cache = value *)
              (set_insts h1 (upd i (set_cache var (set_field ins (w_rep W)) w) (h_insts h1)), Ok RNone)
          end
      end
  | _, _ => (h, Err ModelStuck)
  end.

(* ---- cached_custom_property.__set__(instance, value): no setter is ever installed on the value views, so
   anything but the cached object itself reaches _default_fset *)
Definition vh_eqb (a b : vhandle) : bool := (fst a =? fst b) && Nat.eqb (snd a) (snd b).
Definition set_view (var : variant) (h : heap) (i name : Z) (vh : vhandle) : heap * res ret :=
  match lookup i (h_insts h) with
  | None => (h, Err ModelStuck)
  | Some ins =>
      match var, lookup name (i_views ins) with
      | VIaddRaises, _ => (h, Err NotImplementedErr)
      | _, Some cur => if vh_eqb cur vh then (h, Ok RNone) else (h, Err NotImplementedErr)
      | _, None => (h, Err NotImplementedErr)
      end
  end.

(* ---- a list operation through a wrapper, or through the k-th view registered on it ------------------ *)
Definition edit_ok (o : op) : bool :=
  match o with ORegister _ _ | RAssign _ | RIAdd _ | VIAdd _ _ => false | _ => true end.
Definition read_only (o : op) : bool :=
  match o with
  | VLen _ | VIter _ | VGet _ _ | MGet _ _ _ | MContains _ _ | MKeys _ | MValues _ _ | MItems _ _ | MDict _ _ _ _ => true
  | _ => false
  end.
(* on a Repeated that was spliced out of its document the first token-store call raises ValueError
   ('Token is not in a store.'); only the operations whose path to that call is modelled are given a result *)
Definition dead_step (s : st) (o : op) : res (list elem) :=
  match o with
  | RAppend _ | RInsert _ _ | RExtend _ => Err ValueError
  | RPop i => match list_get_int (items s) i with Err e => Err e | Ok _ => Err ValueError end
  | VAppend k _ | VExtend k _ | VInsert k _ _ =>
      match nth_error (views s) k with None => Err ModelStuck | Some _ => Err ValueError end
  | VPop k i =>
      match nth_error (views s) k with
      | None => Err ModelStuck
      | Some v => let n := zlen (v_idx v) in
                  if negb ((- n <=? i) && (i <? n)) then Err IndexError else Err ValueError
      end
  | _ => Err ModelStuck
  end.
Definition lift (r : res (list elem)) : res ret := match r with Ok l => Ok (RL l) | Err e => Err e end.

Definition edit (h : heap) (w : Z) (o : op) : heap * res ret :=
  match lookup w (h_wrps h) with
  | None => (h, Err ModelStuck)
  | Some W =>
      match lookup (w_rep W) (h_reps h) with
      | None => (h, Err ModelStuck)
      | Some R =>
          if negb (edit_ok o) then (h, Err ModelStuck)
          else
            let s := mkst (r_items R) (w_views W) in
            if r_live R || read_only o then
              (* every handler registered on THIS wrapper is notified, nobody else *)
              let s' := fst (step true s o) in
              (mkheap (upd (w_rep W) (mkrep (items s') (r_spans R) (r_live R)) (h_reps h))
                      (upd w (mkwrp (w_rep W) (w_inter W) (views s')) (h_wrps h))
                      (h_insts h) (h_next h), lift (snd (step true s o)))
            else (h, lift (dead_step s o))
      end
  end.

(* ---- `instance.view += xs`: tmp = instance.view; tmp = tmp.__iadd__(xs) [extend; return self];
        instance.view = tmp *)
Definition iadd_view (var : variant) (h : heap) (i name : Z) (tags : list Z) (kd : vkind) (xs : list elem)
  : heap * res ret :=
  match get_view h i name tags kd with
  | (h1, Err e) => (h1, Err e)
  | (h1, Ok vh) =>
      match edit h1 (fst vh) (VExtend (snd vh) xs) with
      | (h2, Err e) => (h2, Err e)
      | (h2, Ok _) => set_view var h2 i name vh
      end
  end.

(* ---- `instance.raw_xs += xs` *)
Definition iadd_raw (var : variant) (h : heap) (i : Z) (xs : list elem) : heap * res ret :=
  match get_wrapper h i with
  | (h1, Err e) => (h1, Err e)
  | (h1, Ok w) =>
      match edit h1 w (RExtend xs) with
      | (h2, Err e) => (h2, Err e)
      | (h2, Ok _) => assign var h2 i w
      end
  end.

(* ---- RepeatedNodeWrapper.__deepcopy__: repeated = copy.deepcopy(self._repeated, memo);
        return RepeatedNodeWrapper(repeated, self._field)      (base class, no handlers) *)
Definition copy_wrapper (var : variant) (h : heap) (w : Z) : heap * res ret :=
  match lookup w (h_wrps h) with
  | None => (h, Err ModelStuck)
  | Some W =>
      match lookup (w_rep W) (h_reps h) with
      | None => (h, Err ModelStuck)
      | Some R =>
          match var, r_items R with
          | VShareEmptyCopy, [] =>
              let w' := h_next h in
              (mkheap (h_reps h) (upd w' (mkwrp (w_rep W) false []) (h_wrps h)) (h_insts h) (w' + 1), Ok (RW w'))
          | _, _ =>
              if negb (r_live R) then (h, Err ValueError)     (* the tokens to copy are in no store *)
              else
                let r' := h_next h in
                let w' := h_next h + 1 in
                (mkheap (upd r' (mkrep (r_items R) true true) (h_reps h))
                        (upd w' (mkwrp r' false []) (h_wrps h)) (h_insts h) (h_next h + 2), Ok (RW w'))
          end
      end
  end.

(* ---- operation language (shared with harness/wholefield.py) ---------------------------------------- *)
Inductive wop :=
| WGetWrapper (i : Z)
| WGetView (i name : Z) (tags : list Z) (kd : vkind)
| WAssign (i w : Z)
| WSetView (i name w : Z) (k : nat)
| WIAddView (i name : Z) (tags : list Z) (kd : vkind) (xs : list elem)
| WIAddRaw (i : Z) (xs : list elem)
| WEdit (w : Z) (o : op)
| WCopy (w : Z).

Definition wstep (var : variant) (h : heap) (o : wop) : heap * res ret :=
  match o with
  | WGetWrapper i => match get_wrapper h i with (h', Ok w) => (h', Ok (RW w)) | (h', Err e) => (h', Err e) end
  | WGetView i name tags kd =>
      match get_view h i name tags kd with (h', Ok vh) => (h', Ok (RV (fst vh) (snd vh))) | (h', Err e) => (h', Err e) end
  | WAssign i w => assign var h i w
  | WSetView i name w k => set_view var h i name (w, k)
  | WIAddView i name tags kd xs => iadd_view var h i name tags kd xs
  | WIAddRaw i xs => iadd_raw var h i xs
  | WEdit w o => edit h w o
  | WCopy w => copy_wrapper var h w
  end.

(* a history: exceptions do not stop it *)
Fixpoint wrun (var : variant) (h : heap) (ops : list wop) : heap :=
  match ops with
  | [] => h
  | o :: r => wrun var (fst (wstep var h o)) r
  end.

(* ---- what the theorems say about a heap -------------------------------------------------------------- *)
(* the view behind a handle, and the list its instance's field holds *)
Definition view_of (h : heap) (vh : vhandle) : option view :=
  match lookup (fst vh) (h_wrps h) with
  | None => None
  | Some W => nth_error (w_views W) (snd vh)
  end.
Definition field_items (h : heap) (ins : inst) : option (list elem) :=
  match lookup (i_field ins) (h_reps h) with None => None | Some R => Some (r_items R) end.

(* a parsed document before anything was read: instance k holds the attached Repeated k (items, property class
   as given), its dict is empty *)
Fixpoint fresh_reps (its : list (list elem * bool)) (k : Z) : list (Z * rep) :=
  match its with
  | [] => []
  | l :: r => (k, mkrep (fst l) false true) :: fresh_reps r (k + 1)
  end.
Fixpoint fresh_insts (its : list (list elem * bool)) (k : Z) : list (Z * inst) :=
  match its with
  | [] => []
  | l :: r => (k, mkinst k (snd l) None []) :: fresh_insts r (k + 1)
  end.
Definition init_heap (its : list (list elem * bool)) : heap :=
  mkheap (fresh_reps its 0) [] (fresh_insts its 0) (zlen its).
