(* _insert_tokens under the layout invariant: the new list of cells, preservation of WF. *)
From AB Require Import Prelude PySeq RepeatedLib Repeated Fields RepeatedProofs RepeatedLayout RepeatedInsert.
From Coq Require Import ZifyBool Permutation.

Definition seps_ok (s : list (kind * str)) : Prop := forallb (fun p => is_sep (fst p)) s = true.

(* what a mutator needs from the values it is given: free (detach accepts), not empty, and their
   tokens as well as the ids fr, fr+1, ... used for the separator copies are new to the document *)
Definition donors_ok (fr : Z) (d : doc) (vs : list donor) : Prop :=
  Forall (fun v => detachable v = true /\ d_store v <> []) vs /\
  (forall x, In x (ids d) -> x < fr) /\ (forall x, In x (dids vs) -> x < fr) /\
  NoDup (ids d ++ dids vs).

Lemma donors_ok_detachable : forall fr d vs, donors_ok fr d vs -> forallb detachable vs = true.
Proof.
  intros fr d vs (H & _). induction H as [|v r [Hv _] _ IH]; [reflexivity|]. cbn. now rewrite Hv.
Qed.

Lemma fresh_block : forall fr d vs T,
  donors_ok fr d vs -> NoDup (ids T) -> (forall x, In x (ids T) -> fr <= x \/ In x (dids vs)) ->
  guard T d = true /\ (forall X Y, d = X ++ Y -> NoDup (ids (X ++ T ++ Y))).
Proof.
  intros fr d vs T (_ & Hd & Hv & Hn) HT HTb.
  assert (Hdis : forall x, In x (ids T) -> ~ In x (ids d)).
  { intros x Hx Hin. destruct (HTb x Hx) as [H|H].
    - apply Hd in Hin. lia.
    - eapply nodup_app_disj; [exact Hn|exact Hin|exact H]. }
  split.
  - apply guard_disjoint. intros t Ht. apply Hdis. unfold ids. now apply in_map.
  - intros X Y ->. rewrite !ids_app. apply nodup_insert.
    + rewrite <- ids_app. eapply nodup_app_l. exact Hn.
    + exact HT.
    + intros x Hx. rewrite <- ids_app. now apply Hdis.
Qed.

Lemma last_cons_default : forall {A} (r : list A) t d, last (t :: r) d = last r t.
Proof.
  induction r as [|x r IH]; intros t d; [reflexivity|].
  change (last (t :: x :: r) d) with (last (x :: r) d). rewrite (IH x d), (IH x t). reflexivity.
Qed.

Lemma item_of_donor : forall g v, detachable v = true -> d_store v <> [] -> item_of (mkcell g (d_store v)) = node_item v.
Proof.
  intros g v Hd Hne. unfold item_of, node_item, detachable in *. cbn [c_body].
  destruct (d_store v) as [|t r]; [congruence|]. cbn [hd]. rewrite last_cons_default.
  apply andb_true_iff in Hd. destruct Hd as [H1 H2]. f_equal; lia.
Qed.

Section Seps.
Variable ph : Z.
Variables seps sepsb : list (kind * str).
Hypothesis Hseps : seps_ok seps.
Hypothesis Hsepsb : seps_ok sepsb.

Fixpoint cells1 (fr : Z) (vs : list donor) : list cell :=
  match vs with [] => [] | v :: r => mkcell (mk_seps fr seps) (d_store v) :: cells1 (fr + nseps seps) r end.
Definition cells3 (fr : Z) (vs : list donor) : list cell :=
  match vs with [] => [] | v :: r => mkcell (mk_seps fr sepsb) (d_store v) :: cells1 (fr + nsepsb sepsb) r end.
(* the values take over the gaps in front of them; the old first item gets the last separators *)
Fixpoint shift (g : list tok) (fr : Z) (vs : list donor) (body : list tok) : list cell :=
  match vs with
  | [] => [mkcell g body]
  | v :: r => mkcell g (d_store v) :: shift (mk_seps fr seps) (fr + nseps seps) r body
  end.

Definition ins_res (A B : list cell) (fr : Z) (vs : list donor) : list cell :=
  match A, B with
  | [], [] => cells3 fr vs
  | [], b0 :: B' => shift (c_gap b0) fr vs (c_body b0) ++ B'
  | _, _ => A ++ cells1 fr vs ++ B
  end.

Definition ins_fr (A B : list cell) (fr : Z) (vs : list donor) : Z :=
  match A, B with
  | [], [] => fr_after3 seps sepsb fr vs
  | _, _ => fr_after seps fr vs
  end.

Lemma flat_cells1 : forall vs fr, flat (cells1 fr vs) = toks1 seps fr vs.
Proof. induction vs as [|v r IH]; intros fr; [reflexivity|]. cbn [cells1 toks1]. rewrite flat_cons. cbn [c_gap c_body]. now rewrite IH. Qed.

Lemma flat_cells3 : forall vs fr, flat (cells3 fr vs) = toks3 seps sepsb fr vs.
Proof. intros [|v r] fr; [reflexivity|]. cbn [cells3 toks3]. rewrite flat_cons. cbn [c_gap c_body]. now rewrite flat_cells1. Qed.

Lemma flat_shift : forall vs g fr body, flat (shift g fr vs body) = g ++ toks2 seps fr vs ++ body.
Proof.
  induction vs as [|v r IH]; intros g fr body; cbn [shift toks2]; rewrite flat_cons; cbn [c_gap c_body].
  - now rewrite flat_nil, app_nil_r.
  - rewrite IH. repeat rewrite <- app_assoc. reflexivity.
Qed.

Definition vs_ok (vs : list donor) : Prop := Forall (fun v => detachable v = true /\ d_store v <> []) vs.

Lemma items_cells1 : forall vs fr, vs_ok vs -> map item_of (cells1 fr vs) = map node_item vs.
Proof.
  induction vs as [|v r IH]; intros fr H; [reflexivity|]. inversion H as [|? ? [Hd Hn] Hr]; subst.
  cbn [cells1 map]. rewrite item_of_donor by assumption. now rewrite IH.
Qed.

Lemma items_cells3 : forall vs fr, vs_ok vs -> map item_of (cells3 fr vs) = map node_item vs.
Proof.
  intros [|v r] fr H; [reflexivity|]. inversion H as [|? ? [Hd Hn] Hr]; subst.
  cbn [cells3 map]. rewrite item_of_donor by assumption. now rewrite items_cells1.
Qed.

Lemma items_shift : forall vs g fr body, vs_ok vs ->
  map item_of (shift g fr vs body) = map node_item vs ++ [item_of (mkcell [] body)].
Proof.
  induction vs as [|v r IH]; intros g fr body H; [reflexivity|]. inversion H as [|? ? [Hd Hn] Hr]; subst.
  cbn [shift map app]. rewrite item_of_donor by assumption. now rewrite IH.
Qed.

Lemma ok_cells1 : forall vs fr, vs_ok vs -> Forall cell_ok (cells1 fr vs).
Proof.
  induction vs as [|v r IH]; intros fr H; [constructor|]. inversion H as [|? ? [Hd Hn] Hr]; subst.
  cbn [cells1]. constructor; [split; [exact Hn|now apply mk_seps_kind]|now apply IH].
Qed.

Lemma ok_cells3 : forall vs fr, vs_ok vs -> Forall cell_ok (cells3 fr vs).
Proof.
  intros [|v r] fr H; [constructor|]. inversion H as [|? ? [Hd Hn] Hr]; subst.
  cbn [cells3]. constructor; [split; [exact Hn|now apply mk_seps_kind]|now apply ok_cells1].
Qed.

Lemma ok_shift : forall vs g fr body, vs_ok vs -> all_sep g = true -> body <> [] -> Forall cell_ok (shift g fr vs body).
Proof.
  induction vs as [|v r IH]; intros g fr body H Hg Hb.
  - constructor; [split; assumption|constructor].
  - inversion H as [|? ? [Hd Hn] Hr]; subst. cbn [shift].
    constructor; [split; assumption|]. apply IH; [assumption|now apply mk_seps_kind|assumption].
Qed.

(* the document seen from the cut after a non-empty prefix of cells *)
Lemma lay_snoc : forall pre pht A' a ba p post Y, c_body a = ba ++ [p] ->
  lay pre pht ((A' ++ [a]) ++ Y) post = (pre ++ pht :: flat A' ++ c_gap a ++ ba) ++ p :: flat Y ++ post.
Proof.
  intros pre pht A' a ba p post Y Ea. unfold lay. rewrite flat_app, flat_app, flat_cons, flat_nil, app_nil_r, Ea.
  repeat rewrite <- app_assoc. cbn [app]. repeat rewrite <- app_assoc. reflexivity.
Qed.

Lemma in_lay_ph : forall pre pht cs post, In (tid pht) (ids (lay pre pht cs post)).
Proof. intros. unfold lay. rewrite ids_app. apply in_or_app. right. cbn. now left. Qed.

Theorem ins_layout : forall pre pht A B post (items : list item) X vs sbl fr,
  WF ph pre pht (A ++ B) post -> items = map item_of (A ++ X) ->
  (A = [] -> forall b0 B', B = b0 :: B' ->
      sbl = Some (tid (last (pre ++ pht :: c_gap b0) dft)) \/ (sbl = None /\ X = B)) ->
  donors_ok fr (lay pre pht (A ++ B) post) vs ->
  insert_tokens ph seps sepsb (lay pre pht (A ++ B) post) items (zlen A) vs (zlen (A ++ B)) sbl fr
     = (lay pre pht (ins_res A B fr vs) post, map emptied vs, ins_fr A B fr vs, Ok tt)
  /\ WF ph pre pht (ins_res A B fr vs) post
  /\ map item_of (ins_res A B fr vs) = map item_of A ++ map node_item vs ++ map item_of B.
Proof.
  intros pre pht A B post items X vs sbl fr (Hph & Hnd & Hok) Hitems Hsbl Hdon.
  pose proof (donors_ok_detachable _ _ _ Hdon) as Hdet.
  assert (Hvs : vs_ok vs) by (destruct Hdon as (H & _); exact H).
  assert (Hdv : (forall x, In x (dids vs) -> x < fr) /\ NoDup (dids vs)).
  { destruct Hdon as (_ & _ & H2 & H3). split; [exact H2|eapply nodup_app_rr; exact H3]. }
  destruct Hdv as [Hdb Hdn].
  apply Forall_app_inv in Hok. destruct Hok as [HokA HokB].
  destruct (snoc_cases A) as [->|(A' & a & ->)].
  - destruct B as [|b0 B'].
    + (* empty list: separators_before ++ v0, separators ++ v1, ... after the placeholder *)
      cbn [app ins_res]. change (zlen (@nil cell)) with 0.
      destruct (toks3_fresh seps sepsb vs fr Hdb Hdn) as [T1 T2].
      destruct (fresh_block _ _ _ _ Hdon T1 T2) as [Hg Hnd'].
      assert (Ed : lay pre pht [] post = pre ++ pht :: post) by reflexivity.
      assert (Eres : lay pre pht (cells3 fr vs) post = pre ++ pht :: toks3 seps sepsb fr vs ++ post)
        by (unfold lay; now rewrite flat_cells3).
      rewrite Eres. rewrite Ed in *.
      split; [|split].
      * cbn [ins_fr]. apply insert_tokens_m3; assumption.
      * split; [exact Hph|]. split; [|now apply ok_cells3]. rewrite Eres.
        specialize (Hnd' (pre ++ [pht]) post). rewrite <- !app_assoc in Hnd'. cbn [app] in Hnd'.
        apply Hnd'. reflexivity.
      * rewrite items_cells3 by exact Hvs. now rewrite app_nil_r.
    + (* index 0 of a non-empty list: v0 ++ separators ... right before the first item *)
      pose proof (Forall_inv HokB) as [Hb0 Hg0]. pose proof (Forall_inv_tail HokB) as HokB'.
      destruct (c_body b0) as [|n bq] eqn:Eb0; [congruence|].
      destruct (@exists_last _ (pre ++ pht :: c_gap b0)) as [P [s EG]]; [now destruct pre|].
      assert (Elay : forall T, pre ++ pht :: (c_gap b0 ++ T ++ n :: bq) ++ flat B' ++ post
                     = P ++ s :: T ++ n :: bq ++ flat B' ++ post).
      { intros T. transitivity ((pre ++ pht :: c_gap b0) ++ T ++ n :: bq ++ flat B' ++ post).
        - repeat rewrite <- app_assoc. cbn [app]. repeat rewrite <- app_assoc. reflexivity.
        - rewrite EG. rewrite <- app_assoc. reflexivity. }
      assert (Ed : lay pre pht ([] ++ b0 :: B') post = P ++ s :: n :: bq ++ flat B' ++ post).
      { unfold lay. cbn [app]. rewrite flat_cons, Eb0. pose proof (Elay []) as E0. cbn [app] in E0.
        rewrite <- E0. repeat rewrite <- app_assoc. cbn [app]. reflexivity. }
      destruct (toks2_fresh seps vs fr Hdb Hdn) as [T1 T2].
      destruct (fresh_block _ _ _ _ Hdon T1 T2) as [Hg Hnd'].
      assert (Eres : lay pre pht (ins_res [] (b0 :: B') fr vs) post
                     = P ++ s :: toks2 seps fr vs ++ n :: bq ++ flat B' ++ post).
      { cbn [ins_res]. unfold lay. rewrite flat_app, flat_shift, Eb0. rewrite <- Elay.
        repeat rewrite <- app_assoc. reflexivity. }
      assert (Hlen : zlen ([] ++ b0 :: B') <> 0) by (cbn [app]; rewrite zlen_cons; pose proof (zlen_nonneg B'); lia).
      assert (Hin : In ph (ids (P ++ s :: n :: bq ++ flat B' ++ post))).
      { rewrite <- Ed, <- Hph. apply in_lay_ph. }
      split; [|split].
      * cbn [ins_fr]. rewrite Eres. rewrite Ed in *. change (zlen (@nil cell)) with 0.
        destruct (Hsbl eq_refl b0 B' eq_refl) as [->|[-> ->]].
        -- rewrite EG, last_last. apply insert_tokens_m2_some; assumption.
        -- apply (insert_tokens_m2_none ph seps sepsb _ P s n _ vs _ fr (item_of b0)); try assumption.
           ++ rewrite Hitems. apply (get_item_mid [] B' b0).
           ++ cbn [fst item_of]. now rewrite Eb0.
      * split; [exact Hph|]. split.
        -- rewrite Eres. specialize (Hnd' (P ++ [s]) (n :: bq ++ flat B' ++ post)).
           rewrite <- !app_assoc in Hnd'. cbn [app] in Hnd'. apply Hnd'. exact Ed.
        -- cbn [ins_res]. apply Forall_app. split; [|exact HokB'].
           apply ok_shift; [exact Hvs|exact Hg0|rewrite Eb0; discriminate].
      * cbn [ins_res app map]. rewrite map_app, items_shift by exact Hvs. rewrite <- app_assoc. reflexivity.
  - (* after the last token of the preceding item: separators ++ v, ... *)
    apply Forall_app_inv in HokA. destruct HokA as [HokA' Hoka]. pose proof (Forall_inv Hoka) as [Hab Hga].
    destruct (exists_last Hab) as [ba [p Ea]].
    assert (Eres : ins_res (A' ++ [a]) B fr vs = (A' ++ [a]) ++ cells1 fr vs ++ B).
    { unfold ins_res. destruct (A' ++ [a]) eqn:E; [destruct A'; discriminate|reflexivity]. }
    rewrite Eres.
    rewrite (lay_snoc pre pht A' a ba p post B Ea) in *.
    rewrite (lay_snoc pre pht A' a ba p post (cells1 fr vs ++ B) Ea).
    rewrite (flat_app (cells1 fr vs) B), flat_cells1, <- (app_assoc (toks1 seps fr vs)).
    destruct (toks1_fresh seps vs fr Hdb Hdn) as [T1 T2].
    destruct (fresh_block _ _ _ _ Hdon T1 T2) as [Hg Hnd'].
    split; [|split].
    + replace (ins_fr (A' ++ [a]) B fr vs) with (fr_after seps fr vs)
        by (unfold ins_fr; destruct (A' ++ [a]) eqn:E; [destruct A'; discriminate|reflexivity]).
      apply insert_tokens_m1; try assumption.
      * pose proof (zlen_nonneg A'). rewrite zlen_app. change (zlen [a]) with 1. lia.
      * rewrite Hitems, prev_last_cells_snoc, Ea, last_last. reflexivity.
    + split; [exact Hph|]. split.
      * rewrite (lay_snoc pre pht A' a ba p post (cells1 fr vs ++ B) Ea), (flat_app (cells1 fr vs) B), flat_cells1, <- (app_assoc (toks1 seps fr vs)).
        specialize (Hnd' ((pre ++ pht :: flat A' ++ c_gap a ++ ba) ++ [p]) (flat B ++ post)).
        rewrite <- !app_assoc in Hnd'. cbn [app] in Hnd'. rewrite <- !app_assoc. cbn [app]. apply Hnd'.
        rewrite <- !app_assoc. reflexivity.
      * apply Forall_app. split; [apply Forall_app; split; assumption|].
        apply Forall_app. split; [now apply ok_cells1|exact HokB].
    + rewrite !map_app, items_cells1 by exact Hvs. reflexivity.
Qed.

End Seps.
