(* Proofs about Comments.v: claiming / unclaiming / shifting only permutes Placeholder tokens (C04) and keeps
   the ownership invariant (C14). *)
From AB Require Import Prelude Comments.
From Coq Require Import Permutation.

Definition ids (d : doc) : list Z := map t_id d.

(* d' has the same tokens as d, and the tokens that are not placeholders are the same ones in the same order
   with the same text (only the claimed flag, which is not part of tkey, may differ) *)
Definition same_vis (d' d : doc) : Prop :=
  Permutation (map tkey d') (map tkey d) /\ map tkey (filter vis d') = map tkey (filter vis d).

Lemma same_vis_refl : forall d, same_vis d d.
Proof. intros; split; auto. Qed.

Lemma same_vis_trans : forall a b c, same_vis a b -> same_vis b c -> same_vis a c.
Proof. intros a b c [P1 F1] [P2 F2]; split; [eapply Permutation_trans; eauto | congruence]. Qed.

Lemma set_claimed_tkey : forall c v d, map tkey (set_claimed c v d) = map tkey d.
Proof.
  induction d as [|t d IH]; simpl; auto. rewrite IH. f_equal.
  destruct (t_id t =? c); reflexivity.
Qed.

Lemma set_claimed_filter : forall c v d, filter vis (set_claimed c v d) = set_claimed c v (filter vis d).
Proof.
  induction d as [|t d IH]; simpl; auto.
  assert (E : vis (if t_id t =? c then set_flag v t else t) = vis t) by (destruct (t_id t =? c); reflexivity).
  rewrite E. destruct (vis t); simpl; rewrite IH; reflexivity.
Qed.

Lemma same_vis_set_claimed : forall c v d, same_vis (set_claimed c v d) d.
Proof.
  intros; split.
  - rewrite set_claimed_tkey; auto.
  - rewrite set_claimed_filter, set_claimed_tkey; auto.
Qed.

Lemma same_vis_ctx : forall a b new m,
  Permutation new m -> filter vis new = filter vis m -> same_vis (a ++ new ++ b) (a ++ m ++ b).
Proof.
  intros a b new m P F; split.
  - apply Permutation_map. apply Permutation_app_head. apply Permutation_app_tail. exact P.
  - rewrite !filter_app, F. reflexivity.
Qed.

Lemma txt_of_vis : forall d, (forall t, In t d -> is_ph t = true -> t_text t = []) ->
  txt d = concat (map (fun k => snd k) (map tkey (filter vis d))).
Proof.
  induction d as [|t d IH]; simpl; intros H; auto.
  unfold txt in *. simpl. unfold vis at 1. destruct (is_ph t) eqn:E; simpl.
  - rewrite (H t (or_introl eq_refl) E). simpl. apply IH. intros t' I' E'; apply H; [right; exact I' | exact E'].
  - f_equal. apply IH. intros t' I' E'; apply H; [right; exact I' | exact E'].
Qed.

(* ---- positions ---------------------------------------------------------------------------- *)
Lemma split_at_spec : forall i d a b, split_at i d = Some (a, b) ->
  d = a ++ b /\ exists x r, b = x :: r /\ t_id x = i.
Proof.
  induction d as [|t d IH]; simpl; intros a b H; [discriminate|].
  destruct (t_id t =? i) eqn:E.
  - inversion H; subst. split; auto. exists t, d. split; auto. apply Z.eqb_eq; auto.
  - destruct (split_at i d) as [[a1 b1]|]; [|discriminate]. inversion H; subst.
    destruct (IH _ _ eq_refl) as [H1 H2]. split; auto. simpl; f_equal; auto.
Qed.

Lemma split_at_unique : forall a x b, ~ In (t_id x) (ids a) -> split_at (t_id x) (a ++ x :: b) = Some (a, x :: b).
Proof.
  induction a as [|t a IH]; simpl; intros x b H.
  - rewrite Z.eqb_refl; auto.
  - destruct (t_id t =? t_id x) eqn:E.
    + apply Z.eqb_eq in E. exfalso; apply H; left; auto.
    + rewrite IH; auto.
Qed.

Lemma nodup_mid : forall a x b, NoDup (ids (a ++ x :: b)) -> ~ In (t_id x) (ids a).
Proof.
  intros a x b H. unfold ids in *. rewrite map_app in H. simpl in H.
  apply NoDup_remove_2 in H. intro; apply H; apply in_or_app; auto.
Qed.

Lemma nodup_tail : forall a b, NoDup (ids (a ++ b)) -> NoDup (ids b).
Proof.
  induction a as [|t a IH]; simpl; intros b H; auto. inversion H; subst; auto.
Qed.

Lemma splice_range : forall a m2 y b x m1 new,
  NoDup (ids (a ++ (x :: m1) ++ b)) -> x :: m1 = m2 ++ [y] ->
  splice (a ++ (x :: m1) ++ b) new (t_id x) (t_id y) = Some (a ++ new ++ b).
Proof.
  intros a m2 y b x m1 new ND E. unfold splice. simpl.
  rewrite split_at_unique by (eapply nodup_mid; simpl in ND; exact ND).
  apply nodup_tail in ND.
  change (x :: m1 ++ b) with ((x :: m1) ++ b). rewrite E in *. rewrite <- app_assoc in *. simpl in *.
  rewrite split_at_unique by (eapply nodup_mid; exact ND). reflexivity.
Qed.

Lemma take_ignored_spec : forall w i r, take_ignored w = (i, r) -> w = i ++ r /\ forallb is_ph i = true.
Proof.
  induction w as [|t w IH]; simpl; intros i r H.
  - inversion H; auto.
  - destruct (is_ph t) eqn:E.
    + destruct (take_ignored w) as [i1 x]. inversion H; subst. destruct (IH _ _ eq_refl) as [H1 H2].
      split; simpl; [f_equal; auto | rewrite E, H2; auto].
    + inversion H; subst; auto.
Qed.

Lemma ph_filter_vis : forall l, forallb is_ph l = true -> filter vis l = [].
Proof.
  induction l as [|t l IH]; simpl; intros H; auto. apply andb_prop in H. destruct H as [H1 H2].
  unfold vis at 1. rewrite H1. simpl. auto.
Qed.

Lemma filter_rev' : forall (f : tok -> bool) l, filter f (rev l) = rev (filter f l).
Proof.
  induction l as [|t l IH]; simpl; auto. rewrite filter_app, IH. simpl.
  destruct (f t); simpl; auto. rewrite app_nil_r; auto.
Qed.

Lemma ph_filter_vis_rev : forall l, forallb is_ph l = true -> filter vis (rev l) = [].
Proof. intros. rewrite filter_rev', ph_filter_vis; auto. Qed.

(* ---- _claim_comment ----------------------------------------------------------------------- *)
Lemma claim_fwd : forall a s ign1 nl ign2 c rest first w' (d : doc),
  d = a ++ s :: ign1 ++ nl :: ign2 ++ c :: rest ->
  NoDup (ids d) ->
  first :: w' = ign1 ++ nl :: ign2 ++ c :: rest ->
  forallb is_ph ign1 = true -> forallb is_ph ign2 = true ->
  exists d2, splice d ([nl; c] ++ ign1 ++ ign2) (t_id first) (t_id c) = Some d2 /\ Permutation d2 d /\ same_vis d2 d.
Proof.
  intros a s ign1 nl ign2 c rest first w' d Hd ND HW P1 P2.
  assert (E : d = (a ++ [s]) ++ (ign1 ++ nl :: ign2 ++ [c]) ++ rest).
  { subst d. rewrite <- ?app_assoc. simpl. rewrite <- ?app_assoc. simpl. rewrite <- ?app_assoc. reflexivity. }
  assert (HM : exists m1, ign1 ++ nl :: ign2 ++ [c] = first :: m1).
  { destruct ign1; simpl in *; inversion HW; eexists; reflexivity. }
  destruct HM as [m1 HM].
  assert (PM : Permutation ([nl; c] ++ ign1 ++ ign2) (ign1 ++ nl :: ign2 ++ [c])).
  { simpl. apply Permutation_cons_app. rewrite app_assoc. apply Permutation_cons_append. }
  exists ((a ++ [s]) ++ ([nl; c] ++ ign1 ++ ign2) ++ rest). split; [|split].
  - rewrite E, HM. apply splice_range with (m2 := ign1 ++ nl :: ign2).
    + rewrite <- HM, <- E. exact ND.
    + rewrite <- HM. rewrite <- app_assoc. reflexivity.
  - rewrite E. apply Permutation_app_head, Permutation_app_tail. exact PM.
  - rewrite E. apply same_vis_ctx.
    + exact PM.
    + rewrite !filter_app. simpl. rewrite !filter_app. simpl.
      rewrite (ph_filter_vis _ P1), (ph_filter_vis _ P2). simpl.
      destruct (vis nl), (vis c); reflexivity.
Qed.

Lemma claim_bwd : forall a s b ign1 nl ign2 c rest first w' (d : doc),
  d = a ++ s :: b ->
  NoDup (ids d) ->
  rev a = first :: w' ->
  first :: w' = ign1 ++ nl :: ign2 ++ c :: rest ->
  forallb is_ph ign1 = true -> forallb is_ph ign2 = true ->
  exists d2, splice d (rev (ign1 ++ ign2) ++ [c; nl]) (t_id c) (t_id first) = Some d2 /\ Permutation d2 d /\ same_vis d2 d.
Proof.
  intros a s b ign1 nl ign2 c rest first w' d Hd ND HR HW P1 P2.
  assert (Ea : a = rev rest ++ (c :: rev ign2 ++ nl :: rev ign1)).
  { rewrite <- (rev_involutive a), HR, HW. rewrite rev_app_distr. simpl. rewrite rev_app_distr. simpl.
    rewrite <- ?app_assoc. simpl. rewrite <- ?app_assoc. simpl. rewrite <- ?app_assoc. reflexivity. }
  assert (E : d = rev rest ++ (c :: rev ign2 ++ nl :: rev ign1) ++ (s :: b)).
  { subst d. rewrite Ea. rewrite <- app_assoc. reflexivity. }
  assert (HM : exists m2, c :: rev ign2 ++ nl :: rev ign1 = m2 ++ [first]).
  { destruct ign1 as [|f i1]; simpl in *; inversion HW; subst.
    - exists (c :: rev ign2). reflexivity.
    - exists (c :: rev ign2 ++ nl :: rev i1). simpl. rewrite <- app_assoc. reflexivity. }
  destruct HM as [m2 HM].
  assert (PM : Permutation (rev (ign1 ++ ign2) ++ [c; nl]) (c :: rev ign2 ++ nl :: rev ign1)).
  { rewrite rev_app_distr. rewrite <- app_assoc.
    apply Permutation_sym. rewrite app_assoc. apply Permutation_cons_app.
    rewrite <- app_assoc. apply Permutation_app_head. apply Permutation_cons_append. }
  exists (rev rest ++ (rev (ign1 ++ ign2) ++ [c; nl]) ++ (s :: b)). split; [|split].
  - rewrite E. apply splice_range with (m2 := m2).
    + rewrite <- E. exact ND.
    + exact HM.
  - rewrite E. apply Permutation_app_head, Permutation_app_tail. exact PM.
  - rewrite E. apply same_vis_ctx.
    + exact PM.
    + rewrite rev_app_distr. rewrite !filter_app. simpl. rewrite !filter_app. simpl.
      rewrite (ph_filter_vis_rev _ P1), (ph_filter_vis_rev _ P2). simpl.
      destruct (vis nl), (vis c); reflexivity.
Qed.

Theorem claim_comment_same_vis : forall cur d start bw ig ind r d',
  NoDup (ids d) -> claim_comment cur d start bw ig ind = (r, d') -> same_vis d' d.
Proof.
  intros cur d start bw ig ind r d' ND H. unfold claim_comment in H.
  destruct cur; [inversion H; apply same_vis_refl|].
  destruct (walk d start bw) as [w|] eqn:W; [|inversion H; apply same_vis_refl].
  destruct w as [|first w']; [inversion H; apply same_vis_refl|].
  destruct (take_ignored (first :: w')) as [ign1 r1] eqn:T1.
  destruct r1 as [|nl r1']; [inversion H; apply same_vis_refl|].
  destruct (negb (is_nl nl)); [inversion H; apply same_vis_refl|].
  destruct (take_ignored r1') as [ign2 r2] eqn:T2.
  destruct r2 as [|c rest]; [inversion H; apply same_vis_refl|].
  destruct (negb (is_comment c)); [inversion H; apply same_vis_refl|].
  destruct (match ind with Some b => negb (Bool.eqb (comment_indented c) b) | None => false end);
    [inversion H; apply same_vis_refl|].
  destruct (t_claimed c); [destruct ig; inversion H; apply same_vis_refl|].
  destruct (ign1 ++ ign2) as [|i0 irest] eqn:EI; [inversion H; apply same_vis_set_claimed|].
  rewrite <- EI in H.
  apply take_ignored_spec in T1. destruct T1 as [T1 P1].
  apply take_ignored_spec in T2. destruct T2 as [T2 P2]. subst r1'.
  unfold walk in W. destruct (split_at start d) as [[a sb]|] eqn:S; [|discriminate].
  destruct sb as [|s b]; [discriminate|]. apply split_at_spec in S. destruct S as [Hd _].
  destruct bw.
  - inversion W as [HR]. 
    destruct (claim_bwd a s b ign1 nl ign2 c rest first w' d Hd ND HR T1 P1 P2) as [d2 [Sp [PT SV]]].
    rewrite Sp in H. inversion H; subst d'.
    eapply same_vis_trans; [apply same_vis_set_claimed | exact SV].
  - inversion W; subst b.
    assert (Hd' : d = a ++ s :: ign1 ++ nl :: ign2 ++ c :: rest) by (rewrite Hd, T1; reflexivity).
    destruct (claim_fwd a s ign1 nl ign2 c rest first w' d Hd' ND T1 P1 P2) as [d2 [Sp [PT SV]]].
    rewrite Sp in H. inversion H; subst d'.
    eapply same_vis_trans; [apply same_vis_set_claimed | exact SV].
Qed.

(* ---- _shift_ignored ----------------------------------------------------------------------- *)
Lemma partition_perm : forall (l : list tok), Permutation (filter is_ph l ++ filter vis l) l.
Proof.
  induction l as [|t l IH]; simpl; auto. unfold vis at 1. destruct (is_ph t); simpl.
  - apply perm_skip; auto.
  - apply Permutation_sym, Permutation_cons_app, Permutation_sym; auto.
Qed.

Lemma filter_vis_ph : forall l, filter vis (filter is_ph l) = [].
Proof.
  induction l as [|t l IH]; simpl; auto. destruct (is_ph t) eqn:E; simpl; auto. unfold vis at 1. rewrite E. auto.
Qed.

Lemma filter_vis_vis : forall l, filter vis (filter vis l) = filter vis l.
Proof.
  induction l as [|t l IH]; simpl; auto. destruct (vis t) eqn:E; simpl; auto. rewrite E, IH. auto.
Qed.

Theorem shift_ignored_same_vis : forall d first last bw d',
  shift_ignored d first last bw = Some d' -> same_vis d' d.
Proof.
  intros d first last bw d' H. unfold shift_ignored, iter_range, splice in H.
  destruct (split_at first d) as [[a mb]|] eqn:S1; [|discriminate].
  destruct (split_at last mb) as [[m0 lb]|] eqn:S2; [|inversion H; apply same_vis_refl].
  destruct lb as [|l b']; [inversion H; apply same_vis_refl|].
  destruct (filter is_ph (m0 ++ [l])) as [|p0 pr] eqn:F; [inversion H; apply same_vis_refl|].
  rewrite <- F in H. inversion H; subst d'. clear H.
  apply split_at_spec in S1. destruct S1 as [Hd _].
  apply split_at_spec in S2. destruct S2 as [Hm _].
  assert (E : d = a ++ (m0 ++ [l]) ++ b') by (rewrite Hd, Hm, <- app_assoc; reflexivity).
  rewrite E. apply same_vis_ctx.
  - destruct bw.
    + apply partition_perm.
    + eapply Permutation_trans; [apply Permutation_app_comm | apply partition_perm].
  - destruct bw; rewrite filter_app, filter_vis_ph, filter_vis_vis; simpl; auto. rewrite app_nil_r; auto.
Qed.

Lemma claim_all_same_vis : forall cs d, same_vis (claim_all cs d) d.
Proof.
  unfold claim_all. induction cs as [|c cs IH]; simpl; intros d; [apply same_vis_refl|].
  eapply same_vis_trans; [apply IH | apply same_vis_set_claimed].
Qed.

Lemma unclaim_all_same_vis : forall cs d, same_vis (unclaim_all cs d) d.
Proof.
  unfold unclaim_all. induction cs as [|c cs IH]; simpl; intros d; [apply same_vis_refl|].
  eapply same_vis_trans; [apply IH | apply same_vis_set_claimed].
Qed.

Theorem claimer_claim_same_vis : forall d ph items mf ml flt r d',
  claimer_claim d ph items mf ml flt = (r, d') -> same_vis d' d.
Proof.
  intros d ph items mf ml flt r d' H. unfold claimer_claim in H.
  destruct (walk d ph true) as [wb|]; [|inversion H; apply same_vis_refl].
  destruct (walk d (rep_last ph items) false) as [wa|]; [|inversion H; apply same_vis_refl].
  destruct (find_outer ph wb mf flt) as [cb_rev s1].
  destruct (find_inner d (from_incl d ph) items s1) as [inner s2].
  destruct (find_outer (rep_last ph items) wa ml s2) as [ca s3].
  destruct (cs_nonempty s3); [inversion H; apply same_vis_refl|].
  destruct (match rev cb_rev with c0 :: _ => shift_ignored d c0 ph true | [] => Some d end) as [d1|] eqn:S1;
    [|inversion H; apply same_vis_refl].
  assert (V1 : same_vis d1 d).
  { destruct (rev cb_rev); [inversion S1; apply same_vis_refl | eapply shift_ignored_same_vis; eauto]. }
  destruct (match rev ca, wa with
            | cl :: _, f :: _ => shift_ignored d1 (t_id f) cl false
            | _ :: _, [] => None
            | [], _ => Some d1 end) as [d2|] eqn:S2; [|inversion H; subst; exact V1].
  assert (V2 : same_vis d2 d1).
  { destruct (rev ca); [inversion S2; apply same_vis_refl|].
    destruct wa; [discriminate | eapply shift_ignored_same_vis; eauto]. }
  inversion H; subst d'.
  eapply same_vis_trans; [apply claim_all_same_vis|]. eapply same_vis_trans; eauto.
Qed.

Theorem unclaim_inter_same_vis : forall d items flt r d', unclaim_inter d items flt = (r, d') -> same_vis d' d.
Proof.
  intros d items flt r d' H. unfold unclaim_inter in H.
  destruct (unclaim_scan items flt match flt with None => true | Some _ => false end) as [[kept un] s'].
  destruct (negb match flt with None => true | Some _ => false end && cs_nonempty s');
    inversion H; [apply same_vis_refl | apply unclaim_all_same_vis].
Qed.

Theorem unclaim_comment_same_vis : forall cur d r now d', unclaim_comment cur d = (r, now, d') -> same_vis d' d.
Proof.
  intros cur d r now d' H. unfold unclaim_comment in H.
  destruct cur; inversion H; [apply same_vis_set_claimed | apply same_vis_refl].
Qed.

(* ids are a permutation, hence uniqueness of ids is kept *)
Lemma same_vis_nodup : forall d' d, same_vis d' d -> NoDup (ids d) -> NoDup (ids d').
Proof.
  intros d' d [P _] ND. unfold ids in *.
  assert (E : forall x, map t_id x = map (fun k => fst (fst k)) (map tkey x)).
  { intros x; rewrite map_map; reflexivity. }
  rewrite E in *. eapply Permutation_NoDup; [apply Permutation_sym, Permutation_map; exact P | exact ND].
Qed.

(* ---- ownership (C14) ---------------------------------------------------------------------- *)
Definition OwnInv (d : doc) (tb : table) : Prop :=
  forall t, In t d -> is_comment t = true ->
    (owners (t_id t) tb <= 1)%nat /\ (t_claimed t = true <-> owners (t_id t) tb = 1%nat).
Definition slots_small (tb : table) : Prop :=
  forall n, (length (tget tb (SLead n)) <= 1)%nat /\ (length (tget tb (STrail n)) <= 1)%nat.
Definition Inv (st : doc * table) : Prop :=
  NoDup (ids (fst st)) /\ OwnInv (fst st) (snd st) /\ slots_small (snd st).

Lemma slot_eqb_eq : forall a b, slot_eqb a b = true <-> a = b.
Proof.
  destruct a, b; simpl; split; intros H; try discriminate; try (apply Z.eqb_eq in H; subst; auto);
    try (inversion H; apply Z.eqb_refl).
Qed.

Lemma owners_tset : forall c tb s l,
  (owners c (tset tb s l) + count_z c (tget tb s) = owners c tb + count_z c l)%nat.
Proof.
  induction tb as [|[s' l'] tb IH]; simpl; intros s l; [lia|].
  destruct (slot_eqb s' s); simpl; [lia|]. specialize (IH s l). lia.
Qed.

Lemma tget_tset : forall tb s l s', tget (tset tb s l) s' = if slot_eqb s s' then l else tget tb s'.
Proof.
  induction tb as [|[s0 l0] tb IH]; simpl; intros s l s'.
  - destruct (slot_eqb s s'); auto.
  - destruct (slot_eqb s0 s) eqn:E; simpl.
    + apply slot_eqb_eq in E; subst s0. destruct (slot_eqb s s'); auto.
    + rewrite IH. destruct (slot_eqb s s') eqn:E2; auto.
      apply slot_eqb_eq in E2; subst s'. rewrite E. auto.
Qed.

Lemma slots_small_tset : forall tb s l, slots_small tb -> (length l <= 1)%nat -> slots_small (tset tb s l).
Proof.
  intros tb s l H L n. rewrite !tget_tset. destruct (H n).
  destruct (slot_eqb s (SLead n)), (slot_eqb s (STrail n)); auto.
Qed.

Lemma nodup_id_inj : forall d x y, NoDup (ids d) -> In x d -> In y d -> t_id x = t_id y -> x = y.
Proof.
  induction d as [|t d IH]; simpl; intros x y ND Ix Iy E; [contradiction|].
  inversion ND as [|? ? N1 N2]; subst.
  destruct Ix as [Ix|Ix], Iy as [Iy|Iy]; subst; auto.
  - exfalso; apply N1. rewrite E. apply in_map; auto.
  - exfalso; apply N1. rewrite <- E. apply in_map; auto.
Qed.

Lemma in_set_claimed : forall c v d t', In t' (set_claimed c v d) ->
  exists t, In t d /\ t' = (if t_id t =? c then set_flag v t else t).
Proof.
  intros c v d t' H. unfold set_claimed in H. apply in_map_iff in H. destruct H as [t [E I]]. exists t; auto.
Qed.

Lemma set_claimed_ids : forall c v d, ids (set_claimed c v d) = ids d.
Proof.
  induction d as [|t d IH]; simpl; auto. unfold ids in *. simpl. rewrite IH. f_equal.
  destruct (t_id t =? c); reflexivity.
Qed.

(* what _claim_comment can return when nothing is claimed yet *)
Lemma claim_comment_cases : forall d start bw ig ind r d',
  NoDup (ids d) -> claim_comment None d start bw ig ind = (r, d') ->
  (d' = d /\ (r = Ok None \/ exists e, r = Err e)) \/
  (exists t d2, r = Ok (Some (t_id t)) /\ In t d /\ is_comment t = true /\ t_claimed t = false /\
                Permutation d2 d /\ d' = set_claimed (t_id t) true d2 /\
                match ind with Some b => comment_indented t = b | None => True end).
Proof.
  intros d start bw ig ind r d' ND H. unfold claim_comment in H.
  destruct (walk d start bw) as [w|] eqn:W; [|inversion H; left; split; eauto].
  destruct w as [|first w']; [inversion H; left; auto|].
  destruct (take_ignored (first :: w')) as [ign1 r1] eqn:T1.
  destruct r1 as [|nl r1']; [inversion H; left; auto|].
  destruct (negb (is_nl nl)); [inversion H; left; auto|].
  destruct (take_ignored r1') as [ign2 r2] eqn:T2.
  destruct r2 as [|c rest]; [inversion H; left; auto|].
  destruct (is_comment c) eqn:IC; simpl in H; [|inversion H; left; auto].
  destruct (match ind with Some b => negb (Bool.eqb (comment_indented c) b) | None => false end) eqn:IND;
    [inversion H; left; auto|].
  destruct (t_claimed c) eqn:CL; [destruct ig; inversion H; left; split; eauto|].
  assert (INDOK : match ind with Some b => comment_indented c = b | None => True end).
  { destruct ind as [b0|]; auto. apply negb_false_iff in IND. apply Bool.eqb_prop in IND. exact IND. }
  apply take_ignored_spec in T1. destruct T1 as [T1 P1].
  apply take_ignored_spec in T2. destruct T2 as [T2 P2]. subst r1'.
  unfold walk in W. destruct (split_at start d) as [[a sb]|] eqn:S; [|discriminate].
  destruct sb as [|s b]; [discriminate|]. apply split_at_spec in S. destruct S as [Hd _].
  assert (INw : In c (first :: w')).
  { rewrite T1. apply in_or_app. right. right. apply in_or_app. right. left. reflexivity. }
  assert (INd : In c d).
  { rewrite Hd. destruct bw; injection W as HR.
    - apply in_or_app. left. apply in_rev. rewrite HR. exact INw.
    - apply in_or_app. right. right. rewrite HR. exact INw. }
  destruct (ign1 ++ ign2) as [|i0 irest] eqn:EI.
  - injection H as Hr Hd2; subst r d'. right. exists c, d. repeat split; auto.
  - rewrite <- EI in H. right. destruct bw.
    + inversion W as [HR].
      destruct (claim_bwd a s b ign1 nl ign2 c rest first w' d Hd ND HR T1 P1 P2) as [d2 [Sp [PT SV]]].
      rewrite Sp in H. injection H as Hr Hd2; subst r d'. exists c, d2. repeat split; auto.
    + inversion W; subst b.
      assert (Hd' : d = a ++ s :: ign1 ++ nl :: ign2 ++ c :: rest) by (rewrite Hd, T1; reflexivity).
      destruct (claim_fwd a s ign1 nl ign2 c rest first w' d Hd' ND T1 P1 P2) as [d2 [Sp [PT SV]]].
      simpl in Sp. rewrite Sp in H. injection H as Hr Hd2; subst r d'. exists c, d2. repeat split; auto.
Qed.

Lemma cur_of_nil : forall l, cur_of l = None -> l = [].
Proof. destruct l; simpl; intros; auto; discriminate. Qed.

Lemma count_z_single : forall c x, count_z c [x] = if x =? c then 1%nat else 0%nat.
Proof. intros; simpl. destruct (x =? c); auto. Qed.

(* claiming into an empty slot keeps the invariant *)
Lemma claim_step_inv : forall d tb s start bw ig ind r d',
  Inv (d, tb) -> (match s with SRep _ => False | _ => True end) ->
  claim_comment (cur_of (tget tb s)) d start bw ig ind = (r, d') ->
  Inv (d', match r with Ok x => tset tb s (opt_list x) | Err _ => tb end).
Proof.
  intros d tb s start bw ig ind r d' [ND [OI SS]] Hs H. simpl in ND, OI, SS.
  destruct (cur_of (tget tb s)) as [c0|] eqn:CUR.
  - (* already has one: returned unchanged *)
    simpl in H. inversion H; subst. simpl.
    assert (E : tget tb s = [c0]).
    { destruct s as [n|n|n]; try contradiction; destruct (SS n) as [L1 L2];
        destruct (tget tb _) as [|x [|y l]]; simpl in *; try discriminate; try lia; inversion CUR; auto. }
    unfold Inv; simpl; split; [exact ND|]; split.
    + intros t I C. pose proof (owners_tset (t_id t) tb s [c0]) as O. rewrite E in O.
      apply Nat.add_cancel_r in O. rewrite O. exact (OI t I C).
    + apply slots_small_tset; auto.
  - apply cur_of_nil in CUR.
    destruct (claim_comment_cases d start bw ig ind r d' ND H) as [[E R]|[t [d2 [R [I [C [U [P [E _]]]]]]]]].
    + subst d'. destruct R as [R|[e R]]; subst r; simpl.
      * unfold Inv; simpl; split; [exact ND|]; split.
        -- intros t I C. pose proof (owners_tset (t_id t) tb s []) as O. rewrite CUR in O. simpl in O.
           destruct (OI t I C) as [A B]. split; [lia|]. rewrite B. split; intros; lia.
        -- apply slots_small_tset; auto.
      * unfold Inv; simpl; split; [exact ND|]; split; auto.
    + subst r d'. simpl.
      assert (ND2 : NoDup (ids d2)).
      { unfold ids. eapply Permutation_NoDup; [apply Permutation_sym, Permutation_map; exact P | exact ND]. }
      unfold Inv; simpl; split; [rewrite set_claimed_ids; exact ND2|]; split.
      * intros t' I' C'. apply in_set_claimed in I'. destruct I' as [t0 [I0 E0]].
        assert (I0d : In t0 d) by (eapply Permutation_in; eauto).
        pose proof (owners_tset (t_id t') tb s [t_id t]) as O. rewrite CUR in O. rewrite count_z_single in O.
        simpl in O.
        destruct (t_id t0 =? t_id t) eqn:EQ.
        -- apply Z.eqb_eq in EQ. assert (t0 = t) by (apply (nodup_id_inj d); auto). subst t0. subst t'.
           simpl in *. rewrite Z.eqb_refl in O.
           destruct (OI t I C) as [A B]. rewrite U in B.
           assert (owners (t_id t) tb = 0)%nat.
           { destruct B as [_ B2]. destruct (Nat.eq_dec (owners (t_id t) tb) 1) as [K|K];
               [specialize (B2 K); discriminate | lia]. }
           split; [lia|]. split; intros; auto; lia.
        -- subst t'. assert (NE : (t_id t =? t_id t0) = false).
           { rewrite Z.eqb_sym. exact EQ. }
           rewrite NE in O. destruct (OI t0 I0d C') as [A B]. split; [lia|]. rewrite B. split; intros; lia.
      * apply slots_small_tset; auto.
Qed.

Lemma unclaim_step_inv : forall d tb s r now d',
  Inv (d, tb) -> (match s with SRep _ => False | _ => True end) ->
  unclaim_comment (cur_of (tget tb s)) d = (r, now, d') ->
  Inv (d', tset tb s (opt_list now)).
Proof.
  intros d tb s r now d' [ND [OI SS]] Hs H. simpl in ND, OI, SS. unfold unclaim_comment in H.
  destruct (cur_of (tget tb s)) as [c0|] eqn:CUR; inversion H; subst; simpl.
  - assert (E : tget tb s = [c0]).
    { destruct s as [n|n|n]; try contradiction; destruct (SS n) as [L1 L2];
        destruct (tget tb _) as [|x [|y l]]; simpl in *; try discriminate; try lia; inversion CUR; auto. }
    unfold Inv; simpl; split; [rewrite set_claimed_ids; exact ND|]; split.
    + intros t' I' C'. apply in_set_claimed in I'. destruct I' as [t0 [I0 E0]].
      pose proof (owners_tset (t_id t') tb s []) as O. rewrite E in O. rewrite count_z_single in O. simpl in O.
      destruct (t_id t0 =? c0) eqn:EQ.
      * subst t'. simpl in *. apply Z.eqb_eq in EQ. subst c0. rewrite Z.eqb_refl in O.
        destruct (OI t0 I0 C') as [A B]. split; [lia|]. split; intros X; [discriminate | lia].
      * subst t'. assert (NE : (c0 =? t_id t0) = false) by (rewrite Z.eqb_sym; exact EQ).
        rewrite NE in O. destruct (OI t0 I0 C') as [A B]. split; [lia|]. rewrite B. split; intros; lia.
    + apply slots_small_tset; auto.
  - apply cur_of_nil in CUR. unfold Inv; simpl; split; [exact ND|]; split.
    + intros t I C. pose proof (owners_tset (t_id t) tb s []) as O. rewrite CUR in O. simpl in O.
      destruct (OI t I C) as [A B]. split; [lia|]. rewrite B. split; intros; lia.
    + apply slots_small_tset; auto.
Qed.

Theorem sstep_inv : forall st o, Inv st -> Inv (sstep st o).
Proof.
  intros [d tb] o H. destruct o as [n start ig ind|n start ig ind|n|n]; simpl.
  - destruct (claim_comment (cur_of (tget tb (SLead n))) d start true ig ind) as [r d'] eqn:E.
    pose proof (claim_step_inv d tb (SLead n) start true ig ind r d' H I E) as X. destruct r; exact X.
  - destruct (claim_comment (cur_of (tget tb (STrail n))) d start false ig ind) as [r d'] eqn:E.
    pose proof (claim_step_inv d tb (STrail n) start false ig ind r d' H I E) as X. destruct r; exact X.
  - destruct (unclaim_comment (cur_of (tget tb (SLead n))) d) as [[r now] d'] eqn:E.
    eapply unclaim_step_inv; eauto; exact I.
  - destruct (unclaim_comment (cur_of (tget tb (STrail n))) d) as [[r now] d'] eqn:E.
    eapply unclaim_step_inv; eauto; exact I.
Qed.

Theorem shistory_inv : forall ops st, Inv st -> Inv (fold_left sstep ops st).
Proof. induction ops as [|o ops IH]; simpl; intros st H; auto. apply IH, sstep_inv, H. Qed.

(* C04 lifted to histories of surrounding-comment calls *)
Theorem sstep_same_vis : forall st o, NoDup (ids (fst st)) -> same_vis (fst (sstep st o)) (fst st).
Proof.
  intros [d tb] o ND. simpl in ND. destruct o as [n start ig ind|n start ig ind|n|n]; simpl.
  - destruct (claim_comment (cur_of (tget tb (SLead n))) d start true ig ind) as [r d'] eqn:E.
    apply claim_comment_same_vis in E; auto. destruct r; exact E.
  - destruct (claim_comment (cur_of (tget tb (STrail n))) d start false ig ind) as [r d'] eqn:E.
    apply claim_comment_same_vis in E; auto. destruct r; exact E.
  - destruct (unclaim_comment (cur_of (tget tb (SLead n))) d) as [[r now] d'] eqn:E.
    apply unclaim_comment_same_vis in E. exact E.
  - destruct (unclaim_comment (cur_of (tget tb (STrail n))) d) as [[r now] d'] eqn:E.
    apply unclaim_comment_same_vis in E. exact E.
Qed.

Theorem shistory_same_vis : forall ops st, NoDup (ids (fst st)) -> same_vis (fst (fold_left sstep ops st)) (fst st).
Proof.
  induction ops as [|o ops IH]; simpl; intros st ND; [apply same_vis_refl|].
  pose proof (sstep_same_vis st o ND) as V.
  eapply same_vis_trans; [apply IH; eapply same_vis_nodup; eauto | exact V].
Qed.

(* same tokens, same visible tokens in the same order  ==>  same printed text *)
Lemma same_vis_txt : forall d' d, same_vis d' d ->
  (forall t, In t d -> is_ph t = true -> t_text t = []) -> txt d' = txt d.
Proof.
  intros d' d [P F] E.
  assert (E' : forall t, In t d' -> is_ph t = true -> t_text t = []).
  { intros t' I' K'. assert (X : In (tkey t') (map tkey d)) by (eapply Permutation_in; [exact P | apply in_map; auto]).
    apply in_map_iff in X. destruct X as [t [K I]]. unfold tkey in K. injection K as K1 K2 K3.
    rewrite <- K3. apply E; auto. unfold is_ph in *. rewrite K2. exact K'. }
  rewrite (txt_of_vis d' E'), (txt_of_vis d E), F. reflexivity.
Qed.

(* a concrete store: `; c` directly below a directive whose last token is followed by a placeholder *)
Definition ex_doc : doc :=
  [mktok 1 KPlaceholder [] false; mktok 2 KOther [111] false; mktok 3 KEol [] false; mktok 4 KPlaceholder [] false;
   mktok 5 KNewline [10] false; mktok 6 KBlockComment [59; 32; 99] false; mktok 7 KNewline [10] false;
   mktok 8 KOther [120] false].

Lemma ex_doc_nodup : NoDup (ids ex_doc).
Proof. unfold ids, ex_doc; simpl. repeat constructor; simpl; intuition lia. Qed.

Lemma ex_inv : Inv (ex_doc, []).
Proof.
  split; [exact ex_doc_nodup|]. split.
  - intros t I C. simpl. split; [lia|]. simpl in I.
    repeat (destruct I as [I|I]; [subst t; simpl in *; try discriminate; split; intros; discriminate|]). contradiction.
  - intros n; simpl; lia.
Qed.

(* C04 over all six non-edit calls (hence over auto_claim_comments, which is a sequence of them) *)
Theorem cstep_same_vis : forall st o, NoDup (ids (fst st)) -> same_vis (fst (cstep st o)) (fst st).
Proof.
  intros [d tb] o ND. destruct o as [o|r ph items mf ml flt|r items flt].
  - exact (sstep_same_vis (d, tb) o ND).
  - simpl. destruct (claimer_claim d ph items mf ml flt) as [res d'] eqn:E.
    apply claimer_claim_same_vis in E. destruct res as [[x y]|e]; exact E.
  - simpl. destruct (unclaim_inter d items flt) as [res d'] eqn:E.
    apply unclaim_inter_same_vis in E. destruct res as [[x y]|e]; exact E.
Qed.

Theorem chistory_same_vis : forall ops st, NoDup (ids (fst st)) -> same_vis (fst (fold_left cstep ops st)) (fst st).
Proof.
  induction ops as [|o ops IH]; simpl; intros st ND; [apply same_vis_refl|].
  pose proof (cstep_same_vis st o ND) as V.
  eapply same_vis_trans; [apply IH; eapply same_vis_nodup; eauto | exact V].
Qed.
