(* Proofs about Comments.v: claiming / unclaiming / shifting only permutes Placeholder tokens (C04) and keeps
   the ownership invariant (C14). *)
From AB Require Import Prelude Comments.
From Coq Require Import Permutation.

Definition ids (d : doc) : list Z := map t_id d.

(* d' has the same tokens as d, and the tokens that are not placeholders are the same ones in the same order
   with the same text (only the claimed flag, which is not part of tkey, may differ) *)
Definition same_vis (d' d : doc) : Prop :=
  Permutation (map tkey d') (map tkey d) /\ map tkey (filter vis d') = map tkey (filter vis d).

Lemma same_vis_refl : forall d, same_vis d d.
Proof. intros; split; auto. Qed.

Lemma same_vis_trans : forall a b c, same_vis a b -> same_vis b c -> same_vis a c.
Proof. intros a b c [P1 F1] [P2 F2]; split; [eapply Permutation_trans; eauto | congruence]. Qed.

Lemma set_claimed_tkey : forall c v d, map tkey (set_claimed c v d) = map tkey d.
Proof.
  induction d as [|t d IH]; simpl; auto. rewrite IH. f_equal.
  destruct (t_id t =? c); reflexivity.
Qed.

Lemma set_claimed_filter : forall c v d, filter vis (set_claimed c v d) = set_claimed c v (filter vis d).
Proof.
  induction d as [|t d IH]; simpl; auto.
  assert (E : vis (if t_id t =? c then set_flag v t else t) = vis t) by (destruct (t_id t =? c); reflexivity).
  rewrite E. destruct (vis t); simpl; rewrite IH; reflexivity.
Qed.

Lemma same_vis_set_claimed : forall c v d, same_vis (set_claimed c v d) d.
Proof.
  intros; split.
  - rewrite set_claimed_tkey; auto.
  - rewrite set_claimed_filter, set_claimed_tkey; auto.
Qed.

Lemma same_vis_ctx : forall a b new m,
  Permutation new m -> filter vis new = filter vis m -> same_vis (a ++ new ++ b) (a ++ m ++ b).
Proof.
  intros a b new m P F; split.
  - apply Permutation_map. apply Permutation_app_head. apply Permutation_app_tail. exact P.
  - rewrite !filter_app, F. reflexivity.
Qed.

Lemma txt_of_vis : forall d, (forall t, In t d -> is_ph t = true -> t_text t = []) ->
  txt d = concat (map (fun k => snd k) (map tkey (filter vis d))).
Proof.
  induction d as [|t d IH]; simpl; intros H; auto.
  unfold txt in *. simpl. unfold vis at 1. destruct (is_ph t) eqn:E; simpl.
  - rewrite (H t (or_introl eq_refl) E). simpl. apply IH. intros t' I' E'; apply H; [right; exact I' | exact E'].
  - f_equal. apply IH. intros t' I' E'; apply H; [right; exact I' | exact E'].
Qed.

(* ---- positions ---------------------------------------------------------------------------- *)
Lemma split_at_spec : forall i d a b, split_at i d = Some (a, b) ->
  d = a ++ b /\ exists x r, b = x :: r /\ t_id x = i.
Proof.
  induction d as [|t d IH]; simpl; intros a b H; [discriminate|].
  destruct (t_id t =? i) eqn:E.
  - inversion H; subst. split; auto. exists t, d. split; auto. apply Z.eqb_eq; auto.
  - destruct (split_at i d) as [[a1 b1]|]; [|discriminate]. inversion H; subst.
    destruct (IH _ _ eq_refl) as [H1 H2]. split; auto. simpl; f_equal; auto.
Qed.

Lemma split_at_unique : forall a x b, ~ In (t_id x) (ids a) -> split_at (t_id x) (a ++ x :: b) = Some (a, x :: b).
Proof.
  induction a as [|t a IH]; simpl; intros x b H.
  - rewrite Z.eqb_refl; auto.
  - destruct (t_id t =? t_id x) eqn:E.
    + apply Z.eqb_eq in E. exfalso; apply H; left; auto.
    + rewrite IH; auto.
Qed.

Lemma nodup_mid : forall a x b, NoDup (ids (a ++ x :: b)) -> ~ In (t_id x) (ids a).
Proof.
  intros a x b H. unfold ids in *. rewrite map_app in H. simpl in H.
  apply NoDup_remove_2 in H. intro; apply H; apply in_or_app; auto.
Qed.

Lemma nodup_tail : forall a b, NoDup (ids (a ++ b)) -> NoDup (ids b).
Proof.
  induction a as [|t a IH]; simpl; intros b H; auto. inversion H; subst; auto.
Qed.

Lemma splice_range : forall a m2 y b x m1 new,
  NoDup (ids (a ++ (x :: m1) ++ b)) -> x :: m1 = m2 ++ [y] ->
  splice (a ++ (x :: m1) ++ b) new (t_id x) (t_id y) = Some (a ++ new ++ b).
Proof.
  intros a m2 y b x m1 new ND E. unfold splice. simpl.
  rewrite split_at_unique by (eapply nodup_mid; simpl in ND; exact ND).
  apply nodup_tail in ND.
  change (x :: m1 ++ b) with ((x :: m1) ++ b). rewrite E in *. rewrite <- app_assoc in *. simpl in *.
  rewrite split_at_unique by (eapply nodup_mid; exact ND). reflexivity.
Qed.

Lemma take_ignored_spec : forall w i r, take_ignored w = (i, r) -> w = i ++ r /\ forallb is_ph i = true.
Proof.
  induction w as [|t w IH]; simpl; intros i r H.
  - inversion H; auto.
  - destruct (is_ph t) eqn:E.
    + destruct (take_ignored w) as [i1 x]. inversion H; subst. destruct (IH _ _ eq_refl) as [H1 H2].
      split; simpl; [f_equal; auto | rewrite E, H2; auto].
    + inversion H; subst; auto.
Qed.

Lemma ph_filter_vis : forall l, forallb is_ph l = true -> filter vis l = [].
Proof.
  induction l as [|t l IH]; simpl; intros H; auto. apply andb_prop in H. destruct H as [H1 H2].
  unfold vis at 1. rewrite H1. simpl. auto.
Qed.

Lemma filter_rev' : forall (f : tok -> bool) l, filter f (rev l) = rev (filter f l).
Proof.
  induction l as [|t l IH]; simpl; auto. rewrite filter_app, IH. simpl.
  destruct (f t); simpl; auto. rewrite app_nil_r; auto.
Qed.

Lemma ph_filter_vis_rev : forall l, forallb is_ph l = true -> filter vis (rev l) = [].
Proof. intros. rewrite filter_rev', ph_filter_vis; auto. Qed.

(* ---- _claim_comment ----------------------------------------------------------------------- *)
Lemma claim_fwd : forall a s ign1 nl ign2 c rest first w' (d : doc),
  d = a ++ s :: ign1 ++ nl :: ign2 ++ c :: rest ->
  NoDup (ids d) ->
  first :: w' = ign1 ++ nl :: ign2 ++ c :: rest ->
  forallb is_ph ign1 = true -> forallb is_ph ign2 = true ->
  exists d2, splice d ([nl; c] ++ ign1 ++ ign2) (t_id first) (t_id c) = Some d2 /\ same_vis d2 d.
Proof.
  intros a s ign1 nl ign2 c rest first w' d Hd ND HW P1 P2.
  assert (E : d = (a ++ [s]) ++ (ign1 ++ nl :: ign2 ++ [c]) ++ rest).
  { subst d. rewrite <- ?app_assoc. simpl. rewrite <- ?app_assoc. simpl. rewrite <- ?app_assoc. reflexivity. }
  assert (HM : exists m1, ign1 ++ nl :: ign2 ++ [c] = first :: m1).
  { destruct ign1; simpl in *; inversion HW; eexists; reflexivity. }
  destruct HM as [m1 HM].
  exists ((a ++ [s]) ++ ([nl; c] ++ ign1 ++ ign2) ++ rest). split.
  - rewrite E, HM. apply splice_range with (m2 := ign1 ++ nl :: ign2).
    + rewrite <- HM, <- E. exact ND.
    + rewrite <- HM. rewrite <- app_assoc. reflexivity.
  - rewrite E. apply same_vis_ctx.
    + simpl. apply Permutation_cons_app. rewrite app_assoc. apply Permutation_cons_append.
    + rewrite !filter_app. simpl. rewrite !filter_app. simpl.
      rewrite (ph_filter_vis _ P1), (ph_filter_vis _ P2). simpl.
      destruct (vis nl), (vis c); reflexivity.
Qed.

Lemma claim_bwd : forall a s b ign1 nl ign2 c rest first w' (d : doc),
  d = a ++ s :: b ->
  NoDup (ids d) ->
  rev a = first :: w' ->
  first :: w' = ign1 ++ nl :: ign2 ++ c :: rest ->
  forallb is_ph ign1 = true -> forallb is_ph ign2 = true ->
  exists d2, splice d (rev (ign1 ++ ign2) ++ [c; nl]) (t_id c) (t_id first) = Some d2 /\ same_vis d2 d.
Proof.
  intros a s b ign1 nl ign2 c rest first w' d Hd ND HR HW P1 P2.
  assert (Ea : a = rev rest ++ (c :: rev ign2 ++ nl :: rev ign1)).
  { rewrite <- (rev_involutive a), HR, HW. rewrite rev_app_distr. simpl. rewrite rev_app_distr. simpl.
    rewrite <- ?app_assoc. simpl. rewrite <- ?app_assoc. simpl. rewrite <- ?app_assoc. reflexivity. }
  assert (E : d = rev rest ++ (c :: rev ign2 ++ nl :: rev ign1) ++ (s :: b)).
  { subst d. rewrite Ea. rewrite <- app_assoc. reflexivity. }
  assert (HM : exists m2, c :: rev ign2 ++ nl :: rev ign1 = m2 ++ [first]).
  { destruct ign1 as [|f i1]; simpl in *; inversion HW; subst.
    - exists (c :: rev ign2). reflexivity.
    - exists (c :: rev ign2 ++ nl :: rev i1). simpl. rewrite <- app_assoc. reflexivity. }
  destruct HM as [m2 HM].
  exists (rev rest ++ (rev (ign1 ++ ign2) ++ [c; nl]) ++ (s :: b)). split.
  - rewrite E. apply splice_range with (m2 := m2).
    + rewrite <- E. exact ND.
    + exact HM.
  - rewrite E. apply same_vis_ctx.
    + rewrite rev_app_distr. rewrite <- app_assoc.
      apply Permutation_sym. rewrite app_assoc. apply Permutation_cons_app.
      rewrite <- app_assoc. apply Permutation_app_head. apply Permutation_cons_append.
    + rewrite rev_app_distr. rewrite !filter_app. simpl. rewrite !filter_app. simpl.
      rewrite (ph_filter_vis_rev _ P1), (ph_filter_vis_rev _ P2). simpl.
      destruct (vis nl), (vis c); reflexivity.
Qed.

Theorem claim_comment_same_vis : forall cur d start bw ig ind r d',
  NoDup (ids d) -> claim_comment cur d start bw ig ind = (r, d') -> same_vis d' d.
Proof.
  intros cur d start bw ig ind r d' ND H. unfold claim_comment in H.
  destruct cur; [inversion H; apply same_vis_refl|].
  destruct (walk d start bw) as [w|] eqn:W; [|inversion H; apply same_vis_refl].
  destruct w as [|first w']; [inversion H; apply same_vis_refl|].
  destruct (take_ignored (first :: w')) as [ign1 r1] eqn:T1.
  destruct r1 as [|nl r1']; [inversion H; apply same_vis_refl|].
  destruct (negb (is_nl nl)); [inversion H; apply same_vis_refl|].
  destruct (take_ignored r1') as [ign2 r2] eqn:T2.
  destruct r2 as [|c rest]; [inversion H; apply same_vis_refl|].
  destruct (negb (is_comment c)); [inversion H; apply same_vis_refl|].
  destruct (match ind with Some b => negb (Bool.eqb (comment_indented c) b) | None => false end);
    [inversion H; apply same_vis_refl|].
  destruct (t_claimed c); [destruct ig; inversion H; apply same_vis_refl|].
  destruct (ign1 ++ ign2) as [|i0 irest] eqn:EI; [inversion H; apply same_vis_set_claimed|].
  rewrite <- EI in H.
  apply take_ignored_spec in T1. destruct T1 as [T1 P1].
  apply take_ignored_spec in T2. destruct T2 as [T2 P2]. subst r1'.
  unfold walk in W. destruct (split_at start d) as [[a sb]|] eqn:S; [|discriminate].
  destruct sb as [|s b]; [discriminate|]. apply split_at_spec in S. destruct S as [Hd _].
  destruct bw.
  - inversion W as [HR]. 
    destruct (claim_bwd a s b ign1 nl ign2 c rest first w' d Hd ND HR T1 P1 P2) as [d2 [Sp SV]].
    rewrite Sp in H. inversion H; subst d'.
    eapply same_vis_trans; [apply same_vis_set_claimed | exact SV].
  - inversion W; subst b.
    assert (Hd' : d = a ++ s :: ign1 ++ nl :: ign2 ++ c :: rest) by (rewrite Hd, T1; reflexivity).
    destruct (claim_fwd a s ign1 nl ign2 c rest first w' d Hd' ND T1 P1 P2) as [d2 [Sp SV]].
    rewrite Sp in H. inversion H; subst d'.
    eapply same_vis_trans; [apply same_vis_set_claimed | exact SV].
Qed.

(* ---- _shift_ignored ----------------------------------------------------------------------- *)
Lemma partition_perm : forall (l : list tok), Permutation (filter is_ph l ++ filter vis l) l.
Proof.
  induction l as [|t l IH]; simpl; auto. unfold vis at 1. destruct (is_ph t); simpl.
  - apply perm_skip; auto.
  - apply Permutation_sym, Permutation_cons_app, Permutation_sym; auto.
Qed.

Lemma filter_vis_ph : forall l, filter vis (filter is_ph l) = [].
Proof.
  induction l as [|t l IH]; simpl; auto. destruct (is_ph t) eqn:E; simpl; auto. unfold vis at 1. rewrite E. auto.
Qed.

Lemma filter_vis_vis : forall l, filter vis (filter vis l) = filter vis l.
Proof.
  induction l as [|t l IH]; simpl; auto. destruct (vis t) eqn:E; simpl; auto. rewrite E, IH. auto.
Qed.

Theorem shift_ignored_same_vis : forall d first last bw d',
  shift_ignored d first last bw = Some d' -> same_vis d' d.
Proof.
  intros d first last bw d' H. unfold shift_ignored, iter_range, splice in H.
  destruct (split_at first d) as [[a mb]|] eqn:S1; [|discriminate].
  destruct (split_at last mb) as [[m0 lb]|] eqn:S2; [|inversion H; apply same_vis_refl].
  destruct lb as [|l b']; [inversion H; apply same_vis_refl|].
  destruct (filter is_ph (m0 ++ [l])) as [|p0 pr] eqn:F; [inversion H; apply same_vis_refl|].
  rewrite <- F in H. inversion H; subst d'. clear H.
  apply split_at_spec in S1. destruct S1 as [Hd _].
  apply split_at_spec in S2. destruct S2 as [Hm _].
  assert (E : d = a ++ (m0 ++ [l]) ++ b') by (rewrite Hd, Hm, <- app_assoc; reflexivity).
  rewrite E. apply same_vis_ctx.
  - destruct bw.
    + apply partition_perm.
    + eapply Permutation_trans; [apply Permutation_app_comm | apply partition_perm].
  - destruct bw; rewrite filter_app, filter_vis_ph, filter_vis_vis; simpl; auto. rewrite app_nil_r; auto.
Qed.

Lemma claim_all_same_vis : forall cs d, same_vis (claim_all cs d) d.
Proof.
  unfold claim_all. induction cs as [|c cs IH]; simpl; intros d; [apply same_vis_refl|].
  eapply same_vis_trans; [apply IH | apply same_vis_set_claimed].
Qed.

Lemma unclaim_all_same_vis : forall cs d, same_vis (unclaim_all cs d) d.
Proof.
  unfold unclaim_all. induction cs as [|c cs IH]; simpl; intros d; [apply same_vis_refl|].
  eapply same_vis_trans; [apply IH | apply same_vis_set_claimed].
Qed.

Theorem claimer_claim_same_vis : forall d ph items mf ml flt r d',
  claimer_claim d ph items mf ml flt = (r, d') -> same_vis d' d.
Proof.
  intros d ph items mf ml flt r d' H. unfold claimer_claim in H.
  destruct (walk d ph true) as [wb|]; [|inversion H; apply same_vis_refl].
  destruct (walk d (rep_last ph items) false) as [wa|]; [|inversion H; apply same_vis_refl].
  destruct (find_outer ph wb mf flt) as [cb_rev s1].
  destruct (find_inner d (from_incl d ph) items s1) as [inner s2].
  destruct (find_outer (rep_last ph items) wa ml s2) as [ca s3].
  destruct (cs_nonempty s3); [inversion H; apply same_vis_refl|].
  destruct (match rev cb_rev with c0 :: _ => shift_ignored d c0 ph true | [] => Some d end) as [d1|] eqn:S1;
    [|inversion H; apply same_vis_refl].
  assert (V1 : same_vis d1 d).
  { destruct (rev cb_rev); [inversion S1; apply same_vis_refl | eapply shift_ignored_same_vis; eauto]. }
  destruct (match rev ca, wa with
            | cl :: _, f :: _ => shift_ignored d1 (t_id f) cl false
            | _ :: _, [] => None
            | [], _ => Some d1 end) as [d2|] eqn:S2; [|inversion H; subst; exact V1].
  assert (V2 : same_vis d2 d1).
  { destruct (rev ca); [inversion S2; apply same_vis_refl|].
    destruct wa; [discriminate | eapply shift_ignored_same_vis; eauto]. }
  inversion H; subst d'.
  eapply same_vis_trans; [apply claim_all_same_vis|]. eapply same_vis_trans; eauto.
Qed.

Theorem unclaim_inter_same_vis : forall d items flt r d', unclaim_inter d items flt = (r, d') -> same_vis d' d.
Proof.
  intros d items flt r d' H. unfold unclaim_inter in H.
  destruct (unclaim_scan items flt match flt with None => true | Some _ => false end) as [[kept un] s'].
  destruct (negb match flt with None => true | Some _ => false end && cs_nonempty s');
    inversion H; [apply same_vis_refl | apply unclaim_all_same_vis].
Qed.

Theorem unclaim_comment_same_vis : forall cur d r now d', unclaim_comment cur d = (r, now, d') -> same_vis d' d.
Proof.
  intros cur d r now d' H. unfold unclaim_comment in H.
  destruct cur; inversion H; [apply same_vis_set_claimed | apply same_vis_refl].
Qed.

(* ids are a permutation, hence uniqueness of ids is kept *)
Lemma same_vis_nodup : forall d' d, same_vis d' d -> NoDup (ids d) -> NoDup (ids d').
Proof.
  intros d' d [P _] ND. unfold ids in *.
  assert (E : forall x, map t_id x = map (fun k => fst (fst k)) (map tkey x)).
  { intros x; rewrite map_map; reflexivity. }
  rewrite E in *. eapply Permutation_NoDup; [apply Permutation_sym, Permutation_map; exact P | exact ND].
Qed.
