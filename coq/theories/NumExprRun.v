(* Glue for the C13 correspondence.  The arithmetic carrier is instantiated with the FREE term
   algebra `sym` (so `value` computes the exact evaluation order as a term; the harness evaluates the
   term with Python's decimal).  Scalars handed to an operator arrive as `SExt neg abs_text`
   (neg = `d < 0`, abs_text = `format(abs(d), 'f')` (plain notation), both computed by Python's decimal). *)
From AB Require Import Prelude NumExpr.

Inductive sym :=
| SLit (s : str)                       (* Decimal(text of a NUMBER lexeme) *)
| SExt (neg : bool) (abs_text : str)   (* a Decimal supplied from outside *)
| SNeg (x : sym)
| SAdd (x y : sym) | SSub (x y : sym) | SMul (x y : sym) | SDiv (x y : sym).

Definition str_eqb (a b : str) : bool := list_eqb Z.eqb a b.

Fixpoint sym_eqb (a b : sym) : bool :=
  match a, b with
  | SLit s, SLit t => str_eqb s t
  | SExt n s, SExt m t => Bool.eqb n m && str_eqb s t
  | SNeg x, SNeg y => sym_eqb x y
  | SAdd x1 y1, SAdd x2 y2 | SSub x1 y1, SSub x2 y2
  | SMul x1 y1, SMul x2 y2 | SDiv x1 y1, SDiv x2 y2 => sym_eqb x1 x2 && sym_eqb y1 y2
  | _, _ => false
  end.

(* decimal digits of a non-negative int (40 digits are plenty for the generated operands) *)
Fixpoint digits_aux (fuel : nat) (n : Z) (acc : str) : str :=
  match fuel with
  | O => acc
  | S f => let acc' := (48 + n mod 10) :: acc in
           if n <? 10 then acc' else digits_aux f (n / 10) acc'
  end.
Definition digits (n : Z) : str := digits_aux 40 n [].

Definition s_ltz (x : sym) : bool := match x with SExt n _ => n | _ => false end.
Definition s_abs (x : sym) : sym := match x with SExt _ t => SExt false t | _ => x end.
Definition s_of_int (z : Z) : sym := SExt (z <? 0) (digits (Z.abs z)).
Definition s_text (x : sym) : str := match x with SExt _ t => t | SLit t => t | _ => [] end.

Definition Svalue_add := vadd sym SAdd SSub SMul SDiv SNeg SLit.
Definition Seval_top := eval_top sym SAdd SSub SMul SDiv SNeg SLit.
Definition Sdunder := dunder sym s_abs s_ltz s_of_int s_text.

(* ---------------------------------------------------------------------------------------- *)
Definition tok_eqb (a b : tok) : bool :=
  match a, b with
  | TNum s, TNum t | TWs s, TWs t => str_eqb s t
  | TUn x, TUn y | TAddOp x, TAddOp y | TMulOp x, TMulOp y => Bool.eqb x y
  | TLp, TLp | TRp, TRp => true
  | _, _ => false
  end.

Definition lexeme_eqb (a b : lexeme) : bool :=
  match a, b with
  | LNum s, LNum t => str_eqb s t
  | LSign x, LSign y | LStar x, LStar y => Bool.eqb x y
  | LLp, LLp | LRp, LRp => true
  | _, _ => false
  end.

Fixpoint atom_eqb (a b : atom) : bool :=
  match a, b with
  | Num s, Num t => str_eqb s t
  | Paren g1 e g2, Paren h1 f h2 => str_eqb g1 h1 && add_eqb e f && str_eqb g2 h2
  | Unary x g a', Unary y h b' => Bool.eqb x y && str_eqb g h && atom_eqb a' b'
  | _, _ => false
  end
with mul_eqb (a b : mul) : bool :=
  match a, b with
  | MAtom x, MAtom y => atom_eqb x y
  | MOp m g1 d g2 x, MOp n h1 e h2 y =>
      mul_eqb m n && str_eqb g1 h1 && Bool.eqb d e && str_eqb g2 h2 && atom_eqb x y
  | _, _ => false
  end
with add_eqb (a b : add) : bool :=
  match a, b with
  | AMul x, AMul y => mul_eqb x y
  | AOp e g1 d g2 x, AOp f h1 c h2 y =>
      add_eqb e f && str_eqb g1 h1 && Bool.eqb d c && str_eqb g2 h2 && mul_eqb x y
  | _, _ => false
  end.

(* ---------------------------------------------------------------------------------------- *)
(* parse cases: the lexemes come from the harness' own tokenizer, the tree from the real Parser,
   the value term from the harness' own precedence-climbing parser                            *)
Record pcase := mkpcase { p_text : str; p_lex : list lexeme; p_tree : add; p_val : sym }.

Definition check_pcase (c : pcase) : bool :=
  opt_eqb add_eqb (parse_top (p_lex c)) (Some (se (p_tree c)))      (* same tree as lark built *)
  && list_eqb lexeme_eqb (significant (re (p_tree c))) (p_lex c)     (* its tokens are the text's lexemes *)
  && str_eqb (text (re (p_tree c))) (p_text c)                       (* and print to the text *)
  && sym_eqb (Svalue_add (p_tree c)) (p_val c)                       (* value = usual evaluation order *)
  && opt_eqb sym_eqb (Seval_top (p_lex c)) (Some (p_val c)).

(* an observed NumberExpr: (text before first_token in its store, tree, text after last_token) *)
Definition obs := (str * add * str)%type.
Definition ctx (s : str) : list tok := match s with [] => [] | _ => [TWs s] end.
Definition of_obs (o : obs) : nexpr := let '(a, t, b) := o in NE (ctx a) t (ctx b).
Definition obs_agrees (x : nexpr) (o : obs) : bool :=
  let '(a, t, b) := o in
  add_eqb (body x) t && str_eqb (text (pre x)) a && str_eqb (text (post x)) b.

Inductive sstep :=
| StBin (k : binop) (f : form) (o : operand sym) (aliased : bool)   (* aliased: the operand IS self *)
        (exc : Z) (result self_after : obs) (other_after : option obs) (val : sym)
| StUn (minus : bool) (exc : Z) (result self_after : obs) (val : sym)
| StEdit (i : nat) (t : tok) (exc : Z) (self_after : obs) (val : sym)       (* token i of self edited in place *)
| StSetValue (d : sym) (exc : Z) (self_after : obs) (val : sym).            (* self.value = d *)

Record ccase := mkccase { c_self : obs; c_steps : list sstep }.

Definition check_step (x : nexpr) (s : sstep) : option nexpr :=
  match s with
  | StBin k f o aliased exc r sa oa v =>
    match Sdunder k f x o with
    | Ok oc =>
      if (exc =? 0) && obs_agrees (o_result oc) r && obs_agrees (o_self oc) sa
         && (match o_other oc, oa with
             | Some y, Some w => obs_agrees (if aliased then o_self oc else y) w
             | None, None => true
             | _, _ => false end)
         && sym_eqb (Svalue_add (body (o_result oc))) v
      then Some (o_result oc) else None
    | Err _ => None
    end
  | StUn b exc r sa v =>
    let oc := dunder_unary b x in
    if (exc =? 0) && obs_agrees (o_result oc) r && obs_agrees (o_self oc) sa
       && sym_eqb (Svalue_add (body (o_result oc))) v
    then Some (o_result oc) else None
  | StEdit i t exc sa v =>
    let x' := edit_token x i t in
    if (exc =? 0) && obs_agrees x' sa && sym_eqb (Svalue_add (body x')) v then Some x' else None
  | StSetValue d exc sa v =>
    let x' := set_value sym s_abs s_ltz s_text x d in
    if (exc =? 0) && obs_agrees x' sa && sym_eqb (Svalue_add (body x')) v then Some x' else None
  end.

Fixpoint check_steps (x : nexpr) (l : list sstep) : bool :=
  match l with
  | [] => true
  | s :: r => match check_step x s with Some x' => check_steps x' r | None => false end
  end.

Definition check_ccase (c : ccase) : bool := check_steps (of_obs (c_self c)) (c_steps c).
