(* Executable glue for the store correspondence: an operation language shared with the Python
   harness, a canonical dump of the whole concrete state, and the per-case checker that the
   generated cases files evaluate with vm_compute. Token ids arrive as Z >= 1. *)
From AB Require Import Store.

Inductive sop :=
| OEmpty                                            (* TokenStore() *)
| OFromTokens (ts : list Z)                         (* TokenStore.from_tokens *)
| OInsAfter (ref : option Z) (ts : list Z)
| OInsBefore (ref : option Z) (ts : list Z)
| OSplice (ts : list Z) (ref del_end : option Z)
| ORemove (a : Z) (b : option Z)
| OReplace (t r : Z)
| OSetText (t : Z) (x : str).

Definition P (z : Z) : positive := Z.to_pos z.
Definition PO (z : option Z) : option positive := option_map P z.

(* full canonical state after a step, as the harness dumps it from the implementation *)
Record dump := mkdump {
  d_res : Z;                                        (* 0 = returned, else exception code *)
  d_blocks : list (Z * list Z * (Z * Z) * Z);       (* (index, token ids, size, last_newline_index) *)
  d_handles : list (option (Z * Z));                (* per token 1..n: (position of its block in _blocks or -1, index) *)
  d_sizes : list (Z * Z);                           (* per token: cached size *)
  d_len : Z;
  d_obs : list (list Z);                            (* per token: observers, encoded *)
  d_iters : list (Z * Z * list Z)                   (* probes of iter(a, b): (a, b, 0 :: ids | [1; exception code]) *)
}.

Record scase := mkscase { c_lf : Z; c_texts : list str; c_steps : list (sop * dump) }.

Definition exn_code (e : exn) : Z :=
  match e with
  | ValueError => 1 | IndexError => 2 | KeyError => 3 | AssertionError => 4 | TypeError => 5
  | NotImplementedErr => 6 | OutOfFuel => 7 | ModelStuck => 8
  end.

Fixpoint index_of_pos (b : positive) (l : list positive) (i : Z) : Z :=
  match l with [] => -1 | x :: r => if Pos.eqb x b then i else index_of_pos b r (i + 1) end.

Definition enc_res_optpos (r : res (option positive)) : list Z :=
  match r with
  | Ok None => [0; -1]
  | Ok (Some p) => [0; Zpos p]
  | Err e => [1; exn_code e]
  end.

Definition obs_of (LF : Z) (s : store) (t : positive) : list Z :=
  (match get_index s t with Ok i => [0; i] | Err e => [1; exn_code e] end)
  ++ (match get_position s t with Ok p => [0; line p; col p] | Err e => [1; exn_code e] end)
  ++ enc_res_optpos (get_prev s t) ++ enc_res_optpos (get_next s t).

Definition dump_of (LF : Z) (n : nat) (s : store) (r : res unit) : dump :=
  let ids := map (fun i => Pos.of_nat i) (seq 1 n) in
  mkdump (match r with Ok _ => 0 | Err e => exn_code e end)
         (map (fun b => let x := bget (s_heap s) b in
                        (b_index x, map Zpos (b_toks x), (line (b_size x), col (b_size x)), b_lnl x))
              (s_blocks s))
         (map (fun t => match t_handle (tget (s_toks s) t) with
                        | None => None
                        | Some (sid, hb, hi) =>
                          (* a handle into another store: its block is not one of this store's blocks *)
                          Some (if Pos.eqb sid (s_id s) then index_of_pos hb (s_blocks s) 0 else -1, hi) end) ids)
         (map (fun t => let z := t_size (tget (s_toks s) t) in (line z, col z)) ids)
         (s_len s)
         (map (obs_of LF s) ids
          ++ [enc_res_optpos (get_first s); enc_res_optpos (get_last s); map Zpos (all_tokens s)])
         [].

Definition zz_eqb (a b : Z * Z) := (fst a =? fst b) && (snd a =? snd b).
Definition blk_eqb (a b : Z * list Z * (Z * Z) * Z) : bool :=
  let '(ai, at_, asz, al) := a in
  let '(bi, bt, bsz, bl) := b in
  (ai =? bi) && list_eqb Z.eqb at_ bt && zz_eqb asz bsz && (al =? bl).
Definition dump_eqb (a b : dump) : bool :=
  (d_res a =? d_res b) && list_eqb blk_eqb (d_blocks a) (d_blocks b)
  && list_eqb (opt_eqb zz_eqb) (d_handles a) (d_handles b)
  && list_eqb zz_eqb (d_sizes a) (d_sizes b) && (d_len a =? d_len b)
  && list_eqb (list_eqb Z.eqb) (d_obs a) (d_obs b).

(* the sub-range probes of a dumped step, answered by the model on the state after the step *)
Definition enc_iter (r : res (list positive)) : list Z :=
  match r with Ok l => 0 :: map Zpos l | Err e => [1; exn_code e] end.
Definition iters_ok (s : store) (probes : list (Z * Z * list Z)) : bool :=
  forallb (fun p => let '(a, b, r) := p in list_eqb Z.eqb (enc_iter (iter_range s (P a) (P b))) r) probes.

Definition step (LF : Z) (s : store) (o : sop) : store * res unit :=
  match o with
  | OEmpty => (empty_store (Pos.succ (s_id s)) (s_toks s), Ok tt)      (* a new store object *)
  | OFromTokens ts =>
    (* a failed from_tokens leaves the previous store in place on the Python side *)
    match from_tokens LF (Pos.succ (s_id s)) (s_toks s) (map P ts) with
    | (s', Ok u) => (s', Ok u)
    | (s', Err e) => (s, Err e)
    end
  | OInsAfter r ts => insert_after LF s (PO r) (map P ts)
  | OInsBefore r ts => insert_before LF s (PO r) (map P ts)
  | OSplice ts r d => splice LF s (map P ts) (PO r) (PO d)
  | ORemove a b => remove LF s (P a) (PO b)
  | OReplace t r => replace LF s (P t) (P r)
  | OSetText t x => set_text s (P t) x
  end.

Fixpoint init_texts (s : store) (i : positive) (xs : list str) : store :=
  match xs with
  | [] => s
  | x :: r => init_texts (fst (set_text s i x)) (Pos.succ i) r
  end.

Fixpoint run_steps (LF : Z) (n : nat) (s : store) (steps : list (sop * dump)) : bool :=
  match steps with
  | [] => true
  | (o, d) :: r =>
    let '(s', rr) := step LF s o in
    dump_eqb (dump_of LF n s' rr) d && iters_ok s' (d_iters d) && run_steps LF n s' r
  end.

Definition check_case (c : scase) : bool :=
  let s0 := init_texts (empty_store 1%positive (PositiveMap.empty tokrec)) 1%positive (c_texts c) in
  run_steps (c_lf c) (length (c_texts c)) s0 (c_steps c).

(* for diagnosis: the model's dumps *)
Fixpoint model_dumps (LF : Z) (n : nat) (s : store) (ops : list sop) : list dump :=
  match ops with
  | [] => []
  | o :: r => let '(s', rr) := step LF s o in dump_of LF n s' rr :: model_dumps LF n s' r
  end.
Definition model_trace (c : scase) : list dump :=
  let s0 := init_texts (empty_store 1%positive (PositiveMap.empty tokrec)) 1%positive (c_texts c) in
  model_dumps (c_lf c) (length (c_texts c)) s0 (map fst (c_steps c)).
