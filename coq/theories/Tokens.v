(* L3 Tokens: the value codecs (`_format_value` / `_parse_value`) of every value-carrying token class of
   autobean_refactor/models, the Python string primitives they use, the token objects' assignment
   semantics (base_token_models.py, block_comment.py), and hand-written recognisers for the terminals of
   beancount.lark (length matched at position 0, as `re.match` of lark's compiled pattern would).

   Model only; proofs are in TokensProofs.v.  Strings are code-point lists (Prelude.str).

   Two places carry a `mode` so that both the tree as found and the repaired tree are modelled:
     split_mode  SplitPy = block_comment._splitlines built on str.splitlines (the code as found, D8)
                 SplitNl = split on '\n' only (fixes/block-comment-splitlines.patch)
     date_mode   DateStrftime = value.strftime('%Y-%m-%d') with glibc (no zero padding of %Y, D9)
                 DatePadded   = explicit zero padded formatting (fixes/date-year-padding.patch)
   The harness finds out which one the tree has (by behaviour on probe inputs) and passes it with every case. *)
From AB Require Import Prelude.

(* ------------------------------------------------------------------------------------------------ *)
(* character classes                                                                                *)
Definition QUOTE : Z := 34.      (* double quote *)
Definition BSLASH : Z := 92.     (* '\\' *)
Definition SEMI : Z := 59.       (* ';' *)
Definition SPACE : Z := 32.
Definition TAB : Z := 9.
Definition DOT : Z := 46.
Definition COMMA : Z := 44.
Definition DASH : Z := 45.
Definition SLASH : Z := 47.
Definition COLON : Z := 58.
Definition HASH : Z := 35.
Definition CARET : Z := 94.
Definition USCORE : Z := 95.

Definition is_digit (c : Z) : bool := (48 <=? c) && (c <=? 57).
Definition is_upper (c : Z) : bool := (65 <=? c) && (c <=? 90).
Definition is_lower (c : Z) : bool := (97 <=? c) && (c <=? 122).
Definition is_cr (c : Z) : bool := c =? CR.
Definition is_crnl (c : Z) : bool := (c =? CR) || (c =? NL).        (* the set of rstrip('\r\n') *)
Definition not_crnl (c : Z) : bool := negb (is_crnl c).             (* [^\r\n] *)
Definition is_ws (c : Z) : bool := (c =? SPACE) || (c =? TAB).      (* [ \t] *)
Definition is_space (c : Z) : bool := c =? SPACE.
Definition is_datesep (c : Z) : bool := (c =? DASH) || (c =? SLASH). (* [-\/] *)
(* [A-Za-z0-9-_\/.]  (TAG, LINK) *)
Definition is_tagchar (c : Z) : bool :=
  is_upper c || is_lower c || is_digit c || (c =? DASH) || (c =? USCORE) || (c =? SLASH) || (c =? DOT).
(* [a-zA-Z0-9-_]  (META_KEY) *)
Definition is_keychar (c : Z) : bool :=
  is_lower c || is_upper c || is_digit c || (c =? DASH) || (c =? USCORE).

(* ------------------------------------------------------------------------------------------------ *)
(* Python string primitives                                                                         *)
Definition is_nil {A} (l : list A) : bool := match l with [] => true | _ => false end.

(* the rest after the longest prefix whose characters satisfy p  (s.lstrip(chars), regex  [class]*  greedy) *)
Fixpoint skip (p : Z -> bool) (s : str) : str :=
  match s with [] => [] | c :: r => if p c then skip p r else s end.
Fixpoint take (p : Z -> bool) (s : str) : str :=
  match s with [] => [] | c :: r => if p c then c :: take p r else [] end.

(* s.rstrip(chars) *)
Fixpoint rstrip (p : Z -> bool) (s : str) : str :=
  match s with
  | [] => []
  | c :: r => match rstrip p r with
              | [] => if p c then [] else [c]
              | t => c :: t
              end
  end.

(* s.removeprefix(one character) *)
Definition removeprefix1 (x : Z) (s : str) : str :=
  match s with c :: r => if c =? x then r else s | [] => [] end.
Definition starts_with1 (x : Z) (s : str) : bool :=
  match s with c :: _ => c =? x | [] => false end.

(* s.split(sep, 1): (before, Some after) when sep occurs, (s, None) otherwise *)
Fixpoint split1 (sep : Z) (s : str) : str * option str :=
  match s with
  | [] => ([], None)
  | c :: r => if c =? sep then ([], Some r)
              else let (a, b) := split1 sep r in (c :: a, b)
  end.

(* s[1:-1] *)
Definition slice_1_m1 (s : str) : str := removelast (tl s).
(* s[1:], s[:-1] *)
Definition slice_1 (s : str) : str := tl s.
Definition slice_m1 (s : str) : str := removelast s.

(* str.splitlines(keepends=True): CPython's line boundaries for str are
   \n \r \r\n \v \f \x1c \x1d \x1e \x85 U+2028 U+2029 *)
Definition is_linebreak (c : Z) : bool :=
  (c =? 10) || (c =? 11) || (c =? 12) || (c =? 13) || (c =? 28) || (c =? 29) || (c =? 30)
  || (c =? 133) || (c =? 8232) || (c =? 8233).
Fixpoint py_splitlines_aux (s : str) (cur : str) : list str :=      (* cur: current line, reversed *)
  match s with
  | [] => match cur with [] => [] | _ => [rev cur] end
  | c :: r =>
    if c =? CR then
      match r with
      | d :: r' => if d =? NL then rev (d :: c :: cur) :: py_splitlines_aux r' []
                   else rev (c :: cur) :: py_splitlines_aux r []
      | [] => [rev (c :: cur)]
      end
    else if is_linebreak c then rev (c :: cur) :: py_splitlines_aux r []
    else py_splitlines_aux r (c :: cur)
  end.
Definition py_splitlines_keep (s : str) : list str := py_splitlines_aux s [].

Definition ends_with_nl (s : str) : bool := match rev s with c :: _ => c =? NL | [] => false end.

Inductive split_mode := SplitPy | SplitNl.

(* block_comment._splitlines as found:
     lines = s.splitlines(keepends=True)
     if not lines or lines[-1].endswith('\n'): lines.append('')        *)
Definition splitlines_py (s : str) : list str :=
  let lines := py_splitlines_keep s in
  if is_nil lines || ends_with_nl (last lines []) then lines ++ [[]] else lines.

(* block_comment._splitlines repaired:
     lines = s.split('\n'); return [line + '\n' for line in lines[:-1]] + lines[-1:]
   i.e. the pieces of s cut after every '\n' (always at least one piece, the last one without '\n') *)
Fixpoint splitlines_nl (s : str) : list str :=
  match s with
  | [] => [[]]
  | c :: r => if c =? NL then [c] :: splitlines_nl r
              else match splitlines_nl r with
                   | l :: ls => (c :: l) :: ls
                   | [] => [[c]]
                   end
  end.

Definition block_splitlines (m : split_mode) (s : str) : list str :=
  match m with SplitPy => splitlines_py s | SplitNl => splitlines_nl s end.

(* ------------------------------------------------------------------------------------------------ *)
(* EscapedString                                                                                    *)
(* __ESCAPE_MAP; escape(s) = re.sub(<class of backslash and double quote>, lambda c: '\\' + MAP[c], s);  aggressive: all seven keys *)
Definition escape_char (aggressive : bool) (c : Z) : str :=
  if c =? QUOTE then [BSLASH; QUOTE]
  else if c =? BSLASH then [BSLASH; BSLASH]
  else if aggressive then
    if c =? 10 then [BSLASH; 110]          (* \n -> n *)
    else if c =? 9 then [BSLASH; 116]      (* \t -> t *)
    else if c =? 13 then [BSLASH; 114]     (* \r -> r *)
    else if c =? 12 then [BSLASH; 102]     (* \f -> f *)
    else if c =? 8 then [BSLASH; 98]       (* \b -> b *)
    else [c]
  else [c].
Fixpoint escape (aggressive : bool) (s : str) : str :=
  match s with [] => [] | c :: r => escape_char aggressive c ++ escape aggressive r end.

(* __UNESCAPE_MAP.get(c, c) *)
Definition unescape_char (c : Z) : Z :=
  if c =? 110 then 10 else if c =? 116 then 9 else if c =? 114 then 13
  else if c =? 102 then 12 else if c =? 98 then 8 else c.

(* unescape(s) = re.sub(r'\\(.)', ...): `.` is compiled without DOTALL, so a backslash followed by '\n'
   (or by nothing) is not a match and is copied. `pending` = the previous character was an unconsumed
   backslash that starts a candidate match. *)
Fixpoint unescape_aux (pending : bool) (s : str) : str :=
  match s with
  | [] => if pending then [BSLASH] else []
  | c :: r =>
    if pending then
      if c =? NL then BSLASH :: NL :: unescape_aux false r
      else unescape_char c :: unescape_aux false r
    else if c =? BSLASH then unescape_aux true r
    else c :: unescape_aux false r
  end.
Definition unescape (s : str) : str := unescape_aux false s.

Definition string_parse (raw : str) : res str := Ok (unescape (slice_1_m1 raw)).
Definition string_format (v : str) : str := QUOTE :: escape false v ++ [QUOTE].

(* ------------------------------------------------------------------------------------------------ *)
(* InlineComment                                                                                    *)
Definition inline_parse (raw : str) : res str := Ok (skip is_space (removeprefix1 SEMI raw)).
Definition inline_format (v : str) : str := if is_nil v then [SEMI] else SEMI :: SPACE :: v.

(* ------------------------------------------------------------------------------------------------ *)
(* BlockComment                                                                                     *)
(* _parse_value:
     indents, values = zip( *(tuple(line.split(';', maxsplit=1)) for line in _splitlines(raw_text)))
        -- zip stops at the shortest tuple: one line without ';' leaves a single tuple and the unpacking
           raises ValueError
     lines = list(values)
     spaced = all(not line.rstrip('\r\n') or line.startswith(' ') for line in lines)
     if spaced: lines = [line.removeprefix(' ') for line in lines]
     return indents[0], ''.join(lines)                                                              *)
Definition has_after (p : str * option str) : bool := match snd p with Some _ => true | None => false end.
Definition after_of (p : str * option str) : str := match snd p with Some v => v | None => [] end.
Definition line_spaced (l : str) : bool := is_nil (rstrip is_crnl l) || starts_with1 SPACE l.

Definition block_parse_lines (lines : list str) : res (str * str) :=
  let pairs := map (split1 SEMI) lines in
  if forallb has_after pairs then
    let indents := map fst pairs in
    let values := map after_of pairs in
    let spaced := forallb line_spaced values in
    let lines' := if spaced then map (removeprefix1 SPACE) values else values in
    Ok (hd [] indents, concat lines')
  else Err ValueError.
Definition block_parse (m : split_mode) (raw : str) : res (str * str) :=
  block_parse_lines (block_splitlines m raw).

(* _format_value:
     ''.join(f'{indent}; {line}' if line.rstrip('\r\n') else f'{indent};{line}' for line in _splitlines(value)) *)
Definition block_format_line (indent line : str) : str :=
  if is_nil (rstrip is_crnl line) then indent ++ SEMI :: line else indent ++ SEMI :: SPACE :: line.
Definition block_format (m : split_mode) (indent value : str) : str :=
  concat (map (block_format_line indent) (block_splitlines m value)).

(* ------------------------------------------------------------------------------------------------ *)
(* Date: value = (year, month, day) of a datetime.date                                              *)
Definition date := (Z * Z * Z)%type.
Definition is_leap (y : Z) : bool := ((y mod 4 =? 0) && negb (y mod 100 =? 0)) || (y mod 400 =? 0).
Definition days_in_month (y m : Z) : Z :=
  if m =? 2 then (if is_leap y then 29 else 28)
  else if (m =? 4) || (m =? 6) || (m =? 9) || (m =? 11) then 30 else 31.
(* datetime.date(y, m, d) accepts exactly these *)
Definition valid_date (v : date) : bool :=
  let '(y, m, d) := v in
  (1 <=? y) && (y <=? 9999) && (1 <=? m) && (m <=? 12) && (1 <=? d) && (d <=? days_in_month y m).

(* re.split('[-/]', s) *)
Fixpoint split_datesep (s : str) : list str :=
  match s with
  | [] => [[]]
  | c :: r => if is_datesep c then [] :: split_datesep r
              else match split_datesep r with
                   | l :: ls => (c :: l) :: ls
                   | [] => [[c]]
                   end
  end.
(* int(s): exact on ASCII digit strings and on strings that are certainly not integer literals
   (ValueError). ASSUMED: the other spellings int() accepts (sign, blanks, '_', non-ASCII digits) do not
   occur: the model answers ModelStuck there and the correspondence generates none. *)
Definition digit_val (c : Z) : Z := c - 48.
Definition int_of_digits (s : str) : Z := fold_left (fun a c => a * 10 + digit_val c) s 0.
Definition int_exotic (c : Z) : bool :=
  (128 <=? c) || (c =? 43) || (c =? DASH) || (c =? USCORE) || (c =? SPACE) || ((9 <=? c) && (c <=? 13))
  || ((28 <=? c) && (c <=? 31)).
Definition py_int (s : str) : res Z :=
  if is_nil s then Err ValueError
  else if forallb is_digit s then Ok (int_of_digits s)
  else if forallb (fun c => is_digit c || int_exotic c) s then Err ModelStuck
  else Err ValueError.
Definition int_stuck (s : str) : bool := match py_int s with Err ModelStuck => true | _ => false end.

(* _parse_value:  y, m, d = map(int, re.split('[-/]', raw_text)); return datetime.date(y, m, d)
   Every way this can fail inside the modelled domain of int() is a ValueError (int(''), int('x'),
   too few / too many values, datetime.date out of range). *)
Definition date_parse (raw : str) : res date :=
  match split_datesep raw with
  | [a; b; c] =>
    match py_int a with Err e => Err e | Ok y =>
    match py_int b with Err e => Err e | Ok m =>
    match py_int c with Err e => Err e | Ok d =>
      if valid_date (y, m, d) then Ok (y, m, d) else Err ValueError end end end
  | parts => if existsb int_stuck parts then Err ModelStuck else Err ValueError
  end.

Definition digit_char (n : Z) : Z := 48 + n.
Definition pad2 (n : Z) : str := [digit_char (n / 10 mod 10); digit_char (n mod 10)].
Definition pad4 (n : Z) : str :=
  [digit_char (n / 1000 mod 10); digit_char (n / 100 mod 10); digit_char (n / 10 mod 10); digit_char (n mod 10)].
(* at most three leading '0' removed: decimal notation of 1..9999 without padding *)
Definition unpad4 (s : str) : str :=
  match s with
  | [a; b; c; d] => if a =? 48 then (if b =? 48 then (if c =? 48 then [d] else [c; d]) else [b; c; d]) else s
  | _ => s
  end.

Inductive date_mode := DateStrftime | DatePadded.
(* ASSUMED (validated by the harness on every generated date): for a datetime.date, glibc's strftime
   writes %Y as the plain decimal year (no padding), %m and %d with two digits; the repaired code uses
   f'{year:04d}-{month:02d}-{day:02d}'.  Only 1 <= year <= 9999 exists as a datetime.date. *)
Definition date_format (dm : date_mode) (v : date) : str :=
  let '(y, m, d) := v in
  (match dm with DateStrftime => unpad4 (pad4 y) | DatePadded => pad4 y end)
  ++ DASH :: pad2 m ++ DASH :: pad2 d.

(* ------------------------------------------------------------------------------------------------ *)
(* Number: value = Decimal as (sign, coefficient digits, exponent), digits most significant first   *)
Definition decimal := (Z * list Z * Z)%type.

Fixpoint strip_zeros (ds : list Z) : list Z :=
  match ds with [] => [] | d :: r => if d =? 0 then strip_zeros r else ds end.
(* the coefficient CPython stores: str(int(digits)) *)
Definition norm_digits (ds : list Z) : list Z :=
  match strip_zeros ds with [] => [0] | t => t end.
Definition digits_of_str (s : str) : list Z := map digit_val s.
Definition str_of_digits (ds : list Z) : str := map digit_char ds.
Definition remove_commas (s : str) : str := filter (fun c => negb (c =? COMMA)) s.

(* _parse_value: decimal.Decimal(raw_text.replace(',', '')) on  [0-9]* ( '.' [0-9]* )?  with at least one
   digit. ASSUMED: the other spellings Decimal() accepts (sign, exponent, NaN, Infinity, '_', blanks,
   non-ASCII digits) do not occur; anything else is InvalidOperation, reported here as ModelStuck and
   compared only as <raised>. *)
Definition number_parse (raw : str) : res decimal :=
  let s := remove_commas raw in
  let ip := take is_digit s in
  match skip is_digit s with
  | [] => if is_nil ip then Err ModelStuck else Ok (0, norm_digits (digits_of_str ip), 0)
  | c :: fr =>
    if (c =? DOT) && forallb is_digit fr && negb (is_nil ip && is_nil fr)
    then Ok (0, norm_digits (digits_of_str (ip ++ fr)), - zlen fr)
    else Err ModelStuck
  end.

(* decimal notation of a non-negative integer (fuel = number of digits produced at most) *)
Fixpoint dec_digits_aux (fuel : nat) (n : Z) (acc : list Z) : list Z :=
  match fuel with
  | O => acc
  | S f => if n <? 10 then n :: acc else dec_digits_aux f (n / 10) (n mod 10 :: acc)
  end.
Definition dec_str (n : Z) : str := str_of_digits (dec_digits_aux 60 n []).
Definition zrepeat (x : Z) (n : Z) : str := repeat x (Z.to_nat n).

(* _format_value AS FOUND (before repo commit 0aeea5a): str(value) = Decimal.__str__ (to-scientific-string).
   ASSUMED (validated by the harness): _decimal's str() follows _pydecimal.Decimal.__str__:
     leftdigits = exp + len(int)
     dotplace = leftdigits if exp <= 0 and leftdigits > -6 else 1
     dotplace <= 0: '0' '.' '0'*(-dotplace) int | dotplace >= len: int '0'*(dotplace-len) | int[:dp] '.' int[dp:]
     exponent suffix 'E%+d' % (leftdigits - dotplace) unless equal *)
Definition number_format_str (v : decimal) : str :=
  let '(sign, ds, e) := v in
  let n := zlen ds in
  let leftdigits := e + n in
  let dotplace := if (e <=? 0) && (-6 <? leftdigits) then leftdigits else 1 in
  let body :=
    if dotplace <=? 0 then 48 :: DOT :: zrepeat 48 (- dotplace) ++ str_of_digits ds
    else if n <=? dotplace then str_of_digits ds ++ zrepeat 48 (dotplace - n)
    else str_of_digits (zfirstn dotplace ds) ++ DOT :: str_of_digits (zskipn dotplace ds) in
  let ex :=
    if leftdigits =? dotplace then []
    else let x := leftdigits - dotplace in
         69 :: (if x <? 0 then DASH :: dec_str (- x) else 43 :: dec_str x) in
  (if sign =? 1 then [DASH] else []) ++ body ++ ex.

(* _format_value (repo commit 0aeea5a): format(value, 'f').
   ASSUMED (validated by the harness on generated (sign, digits, exponent)): _decimal follows
   _pydecimal.Decimal.__format__ with type 'f' and no precision:
     a zero with positive exponent is rescaled to exponent 0
     dotplace = exp + len(int)
     dotplace < 0:   '0' '.' '0'*(-dotplace) int
     dotplace > len: int '0'*(dotplace-len)
     otherwise:      (int[:dotplace] or '0') then '.' int[dotplace:] unless that is empty
   no exponent suffix, '-' for sign 1 *)
Definition number_format (v : decimal) : str :=
  let '(sign, ds0, e0) := v in
  let rescale := (0 <? e0) && forallb (fun d => d =? 0) ds0 in
  let ds := if rescale then [0] else ds0 in
  let e := if rescale then 0 else e0 in
  let n := zlen ds in
  let dotplace := e + n in
  let body :=
    if dotplace <? 0 then 48 :: DOT :: zrepeat 48 (- dotplace) ++ str_of_digits ds
    else if n <? dotplace then str_of_digits ds ++ zrepeat 48 (dotplace - n)
    else let ip := zfirstn dotplace ds in
         let fr := zskipn dotplace ds in
         (if is_nil ip then [48] else str_of_digits ip) ++ (if is_nil fr then [] else DOT :: str_of_digits fr) in
  (if sign =? 1 then [DASH] else []) ++ body.

(* Decimal.__eq__ on finite numbers is numeric: coefficient * 10^exponent, zeros of either sign equal *)
Definition coef (ds : list Z) : Z := fold_left (fun a d => a * 10 + d) ds 0.
Definition dec_eqb (v w : decimal) : bool :=
  let '(s1, d1, e1) := v in
  let '(s2, d2, e2) := w in
  let m := Z.min e1 e2 in
  let a := coef d1 * 10 ^ (e1 - m) in
  let b := coef d2 * 10 ^ (e2 - m) in
  (a =? b) && ((s1 =? s2) || (a =? 0)).

(* ------------------------------------------------------------------------------------------------ *)
(* Tag, Link, MetaKey, Bool, Null, Account, Currency                                                *)
Definition tag_parse (raw : str) : res str := Ok (slice_1 raw).
Definition tag_format (v : str) : str := HASH :: v.
Definition link_parse (raw : str) : res str := Ok (slice_1 raw).
Definition link_format (v : str) : str := CARET :: v.
Definition metakey_parse (raw : str) : res str := Ok (slice_m1 raw).
Definition metakey_format (v : str) : str := v ++ [COLON].
Definition TRUE_ : str := [84; 82; 85; 69].
Definition FALSE_ : str := [70; 65; 76; 83; 69].
Definition NULL_ : str := [78; 85; 76; 76].
Definition str_eqb (a b : str) : bool := list_eqb Z.eqb a b.
Definition bool_parse (raw : str) : res bool :=
  if str_eqb raw TRUE_ then Ok true else if str_eqb raw FALSE_ then Ok false else Err KeyError.
Definition bool_format (v : bool) : str := if v then TRUE_ else FALSE_.
(* SimpleSingleValueRawTokenModel (Account, Currency): both directions are the identity *)
Definition simple_parse (raw : str) : res str := Ok raw.
Definition simple_format (v : str) : str := v.

(* ------------------------------------------------------------------------------------------------ *)
(* Token objects (base_token_models.SingleValueRawTokenModel), statement order kept:
     from_raw_text(s): cls(s, cls._parse_value(s))
     from_value(v):    cls(cls._format_value(v), v)
     raw_text = s:     self._update_raw_text(s); self._value = self._parse_value(s)   -- raw is written first
                       (parse_first = true models fixes/token-raw-text-parse-first.patch: the value is
                        parsed before anything is written, so a refused text changes nothing)
     value = v:        self._value = v; self._update_raw_text(self._format_value(v))                  *)
Record tok (V : Type) := mk_tok { t_raw : str; t_val : V }.
Arguments mk_tok {V} _ _.
Arguments t_raw {V} _.
Arguments t_val {V} _.
Inductive sv_op (V : Type) := SetRaw (s : str) | SetValue (v : V).
Arguments SetRaw {V} s.
Arguments SetValue {V} v.

Definition sv_from_raw_text {V} (parse : str -> res V) (s : str) : res (tok V) :=
  match parse s with Ok v => Ok (mk_tok s v) | Err e => Err e end.
Definition sv_from_value {V} (format : V -> str) (v : V) : tok V := mk_tok (format v) v.
Definition sv_step {V} (parse : str -> res V) (format : V -> str) (parse_first : bool) (t : tok V) (o : sv_op V) : tok V * res unit :=
  match o with
  | SetRaw s => match parse s with
                | Ok v => (mk_tok s v, Ok tt)
                | Err e => (if parse_first then t else mk_tok s (t_val t), Err e)
                end
  | SetValue v => (mk_tok (format v) v, Ok tt)
  end.
Fixpoint sv_run {V} (parse : str -> res V) (format : V -> str) (pf : bool) (t : tok V) (ops : list (sv_op V)) : tok V :=
  match ops with [] => t | o :: r => sv_run parse format pf (fst (sv_step parse format pf t o)) r end.

(* BlockComment (block_comment.py):
     raw_text = s:  self._update_raw_text(s); self._indent, self._value = self._parse_value(s)
     value = v:     self._value = v; self._update_raw_text(self._format_value(self._indent, v))
     indent = i:    self._indent = i; self._update_raw_text(self._format_value(i, self._value))      *)
Record btok := mk_btok { b_raw : str; b_indent : str; b_value : str }.
Inductive b_op := BSetRaw (s : str) | BSetValue (v : str) | BSetIndent (i : str).
Definition b_from_raw_text (m : split_mode) (s : str) : res btok :=
  match block_parse m s with Ok (i, v) => Ok (mk_btok s i v) | Err e => Err e end.
Definition b_from_value (m : split_mode) (indent v : str) : btok := mk_btok (block_format m indent v) indent v.
Definition b_step (m : split_mode) (parse_first : bool) (t : btok) (o : b_op) : btok * res unit :=
  match o with
  | BSetRaw s => match block_parse m s with
                 | Ok (i, v) => (mk_btok s i v, Ok tt)
                 | Err e => (if parse_first then t else mk_btok s (b_indent t) (b_value t), Err e)
                 end
  | BSetValue v => (mk_btok (block_format m (b_indent t) v) (b_indent t) v, Ok tt)
  | BSetIndent i => (mk_btok (block_format m i (b_value t)) i (b_value t), Ok tt)
  end.
Fixpoint b_run (m : split_mode) (pf : bool) (t : btok) (ops : list b_op) : btok :=
  match ops with [] => t | o :: r => b_run m pf (fst (b_step m pf t o)) r end.

(* ------------------------------------------------------------------------------------------------ *)
(* Recognisers.  lexr_K s = Some rest when the terminal's compiled pattern matches a prefix of s at
   position 0 (rest = what follows the match, chosen as the backtracking engine chooses it), None when
   it does not match.  lex_K s = the length matched.  Pinned compiled patterns (lark 1.3.1, see c12.py):
   the literal regex text is pinned in harness/c12.py (PINNED_COMPILED) because regex syntax cannot be
   quoted inside a Coq comment. In words:
     ESCAPED_STRING  double quote, lazy any-characters (DOTALL), not preceded by a backslash, lazily some
                     pairs of backslashes, double quote
     INLINE_COMMENT  ';' then any characters but CR and LF
     BLOCK_COMMENT   line start, [blanks+] INLINE_COMMENT, then greedily ( CR* LF [blanks+] INLINE_COMMENT )
                     (all lines indented or none)
     DATE            4+ digits, '-' or '/', 1-2 digits, '-' or '/', 1-2 digits
     NUMBER          ( 1-3 digits then 1+ groups of ',' and 3 digits | 1+ digits ) then optionally '.' digits
     TAG '#' / LINK '^' then 1+ of letters digits - _ / .    META_KEY  lower-case letter, 1+ of letters digits - _ , ':'
     BOOL FALSE or TRUE      NULL  NULL *)
Definition len_matched (s : str) (r : option str) : option Z :=
  match r with Some t => Some (zlen s - zlen t) | None => None end.

(* ESCAPED_STRING: the first double quote after the opening one that is preceded by an even number of backslashes
   (the lazy .*? tries closing positions from the left; (?<!\\)(\\\\)*?Q accepts exactly those) *)
Fixpoint str_body (esc : bool) (s : str) : option str :=
  match s with
  | [] => None
  | c :: r => if esc then str_body false r
              else if c =? BSLASH then str_body true r
              else if c =? QUOTE then Some r
              else str_body false r
  end.
Definition lexr_string (s : str) : option str :=
  match s with c :: r => if c =? QUOTE then str_body false r else None | [] => None end.
Definition lex_string (s : str) := len_matched s (lexr_string s).

Definition lexr_inline (s : str) : option str :=
  match s with c :: r => if c =? SEMI then Some (skip not_crnl r) else None | [] => None end.
Definition lex_inline (s : str) := len_matched s (lexr_inline s).

(* _NEWLINE  \r*\n ;  WHITESPACE  [ \t]+ *)
Definition lexr_newline (s : str) : option str :=
  match skip is_cr s with c :: r => if c =? NL then Some r else None | [] => None end.
Definition lexr_ws1 (s : str) : option str :=
  match s with c :: r => if is_ws c then Some (skip is_ws r) else None | [] => None end.
(* the greedy group ( _NEWLINE [WHITESPACE] INLINE_COMMENT )* ; one unit of fuel per repetition *)
Fixpoint block_loop (ind : bool) (fuel : nat) (s : str) : str :=
  match fuel with
  | O => s
  | S f =>
    match lexr_newline s with
    | None => s
    | Some s1 =>
      match (if ind then lexr_ws1 s1 else Some s1) with
      | None => s
      | Some s2 =>
        match lexr_inline s2 with
        | None => s
        | Some s3 => block_loop ind f s3
        end
      end
    end
  end.
Definition lexr_block (s : str) : option str :=
  match lexr_ws1 s with
  | Some s1 => match lexr_inline s1 with
               | Some r => Some (block_loop true (length r) r)
               | None => None
               end
  | None => match lexr_inline s with
            | Some r => Some (block_loop false (length r) r)
            | None => None
            end
  end.
Definition lex_block (s : str) := len_matched s (lexr_block s).

(* DATE *)
Definition lexr_d12 (s : str) : option str :=           (* 1-2 digits, greedy *)
  match s with
  | c :: r => if is_digit c then
                match r with
                | d :: r' => if is_digit d then Some r' else Some r
                | [] => Some r
                end
              else None
  | [] => None
  end.
Definition lexr_sep (s : str) : option str :=
  match s with c :: r => if is_datesep c then Some r else None | [] => None end.
Definition lexr_date (s : str) : option str :=
  if 4 <=? zlen (take is_digit s) then
    match lexr_sep (skip is_digit s) with None => None | Some s1 =>
    match lexr_d12 s1 with None => None | Some s2 =>
    match lexr_sep s2 with None => None | Some s3 => lexr_d12 s3 end end end
  else None.
Definition lex_date (s : str) := len_matched s (lexr_date s).

(* NUMBER *)
Fixpoint comma_groups (s : str) : str * Z :=             (* groups of ',' and 3 digits, greedy: rest, repetitions *)
  match s with
  | c :: d1 :: d2 :: d3 :: r =>
    if (c =? COMMA) && is_digit d1 && is_digit d2 && is_digit d3
    then let (t, k) := comma_groups r in (t, k + 1) else (s, 0)
  | _ => (s, 0)
  end.
Definition lexr_frac (s : str) : str :=                  (* optional '.' digits *)
  match s with c :: r => if c =? DOT then skip is_digit r else s | [] => [] end.
Definition lexr_number (s : str) : option str :=
  let n := zlen (take is_digit s) in
  let r := skip is_digit s in
  if n =? 0 then None
  else
    (* [0-9]{1,3} followed by ',' can only be the whole digit run, of length <= 3 *)
    let (t, k) := comma_groups r in
    if (n <=? 3) && (1 <=? k) then Some (lexr_frac t) else Some (lexr_frac r).
Definition lex_number (s : str) := len_matched s (lexr_number s).

(* TAG / LINK / META_KEY / BOOL / NULL *)
Definition lexr_prefixed (x : Z) (s : str) : option str :=
  match s with
  | c :: r => if c =? x then (if is_nil (take is_tagchar r) then None else Some (skip is_tagchar r)) else None
  | [] => None
  end.
Definition lexr_tag := lexr_prefixed HASH.
Definition lexr_link := lexr_prefixed CARET.
Definition lex_tag (s : str) := len_matched s (lexr_tag s).
Definition lex_link (s : str) := len_matched s (lexr_link s).
Definition lexr_metakey (s : str) : option str :=
  match s with
  | c :: r => if is_lower c then
                if is_nil (take is_keychar r) then None
                else match skip is_keychar r with
                     | d :: t => if d =? COLON then Some t else None
                     | [] => None
                     end
              else None
  | [] => None
  end.
Definition lex_metakey (s : str) := len_matched s (lexr_metakey s).
Fixpoint strip_prefix (p s : str) : option str :=
  match p with
  | [] => Some s
  | x :: p' => match s with c :: r => if c =? x then strip_prefix p' r else None | [] => None end
  end.
Definition lexr_bool (s : str) : option str :=
  match strip_prefix FALSE_ s with Some r => Some r | None => strip_prefix TRUE_ s end.
Definition lex_bool (s : str) := len_matched s (lexr_bool s).
Definition lexr_null (s : str) : option str := strip_prefix NULL_ s.
Definition lex_null (s : str) := len_matched s (lexr_null s).

(* ------------------------------------------------------------------------------------------------ *)
(* TransactionFlag, PostingFlag, Account, Currency (recognisers; pinned patterns in harness/c12.py)   *)
(* the flag class: * ! & # ? % P S T C U R M *)
Definition is_flagchar (c : Z) : bool :=
  (c =? 42) || (c =? 33) || (c =? 38) || (c =? 35) || (c =? 63) || (c =? 37) || (c =? 80) || (c =? 83)
  || (c =? 84) || (c =? 67) || (c =? 85) || (c =? 82) || (c =? 77).
Definition TXN_ : str := [116; 120; 110].
(* TransactionFlag._parse_value: 'txn' is a spelling of '*'; _format_value is the identity *)
Definition txflag_parse (raw : str) : res str := if str_eqb raw TXN_ then Ok [42] else Ok raw.
Definition txflag_format (v : str) : str := v.
Definition lexr_pflag (s : str) : option str :=
  match s with c :: r => if is_flagchar c then Some r else None | [] => None end.
(* TRANSACTION_FLAG compiles to  txn | flag class  (in this order) *)
Definition lexr_txflag (s : str) : option str :=
  match strip_prefix TXN_ s with Some r => Some r | None => lexr_pflag s end.
Definition lex_pflag (s : str) := len_matched s (lexr_pflag s).
Definition lex_txflag (s : str) := len_matched s (lexr_txflag s).

(* ACCOUNT: type = (upper | non-ASCII) body*, then 1+ of ':' (upper | digit | non-ASCII) body*,
   body = letter | digit | '-' | non-ASCII.  ':' is not a body character, so the greedy engine never
   has to give characters back: a group is taken whenever ':' is followed by a start character. *)
Definition is_nonascii (c : Z) : bool := 128 <=? c.
Definition is_acct_body (c : Z) : bool := is_upper c || is_lower c || is_digit c || (c =? DASH) || is_nonascii c.
Definition is_acct_type_start (c : Z) : bool := is_upper c || is_nonascii c.
Definition is_acct_name_start (c : Z) : bool := is_upper c || is_digit c || is_nonascii c.
Fixpoint acct_groups (fuel : nat) (s : str) : str * Z :=
  match fuel with
  | O => (s, 0)
  | S f =>
    match s with
    | c :: d :: r => if (c =? COLON) && is_acct_name_start d
                     then let (t, k) := acct_groups f (skip is_acct_body r) in (t, k + 1) else (s, 0)
    | _ => (s, 0)
    end
  end.
Definition lexr_account (s : str) : option str :=
  match s with
  | c :: r => if is_acct_type_start c
              then let (t, k) := acct_groups (length r) (skip is_acct_body r) in
                   if 1 <=? k then Some t else None
              else None
  | [] => None
  end.
Definition lex_account (s : str) := len_matched s (lexr_account s).

(* CURRENCY:  '/' body* upper ( body* (upper|digit) )?   |   upper body* (upper|digit)
   with body = upper | digit | ' . _ -  (the two alternatives start differently). The greedy body* takes
   the whole run R of body characters and the engine gives back trailing characters until the next atom
   matches: in both alternatives the match ends at the last upper-or-digit of R; the first alternative
   additionally needs an upper-case letter in R. *)
Definition is_cur_body (c : Z) : bool :=
  is_upper c || is_digit c || (c =? 39) || (c =? DOT) || (c =? USCORE) || (c =? DASH).
Definition is_cur_end (c : Z) : bool := is_upper c || is_digit c.
Definition lexr_currency (s : str) : option str :=
  match s with
  | c :: r =>
    let t := rstrip (fun x => negb (is_cur_end x)) (take is_cur_body r) in
    if c =? SLASH then (if existsb is_upper t then Some (skipn (length t) r) else None)
    else if is_upper c then (if is_nil t then None else Some (skipn (length t) r))
    else None
  | [] => None
  end.
Definition lex_currency (s : str) := len_matched s (lexr_currency s).

(* ------------------------------------------------------------------------------------------------ *)
(* Domains: the values that have a lexeme (boolean predicates)                                      *)
Definition dom_string (v : str) : bool := true.                             (* every string *)
Definition dom_inline (v : str) : bool := forallb not_crnl v && negb (starts_with1 SPACE v).
(* a line of a block comment: [^\r\n]* then nothing, or \r*\n *)
Definition line_ok (l : str) : bool :=
  match skip not_crnl l with
  | [] => true
  | t => match skip is_cr t with [c] => c =? NL | _ => false end
  end.
Definition dom_block_value (v : str) : bool := forallb line_ok (splitlines_nl v).
Definition dom_block_indent (i : str) : bool := forallb is_ws i.
(* what the codec alone needs of an indent *)
Definition indent_codec_ok (i : str) : bool := forallb (fun c => negb (c =? SEMI) && negb (c =? NL)) i.
Definition dom_date := valid_date.
Definition all_digits (ds : list Z) : bool := forallb (fun d => (0 <=? d) && (d <=? 9)) ds.
Definition canonical_digits (ds : list Z) : bool :=
  all_digits ds && match ds with [] => false | [d] => true | d :: _ => negb (d =? 0) end.
(* every finite non-negative Decimal: format(v, 'f') is a NUMBER lexeme with the same numeric value *)
Definition dom_number (v : decimal) : bool :=
  let '(sign, ds, e) := v in (sign =? 0) && canonical_digits ds.
(* those whose (sign, digits, exponent) representation survives the round trip exactly *)
Definition dom_number_exact (v : decimal) : bool :=
  let '(sign, ds, e) := v in (sign =? 0) && canonical_digits ds && (e <=? 0).
Definition dom_tag (v : str) : bool := negb (is_nil v) && forallb is_tagchar v.
Definition dom_metakey (v : str) : bool :=
  match v with c :: r => is_lower c && negb (is_nil r) && forallb is_keychar r | [] => false end.

Definition dom_flag (v : str) : bool := match v with [c] => is_flagchar c | _ => false end.
(* an account: a type component and at least one name component *)
Definition acct_type_ok (t : str) : bool :=
  match t with c :: r => is_acct_type_start c && forallb is_acct_body r | [] => false end.
Definition acct_name_ok (t : str) : bool :=
  match t with c :: r => is_acct_name_start c && forallb is_acct_body r | [] => false end.
Definition account_of (t : str) (names : list str) : str := t ++ concat (map (cons COLON) names).
Fixpoint last_ok (q : Z -> bool) (r : str) : bool :=
  match r with [] => false | [x] => q x | _ :: t => last_ok q t end.
Definition dom_currency (v : str) : bool :=
  match v with
  | c :: r => forallb is_cur_body r && last_ok is_cur_end r
              && (is_upper c || ((c =? SLASH) && existsb is_upper r))
  | [] => false
  end.
(* Indent (INDENT = line start, blanks, lookahead for a character that is not blank, CR or LF):
   an INDENT lexeme is never a whole text by itself - see the note in properties/C12.v *)
Definition dom_indent (v : str) : bool := negb (is_nil v) && forallb is_ws v.
