(* Concrete instance of the edit theorems: the meta item of TreeFacts.ex_open_num (`foo: 1 + 2`), whose
   value (a NumberExpr tree) is replaced by a copy with fresh tokens, once re-attached to the root's
   store (well-formed result) and once left in a foreign store (result is not WF). *)
From AB Require Import Desc Generated GeneratedWf Tree TreeDefs TreeProofs TreeWF TreeWFProofs TreeRun TreeFacts.
From AB Require Import TreeEdit TreeEditProofs TreeEditProofs2.
From Coq Require Import ZArith String List Bool.
Import ListNotations.
Local Open Scope string_scope.
Local Open Scope Z_scope.

Definition ex_meta : node :=
  match select ex_open_num [SItem "_meta" 0%nat] with Some n => n | None => Leaf (mktk 0 "" "") end.
Definition ex_path : path := [SField "_value"].
Definition ex_old : node :=
  match select ex_meta ex_path with Some n => n | None => Leaf (mktk 0 "" "") end.
(* a copy of the value with new token identities, in store 0 (the root's) / in store 5 (foreign) *)
Definition ex_new_attached : node := clone all_classes 0 ex_fresh ex_old.
Definition ex_new_foreign : node := clone all_classes 5 ex_fresh ex_old.

Definition fresh_b (new root : node) : bool :=
  forallb (fun t => forallb (fun t' => negb (k_id t =? k_id t')) (node_toks root)) (node_toks new).
Lemma fresh_b_sound : forall new root, fresh_b new root = true ->
  forall t t', In t (node_toks new) -> In t' (node_toks root) -> k_id t <> k_id t'.
Proof.
  intros new root H t t' Ht Ht'. unfold fresh_b in H. rewrite forallb_forall in H.
  specialize (H t Ht). rewrite forallb_forall in H. specialize (H t' Ht').
  apply negb_true_iff in H. apply Z.eqb_neq in H. exact H.
Qed.

Lemma ex_edit_hyps :
  hwf_b all_classes ex_meta = true /\ hwf_b all_classes ex_new_attached = true
  /\ exempt (UNode ex_new_attached) = false /\ root_sid ex_new_attached = root_sid ex_meta
  /\ fresh_b ex_new_attached ex_meta = true
  /\ select ex_meta ex_path = Some ex_old
  /\ match plug ex_meta ex_path ex_new_attached with
     | Some r => hwf_b all_classes r = true /\ conforms all_classes r = true
     | None => False end.
Proof. vm_compute. auto 10. Qed.

(* forgetting the re-attachment: everything else as above, but the new sub-tree is in store 5 *)
Lemma ex_foreign_not_WF :
  hwf_b all_classes ex_new_foreign = true /\ fresh_b ex_new_foreign ex_meta = true
  /\ match plug ex_meta ex_path ex_new_foreign with
     | Some r => ~ WF all_classes r
     | None => False end.
Proof.
  split; [vm_compute; reflexivity|]. split; [vm_compute; reflexivity|].
  destruct (plug ex_meta ex_path ex_new_foreign) as [r|] eqn:E; [|vm_compute in E; discriminate].
  apply (foreign_sid_not_WF all_classes r 5).
  - vm_compute in E. inversion E. vm_compute. auto 10.
  - vm_compute in E. inversion E. vm_compute. discriminate.
Qed.

(* the same replacement from the Open entry: the path steps into item 0 of the repeated `_meta` *)
Definition ex_deep_path : path := [SItem "_meta" 0%nat; SField "_value"].
Lemma ex_edit_hyps_deep :
  hwf_b all_classes ex_open_num = true /\ select ex_open_num ex_deep_path = Some ex_old
  /\ fresh_b ex_new_attached ex_open_num = true /\ root_sid ex_new_attached = root_sid ex_open_num
  /\ match plug ex_open_num ex_deep_path ex_new_attached with
     | Some r => hwf_b all_classes r = true /\ conforms all_classes r = true
                 /\ text_of (node_toks r) = text_of (node_toks ex_open_num)
     | None => False end.
Proof. vm_compute. auto 10. Qed.

(* ---- item removal and insertion: `USD, EUR` -> pop(0) -> `EUR` -> insert(1, copy of USD) -> `EUR, USD` ---- *)
Definition ex_seps : list tk := [mktk 201 "_COMMA" ","; mktk 202 "WHITESPACE" " "].
Definition ex_popped : option (node * node) := remove_item ex_open_num [] "_currencies" 0%nat.
Definition ex_reinserted : option node :=
  match ex_popped with
  | Some (x, r) => insert_item r [] "_currencies" 1%nat ex_seps (clone all_classes 0 ex_fresh x)
  | None => None
  end.
Definition ids_nodup_b (l : list tk) : bool :=
  forallb (fun t => Nat.eqb (length (filter (fun t' => k_id t =? k_id t') l)) 1) l.
Lemma ex_item_hyps :
  match ex_popped with
  | Some (x, r) =>
      hwf_b all_classes r = true /\ hwf_b all_classes x = true /\ conforms all_classes x = true
      /\ hwf_b all_classes (clone all_classes 0 ex_fresh x) = true
      /\ exempt (UNode (clone all_classes 0 ex_fresh x)) = false
      /\ forallb (fun t => negb (significant t)) ex_seps = true
      /\ ids_nodup_b (ex_seps ++ node_toks (clone all_classes 0 ex_fresh x)) = true
      /\ forallb (fun t => forallb (fun t' => negb (k_id t =? k_id t')) (node_toks r))
                 (ex_seps ++ node_toks (clone all_classes 0 ex_fresh x)) = true
      /\ length (node_toks r) = (length (node_toks ex_open_num) - 3)%nat
  | None => False end
  /\ match ex_reinserted with
     | Some r2 => hwf_b all_classes r2 = true /\ conforms all_classes r2 = true
                  /\ length (node_toks r2) = length (node_toks ex_open_num)
     | None => False end.
Proof. vm_compute. auto 20. Qed.
