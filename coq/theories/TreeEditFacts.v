(* Concrete instance of the edit theorems: the meta item of TreeFacts.ex_open_num (`foo: 1 + 2`), whose
   value (a NumberExpr tree) is replaced by a copy with fresh tokens, once re-attached to the root's
   store (well-formed result) and once left in a foreign store (result is not WF). *)
From AB Require Import Desc Generated GeneratedWf Tree TreeDefs TreeProofs TreeWF TreeWFProofs TreeRun TreeFacts.
From AB Require Import TreeEdit TreeEditProofs TreeEditProofs2 TreeEditProofs3 TreeEditProofs4 TreeEditProofs5 TreeEditProofs6.
From Coq Require Import ZArith String List Bool.
Import ListNotations.
Local Open Scope string_scope.
Local Open Scope Z_scope.

Definition ex_meta : node :=
  match select ex_open_num [SItem "_meta" 0%nat] with Some n => n | None => Leaf (mktk 0 "" "") end.
Definition ex_path : path := [SField "_value"].
Definition ex_old : node :=
  match select ex_meta ex_path with Some n => n | None => Leaf (mktk 0 "" "") end.
(* a copy of the value with new token identities, in store 0 (the root's) / in store 5 (foreign) *)
Definition ex_new_attached : node := clone all_classes 0 ex_fresh ex_old.
Definition ex_new_foreign : node := clone all_classes 5 ex_fresh ex_old.

Definition fresh_b (new root : node) : bool :=
  forallb (fun t => forallb (fun t' => negb (k_id t =? k_id t')) (node_toks root)) (node_toks new).
Lemma fresh_b_sound : forall new root, fresh_b new root = true ->
  forall t t', In t (node_toks new) -> In t' (node_toks root) -> k_id t <> k_id t'.
Proof.
  intros new root H t t' Ht Ht'. unfold fresh_b in H. rewrite forallb_forall in H.
  specialize (H t Ht). rewrite forallb_forall in H. specialize (H t' Ht').
  apply negb_true_iff in H. apply Z.eqb_neq in H. exact H.
Qed.

Lemma ex_edit_hyps :
  hwf_b all_classes ex_meta = true /\ hwf_b all_classes ex_new_attached = true
  /\ exempt (UNode ex_new_attached) = false /\ root_sid ex_new_attached = root_sid ex_meta
  /\ fresh_b ex_new_attached ex_meta = true
  /\ select ex_meta ex_path = Some ex_old
  /\ match plug ex_meta ex_path ex_new_attached with
     | Some r => hwf_b all_classes r = true /\ conforms all_classes r = true
     | None => False end.
Proof. vm_compute. auto 10. Qed.

(* forgetting the re-attachment: everything else as above, but the new sub-tree is in store 5 *)
Lemma ex_foreign_not_WF :
  hwf_b all_classes ex_new_foreign = true /\ fresh_b ex_new_foreign ex_meta = true
  /\ match plug ex_meta ex_path ex_new_foreign with
     | Some r => ~ WF all_classes r
     | None => False end.
Proof.
  split; [vm_compute; reflexivity|]. split; [vm_compute; reflexivity|].
  destruct (plug ex_meta ex_path ex_new_foreign) as [r|] eqn:E; [|vm_compute in E; discriminate].
  apply (foreign_sid_not_WF all_classes r 5).
  - vm_compute in E. inversion E. vm_compute. auto 10.
  - vm_compute in E. inversion E. vm_compute. discriminate.
Qed.

(* the same replacement from the Open entry: the path steps into item 0 of the repeated `_meta` *)
Definition ex_deep_path : path := [SItem "_meta" 0%nat; SField "_value"].
Lemma ex_edit_hyps_deep :
  hwf_b all_classes ex_open_num = true /\ select ex_open_num ex_deep_path = Some ex_old
  /\ fresh_b ex_new_attached ex_open_num = true /\ root_sid ex_new_attached = root_sid ex_open_num
  /\ match plug ex_open_num ex_deep_path ex_new_attached with
     | Some r => hwf_b all_classes r = true /\ conforms all_classes r = true
                 /\ text_of (node_toks r) = text_of (node_toks ex_open_num)
     | None => False end.
Proof. vm_compute. auto 10. Qed.

(* ---- item removal and insertion: `USD, EUR` -> pop(0) -> `EUR` -> insert(1, copy of USD) -> `EUR, USD` ---- *)
Definition ex_seps : list tk := [mktk 201 "_COMMA" ","; mktk 202 "WHITESPACE" " "].
Definition ex_popped : option (node * node) := remove_item ex_open_num [] "_currencies" 0%nat.
Definition ex_reinserted : option node :=
  match ex_popped with
  | Some (x, r) => insert_item r [] "_currencies" 1%nat ex_seps (clone all_classes 0 ex_fresh x)
  | None => None
  end.
Definition ids_nodup_b (l : list tk) : bool :=
  forallb (fun t => Nat.eqb (length (filter (fun t' => k_id t =? k_id t') l)) 1) l.
Lemma ex_item_hyps :
  match ex_popped with
  | Some (x, r) =>
      hwf_b all_classes r = true /\ hwf_b all_classes x = true /\ conforms all_classes x = true
      /\ hwf_b all_classes (clone all_classes 0 ex_fresh x) = true
      /\ exempt (UNode (clone all_classes 0 ex_fresh x)) = false
      /\ forallb (fun t => negb (significant t)) ex_seps = true
      /\ ids_nodup_b (ex_seps ++ node_toks (clone all_classes 0 ex_fresh x)) = true
      /\ forallb (fun t => forallb (fun t' => negb (k_id t =? k_id t')) (node_toks r))
                 (ex_seps ++ node_toks (clone all_classes 0 ex_fresh x)) = true
      /\ length (node_toks r) = (length (node_toks ex_open_num) - 3)%nat
  | None => False end
  /\ match ex_reinserted with
     | Some r2 => hwf_b all_classes r2 = true /\ conforms all_classes r2 = true
                  /\ length (node_toks r2) = length (node_toks ex_open_num)
     | None => False end.
Proof. vm_compute. auto 20. Qed.

(* ---- optional fields: `... USD, EUR ; hi` -> raw_inline_comment = None -> `... USD, EUR` -> raw_booking = "STRICT"
        -> `... USD, EUR "STRICT"`; and an inline comment created on the meta item (a path into a repeated field) ---- *)

Lemma classes_pivots_ok_all : classes_pivots_ok all_classes.
Proof.
  assert (H : forallb pivots_ok all_classes = true) by (vm_compute; reflexivity).
  intros c Hc. rewrite forallb_forall in H. apply H. exact Hc.
Qed.

Definition ex_opt_seps : list tk := [mktk 301 "WHITESPACE" " "].
Definition ex_booking : node := Leaf (mktk 300 "ESCAPED_STRING" """STRICT""").
Definition ex_comment : node := Leaf (mktk 302 "INLINE_COMMENT" "; x").
Definition ex_opt_removed : option (node * node) := remove_opt all_classes ex_open_num [] "_inline_comment".
Definition ex_opt_created : option node :=
  match ex_opt_removed with
  | Some (_, r) => create_opt all_classes r [] "_booking" ex_opt_seps ex_booking
  | None => None
  end.
Definition ex_opt_created_deep : option node :=
  create_opt all_classes ex_open_num [SItem "_meta" 0%nat] "_inline_comment" [mktk 303 "WHITESPACE" " "] ex_comment.

Definition fresh_list_b (N T : list tk) : bool :=
  forallb (fun t => forallb (fun t' => negb (k_id t =? k_id t')) T) N.
Lemma fresh_list_b_sound : forall N T, fresh_list_b N T = true ->
  forall t t', In t N -> In t' T -> k_id t <> k_id t'.
Proof.
  intros N T H t t' Ht Ht'. unfold fresh_list_b in H. rewrite forallb_forall in H.
  specialize (H t Ht). rewrite forallb_forall in H. specialize (H t' Ht').
  apply negb_true_iff in H. apply Z.eqb_neq in H. exact H.
Qed.

Lemma ex_opt_hyps :
  match ex_opt_removed with
  | Some (x, r) =>
      hwf_b all_classes r = true /\ conforms all_classes r = true /\ hwf_b all_classes x = true
      /\ length (node_toks r) = (length (node_toks ex_open_num) - 2)%nat
      /\ hwf_b all_classes ex_booking = true /\ conforms all_classes ex_booking = true
      /\ exempt (UNode ex_booking) = false
      /\ forallb (fun t => negb (significant t)) ex_opt_seps = true
      /\ ids_nodup_b (ex_opt_seps ++ node_toks ex_booking) = true
      /\ fresh_list_b (ex_opt_seps ++ node_toks ex_booking) (node_toks r) = true
  | None => False end
  /\ match ex_opt_created with
     | Some r2 => hwf_b all_classes r2 = true /\ conforms all_classes r2 = true
                  /\ length (node_toks r2) = length (node_toks ex_open_num)
     | None => False end
  /\ match ex_opt_created_deep with
     | Some r3 => hwf_b all_classes r3 = true /\ conforms all_classes r3 = true
                  /\ length (node_toks r3) = (length (node_toks ex_open_num) + 2)%nat
     | None => False end.
Proof. vm_compute. auto 20. Qed.

(* the two edits as a history in the sense of TreeEditProofs6.edits2 *)
Lemma ex_opt_history : exists r2, edits2 all_classes ex_open_num r2
  /\ length (node_toks r2) = length (node_toks ex_open_num) /\ leaves r2 <> leaves ex_open_num.
Proof.
  eexists. split.
  - eapply edits2_cons.
    + eapply (edit2_remove all_classes ex_open_num [] "_inline_comment"); vm_compute; reflexivity.
    + eapply edits2_cons; [|apply edits2_nil].
      eapply (edit2_create all_classes _ [] "_booking" ex_opt_seps ex_booking).
      * split; [apply hwf_b_sound; vm_compute; reflexivity|]. split; vm_compute; reflexivity.
      * intros t [E|[]]. subst t. reflexivity.
      * vm_compute. constructor; [intros [E|[]]; discriminate|]. constructor; [intros []|constructor].
      * unfold fresh_for. apply fresh_list_b_sound. vm_compute. reflexivity.
      * vm_compute. reflexivity.
  - split; [vm_compute; reflexivity|]. vm_compute. discriminate.
Qed.

(* the regap case on a dump of the real posting `    Assets:Cash 10 CAD @ 5 USD;c`: price.currency = None. The currency was
   the last thing of the UnitPrice and touches the comment: the blank before it stays, outside the UnitPrice (opt_out),
   as a gap of the Posting; the result `... @ 5 ;c` is HWF *)
Definition ex_regap_posting : node :=
  (Tree "Posting" 0 [(mktk 1 "INDENT" "    "); (mktk 2 "ACCOUNT" "Assets:Cash"); (mktk 13 "WHITESPACE" " "); (mktk 3 "NUMBER" "10"); (mktk 14 "WHITESPACE" " "); (mktk 4 "CURRENCY" "CAD"); (mktk 15 "WHITESPACE" " "); (mktk 5 "AT" "@"); (mktk 8 "WHITESPACE" " "); (mktk 6 "NUMBER" "5"); (mktk 9 "WHITESPACE" " "); (mktk 7 "CURRENCY" "USD"); (mktk 10 "INLINE_COMMENT" ";c"); (mktk 11 "EOL" ""); (mktk 12 "PLACEHOLDER" "")] [("_leading_comment", SOpt None); ("_indent", SReq (Leaf (mktk 1 "INDENT" "    "))); ("_flag", SOpt None); ("_account", SReq (Leaf (mktk 2 "ACCOUNT" "Assets:Cash"))); ("_number", SOpt (Some (Tree "NumberExpr" 0 [(mktk 3 "NUMBER" "10")] [("_number_add_expr", SReq (Tree "NumberAddExpr" 0 [(mktk 3 "NUMBER" "10")] [("seq", SSeq [(Tree "NumberMulExpr" 0 [(mktk 3 "NUMBER" "10")] [("seq", SSeq [(Leaf (mktk 3 "NUMBER" "10"))])] [])])] []))] []))); ("_currency", SOpt (Some (Leaf (mktk 4 "CURRENCY" "CAD")))); ("_cost", SOpt None); ("_price", SOpt (Some (Tree "UnitPrice" 0 [(mktk 5 "AT" "@"); (mktk 8 "WHITESPACE" " "); (mktk 6 "NUMBER" "5"); (mktk 9 "WHITESPACE" " "); (mktk 7 "CURRENCY" "USD")] [("_label", SReq (Leaf (mktk 5 "AT" "@"))); ("_number", SOpt (Some (Tree "NumberExpr" 0 [(mktk 6 "NUMBER" "5")] [("_number_add_expr", SReq (Tree "NumberAddExpr" 0 [(mktk 6 "NUMBER" "5")] [("seq", SSeq [(Tree "NumberMulExpr" 0 [(mktk 6 "NUMBER" "5")] [("seq", SSeq [(Leaf (mktk 6 "NUMBER" "5"))])] [])])] []))] []))); ("_currency", SOpt (Some (Leaf (mktk 7 "CURRENCY" "USD"))))] []))); ("_inline_comment", SOpt (Some (Leaf (mktk 10 "INLINE_COMMENT" ";c")))); ("_eol", SReq (Leaf (mktk 11 "EOL" ""))); ("_meta", SRep 0 [(mktk 12 "PLACEHOLDER" "")] (mktk 12 "PLACEHOLDER" "") []); ("_trailing_comment", SOpt None)] [("indent_by", "    ")]).
Lemma ex_regap_hyps :
  hwf_b all_classes ex_regap_posting = true
  /\ map k_text (opt_out all_classes ex_regap_posting [SField "_price"] "_currency") = [" "]
  /\ match remove_opt all_classes ex_regap_posting [SField "_price"] "_currency" with
     | Some (x, r) => hwf_b all_classes r = true
                      /\ map k_text (node_toks r) = ["    "; "Assets:Cash"; " "; "10"; " "; "CAD"; " "; "@"; " "; "5"; " "; ";c"; ""; ""]
                      /\ map k_text (node_toks x) = ["USD"]
     | None => False
     end.
Proof. vm_compute. auto. Qed.

(* ---- an item written right against the next one: a dump of the real `2000-01-01 custom "x" 1 "s"2 3`; raw_values.pop(1)
   keeps the blank in front of "s" (`... 1 2 3`, not `... 12 3`); pop(2) (the `2`, followed by a blank) takes it along ---- *)
Definition ex_glued_custom : node :=
  (Tree "Custom" 0 [(mktk 1 "DATE" "2000-01-01"); (mktk 14 "WHITESPACE" " "); (mktk 2 "CUSTOM" "custom"); (mktk 15 "WHITESPACE" " "); (mktk 3 "ESCAPED_STRING" """x"""); (mktk 8 "PLACEHOLDER" ""); (mktk 9 "WHITESPACE" " "); (mktk 4 "NUMBER" "1"); (mktk 10 "WHITESPACE" " "); (mktk 5 "ESCAPED_STRING" """s"""); (mktk 6 "NUMBER" "2"); (mktk 11 "WHITESPACE" " "); (mktk 7 "NUMBER" "3"); (mktk 12 "EOL" ""); (mktk 13 "PLACEHOLDER" "")] [("_leading_comment", SOpt None); ("_date", SReq (Leaf (mktk 1 "DATE" "2000-01-01"))); ("_label", SReq (Leaf (mktk 2 "CUSTOM" "custom"))); ("_type", SReq (Leaf (mktk 3 "ESCAPED_STRING" """x"""))); ("_values", SRep 0 [(mktk 8 "PLACEHOLDER" ""); (mktk 9 "WHITESPACE" " "); (mktk 4 "NUMBER" "1"); (mktk 10 "WHITESPACE" " "); (mktk 5 "ESCAPED_STRING" """s"""); (mktk 6 "NUMBER" "2"); (mktk 11 "WHITESPACE" " "); (mktk 7 "NUMBER" "3")] (mktk 8 "PLACEHOLDER" "") [(Tree "NumberExpr" 0 [(mktk 4 "NUMBER" "1")] [("_number_add_expr", SReq (Tree "NumberAddExpr" 0 [(mktk 4 "NUMBER" "1")] [("seq", SSeq [(Tree "NumberMulExpr" 0 [(mktk 4 "NUMBER" "1")] [("seq", SSeq [(Leaf (mktk 4 "NUMBER" "1"))])] [])])] []))] []); (Leaf (mktk 5 "ESCAPED_STRING" """s""")); (Tree "NumberExpr" 0 [(mktk 6 "NUMBER" "2")] [("_number_add_expr", SReq (Tree "NumberAddExpr" 0 [(mktk 6 "NUMBER" "2")] [("seq", SSeq [(Tree "NumberMulExpr" 0 [(mktk 6 "NUMBER" "2")] [("seq", SSeq [(Leaf (mktk 6 "NUMBER" "2"))])] [])])] []))] []); (Tree "NumberExpr" 0 [(mktk 7 "NUMBER" "3")] [("_number_add_expr", SReq (Tree "NumberAddExpr" 0 [(mktk 7 "NUMBER" "3")] [("seq", SSeq [(Tree "NumberMulExpr" 0 [(mktk 7 "NUMBER" "3")] [("seq", SSeq [(Leaf (mktk 7 "NUMBER" "3"))])] [])])] []))] [])]); ("_inline_comment", SOpt None); ("_eol", SReq (Leaf (mktk 12 "EOL" ""))); ("_meta", SRep 0 [(mktk 13 "PLACEHOLDER" "")] (mktk 13 "PLACEHOLDER" "") []); ("_dedent_mark", SOpt None); ("_trailing_comment", SOpt None)] [("indent_by", "    ")]).
Lemma ex_glued_hyps :
  hwf_b all_classes ex_glued_custom = true
  /\ rep_touches ex_glued_custom ex_glued_custom "_values" 1%nat = true
  /\ rep_touches ex_glued_custom ex_glued_custom "_values" 2%nat = false
  /\ match remove_item ex_glued_custom [] "_values" 1%nat with
     | Some (x, r) => hwf_b all_classes r = true /\ map k_text (node_toks x) = ["""s"""]
                      /\ map k_text (node_toks r) = ["2000-01-01"; " "; "custom"; " "; """x"""; ""; " "; "1"; " "; "2"; " "; "3"; ""; ""]
     | None => False
     end
  /\ match remove_item ex_glued_custom [] "_values" 2%nat with
     | Some (x, r) => hwf_b all_classes r = true
                      /\ map k_text (node_toks r) = ["2000-01-01"; " "; "custom"; " "; """x"""; ""; " "; "1"; " "; """s"""; " "; "3"; ""; ""]
     | None => False
     end.
Proof. vm_compute. auto 10. Qed.
