(* Observers of a store that satisfies the invariant are the list functions on its abstraction
   (C07_observers), and reported positions are positions in the printed text (C08_position). *)
From AB Require Export StoreInv.
From Coq Require Import ZifyBool.

(* ---------- list facts about a located element of a flat_map ---------- *)
Section Flat.
Context {A B : Type} (f : A -> list B).

Lemma flat_split l i a : nth_error l i = Some a ->
  flat_map f l = flat_map f (firstn i l) ++ f a ++ flat_map f (skipn (S i) l).
Proof.
  intro H. destruct (nth_error_split_at l i a H) as [E _]. rewrite E at 1.
  rewrite flat_map_app. reflexivity.
Qed.
Lemma flat_firstn_S l i a : nth_error l i = Some a ->
  flat_map f (firstn (S i) l) = flat_map f (firstn i l) ++ f a.
Proof.
  revert i. induction l as [|x r IH]; intros i H; [destruct i; discriminate|].
  destruct i as [|i]; cbn [nth_error] in H.
  - injection H as ->. cbn. rewrite app_nil_r. reflexivity.
  - change (firstn (S (S i)) (x :: r)) with (x :: firstn (S i) r).
    change (firstn (S i) (x :: r)) with (x :: firstn i r). cbn [flat_map]. rewrite (IH i H), app_assoc. reflexivity.
Qed.
Lemma flat_firstn_at l i a j : nth_error l i = Some a -> (j <= length (f a))%nat ->
  firstn (length (flat_map f (firstn i l)) + j) (flat_map f l) = flat_map f (firstn i l) ++ firstn j (f a).
Proof.
  intros H L. rewrite (flat_split l i a H). rewrite firstn_app_2. f_equal.
  rewrite firstn_app. replace (j - length (f a))%nat with 0%nat by lia. cbn [firstn]. apply app_nil_r.
Qed.
Lemma flat_skipn_at l i a j : nth_error l i = Some a -> (j <= length (f a))%nat ->
  skipn (length (flat_map f (firstn i l)) + j) (flat_map f l) = skipn j (f a) ++ flat_map f (skipn (S i) l).
Proof.
  intros H L. rewrite (flat_split l i a H).
  rewrite skipn_app. replace (length (flat_map f (firstn i l)) + j - length (flat_map f (firstn i l)))%nat with j by lia.
  rewrite (skipn_all2 (flat_map f (firstn i l))) by lia. cbn [app].
  rewrite skipn_app. replace (j - length (f a))%nat with 0%nat by lia. reflexivity.
Qed.
Lemma flat_firstn_mono l i i' : (i <= i')%nat ->
  (length (flat_map f (firstn i l)) <= length (flat_map f (firstn i' l)))%nat.
Proof.
  intro H. replace (firstn i l) with (firstn i (firstn i' l)) by (rewrite firstn_firstn; f_equal; lia).
  apply flat_map_length_firstn_le.
Qed.
Lemma flat_firstn_all l i : (length l <= i)%nat -> flat_map f (firstn i l) = flat_map f l.
Proof. intro. rewrite firstn_all2 by assumption. reflexivity. Qed.
End Flat.

Lemma fold_len_flat (f : positive -> list positive) l : forall a,
  fold_left (fun acc b => acc + zlen (f b)) l a = a + zlen (flat_map f l).
Proof.
  induction l as [|x r IH]; intro a; cbn [fold_left flat_map]; [rewrite zlen_nil; lia|].
  rewrite IH, zlen_app. lia.
Qed.

(* ---------- position sums ---------- *)
Definition padd (tk : tokmap) (p : pos) (t : positive) : pos := pos_iadd p (tsz tk t).

Lemma scan_fst tk ts : forall i sz l, fst (sizes_scan tk i ts sz l) = fold_left (padd tk) ts sz.
Proof. induction ts as [|x r IH]; intros; cbn [sizes_scan fold_left]; [reflexivity|]. apply IH. Qed.

Lemma fold_padd_line tk ts : forall p, (forall t, 0 <= line (tsz tk t)) -> 0 <= line p ->
  0 <= line (fold_left (padd tk) ts p).
Proof.
  induction ts as [|x r IH]; intros p H Hp; cbn [fold_left]; [assumption|].
  apply IH; [assumption|]. unfold padd, pos_iadd. cbn [line]. specialize (H x). lia.
Qed.

Lemma fold_padd_shift tk ts : forall p q, (forall t, 0 <= line (tsz tk t)) -> 0 <= line q ->
  fold_left (padd tk) ts (pos_iadd p q) = pos_iadd p (fold_left (padd tk) ts q).
Proof.
  induction ts as [|x r IH]; intros p q H Hq; cbn [fold_left]; [reflexivity|].
  unfold padd at 2 4. rewrite <- pos_iadd_assoc by auto. apply IH; [assumption|].
  unfold pos_iadd. cbn [line]. specialize (H x). lia.
Qed.

Lemma fold_padd_text s ts : (forall t, tsz (s_toks s) t = token_size (txt s t)) -> forall x,
  fold_left (padd (s_toks s)) ts (token_size x) = token_size (x ++ concat (map (txt s) ts)).
Proof.
  intro H. induction ts as [|t r IH]; intro x; cbn [fold_left map concat]; [rewrite app_nil_r; reflexivity|].
  unfold padd at 2. rewrite H, <- token_size_app, IH, app_assoc. reflexivity.
Qed.

Definition prefix_text (s : store) (k : nat) : str := concat (map (txt s) (firstn k (abs s))).

(* ---------- located tokens ---------- *)
Lemma locate_inv s k t : Inv0 s -> nth_error (abs s) k = Some t ->
  exists i b j, nth_error (s_blocks s) i = Some b /\ nth_error (toks s b) j = Some t /\
    k = (length (flat_map (toks s) (firstn i (s_blocks s))) + j)%nat /\
    hnd s t = Some (b, Z.of_nat j) /\ bidx s b = Z.of_nat i.
Proof.
  intros I H. apply abs_locate in H as (i & b & j & Hb & Ht & Hk).
  exists i, b, j. repeat split; auto.
  - apply (g_ok _ _ I b); [eapply nth_error_In; eassumption|tauto|assumption].
  - apply (g_idx _ _ I); assumption.
Qed.

Lemma inv_block_nonempty s i b : Inv0 s -> nth_error (s_blocks s) i = Some b -> (2 <= length (s_blocks s))%nat ->
  toks s b <> [].
Proof.
  intros I H L E. assert (In b (s_blocks s)) as Hin by (eapply nth_error_In; eassumption).
  destruct (g_ok _ _ I b Hin) as [_ Hne]; [tauto|]. rewrite (Hne E) in L. cbn in L. lia.
Qed.

Lemma rev_cons_inv {A} (l : list A) x r : rev l = x :: r -> l = rev r ++ [x].
Proof. intro H. rewrite <- (rev_involutive l), H. reflexivity. Qed.

Section Obs.
Variable LF : Z.
Variable s : store.
Hypothesis I : Inv0 s.

Lemma obs_index k t : nth_error (abs s) k = Some t -> get_index s t = Ok (Z.of_nat k).
Proof.
  intro H. destruct (locate_inv s k t I H) as (i & b & j & Hb & Ht & -> & Hh & Hi).
  unfold get_index. rewrite check_handle_hnd, Hh. fold (bidx s b). rewrite Hi, zfirstn_nat.
  change (fun acc b0 => acc + zlen (b_toks (bget (s_heap s) b0))) with (fun acc b0 => acc + zlen (toks s b0)).
  rewrite fold_len_flat. f_equal. unfold zlen. lia.
Qed.

Lemma obs_prev k t : nth_error (abs s) k = Some t ->
  get_prev s t = Ok (match k with O => None | S k' => nth_error (abs s) k' end).
Proof.
  intro H. destruct (locate_inv s k t I H) as (i & b & j & Hb & Ht & -> & Hh & Hi).
  unfold get_prev. rewrite check_handle_hnd, Hh. fold (bidx s b) (toks s b). rewrite Hi.
  destruct j as [|j].
  - cbn [Z.of_nat Z.eqb negb]. destruct i as [|i].
    + cbn. reflexivity.
    + destruct (Z.eqb_spec (Z.of_nat (S i)) 0); [lia|]. cbn [negb].
      replace (Z.of_nat (S i) - 1) with (Z.of_nat i) by lia.
      assert (i < length (s_blocks s))%nat as Li by (apply nth_error_in_len in Hb; lia).
      rewrite py_nth_nat by assumption.
      destruct (nth_error (s_blocks s) i) as [p|] eqn:Hp; [|apply nth_error_None in Hp; lia].
      fold (toks s p).
      assert (toks s p <> []) as Hne by (apply (inv_block_nonempty s i p I Hp); apply nth_error_in_len in Hb; lia).
      destruct (rev (toks s p)) as [|x r] eqn:Er.
      * exfalso. apply Hne. rewrite <- (rev_involutive (toks s p)), Er. reflexivity.
      * apply rev_cons_inv in Er. rewrite (flat_firstn_S _ _ i p Hp), Er, !app_length. cbn [length].
        replace (length (flat_map (toks s) (firstn i (s_blocks s))) + (length (rev r) + 1) + 0)%nat
          with (S (length (flat_map (toks s) (firstn i (s_blocks s))) + length (rev r))) by lia.
        f_equal. symmetry. apply abs_locate. exists i, p, (length (rev r)). repeat split; auto.
        rewrite Er. apply nth_error_app_mid.
  - destruct (Z.eqb_spec (Z.of_nat (S j)) 0); [lia|]. cbn [negb].
    replace (Z.of_nat (S j) - 1) with (Z.of_nat j) by lia.
    assert (j < length (toks s b))%nat as Lj by (apply nth_error_in_len in Ht; lia).
    rewrite py_nth_nat by assumption.
    destruct (nth_error (toks s b) j) as [x|] eqn:Hx; [|apply nth_error_None in Hx; lia].
    rewrite Nat.add_succ_r. f_equal. symmetry. apply abs_locate. exists i, b, j. auto.
Qed.

Lemma obs_next k t : nth_error (abs s) k = Some t -> get_next s t = Ok (nth_error (abs s) (S k)).
Proof.
  intro H. destruct (locate_inv s k t I H) as (i & b & j & Hb & Ht & -> & Hh & Hi).
  unfold get_next. rewrite check_handle_hnd, Hh. fold (bidx s b) (toks s b). rewrite Hi.
  pose proof (nth_error_in_len _ _ _ Ht) as Lj. pose proof (nth_error_in_len _ _ _ Hb) as Li.
  unfold zlen. destruct (Z.ltb_spec (Z.of_nat j + 1) (Z.of_nat (length (toks s b)))) as [L|L].
  - replace (Z.of_nat j + 1) with (Z.of_nat (S j)) by lia. rewrite py_nth_nat by lia.
    destruct (nth_error (toks s b) (S j)) as [x|] eqn:Hx; [|apply nth_error_None in Hx; lia].
    f_equal. symmetry. rewrite <- Nat.add_succ_r. apply abs_locate. exists i, b, (S j). auto.
  - assert (S j = length (toks s b)) as Ej by lia.
    destruct (Z.ltb_spec (Z.of_nat i + 1) (Z.of_nat (length (s_blocks s)))) as [L2|L2].
    + replace (Z.of_nat i + 1) with (Z.of_nat (S i)) by lia. rewrite py_nth_nat by lia.
      destruct (nth_error (s_blocks s) (S i)) as [n|] eqn:Hn; [|apply nth_error_None in Hn; lia].
      fold (toks s n).
      assert (toks s n <> []) as Hne by (apply (inv_block_nonempty s (S i) n I Hn); lia).
      destruct (toks s n) as [|x r] eqn:En; [contradiction|].
      f_equal. symmetry. apply abs_locate. exists (S i), n, 0%nat. rewrite En. repeat split; auto.
      rewrite (flat_firstn_S _ _ i b Hb), app_length. lia.
    + f_equal. symmetry. apply nth_error_None. unfold abs.
      rewrite <- (flat_firstn_all (toks s) (s_blocks s) (S i)) by lia.
      rewrite (flat_firstn_S _ _ i b Hb), app_length. lia.
Qed.

Lemma obs_first : get_first s = Ok (nth_error (abs s) 0).
Proof.
  unfold get_first, abs. destruct (s_blocks s) as [|b r] eqn:Eb; [exfalso; apply (g_ne _ _ I); assumption|].
  fold (toks s b). cbn [flat_map]. destruct (toks s b) as [|x q] eqn:Et; [|reflexivity].
  destruct (g_ok _ _ I b) as [_ Hne]; [rewrite Eb; apply in_eq|tauto|].
  rewrite Eb in Hne. specialize (Hne Et). injection Hne as ->. reflexivity.
Qed.

Lemma obs_last : get_last s = Ok (nth_error (abs s) (length (abs s) - 1)).
Proof.
  unfold get_last. destruct (s_blocks s) as [|b r] eqn:Eb; [exfalso; apply (g_ne _ _ I); assumption|].
  fold (toks s b). destruct (toks s b) as [|x q] eqn:Et.
  - destruct (g_ok _ _ I b) as [_ Hne]; [rewrite Eb; apply in_eq|tauto|].
    rewrite Eb in Hne. specialize (Hne Et). injection Hne as ->.
    unfold abs. rewrite Eb. cbn [flat_map]. rewrite Et. reflexivity.
  - rewrite <- Eb. destruct (rev (s_blocks s)) as [|l rl] eqn:Er.
    + exfalso. apply (g_ne _ _ I). rewrite <- (rev_involutive (s_blocks s)), Er. reflexivity.
    + apply rev_cons_inv in Er. fold (toks s l).
      assert (nth_error (s_blocks s) (length (rev rl)) = Some l) as Hl by (rewrite Er; apply nth_error_app_mid).
      assert (toks s l <> []) as Hne.
      { intro E. destruct (g_ok _ _ I l) as [_ Hn]; [eapply nth_error_In; eassumption|tauto|].
        specialize (Hn E). rewrite Eb in Hn. injection Hn as -> ->. congruence. }
      destruct (rev (toks s l)) as [|y ry] eqn:Ey.
      * exfalso. apply Hne. rewrite <- (rev_involutive (toks s l)), Ey. reflexivity.
      * apply rev_cons_inv in Ey. f_equal. symmetry. unfold abs. rewrite Er at 1 2.
        rewrite flat_map_app. cbn [flat_map]. rewrite app_nil_r, Ey, !app_length. cbn [length].
        rewrite app_assoc.
        replace (length (flat_map (toks s) (rev rl)) + (length (rev ry) + 1) - 1)%nat
          with (length (flat_map (toks s) (rev rl) ++ rev ry)) by (rewrite app_length; lia).
        apply nth_error_app_mid.
Qed.

Lemma obs_position k t : nth_error (abs s) k = Some t ->
  get_position s t = Ok (advance pos0 (prefix_text s k)).
Proof.
  intro H. destruct (locate_inv s k t I H) as (i & b & j & Hb & Ht & -> & Hh & Hi).
  unfold get_position. rewrite check_handle_hnd, Hh. fold (bidx s b) (toks s b). rewrite Hi, !zfirstn_nat.
  f_equal. rewrite advance_pos0. unfold prefix_text, abs.
  pose proof (nth_error_in_len _ _ _ Ht) as Lj.
  rewrite (flat_firstn_at (toks s) _ i b j Hb) by lia.
  assert (forall t0, 0 <= line (tsz (s_toks s) t0)) as Hnn by (intro; eapply tsz_line_nonneg; exact I).
  change (fun p t' => pos_iadd p (t_size (tget (s_toks s) t'))) with (padd (s_toks s)).
  rewrite <- (app_nil_l (concat _)), <- fold_padd_text by (apply (g_sz _ _ I)).
  rewrite fold_left_app. f_equal. change (token_size []) with pos0.
  (* the block sizes of the preceding blocks *)
  assert (forall l, (forall b0, In b0 l -> In b0 (s_blocks s)) -> forall p, 0 <= line p ->
            fold_left (fun p0 b0 => pos_iadd p0 (b_size (bget (s_heap s) b0))) l p
            = fold_left (padd (s_toks s)) (flat_map (toks s) l) p) as Hblocks.
  { induction l as [|x r IH]; intros Hin p Hp; cbn [fold_left flat_map]; [reflexivity|].
    destruct (g_ok _ _ I x) as [[_ Hc] _]; [apply Hin, in_eq|tauto|].
    apply (f_equal fst) in Hc. cbn [fst] in Hc. rewrite scan_fst in Hc. unfold bsz in Hc.
    rewrite <- Hc, fold_left_app. rewrite <- (pos_iadd_0_r p) at 2.
    rewrite fold_padd_shift by (auto; cbn; lia). apply IH.
    - intros; apply Hin, in_cons; assumption.
    - unfold pos_iadd; cbn [line]. pose proof (fold_padd_line (s_toks s) (toks s x) pos0 Hnn). cbn in H0. lia. }
  apply Hblocks; [|cbn; lia]. intros b0 Hb0. eapply in_firstn; eassumption.
Qed.

Lemma firstn_add_split {A} (l : list A) a m : firstn (a + m) l = firstn a l ++ firstn m (skipn a l).
Proof.
  revert l. induction a as [|a IH]; intro l; [reflexivity|]. destruct l as [|x r]; [cbn; destruct m; reflexivity|].
  cbn. f_equal. apply IH.
Qed.

Lemma obs_range k1 k2 a b : nth_error (abs s) k1 = Some a -> nth_error (abs s) k2 = Some b ->
  iter_range s a b = Ok (firstn (k2 + 1 - k1) (skipn k1 (abs s))).
Proof.
  intros Ha Hb.
  destruct (locate_inv s k1 a I Ha) as (i1 & b1 & j1 & Hb1 & Ht1 & E1 & Hh1 & Hi1).
  destruct (locate_inv s k2 b I Hb) as (i2 & b2 & j2 & Hb2 & Ht2 & E2 & Hh2 & Hi2).
  pose proof (nth_error_in_len _ _ _ Ht1) as L1. pose proof (nth_error_in_len _ _ _ Ht2) as L2.
  unfold iter_range. rewrite !check_handle_hnd, Hh1, Hh2. fold (toks s b1) (toks s b2) (bidx s b1) (bidx s b2).
  rewrite Hi1, Hi2. subst k1 k2. unfold abs.
  rewrite (flat_skipn_at (toks s) _ i1 b1 j1 Hb1) by lia.
  destruct (Pos.eqb_spec b1 b2) as [<-|N].
  - assert (i1 = i2) as <-.
    { pose proof (g_nd _ _ I) as ND. rewrite NoDup_nth_error in ND. apply ND; [eapply nth_error_in_len; eassumption|congruence]. }
    f_equal. unfold zfirstn. replace (Z.to_nat (Z.of_nat j2 + 1 - Z.of_nat j1)) with (j2 + 1 - j1)%nat by lia.
    rewrite zskipn_nat, firstn_app.
    replace (length (flat_map (toks s) (firstn i1 (s_blocks s))) + j2 + 1
             - (length (flat_map (toks s) (firstn i1 (s_blocks s))) + j1))%nat with (j2 + 1 - j1)%nat by lia.
    rewrite skipn_length. replace (j2 + 1 - j1 - (length (toks s b1) - j1))%nat with 0%nat by lia.
    cbn [firstn]. rewrite app_nil_r. reflexivity.
  - destruct (Z.ltb_spec (Z.of_nat i2) (Z.of_nat i1)) as [G|G].
    + (* the start lies in a later block: nothing *)
      assert (i2 < i1)%nat as G' by lia.
      pose proof (flat_firstn_mono (toks s) (s_blocks s) (S i2) i1 G') as M.
      rewrite (flat_firstn_S _ _ i2 b2 Hb2), app_length in M.
      replace (length (flat_map (toks s) (firstn i2 (s_blocks s))) + j2 + 1
               - (length (flat_map (toks s) (firstn i1 (s_blocks s))) + j1))%nat with 0%nat by lia. reflexivity.
    + assert (i1 < i2)%nat as Lt.
      { destruct (Nat.lt_trichotomy i1 i2) as [?|[->|?]]; [assumption|congruence|lia]. }
      f_equal.
      set (m := (i2 - S i1)%nat). set (R := skipn (S i1) (s_blocks s)).
      assert (nth_error R m = Some b2) as Hm.
      { unfold R, m. rewrite nth_error_skipn_add. replace (S i1 + (i2 - S i1))%nat with i2 by lia. assumption. }
      replace (Z.of_nat i2 - (Z.of_nat i1 + 1)) with (Z.of_nat m) by lia.
      replace (Z.of_nat i1 + 1) with (Z.of_nat (S i1)) by lia.
      replace (Z.of_nat j2 + 1) with (Z.of_nat (S j2)) by lia.
      rewrite !zfirstn_nat, !zskipn_nat. fold R.
      assert (length (flat_map (toks s) (firstn i2 (s_blocks s)))
              = length (flat_map (toks s) (firstn i1 (s_blocks s))) + length (toks s b1)
                + length (flat_map (toks s) (firstn m R)))%nat as EF.
      { replace i2 with (S i1 + m)%nat at 1 by lia. rewrite firstn_add_split, flat_map_app, app_length.
        rewrite (flat_firstn_S _ _ i1 b1 Hb1), app_length. reflexivity. }
      replace (length (flat_map (toks s) (firstn i2 (s_blocks s))) + j2 + 1
               - (length (flat_map (toks s) (firstn i1 (s_blocks s))) + j1))%nat
        with (length (skipn j1 (toks s b1)) + (length (flat_map (toks s) (firstn m R)) + S j2))%nat
        by (rewrite skipn_length; lia).
      change (fun x => b_toks (bget (s_heap s) x)) with (toks s).
      rewrite firstn_app_2. apply (f_equal (app _)).
      rewrite (flat_firstn_at (toks s) R m b2 (S j2) Hm) by lia. reflexivity.
Qed.

End Obs.
