(* Proofs about the C05 well-formedness predicate (TreeWF.v): the checker is sound; clone and
   reattach produce well-formed trees from well-formed trees. *)
From AB Require Import Desc Tree TreeDefs TreeProofs TreeProofs2 TreeProofs3 TreeProofs4 TreeWF.
From Coq Require Import ZArith List Bool Lia.
Import ListNotations.
Open Scope list_scope.

(* ---- soundness of the checker ------------------------------------------------------------------- *)
Lemma tk_same_eq : forall a b, tk_same a b = true -> a = b.
Proof.
  intros [i r t] [i' r' t'] H. unfold tk_same in H. simpl in H.
  apply andb_true_iff in H. destruct H as [H1 H2]. apply Z.eqb_eq in H1.
  apply tk_eqb_true in H2. simpl in H2. destruct H2. subst. reflexivity.
Qed.

Lemma toks_same_eq : forall a b, toks_same a b = true -> a = b.
Proof. apply list_eqb_eq. exact tk_same_eq. Qed.

Lemma tk_in_In : forall t l, tk_in t l = true -> In t l.
Proof.
  intros t l H. unfold tk_in in H. apply existsb_exists in H. destruct H as (x & Hx & E).
  apply tk_same_eq in E. subst. exact Hx.
Qed.

Lemma nodupz_NoDup : forall l, nodupz l = true -> NoDup l.
Proof.
  induction l as [|x l IH]; simpl; intro H; [constructor|].
  apply andb_true_iff in H. destruct H as [H1 H2]. constructor; auto.
  intro Hin. apply negb_true_iff in H1.
  assert (existsb (Z.eqb x) l = true) by (apply existsb_exists; exists x; split; auto; apply Z.eqb_refl).
  congruence.
Qed.

Lemma span_of_sound : forall T u sp, span_of T u = Some sp -> placed T u sp.
Proof.
  intros T [|x u] sp H; simpl in H; try discriminate.
  destruct (find_off x T) as [a|]; try discriminate.
  destruct (toks_same (slice T a (a + S (length u))) (x :: u)) eqn:E; try discriminate.
  inversion H. subst sp. apply toks_same_eq in E. split; simpl; auto.
Qed.

Lemma spans_of_sound : forall T us sp, spans_of T us = Some sp -> Forall2 (placed T) us sp.
Proof.
  intros T us. induction us as [|u us IH]; simpl; intros sp H.
  - inversion H. constructor.
  - destruct (span_of T u) as [s|] eqn:Es; try discriminate.
    destruct (spans_of T us) as [l|]; try discriminate. inversion H. subst.
    constructor; auto. apply span_of_sound. exact Es.
Qed.

Lemma ordered_b_sound : forall T sp prev, ordered_b T prev sp = true -> ordered T prev sp.
Proof.
  intros T sp. induction sp as [|[a e] sp IH]; simpl; intros prev H; auto.
  apply andb_true_iff in H. destruct H as [H1 H2]. split; auto.
  rewrite forallb_forall in H1. exact H1.
Qed.

Lemma local_ok_b_sound : forall T us, local_ok_b T us = true -> local_ok T us.
Proof.
  intros T us H. unfold local_ok_b in H. destruct (spans_of T us) as [sp|] eqn:E; try discriminate.
  exists sp. split. apply spans_of_sound; exact E. apply ordered_b_sound; exact H.
Qed.

Lemma opt_tk_same_eq : forall a b, opt_tk_same a b = true -> a = Some b.
Proof.
  intros [[x|]|] [y|] H; simpl in H; try discriminate. apply tk_same_eq in H. subst. reflexivity.
Qed.

Lemma first_last_b_sound : forall cs u, first_last_b cs u = true -> first_last cs u.
Proof.
  intros cs u H. unfold first_last_b in H.
  apply andb_true_iff in H. destruct H as [Hne H]. split.
  - destruct (unit_toks u); [discriminate | intro E; discriminate].
  - apply orb_true_iff in H. destruct H as [H|H]; [left; exact H|right].
    apply andb_true_iff in H. destruct H as [H1 H2].
    exists (S (slot_depth depth (unit_slot u))). split; apply opt_tk_same_eq; assumption.
Qed.

Lemma unit_ok_b_sound : forall cs sid u, unit_ok_b cs sid u = true -> unit_ok cs sid u.
Proof.
  intros cs sid u H. unfold unit_ok_b in H.
  apply andb_true_iff in H. destruct H as [H Hl].
  apply andb_true_iff in H. destruct H as [Hs Hf].
  split; [|split].
  - destruct (unit_sid u) as [s|]; try discriminate. apply Z.eqb_eq in Hs. subst. reflexivity.
  - apply first_last_b_sound. exact Hf.
  - apply local_ok_b_sound. exact Hl.
Qed.

Theorem wf_b_sound : forall cs n, wf_b cs n = true -> WF cs n.
Proof.
  intros cs n H. unfold wf_b in H.
  apply andb_true_iff in H. destruct H as [H H5].
  apply andb_true_iff in H. destruct H as [H H4].
  apply andb_true_iff in H. destruct H as [H H3].
  apply andb_true_iff in H. destruct H as [H1 H2].
  rewrite forallb_forall in H2, H4, H5.
  split; [|split; [|split; [|split]]].
  - apply nodupz_NoDup. exact H1.
  - intros u Hu. apply unit_ok_b_sound. apply H2. exact Hu.
  - apply nodupz_NoDup. exact H3.
  - intros t Ht. apply tk_in_In. apply H4. exact Ht.
  - intros t Ht Hs. specialize (H5 t Ht). rewrite Hs in H5. simpl in H5. apply tk_in_In. exact H5.
Qed.

Lemma find_off_lt : forall x T a, find_off x T = Some a -> a < length T.
Proof.
  intros x T. induction T as [|y T IH]; simpl; intros a H; try discriminate.
  destruct (tk_same x y).
  - inversion H. lia.
  - destruct (find_off x T) as [b|]; try discriminate. inversion H. specialize (IH b eq_refl). lia.
Qed.

Lemma skipn_skipn' : forall {A} m n (l : list A), skipn n (skipn m l) = skipn (m + n) l.
Proof.
  intros A m. induction m as [|m IH]; intros n l; simpl; auto.
  destruct l as [|x l]; simpl; [destruct n; reflexivity | apply IH].
Qed.

Theorem whole_store_b_sound : forall n store, whole_store_b n store = true -> whole_store n store.
Proof.
  intros n store H. unfold whole_store_b in H.
  destruct (node_toks n) as [|x T] eqn:ET; try discriminate.
  destruct (find_off x store) as [a|] eqn:Ea; try discriminate.
  apply andb_true_iff in H. destruct H as [H Hpost].
  apply andb_true_iff in H. destruct H as [Hs Hpre].
  apply toks_same_eq in Hs. rewrite forallb_forall in Hpre, Hpost.
  remember (length (x :: T)) as L eqn:EL.
  exists (firstn a store), (skipn (a + L) store). unfold whole_store. repeat split; auto.
  rewrite ET. rewrite <- Hs. unfold slice.
  replace (a + L - a) with L by lia.
  rewrite <- (firstn_skipn a store) at 1. f_equal.
  rewrite <- (firstn_skipn L (skipn a store)) at 1. f_equal.
  rewrite skipn_skipn'. reflexivity.
Qed.

Lemma subunits_tree : forall c s t kids d,
  subunits (Tree c s t kids d) = UNode (Tree c s t kids d) :: kids_flat (slot_subunits subunits) kids.
Proof. reflexivity. Qed.

(* ---- a shape-preserving operation (clone, reattach) preserves WF -------------------------------- *)
Definition slot_nodes (sl : slot) : list node :=
  match sl with
  | SReq x => [x]
  | SOpt None => []
  | SOpt (Some x) => [x]
  | SRep _ _ _ items => items
  | SSeq items => items
  end.

Lemma conforms_slot_nodes : forall cs sl, slot_all (conforms cs) sl = true ->
  forall x, In x (slot_nodes sl) -> conforms cs x = true.
Proof.
  intros cs [x|[x|]|s t ph items|items] H y Hy; simpl in *;
    try (destruct Hy as [E|[]]; subst; exact H); try contradiction;
    rewrite forallb_forall in H; auto.
Qed.

Lemma slice_map : forall {A B} (f : A -> B) T a e, slice (map f T) a e = map f (slice T a e).
Proof. intros. unfold slice. rewrite skipn_map, firstn_map. reflexivity. Qed.

Lemma hd_error_map : forall {A B} (f : A -> B) l, hd_error (map f l) = option_map f (hd_error l).
Proof. intros A B f [|x l]; reflexivity. Qed.

Lemma NoDup_map_transfer : forall {A B C} (h : A -> B) (h' : A -> C) l,
  (forall x y, In x l -> In y l -> h' x = h' y -> h x = h y) ->
  NoDup (map h l) -> NoDup (map h' l).
Proof.
  intros A B C h h' l. induction l as [|x l IH]; simpl; intros Hinj Hnd; [constructor|].
  inversion Hnd as [|? ? Hni Hnd']. subst. constructor.
  - intro Hin. apply in_map_iff in Hin. destruct Hin as (y & E & Hy).
    apply Hni. rewrite <- (Hinj y x); auto. apply in_map. exact Hy.
  - apply IH; auto.
Qed.

Section OpWF.
Variable cs : classes_t.
Variable new : Z.
Variable op : node -> node.
Variable g : tk -> tk.

Definition slot_op (sl : slot) : slot :=
  match sl with
  | SReq x => SReq (op x)
  | SOpt None => SOpt None
  | SOpt (Some x) => SOpt (Some (op x))
  | SRep _ t ph items => SRep new (map g t) (g ph) (map op items)
  | SSeq items => SSeq (map op items)
  end.
Definition unit_op (u : unit) : unit :=
  match u with
  | UNode n => UNode (op n)
  | URep _ t ph items => URep new (map g t) (g ph) (map op items)
  end.
Definition unit_conf (u : unit) : Prop :=
  match u with
  | UNode n => conforms cs n = true
  | URep _ _ _ items => forallb (conforms cs) items = true
  end.

Hypothesis op_leaf : forall t, op (Leaf t) = Leaf (g t).
Hypothesis op_tree : forall c s T kids d, conforms cs (Tree c s T kids d) = true ->
  exists d', op (Tree c s T kids d) = Tree c new (map g T) (map_kids (fun _ sl => slot_op sl) kids) d'.
Hypothesis g_keeps : forall t, k_rule (g t) = k_rule t /\ k_text (g t) = k_text t.

Lemma op_toks : forall a, conforms cs a = true -> node_toks (op a) = map g (node_toks a).
Proof.
  intros [t|c s T kids d] H.
  - rewrite op_leaf. reflexivity.
  - destruct (op_tree _ _ _ _ _ H) as [d' E]. rewrite E. reflexivity.
Qed.

Lemma eval_chain_map : forall get get' ch,
  (forall n s, get' n s = option_map (option_map g) (get n s)) ->
  eval_chain get' ch = option_map g (eval_chain get ch).
Proof.
  intros get get' ch H. induction ch as [|[f s|f s] ch IH]; simpl; auto;
    rewrite H; destruct (get f s) as [[t|]|]; simpl; auto.
Qed.

Lemma slot_border_op : forall (b b' : node -> option tk) sd sl,
  (forall x, In x (slot_nodes sl) -> b' (op x) = option_map g (b x)) ->
  slot_border b' sd (slot_op sl) = option_map (option_map g) (slot_border b sd sl).
Proof.
  intros b b' sd [x|[x|]|s t ph items|items] H; simpl in *.
  - rewrite H by auto. destruct (b x); reflexivity.
  - rewrite H by auto. destruct (b x); reflexivity.
  - reflexivity.
  - destruct sd; auto. rewrite <- map_rev. destruct (rev items) as [|y r] eqn:Er; simpl; auto.
    rewrite H by (apply in_rev; rewrite Er; left; reflexivity). destruct (b y); reflexivity.
  - destruct sd.
    + destruct items as [|y r]; simpl; auto. rewrite H by (left; reflexivity). destruct (b y); reflexivity.
    + rewrite <- map_rev. destruct (rev items) as [|y r] eqn:Er; simpl; auto.
      rewrite H by (apply in_rev; rewrite Er; left; reflexivity). destruct (b y); reflexivity.
Qed.

Lemma op_border : forall fuel sd a, conforms cs a = true ->
  border cs fuel sd (op a) = option_map g (border cs fuel sd a).
Proof.
  induction fuel as [|fuel IH]; intros sd a H.
  - destruct a, (op _); reflexivity.
  - destruct a as [t|c s T kids d].
    + rewrite op_leaf. reflexivity.
    + destruct (op_tree _ _ _ _ _ H) as [d' E]. rewrite E, !border_tree.
      destruct (conforms_parts _ _ _ _ _ _ H) as (dd & Hc & _ & _ & _ & Hk). rewrite Hc.
      apply eval_chain_map. intros n s'. rewrite kid_map_kids.
      destruct (kid kids n) as [sl|] eqn:Ek; simpl; auto.
      apply slot_border_op. intros x Hx. apply IH.
      eapply conforms_slot_nodes; eauto. apply (Hk n). apply kid_In. exact Ek.
Qed.

Lemma op_leaves : forall a, conforms cs a = true -> leaves (op a) = map g (leaves a).
Proof.
  intros a.
  apply (node_ind2
    (fun a => conforms cs a = true -> leaves (op a) = map g (leaves a))
    (fun sl => slot_all (conforms cs) sl = true -> slot_leaves (slot_op sl) = map g (slot_leaves sl))); clear a.
  - intros t _. rewrite op_leaf. reflexivity.
  - intros c s T kids d IH H. destruct (op_tree _ _ _ _ _ H) as [d' E]. rewrite E, !leaves_tree.
    destruct (conforms_parts _ _ _ _ _ _ H) as (dd & _ & _ & _ & _ & Hk).
    apply (kids_flat_map slot_op (map g) slot_leaves kids); auto using map_app.
    intros k sl Hin. pose proof (Forall_kids_In _ _ _ _ IH Hin) as HQ. simpl in HQ.
    apply HQ. apply (Hk k). exact Hin.
  - intros n IH H. simpl in *. auto.
  - reflexivity.
  - intros n IH H. simpl in *. auto.
  - intros s t ph items IH H. simpl in *. f_equal.
    apply (flat_map_map_Forall _ _ (map g) (conforms cs)); auto. apply map_app.
  - intros items IH H. simpl in *.
    apply (flat_map_map_Forall _ _ (map g) (conforms cs)); auto. apply map_app.
Qed.

Lemma op_subunits : forall a, conforms cs a = true -> subunits (op a) = map unit_op (subunits a).
Proof.
  intros a.
  apply (node_ind2
    (fun a => conforms cs a = true -> subunits (op a) = map unit_op (subunits a))
    (fun sl => slot_all (conforms cs) sl = true ->
               slot_subunits subunits (slot_op sl) = map unit_op (slot_subunits subunits sl))); clear a.
  - intros t _. rewrite op_leaf. reflexivity.
  - intros c s T kids d IH H. destruct (op_tree _ _ _ _ _ H) as [d' E].
    rewrite subunits_tree. simpl map. rewrite E at 1. rewrite subunits_tree. rewrite <- E at 1.
    f_equal.
    destruct (conforms_parts _ _ _ _ _ _ H) as (dd & _ & _ & _ & _ & Hk).
    apply (kids_flat_map slot_op (map unit_op) (slot_subunits subunits) kids); auto using map_app.
    intros k sl Hin. pose proof (Forall_kids_In _ _ _ _ IH Hin) as HQ. simpl in HQ.
    apply HQ. apply (Hk k). exact Hin.
  - intros n IH H. simpl in *. auto.
  - reflexivity.
  - intros n IH H. simpl in *. auto.
  - intros s t ph items IH H. simpl in *. f_equal.
    apply (flat_map_map_Forall _ _ (map unit_op) (conforms cs)); auto. apply map_app.
  - intros items IH H. simpl in *.
    apply (flat_map_map_Forall _ _ (map unit_op) (conforms cs)); auto. apply map_app.
Qed.

Lemma subunits_conf : forall a, conforms cs a = true -> forall u, In u (subunits a) -> unit_conf u.
Proof.
  intros a.
  apply (node_ind2
    (fun a => conforms cs a = true -> forall u, In u (subunits a) -> unit_conf u)
    (fun sl => slot_all (conforms cs) sl = true ->
               forall u, In u (slot_subunits subunits sl) -> unit_conf u)); clear a.
  - intros t _ u [].
  - intros c s T kids d IH H u Hu. rewrite subunits_tree in Hu. destruct Hu as [E|Hu].
    + subst u. exact H.
    + destruct (conforms_parts _ _ _ _ _ _ H) as (dd & _ & _ & _ & _ & Hk).
      apply In_kids_flat in Hu. destruct Hu as (k & sl & Hin & Hu).
      pose proof (Forall_kids_In _ _ _ _ IH Hin) as HQ. simpl in HQ.
      apply (HQ (Hk k sl Hin)). exact Hu.
  - intros n IH H. simpl in *. auto.
  - intros _ u [].
  - intros n IH H. simpl in *. auto.
  - intros s t ph items IH H u Hu. simpl in H, Hu. destruct Hu as [E|Hu].
    + subst u. exact H.
    + apply in_flat_map in Hu. destruct Hu as (y & Hy & Hu).
      rewrite Forall_forall in IH. rewrite forallb_forall in H. apply (IH y Hy (H y Hy)). exact Hu.
  - intros items IH H u Hu. simpl in H, Hu.
    apply in_flat_map in Hu. destruct Hu as (y & Hy & Hu).
    rewrite Forall_forall in IH. rewrite forallb_forall in H. apply (IH y Hy (H y Hy)). exact Hu.
Qed.

(* ---- one unit ------------------------------------------------------------------------------------ *)
Lemma unit_toks_op : forall u, unit_conf u -> unit_toks (unit_op u) = map g (unit_toks u).
Proof. intros [n|s t ph items] H; simpl; auto. apply op_toks. exact H. Qed.

Lemma map_node_toks_op : forall items, forallb (conforms cs) items = true ->
  map node_toks (map op items) = map (map g) (map node_toks items).
Proof.
  intros items H. rewrite !map_map. apply map_ext_in. intros x Hx. apply op_toks.
  rewrite forallb_forall in H. auto.
Qed.

Lemma slot_units_op : forall sl, slot_all (conforms cs) sl = true ->
  slot_units (slot_op sl) = map (map g) (slot_units sl).
Proof.
  intros [x|[x|]|s t ph items|items] H; simpl in *; auto.
  - rewrite op_toks by assumption. reflexivity.
  - rewrite op_toks by assumption. reflexivity.
  - apply map_node_toks_op. exact H.
Qed.

Lemma unit_children_op : forall u, unit_conf u ->
  unit_children (unit_op u) = map (map g) (unit_children u).
Proof.
  intros [[t|c s T kids d]|s t ph items] H.
  - simpl. rewrite op_leaf. reflexivity.
  - destruct (op_tree c s T kids d H) as [d' E]. simpl. rewrite E. unfold kids_units.
    destruct (conforms_parts _ _ _ _ _ _ H) as (dd & _ & _ & _ & _ & Hk).
    apply (kids_flat_map slot_op (map (map g)) slot_units kids); auto using map_app.
    intros k sl Hin. apply slot_units_op. apply (Hk k). exact Hin.
  - simpl. f_equal. apply map_node_toks_op. exact H.
Qed.

Lemma unit_slot_op : forall u, unit_slot (unit_op u) = slot_op (unit_slot u).
Proof. intros [n|s t ph items]; reflexivity. Qed.

Lemma exempt_op : forall u, unit_conf u -> exempt (unit_op u) = exempt u.
Proof.
  intros [[t|c s T kids d]|s t ph items] H.
  - simpl. rewrite op_leaf. reflexivity.
  - destruct (op_tree c s T kids d H) as [d' E]. simpl. rewrite E. reflexivity.
  - reflexivity.
Qed.

Lemma unit_sid_op : forall u s, unit_conf u -> unit_sid u = Some s -> unit_sid (unit_op u) = Some new.
Proof.
  intros [[t|c s0 T kids d]|s0 t ph items] s H Hs.
  - discriminate.
  - destruct (op_tree c s0 T kids d H) as [d' E]. simpl. rewrite E. reflexivity.
  - reflexivity.
Qed.

Lemma invisible_g : forall t, invisible (g t) = invisible t.
Proof. intro t. unfold invisible. rewrite (proj2 (g_keeps t)). reflexivity. Qed.

Lemma significant_g : forall t, significant (g t) = significant t.
Proof. intro t. unfold significant. rewrite invisible_g, (proj1 (g_keeps t)). reflexivity. Qed.

Lemma ordered_map : forall T sp prev, ordered T prev sp -> ordered (map g T) prev sp.
Proof.
  intros T sp. induction sp as [|[a e] sp IH]; simpl; intros prev H; auto.
  destruct H as [H1 H2]. split; auto.
  intros t Ht. rewrite slice_map in Ht. apply in_map_iff in Ht. destruct Ht as (t0 & E & Ht0).
  subst t. rewrite invisible_g. auto.
Qed.

Lemma local_ok_map : forall T us, local_ok T us -> local_ok (map g T) (map (map g) us).
Proof.
  intros T us (sp & Hp & Ho). exists sp. split; [|apply ordered_map; exact Ho].
  clear Ho. induction Hp as [|u s us sp [H1 H2] Hp IH]; simpl; constructor; auto.
  split.
  - rewrite slice_map, H1. reflexivity.
  - rewrite map_length. exact H2.
Qed.

Lemma unit_slot_nodes_conf : forall u, unit_conf u ->
  forall x, In x (slot_nodes (unit_slot u)) -> conforms cs x = true.
Proof.
  intros [n|s t ph items] H x Hx; simpl in *.
  - destruct Hx as [E|[]]. subst. exact H.
  - rewrite forallb_forall in H. auto.
Qed.

Lemma first_last_op : forall u, unit_conf u -> first_last cs u -> first_last cs (unit_op u).
Proof.
  intros u Hc [Hne Hfl]. split.
  - rewrite unit_toks_op by assumption. intro E. apply map_eq_nil in E. auto.
  - destruct Hfl as [He|(fuel & Hf & Hl)]; [left; rewrite exempt_op; assumption|right].
    exists fuel. rewrite unit_slot_op, unit_toks_op by assumption.
    rewrite (slot_border_op (border cs fuel SFirst) (border cs fuel SFirst)),
            (slot_border_op (border cs fuel SLast) (border cs fuel SLast)).
    + rewrite Hf, Hl. simpl. rewrite <- map_rev, !hd_error_map. auto.
    + intros x Hx. apply op_border. eapply unit_slot_nodes_conf; eauto.
    + intros x Hx. apply op_border. eapply unit_slot_nodes_conf; eauto.
Qed.

Lemma unit_ok_op : forall s u, unit_conf u -> unit_ok cs s u -> unit_ok cs new (unit_op u).
Proof.
  intros s u Hc (Hs & Hfl & Hl). split; [|split].
  - eapply unit_sid_op; eauto.
  - apply first_last_op; assumption.
  - rewrite unit_toks_op, unit_children_op by assumption. apply local_ok_map. exact Hl.
Qed.

(* ---- the whole tree ------------------------------------------------------------------------------ *)
Theorem op_WF : forall a, conforms cs a = true ->
  (forall t t', In t (node_toks a) -> In t' (node_toks a) -> k_id (g t) = k_id (g t') -> k_id t = k_id t') ->
  WF cs a -> WF cs (op a).
Proof.
  intros a Hc Hinj (H1 & H2 & H3 & H4 & H5).
  unfold WF. rewrite (op_toks a Hc), (op_leaves a Hc), (op_subunits a Hc). unfold ids in *.
  split; [|split; [|split; [|split]]].
  - rewrite map_map. apply (NoDup_map_transfer k_id); auto.
  - intros u' Hu'. apply in_map_iff in Hu'. destruct Hu' as (u & E & Hu). subst u'.
    assert (Hsid : root_sid (op a) = new).
    { destruct a as [t|c s T kids d]; [destruct Hu|].
      destruct (op_tree _ _ _ _ _ Hc) as [d' E]. rewrite E. reflexivity. }
    rewrite Hsid. eapply unit_ok_op; eauto. eapply subunits_conf; eauto.
  - rewrite map_map. apply (NoDup_map_transfer k_id); auto.
  - intros t Ht. apply in_map_iff in Ht. destruct Ht as (t0 & E & Ht0). subst t.
    apply in_map. auto.
  - intros t Ht Hs. apply in_map_iff in Ht. destruct Ht as (t0 & E & Ht0). subst t.
    rewrite significant_g in Hs. apply in_map. auto.
Qed.
End OpWF.

(* ---- instances: clone and reattach --------------------------------------------------------------- *)
Theorem clone_WF : forall cs new f, classes_ok cs ->
  (forall t, k_rule (f t) = k_rule t /\ k_text (f t) = k_text t) ->
  forall a, conforms cs a = true ->
  (forall t t', In t (node_toks a) -> In t' (node_toks a) -> k_id (f t) = k_id (f t') -> k_id t = k_id t') ->
  WF cs a -> WF cs (clone cs new f a).
Proof.
  intros cs new f Hok Hkeep a Hc Hinj Hwf.
  apply (op_WF cs new (clone cs new f) f); auto.
  intros c s T kids d H.
  destruct (conforms_parts _ _ _ _ _ _ H) as (dd & Hf & _ & Hkeys & _).
  destruct (classes_ok_find _ _ _ Hok Hf) as [Hcl _ _ _ _ _ _ _ _].
  rewrite clone_tree, Hf. rewrite kids_clone_all by (rewrite Hcl; exact Hkeys).
  eexists. reflexivity.
Qed.

Theorem reattach_WF : forall cs new, classes_ok cs ->
  forall a, conforms cs a = true -> WF cs a -> WF cs (reattach cs new a).
Proof.
  intros cs new Hok a Hc Hwf.
  apply (op_WF cs new (reattach cs new) (fun t => t)); auto.
  intros c s T kids d H.
  destruct (conforms_parts _ _ _ _ _ _ H) as (dd & Hf & _ & Hkeys & _).
  destruct (classes_ok_find _ _ _ Hok Hf) as [_ _ Hre Hst _ _ _ _ _].
  rewrite reattach_tree, Hf, Hst, kids_reattach_map. exists d. rewrite map_id. f_equal.
  unfold map_kids. apply map_ext_in. intros [k sl] Hin. simpl.
  assert (Hm : mem k (c_reattach dd) = true).
  { apply mem_In. rewrite Hre. apply Hkeys. change k with (fst (k, sl)). apply in_map. exact Hin. }
  rewrite Hm. f_equal. destruct sl as [x|[x|]|s' t ph items|items]; simpl; rewrite ?map_id; reflexivity.
Qed.

(* ---- consequences of WF --------------------------------------------------------------------------- *)
Lemma sids_subunits : forall a s, In s (sids a) -> exists u, In u (subunits a) /\ unit_sid u = Some s.
Proof.
  intros a.
  apply (node_ind2
    (fun a => forall s, In s (sids a) -> exists u, In u (subunits a) /\ unit_sid u = Some s)
    (fun sl => forall s, In s (slot_sids sl) ->
               exists u, In u (slot_subunits subunits sl) /\ unit_sid u = Some s)); clear a.
  - intros t s [].
  - intros c s0 T kids d IH s Hs. rewrite sids_tree in Hs. rewrite subunits_tree.
    destruct Hs as [E|Hs].
    + subst. exists (UNode (Tree c s T kids d)). split; [left; reflexivity | reflexivity].
    + apply In_kids_flat in Hs. destruct Hs as (k & sl & Hin & Hs).
      pose proof (Forall_kids_In _ _ _ _ IH Hin) as HQ. simpl in HQ.
      destruct (HQ s Hs) as (u & Hu & E). exists u. split; auto. right.
      apply In_kids_flat. eauto.
  - intros n IH s Hs. simpl in *. auto.
  - intros s [].
  - intros n IH s Hs. simpl in *. auto.
  - intros s0 t ph items IH s Hs. simpl in Hs. destruct Hs as [E|Hs].
    + subst. exists (URep s t ph items). split; [left; reflexivity | reflexivity].
    + apply in_flat_map in Hs. destruct Hs as (y & Hy & Hs). rewrite Forall_forall in IH.
      destruct (IH y Hy s Hs) as (u & Hu & E). exists u. split; auto. right.
      apply in_flat_map. eauto.
  - intros items IH s Hs. simpl in Hs.
    apply in_flat_map in Hs. destruct Hs as (y & Hy & Hs). rewrite Forall_forall in IH.
    destruct (IH y Hy s Hs) as (u & Hu & E). exists u. split; auto.
    apply in_flat_map. eauto.
Qed.

(* (1) every model reachable from the root lives in the root's store *)
Theorem WF_sids : forall cs a, WF cs a -> forall s, In s (sids a) -> s = root_sid a.
Proof.
  intros cs a (_ & H2 & _) s Hs. destruct (sids_subunits a s Hs) as (u & Hu & E).
  destruct (H2 u Hu) as (E' & _). rewrite E in E'. inversion E'. reflexivity.
Qed.

Lemma text_of_app : forall a b, text_of (a ++ b) = String.append (text_of a) (text_of b).
Proof.
  intros a b. unfold text_of. induction a as [|x a IH]; simpl; auto.
  rewrite IH. clear IH. generalize (fold_right String.append EmptyString (map k_text a)).
  generalize (fold_right String.append EmptyString (map k_text b)). intros s2 s1.
  induction (k_text x) as [|ch s IH]; simpl; auto. rewrite IH. reflexivity.
Qed.

Lemma text_of_invisible : forall l, (forall t, In t l -> invisible t = true) -> text_of l = EmptyString.
Proof.
  induction l as [|x l IH]; intro H; auto. unfold text_of in *. simpl.
  rewrite IH by (intros t Ht; apply H; right; exact Ht).
  specialize (H x (or_introl eq_refl)). unfold invisible in H. destruct (k_text x); [reflexivity|discriminate].
Qed.

Lemma append_empty_r : forall s, String.append s EmptyString = s.
Proof. induction s; simpl; auto. rewrite IHs. reflexivity. Qed.

(* a self-contained tree prints exactly the text of its store *)
Theorem whole_store_text : forall n store, whole_store n store -> text_of store = text_of (node_toks n).
Proof.
  intros n store (pre & post & E & Hpre & Hpost). subst store.
  rewrite !text_of_app, (text_of_invisible pre Hpre), (text_of_invisible post Hpost).
  simpl. apply append_empty_r.
Qed.
