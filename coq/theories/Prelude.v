(* L0: shared definitions. Strings are lists of code points (Z); Python ints are Z. *)
From Coq Require Export ZArith List Bool Lia PeanoNat.
Export ListNotations.
Open Scope Z_scope.

Definition str := list Z.
Definition NL : Z := 10.
Definition CR : Z := 13.

(* Python exception classes observed by the harness (never messages). *)
Inductive exn := ValueError | IndexError | KeyError | AssertionError | TypeError
               | NotImplementedErr | OutOfFuel | ModelStuck.
Inductive res (A : Type) := Ok (a : A) | Err (e : exn).
Arguments Ok {A} a.
Arguments Err {A} e.

Definition exn_eqb (a b : exn) : bool :=
  match a, b with
  | ValueError, ValueError | IndexError, IndexError | KeyError, KeyError
  | AssertionError, AssertionError | TypeError, TypeError
  | NotImplementedErr, NotImplementedErr | OutOfFuel, OutOfFuel | ModelStuck, ModelStuck => true
  | _, _ => false
  end.

(* token_store.Position and Position.__iadd__ *)
Record pos := mkpos { line : Z; col : Z }.
Definition pos0 := mkpos 0 0.
Definition pos_iadd (a b : pos) : pos :=
  mkpos (line a + line b) (if line b =? 0 then col a + col b else col b).
Definition pos_eqb (a b : pos) := (line a =? line b) && (col a =? col b).

(* _token_size: Position(line = text.count('\n'), column = len(text) - text.rfind('\n') - 1) *)
Fixpoint count_nl (s : str) : Z :=
  match s with [] => 0 | c :: r => (if c =? NL then 1 else 0) + count_nl r end.
(* str.rfind('\n'): index of the last newline, -1 when there is none *)
Fixpoint rfind_nl_from (i : Z) (s : str) (last : Z) : Z :=
  match s with [] => last | c :: r => rfind_nl_from (i + 1) r (if c =? NL then i else last) end.
Definition rfind_nl (s : str) : Z := rfind_nl_from 0 s (-1).
Definition token_size (s : str) : pos :=
  mkpos (count_nl s) (Z.of_nat (length s) - rfind_nl s - 1).

(* the (line, column) reached after reading s from position p: the meaning of "position in text" *)
Definition advance1 (p : pos) (c : Z) : pos :=
  if c =? NL then mkpos (line p + 1) 0 else mkpos (line p) (col p + 1).
Definition advance (p : pos) (s : str) : pos := fold_left advance1 s p.

Fixpoint list_eqb {A} (eqb : A -> A -> bool) (a b : list A) : bool :=
  match a, b with
  | [], [] => true
  | x :: a', y :: b' => eqb x y && list_eqb eqb a' b'
  | _, _ => false
  end.

Definition opt_eqb {A} (eqb : A -> A -> bool) (a b : option A) : bool :=
  match a, b with Some x, Some y => eqb x y | None, None => true | _, _ => false end.

(* Python list indexing l[i] with negative wrap; None = IndexError *)
Definition py_nth {A} (l : list A) (i : Z) : option A :=
  let n := Z.of_nat (length l) in
  if (0 <=? i) && (i <? n) then nth_error l (Z.to_nat i)
  else if (i <? 0) && (0 <=? i + n) then nth_error l (Z.to_nat (i + n))
  else None.

(* Python slice l[a:b] for 0 <= a, arbitrary b >= 0 clamps *)
Definition zfirstn {A} (n : Z) (l : list A) := firstn (Z.to_nat n) l.
Definition zskipn {A} (n : Z) (l : list A) := skipn (Z.to_nat n) l.
Definition zlen {A} (l : list A) : Z := Z.of_nat (length l).

(* indices of failing cases, for correspondence files *)
Fixpoint bad_cases_from {A} (chk : A -> bool) (i : nat) (l : list A) : list nat :=
  match l with [] => [] | x :: r => if chk x then bad_cases_from chk (S i) r else i :: bad_cases_from chk (S i) r end.
Definition bad_cases {A} (chk : A -> bool) (l : list A) := bad_cases_from chk 0%nat l.
