"""C18 - children created from values are indented by the documented rule.

Model: coq/theories/Indent.v (proofs IndentProofs.v, statements properties/C18.v, glue IndentRun.v).
Ledgers come from the generator in c17.py.
"""
from __future__ import annotations

import copy
import datetime
import decimal
import json
import re

from harness import common, c17

PREAMBLE = 'From AB Require Import Prelude Indent IndentRun.'
INDENT_BYS = ['    ', '  ', '\t', '', ' \t', '        ', ' ', '\t\t']
NEW_KEYS = ['n0', 'n1', 'n2', 'zz']
LINE_SPLIT = re.compile(r'\r?\n')


def ind(line: str) -> str:
    return line[:len(line) - len(line.lstrip(' \t'))]


def lines_of(text: str) -> list[str]:
    return LINE_SPLIT.split(text)


def frame(lines_b: list[str], lines_a: list[str], n_removed: int, new_lines: list[str]):
    """Position p such that lines_a is lines_b with n_removed lines at p replaced by new_lines and the
    indentation of every other line unchanged; None when there is none."""
    n_added = len(new_lines)
    if len(lines_a) - n_added != len(lines_b) - n_removed:
        return None
    ib, ia = [ind(x) for x in lines_b], [ind(x) for x in lines_a]
    for p in range(len(lines_a) - n_added + 1):
        if lines_a[p:p + n_added] == new_lines and ib[:p] == ia[:p] and ib[p + n_removed:] == ia[p + n_added:]:
            return p
    return None


class DocRun:
    def __init__(self, text: str, ops: list[list]):
        self.text, self.ops = text, ops
        self.cases: list[str] = []
        self.comment_cases: list[str] = []
        self.fails: list[dict] = []
        self.stats: dict[str, int] = {}
        self.keys: dict[str, int] = {}

    def fail(self, sig, what, k):
        self.fails.append({'sig': sig, 'what': what, 'witness': {'text': self.text, 'ops': self.ops[:k]}})

    def stat(self, key):
        self.stats[key] = self.stats.get(key, 0) + 1

    def key_id(self, k: str) -> int:
        return self.keys.setdefault(k, len(self.keys) + 1)

    def printed(self) -> str:
        return ''.join(t.raw_text for t in self.store)

    def items_of(self, parent):
        _, models, *_ = c17.impl()
        out = []
        for it in parent.raw_meta_with_comments:
            if isinstance(it, models.MetaItem):
                out.append(('M', it.indent, it.key))
            else:
                out.append(('C', it.indent, None))
        return out

    def coq_items(self, items) -> str:
        return common.coq_list(
            f'M {common.coq_str(i)} {self.key_id(k)}' if t == 'M' else f'C {common.coq_str(i)}' for t, i, k in items)

    def parent_indent(self, parent):
        _, models, *_ = c17.impl()
        return parent.indent if isinstance(parent, models.Posting) else None

    def coq_optstr(self, s):
        return common.coq_opt(common.coq_str(s) if s is not None else None)

    def run(self):
        _, models, base, *_ = c17.impl()
        from autobean_refactor.models import block_comment
        f = c17.parse_file(self.text)
        self.store = f.token_store
        allm = c17.walk(f)
        self.parents = [m for m in allm if hasattr(type(m), 'raw_meta_with_comments')]
        self.owners = [m for m in allm if isinstance(m, (models.Posting, models.MetaItem))]
        if not self.parents:
            return self
        for k, op in enumerate(self.ops, 1):
            kind = op[0]
            text_b = self.printed()
            lines_b = lines_of(text_b)
            if kind == 'indent_by':
                parent = self.parents[op[1] % len(self.parents)]
                parent.indent_by = op[2]
                if self.printed() != text_b:
                    self.fail('C18:frame', 'assigning indent_by changed the text', k)
                continue
            if kind in ('set', 'append', 'append_comment', 'insert'):
                parent = self.parents[op[1] % len(self.parents)]
                items = self.items_of(parent)
                pind, by = self.parent_indent(parent), parent.indent_by
                metas = [x for x in items if x[0] == 'M']
                new_lines, n_removed, expect = [], 0, None
                try:
                    if kind == 'set':
                        key = op[2]
                        value = {'s': 'v', 'd': decimal.Decimal(3), 'n': None}[op[3]]
                        existing = any(x[2] == key for x in metas)
                        parent.meta[key] = value
                        coq_op = f'(OSetItem {self.key_id(key)})'
                        if not existing:
                            if metas and len({x[1] for x in metas}) == 1:
                                expect = metas[0][1]
                                self.stat('rule=shared')
                            elif not metas:
                                expect = (pind or '') + by
                                self.stat('rule=default' + ('/posting' if pind is not None else '/entry'))
                            else:
                                self.stat('rule=siblings-disagree')
                            created = [it for it in parent.raw_meta if it.key == key][-1]
                            new_lines = lines_of(''.join(t.raw_text for t in created.tokens))
                            if expect is not None and (created.indent != expect or not new_lines[0].startswith(
                                    expect + key + ':')):
                                self.fail('C18:meta-indent', f'{type(parent).__name__}.meta[{key!r}] created a line '
                                          f'{new_lines[0]!r}; expected indent {expect!r} (siblings '
                                          f'{[x[1] for x in metas]!r}, parent indent {pind!r}, indent_by {by!r})', k)
                        else:
                            self.stat('rule=existing-key')
                            # the value may change the text of that line, not its indentation
                    elif kind == 'append':
                        key, indent = op[2], op[3]
                        node = models.MetaItem.from_value(key, 'v', indent=indent)
                        parent.raw_meta.append(node)
                        coq_op = f'(OAppendRaw (M {common.coq_str(indent)} {self.key_id(key)}))'
                        new_lines = [f'{indent}{key}: "v"']
                        self.stat('rule=raw')
                    elif kind == 'append_comment':
                        indent = op[2]
                        node = models.BlockComment.from_value('raw c', indent=indent)
                        parent.raw_meta_with_comments.append(node)
                        coq_op = f'(OAppendRaw (C {common.coq_str(indent)}))'
                        new_lines = [f'{indent}; raw c']
                        self.stat('rule=raw')
                    else:
                        index, key, indent = op[2], op[3], op[4]
                        node = models.MetaItem.from_value(key, 'v', indent=indent)
                        parent.raw_meta.insert(index, node)
                        coq_op = f'(OInsertRaw {common.coq_z(index)} (M {common.coq_str(indent)} {self.key_id(key)}))'
                        new_lines = [f'{indent}{key}: "v"']
                        self.stat('rule=raw')
                except Exception as e:   # no route modelled here raises
                    self.fail('C18:unexpected-exception', f'{kind} raised {type(e).__name__}: {e}', k)
                    break
                items2 = self.items_of(parent)
                self.cases.append(
                    f'mkicase {self.coq_optstr(pind)} {common.coq_str(by)} {self.coq_items(items)} {coq_op} '
                    f'{self.coq_items(items2)} {self.coq_optstr(self.parent_indent(parent))} '
                    f'{common.coq_str(parent.indent_by)}')
                lines_a = lines_of(self.printed())
                if kind == 'set' and not new_lines:
                    if [ind(x) for x in lines_a] != [ind(x) for x in lines_b]:
                        self.fail('C18:frame', 'assigning to an existing key changed the indentation of a line', k)
                elif frame(lines_b, lines_a, 0, new_lines) is None:
                    self.fail('C18:frame' if kind == 'set' else 'C18:raw-kept',
                              f'{kind} on {type(parent).__name__}: the text is not the old text plus the line(s) '
                              f'{new_lines!r} with every other line\'s indentation unchanged', k)
                # the items the implementation reports: old ones untouched
                old_ind = [x[1] for x in items]
                new_ind = [x[1] for x in items2]
                if len(new_ind) - len(old_ind) not in (0, 1) or not any(
                        new_ind[:p] + new_ind[p + len(new_ind) - len(old_ind):] == old_ind
                        for p in range(len(new_ind) + 1)):
                    self.fail('C18:frame', f'indents of existing items changed: {old_ind!r} -> {new_ind!r}', k)
            elif kind == 'comment':
                owner = self.owners[op[1] % len(self.owners)] if self.owners else None
                if owner is None or owner.token_store is not self.store:
                    continue
                side, value = op[2], op[3]
                attr = side + '_comment'
                cur = getattr(owner, 'raw_' + attr)
                cur_indent = cur.indent if cur is not None else None
                cur_lines = lines_of(cur.raw_text) if cur is not None else []
                owner_indent = owner.indent
                try:
                    setattr(owner, attr, value)
                except Exception as e:
                    self.fail('C18:unexpected-exception', f'{attr} setter raised {type(e).__name__}: {e}', k)
                    break
                new = getattr(owner, 'raw_' + attr)
                split = block_comment._splitlines(value) if value is not None else None
                self.comment_cases.append(
                    f'({self.coq_optstr(cur_indent)}, {common.coq_str(owner_indent)}, '
                    f'{common.coq_opt(common.coq_list(common.coq_str(x) for x in split) if split is not None else None)}, '
                    f'{common.coq_opt("(" + common.coq_str(new.indent) + ", " + common.coq_str(new.raw_text) + ")" if new is not None else None)})')
                lines_a = lines_of(self.printed())
                new_lines = lines_of(new.raw_text) if new is not None else []
                self.stat('comment=' + ('create' if cur is None and value is not None else
                                        'update' if value is not None else 'remove' if cur is not None else 'noop'))
                if cur is None and value is not None:
                    if new.indent != owner_indent or not all(x.startswith(owner_indent + ';') for x in new_lines):
                        self.fail('C18:comment-indent', f'{type(owner).__name__}.{attr} = {value!r}: lines {new_lines!r} '
                                  f'do not all start with the owner\'s indent {owner_indent!r}', k)
                if cur is not None and value is not None:
                    if not all(x.startswith(cur_indent + ';') for x in new_lines):
                        self.fail('C18:frame', f'{type(owner).__name__}.{attr} = {value!r} changed the indentation of an '
                                  f'existing comment ({cur_indent!r}): {new_lines!r}', k)
                if frame(lines_b, lines_a, len(cur_lines), new_lines) is None:
                    self.fail('C18:frame', f'{type(owner).__name__}.{attr} = {value!r}: the indentation of another line '
                              f'changed', k)
                if owner.indent != owner_indent:
                    self.fail('C18:frame', 'the owner\'s indent changed', k)
            if self.fails:
                break
        return self


def is_subseq(a: list, b: list) -> bool:
    it = iter(b)
    return all(any(x == y for y in it) for x in a)


EXN = {'ValueError': 1, 'IndexError': 2, 'KeyError': 3, 'AssertionError': 4, 'TypeError': 5}


class HistoryRun(DocRun):
    """A history of 3-8 steps on ONE entry / posting; the C18 statement is evaluated after every step against
    the state current at that step (siblings, the parent's indent and indent_by as they are then)."""

    def __init__(self, text: str, parent_index: int, hist: list[list]):
        super().__init__(text, hist)
        self.parent_index = parent_index
        self.hcase = ''

    def fail(self, sig, what, k):
        self.fails.append({'sig': sig, 'what': what,
                           'witness': {'text': self.text, 'parent': self.parent_index, 'hist': self.ops[:k]}})

    def obs(self, parent, res: int) -> str:
        return (f'mkhobs {res} {self.coq_items(self.items_of(parent))} {self.coq_optstr(self.parent_indent(parent))} '
                f'{common.coq_str(parent.indent_by)}')

    def run(self):
        _, models, base, *_ = c17.impl()
        from autobean_refactor.models import block_comment
        f = c17.parse_file(self.text)
        self.store = f.token_store
        top = f
        parents = [m for m in c17.walk(f) if hasattr(type(m), 'raw_meta_with_comments')]
        if not parents:
            return self
        postings = [m for m in parents if isinstance(m, models.Posting)]
        if self.parent_index % 2 and postings:
            parent = postings[(self.parent_index // 2) % len(postings)]
        else:
            parent = parents[(self.parent_index // 2) % len(parents)]
        if self.ops and self.ops[0][0] == 'from_value':
            # a node constructed from values with a configured indent_by (no file around it)
            _, fkind, findent, fby = self.ops[0]
            if fkind == 'posting':
                parent = models.Posting.from_value('Assets:Foo', decimal.Decimal(1), 'USD', indent=findent, indent_by=fby)
            elif fkind == 'txn':
                parent = models.Transaction.from_value(datetime.date(2000, 1, 1), None, 'n', postings=[], indent_by=fby)
            else:
                parent = models.Open.from_value(datetime.date(2000, 1, 1), 'Assets:Foo', indent_by=fby)
            top = parent
            self.store = parent.token_store
            if parent.indent_by != fby:
                self.fail('C18:copy-indent-by', f'{type(parent).__name__}.from_value(indent_by={fby!r}).indent_by = '
                          f'{parent.indent_by!r}', 1)
            self.stat('hist:from_value')
        is_posting = isinstance(parent, models.Posting)
        head = (f'mkhcase {self.coq_optstr(self.parent_indent(parent))} {common.coq_str(parent.indent_by)} '
                f'{self.coq_items(self.items_of(parent))}')
        steps = []
        for k, op in enumerate(self.ops, 1):
            kind = op[0]
            if kind in ('indent', 'comment') and not is_posting:
                continue
            if kind == 'from_value':
                continue
            if kind == 'deepcopy':
                scope = op[1]
                root = parent
                if scope == 'file':
                    root = top
                elif scope == 'txn':
                    root = next((d for d in (getattr(top, 'raw_directives', None) or [])
                                 if any(x is parent for x in c17.walk(d))), parent)
                nodes = c17.walk(root)
                pos = next(n for n, x in enumerate(nodes) if x is parent)
                root_text = ''.join(t.raw_text for t in root.tokens)
                before = (self.items_of(parent), self.parent_indent(parent), parent.indent_by)
                try:
                    cp = copy.deepcopy(root)
                except Exception as e:
                    self.fail('C18:unexpected-exception', f'step {k}: deepcopy raised {type(e).__name__}: {e}', k)
                    break
                new_parent = c17.walk(cp)[pos]
                self.stat('hist:deepcopy/' + scope + ('/non-default-indent_by' if parent.indent_by != '    ' else ''))
                if type(new_parent) is not type(parent) or ''.join(t.raw_text for t in cp.tokens) != root_text:
                    self.fail('C18:frame', f'step {k}: the deep copy of {type(root).__name__} does not print as the '
                              f'original', k)
                    break
                if new_parent.indent_by != parent.indent_by:
                    self.fail('C18:copy-indent-by', f'step {k}: deep copy of {type(root).__name__}: the copied '
                              f'{type(parent).__name__} has indent_by {new_parent.indent_by!r}, the original '
                              f'{parent.indent_by!r}', k)
                parent = new_parent
                self.store = cp.token_store
                if scope == 'file' or root is top:
                    top = cp
                else:
                    top = cp
                after = (self.items_of(parent), self.parent_indent(parent), parent.indent_by)
                if after[:2] != before[:2]:
                    self.fail('C18:frame', f'step {k}: the deep copy changed an indent: {before!r} -> {after!r}', k)
                steps.append(f'(HDeepCopy, {self.obs(parent, 0)})')
                if self.fails:
                    break
                continue
            text_b = self.printed()
            lines_b = lines_of(text_b)
            ib = [ind(x) for x in lines_b]
            items = self.items_of(parent)
            metas = [x for x in items if x[0] == 'M']
            pind, by = self.parent_indent(parent), parent.indent_by
            res, coq_op = 0, None
            new_lines, removed, expect = None, None, None
            try:
                if kind == 'set':
                    key = op[1]
                    value = {'s': 'v', 'd': decimal.Decimal(3), 'n': None}[op[2]]
                    existing = any(x[2] == key for x in metas)
                    coq_op = f'HSetItem {self.key_id(key)}'
                    parent.meta[key] = value
                    if not existing:
                        if metas and len({x[1] for x in metas}) == 1:
                            expect = metas[0][1]
                            self.stat('hist:rule=shared')
                        elif not metas:
                            expect = (pind or '') + by
                            self.stat('hist:rule=default' + ('/posting' if is_posting else '/entry')
                                      + ('/after-change' if any(o[0] in ('indent_by', 'indent') for o in self.ops[:k - 1])
                                         else ''))
                        else:
                            self.stat('hist:rule=siblings-disagree')
                        created = [it for it in parent.raw_meta if it.key == key][-1]
                        new_lines = lines_of(''.join(t.raw_text for t in created.tokens))
                        if expect is not None and (created.indent != expect
                                                   or not new_lines[0].startswith(expect + key + ':')):
                            self.fail('C18:meta-indent',
                                      f'step {k}: {type(parent).__name__}.meta[{key!r}] created the line {new_lines[0]!r}; '
                                      f'the rule gives indent {expect!r} (siblings {[x[1] for x in metas]!r}, current parent '
                                      f'indent {pind!r}, current indent_by {by!r})', k)
                    else:
                        self.stat('hist:existing-key')
                elif kind == 'append':
                    key, indent = op[1], op[2]
                    coq_op = f'HAppendRaw (M {common.coq_str(indent)} {self.key_id(key)})'
                    parent.raw_meta.append(models.MetaItem.from_value(key, 'v', indent=indent))
                    new_lines = [f'{indent}{key}: "v"']
                elif kind == 'append_comment':
                    indent = op[1]
                    coq_op = f'HAppendRaw (C {common.coq_str(indent)})'
                    parent.raw_meta_with_comments.append(models.BlockComment.from_value('raw c', indent=indent))
                    new_lines = [f'{indent}; raw c']
                elif kind == 'insert':
                    index, key, indent = op[1], op[2], op[3]
                    coq_op = f'HInsertRaw {common.coq_z(index)} (M {common.coq_str(indent)} {self.key_id(key)})'
                    parent.raw_meta.insert(index, models.MetaItem.from_value(key, 'v', indent=indent))
                    new_lines = [f'{indent}{key}: "v"']
                elif kind in ('del', 'pop', 'clear'):
                    raw = [it for it in parent.raw_meta]
                    if kind == 'del':
                        coq_op = f'HDelKey {self.key_id(op[1])}'
                        victims = [it for it in raw if it.key == op[1]][:1]
                    elif kind == 'pop':
                        coq_op = 'HPop'
                        victims = raw[-1:]
                    else:
                        coq_op = 'HClear'
                        victims = raw
                    removed = sum(len(lines_of(''.join(t.raw_text for t in it.tokens))) for it in victims)
                    if kind == 'del':
                        del parent.meta[op[1]]
                    elif kind == 'pop':
                        parent.meta.pop()
                    else:
                        parent.meta.clear()
                    self.stat('hist:' + kind)
                elif kind == 'indent_by':
                    coq_op = f'HSetIndentBy {common.coq_str(op[1])}'
                    parent.indent_by = op[1]
                    self.stat('hist:indent_by')
                elif kind == 'indent':
                    coq_op = f'HSetIndent {common.coq_str(op[1])}'
                    idx = {id(t): n for n, t in enumerate(self.store)}
                    off = sum(len(t.raw_text) for t in list(self.store)[:idx[id(parent.raw_indent.first_token)]])
                    line_no = text_b[:off].count('\n')
                    if len(self.store) % 2 == 0:
                        parent.indent = op[1]
                        self.stat('hist:indent')
                    else:
                        # the same change through the node-level door, with the meta views already in use: the
                        # rule reads the posting's CURRENT indent token, whichever object that is
                        try:
                            len(parent.meta), len(parent.raw_meta)
                        except Exception:
                            pass
                        from autobean_refactor import models as models_
                        parent.raw_indent = models_.Indent.from_value(op[1])
                        self.stat('hist:raw_indent')
                elif kind == 'comment':
                    side, value = op[1], op[2]
                    attr = side + '_comment'
                    cur = getattr(parent, 'raw_' + attr)
                    cur_indent = cur.indent if cur is not None else None
                    cur_lines = lines_of(cur.raw_text) if cur is not None else []
                    setattr(parent, attr, value)
                    new = getattr(parent, 'raw_' + attr)
                    split = block_comment._splitlines(value) if value is not None else None
                    self.comment_cases.append(
                        f'({self.coq_optstr(cur_indent)}, {common.coq_str(pind)}, '
                        f'{common.coq_opt(common.coq_list(common.coq_str(x) for x in split) if split is not None else None)}, '
                        f'{common.coq_opt("(" + common.coq_str(new.indent) + ", " + common.coq_str(new.raw_text) + ")" if new is not None else None)})')
                    c_new = lines_of(new.raw_text) if new is not None else []
                    if cur is None and value is not None:
                        self.stat('hist:comment-create')
                        if new.indent != pind or not all(x.startswith(pind + ';') for x in c_new):
                            self.fail('C18:comment-indent', f'step {k}: Posting.{attr} = {value!r}: lines {c_new!r} do not '
                                      f'all start with the posting\'s current indent {pind!r}', k)
                    if cur is not None and value is not None and not all(x.startswith(cur_indent + ';') for x in c_new):
                        self.fail('C18:frame', f'step {k}: Posting.{attr} = {value!r} changed the indentation of the '
                                  f'existing comment', k)
                    if frame(lines_b, lines_of(self.printed()), len(cur_lines), c_new) is None:
                        self.fail('C18:frame', f'step {k}: Posting.{attr} = {value!r}: the indentation of another line '
                                  f'changed', k)
            except (KeyError, IndexError) as e:
                res = EXN[common.exn_name(e)] if common.exn_name(e) in EXN else 8
                legit = (kind == 'del' and not any(x[2] == op[1] for x in metas)) or (kind == 'pop' and not metas)
                if not legit:
                    self.fail('C18:unexpected-exception', f'step {k}: {kind} raised {type(e).__name__}: {e}', k)
                    break
            except Exception as e:
                self.fail('C18:unexpected-exception', f'step {k}: {kind} raised {type(e).__name__}: {e}', k)
                break
            lines_a = lines_of(self.printed())
            ia = [ind(x) for x in lines_a]
            if kind == 'comment':
                pass
            elif res:
                if lines_a != lines_b:
                    self.fail('C18:frame', f'step {k}: a refused {kind} changed the text', k)
            elif kind == 'indent':
                want = list(ib)
                want[line_no] = op[1]
                if ia != want:
                    self.fail('C18:frame', f'step {k}: posting.indent = {op[1]!r} changed the indentation of a line other '
                              f'than the posting\'s own', k)
            elif kind == 'indent_by':
                if lines_a != lines_b:
                    self.fail('C18:frame', f'step {k}: assigning indent_by changed the text', k)
            elif removed is not None:
                if len(lines_b) - len(lines_a) != removed or not is_subseq(ia, ib):
                    self.fail('C18:frame', f'step {k}: {kind}: the indentation of a remaining line changed', k)
            elif new_lines is None:
                if ia != ib:
                    self.fail('C18:frame', f'step {k}: assigning to an existing key changed the indentation of a line', k)
            elif frame(lines_b, lines_a, 0, new_lines) is None:
                self.fail('C18:frame' if kind == 'set' else 'C18:raw-kept',
                          f'step {k}: {kind} on {type(parent).__name__}: the text is not the old text plus the line(s) '
                          f'{new_lines!r} with every other line\'s indentation unchanged', k)
            if coq_op is not None:
                steps.append(f'({coq_op}, {self.obs(parent, res)})')
            if self.fails:
                break
        self.hcase = f'{head} {common.coq_list(steps)}'
        self.n_steps = len(steps)
        return self


def gen_history(rng) -> list[list]:
    ws = lambda: rng.choice(c17.INDENTS + ['', '   ', '\t '])
    nonempty_ws = lambda: rng.choice(c17.INDENTS)
    fresh = iter(['h%d' % i for i in range(40)])

    def rand_op():
        r = rng.random()
        if r < 0.28:
            return ['set', rng.choice([next(fresh)] * 2 + c17.KEYS), rng.choice(['s', 's', 'd', 'n'])]
        if r < 0.38:
            return ['append', next(fresh), ws()]
        if r < 0.44:
            return ['append_comment', ws()]
        if r < 0.52:
            return ['insert', rng.choice([0, 0, 1, 2, -1, -2, 5, -7]), next(fresh), ws()]
        if r < 0.60:
            return ['del', rng.choice(c17.KEYS + ['h0', 'h1'])]
        if r < 0.66:
            return ['pop']
        if r < 0.72:
            return ['clear']
        if r < 0.82:
            return ['indent_by', rng.choice(INDENT_BYS)]
        if r < 0.88:
            return ['indent', nonempty_ws()]
        if r < 0.92:
            return ['deepcopy', rng.choice(['node', 'txn', 'file'])]
        return ['comment', rng.choice(['leading', 'trailing']),
                rng.choice(['note', 'two\nlines', '', None, 'x\n'])]
    n = rng.randrange(3, 9)
    r0 = rng.random()
    if r0 < 0.3:
        # configure indent_by (assignment or from_value), deep-copy the node / its transaction / the file, then
        # use the default rule under the copy
        by = rng.choice(['\t', '  ', '      ', '\t', ' \t', ''])
        hist = []
        if rng.random() < 0.3:
            hist.append(['from_value', rng.choice(['open', 'posting', 'posting', 'txn']), nonempty_ws(), by])
        else:
            hist.append(['indent_by', by])
        if rng.random() < 0.3:
            hist.append(rand_op())
        if rng.random() < 0.5:
            hist.append(['clear'])
        hist.append(['deepcopy', rng.choice(['node', 'txn', 'file'])])
        if rng.random() < 0.2:
            hist.append(['deepcopy', rng.choice(['node', 'txn', 'file'])])
        hist.append(['clear'])
        hist.append(['set', next(fresh), 's'])
        while len(hist) < n:
            hist.append(rand_op())
        return hist
    if r0 < 0.65:
        # use the default rule, empty the block again, change what the rule reads, use the rule again
        k1 = next(fresh)
        hist = [['clear'], ['set', k1, 's'], rng.choice([['clear'], ['pop'], ['del', k1]]),
                rng.choice([['indent_by', rng.choice(INDENT_BYS)], ['indent', nonempty_ws()],
                            ['indent_by', rng.choice(INDENT_BYS)]]),
                ['set', next(fresh), 's']]
        if rng.random() < 0.5:
            hist.insert(rng.randrange(1, len(hist)), rand_op())
        while len(hist) < n:
            hist.append(rand_op())
        return hist
    return [rand_op() for _ in range(n)]


def gen_ops(rng, n_ops: int) -> list[list]:
    ops: list[list] = []
    ws = lambda: rng.choice(c17.INDENTS + ['', '   ', '\t '])
    for _ in range(n_ops):
        r = rng.random()
        p = rng.randrange(1000)
        if r < 0.15:
            ops.append(['indent_by', p, rng.choice(INDENT_BYS)])
        elif r < 0.5:
            key = rng.choice(NEW_KEYS + NEW_KEYS + c17.KEYS)
            ops.append(['set', p, key, rng.choice(['s', 's', 'd', 'n'])])
        elif r < 0.62:
            ops.append(['append', p, rng.choice(NEW_KEYS) + str(rng.randrange(100)), ws()])
        elif r < 0.7:
            ops.append(['append_comment', p, ws()])
        elif r < 0.8:
            ops.append(['insert', p, rng.choice([0, 0, 1, 2, -1, -2, 5, -7]), 'i' + str(rng.randrange(100)), ws()])
        else:
            ops.append(['comment', p, rng.choice(['leading', 'trailing']),
                        rng.choice(['note', 'two\nlines', '', 'a\n\nb', None, 'x\n', 'crlf\r\nline'])])
    return ops


def run_all(ctx: common.Ctx):
    n_docs = ctx.scale(150, 2000)
    n_ops = 10 if ctx.quick else 16
    cases, metas, ccases, cmetas = [], [], [], []
    done = 0
    while done < n_docs:
        text = c17.gen_ledger(ctx.rng, ctx.rng.choice([1, 2, 2, 3]))
        try:
            c17.parse_file(text)
        except Exception:
            ctx.count('generated_not_accepted')
            done += 1
            continue
        done += 1
        ops = gen_ops(ctx.rng, n_ops)
        run = DocRun(text, ops).run()
        for f_ in run.fails:
            ctx.monitor_failure(f_['sig'], f_['what'], f_['witness'])
        for key, v in run.stats.items():
            ctx.dist(key, v)
        ctx.case({'chars': len(text), 'tabs': '\t' in text, 'parents': len(getattr(run, 'parents', [])),
                  'ops': [o[0] for o in ops][:8], 'stats': run.stats},
                 nontrivial=any(k.startswith('rule=') or k == 'comment=create' for k in run.stats))
        for c in run.cases:
            cases.append(c)
            metas.append((text, ops))
        for c in run.comment_cases:
            ccases.append(c)
            cmetas.append((text, ops))
    # histories on one entry / posting
    hcases, hmetas = [], []
    for _ in range(ctx.scale(300, 4000)):
        text = c17.gen_ledger(ctx.rng, ctx.rng.choice([1, 1, 2]))
        try:
            c17.parse_file(text)
        except Exception:
            ctx.count('generated_not_accepted')
            continue
        pidx, hist = ctx.rng.randrange(1000), gen_history(ctx.rng)
        run = HistoryRun(text, pidx, hist).run()
        for f_ in run.fails:
            ctx.monitor_failure(f_['sig'], f_['what'], f_['witness'])
        for key, v in run.stats.items():
            ctx.dist(key, v)
        ctx.case({'chars': len(text), 'parent': pidx, 'hist': [o[0] for o in hist], 'stats': run.stats},
                 nontrivial=any(k.startswith('hist:rule=') for k in run.stats))
        ctx.count('history_steps', getattr(run, 'n_steps', 0))
        if run.hcase:
            hcases.append(run.hcase)
            hmetas.append((text, pidx, hist))
        for c in run.comment_cases:
            ccases.append(c)
            cmetas.append((text, hist))
    bad = ctx.run_coq_cases('hist', PREAMBLE, 'hcase', 'check_hcase', hcases, chunk=100)
    ctx.count('traces_validated_against_impl', len(hcases) - len(bad))
    for i in bad[:3]:
        ctx.fail('corr', 'indent-history-correspondence',
                 'Indent.v and the implementation disagree on the state of a meta block along a history of edits',
                 {'text': hmetas[i][0], 'parent': hmetas[i][1], 'hist': hmetas[i][2], 'case': hcases[i][:1500]})
    bad = ctx.run_coq_cases('indent', PREAMBLE, 'icase', 'check_case', cases, chunk=150)
    ctx.count('traces_validated_against_impl', len(cases) - len(bad))
    for i in bad[:3]:
        ctx.fail('corr', 'indent-correspondence',
                 'Indent.v and the implementation disagree on the meta items (with their indents) after an insertion',
                 {'text': metas[i][0], 'ops': metas[i][1], 'case': cases[i][:1200]})
    bad = ctx.run_coq_cases('comment', PREAMBLE, 'option str * str * option (list str) * option (str * str)',
                            'check_comment', ccases, chunk=200)
    ctx.count('traces_validated_against_impl', len(ccases) - len(bad))
    for i in bad[:3]:
        ctx.fail('corr', 'comment-correspondence',
                 'Indent.v and the implementation disagree on the indent / raw text of a comment set from a string',
                 {'text': cmetas[i][0], 'ops': cmetas[i][1], 'case': ccases[i][:1200]})


def run_directed(ctx: common.Ctx):
    """(A) every constructor that takes a meta mapping and indent_by (entries; postings also take indent): the meta
    items it creates are indented by parent indent + indent_by, for non-default indent_by too.
    (B) a comment re-indented through its raw text and then re-worded through its owner's comment setter keeps the
    indentation it had: re-wording must not change an existing line's indentation."""
    import inspect
    import random
    from decimal import Decimal
    from autobean_refactor import models
    from autobean_refactor.models import base
    from harness import doc_checks, gen_docs
    classes = []
    for name in sorted(dir(models)):
        c = getattr(models, name)
        if isinstance(c, type) and issubclass(c, base.RawTreeModel) and hasattr(c, 'from_value'):
            ps = inspect.signature(c.from_value).parameters
            if 'meta' in ps and 'indent_by' in ps:
                classes.append(c)
    for cls in classes:
        sig = inspect.signature(cls.from_value)
        for _ in range(ctx.scale(4, 30)):
            r = random.Random(ctx.rng.randrange(1 << 30))
            indent_by = r.choice(['\t', '  ', '      ', ' \t', '    '])
            kwargs = {}
            try:
                for prm in sig.parameters.values():
                    if prm.name in ('meta', 'indent_by', 'indent'):
                        continue
                    if prm.default is not inspect._empty and r.random() < 0.5:
                        continue
                    kwargs[prm.name] = doc_checks._arg(r, cls.__name__, prm.name, True)
            except KeyError:
                break
            kwargs['meta'] = {'kk': Decimal(1), 'll': 'x', 'mm': None}
            kwargs['indent_by'] = indent_by
            parent_indent = ''
            if 'indent' in sig.parameters:
                parent_indent = r.choice(['  ', '\t', '    '])
                kwargs['indent'] = parent_indent
            try:
                m = cls.from_value(**kwargs)
            except ValueError:
                continue
            ctx.count('ctor_meta_indent_probes')
            got = [it.indent for it in m.raw_meta]
            if got != [parent_indent + indent_by] * 3:
                ctx.monitor_failure('C18:ctor-meta-indent', f'{cls.__name__}.from_value(meta=..., indent_by={indent_by!r}'
                                    + (f', indent={parent_indent!r}' if parent_indent else '') + f') created meta items indented by {got}, '
                                    f'expected {parent_indent + indent_by!r} (parent indent + indent_by)',
                                    {'class': cls.__name__, 'indent_by': indent_by, 'indent': parent_indent, 'printed': gen_docs.print_model(m)})
                break
    text = ('2000-01-01 *\n    ; lead\n    Assets:A  1 USD\n      ; mlead\n      kk: 1\n      ; mtrail\n    ; trail\n'
            '2000-01-02 open Assets:B\n  ; m2\n  aa: 2\n')
    for _ in range(ctx.scale(12, 80)):
        r = random.Random(ctx.rng.randrange(1 << 30))
        f = gen_docs.parse_ok(text, True)
        owners = [(p_, m) for p_, m in doc_checks.treewalk.walk(f) if hasattr(m, 'raw_leading_comment') and hasattr(m, 'leading_comment')]
        cands = [(p_, m, side) for p_, m in owners for side in ('leading', 'trailing') if getattr(m, f'raw_{side}_comment') is not None]
        if not cands:
            break
        p_, m, side = r.choice(cands)
        c = getattr(m, f'raw_{side}_comment')
        new_indent = r.choice(['\t', '  ', '        ', ''])
        try:
            c.raw_text = r.choice([f'{new_indent}; re', f'{new_indent}; re\n{new_indent}; two'])
        except Exception:
            continue
        words = r.choice(['new words', 'a\nb', 'x\n\ny'])
        setattr(m, f'{side}_comment', words)
        ctx.count('reindent_then_reword_probes')
        lines = getattr(m, f'raw_{side}_comment').raw_text.split('\n')
        bad = [ln for ln in lines if ind(ln) != new_indent]
        if bad:
            ctx.monitor_failure('C18:reword-reindents', f'{p_}.{side}_comment = {words!r} after its raw text was given the indentation '
                                f'{new_indent!r}: the re-worded lines are indented {[ind(ln) for ln in lines]}',
                                {'text': text, 'owner': p_, 'side': side, 'new_indent': new_indent, 'words': words})
            break


def run(ctx: common.Ctx):
    ctx.rule = ('generated ledgers (entries and postings with no / uniform / tab / disagreeing meta indents, interleaved '
                'comments, CRLF) parsed with the real Parser; per ledger a seeded history of indent_by assignments, '
                'mapping assignments (new and existing keys), raw appends/inserts of MetaItem and BlockComment with '
                'their own indent, leading/trailing comment assignments on postings and meta items; plus histories of 3-8 '
                'steps on one entry/posting (parsed, or built with from_value(indent_by=...)) mixing those with del/pop/clear, '
                'indent_by = ..., posting.indent = ..., copy.deepcopy of the node / its transaction / the file (third of '
                'them: use the default rule, empty the block, change indent/indent_by, use the rule again); a case is '
                'non-trivial when an insertion rule or a comment creation was exercised; distinct by (size, ops, rules)')
    ctx.assumptions += ['the tree/token mechanics of insertion (RepeatedNodeWrapper._insert_tokens) belong to C03; here the '
                        'result is observed on the printed text and on raw_meta_with_comments',
                        'str.splitlines as used by BlockComment._splitlines is an oracle (C12)']
    ctx.require_coq(['properties/C18'], extra_targets=['IndentRun'])
    run_all(ctx)
    run_directed(ctx)


def search(ctx: common.Ctx):
    run_all(ctx)
    run_directed(ctx)


def replay(ctx, path):
    data = json.loads(open(path).read())
    f = data.get('failure') or (data.get('what_no_longer_checks') or [{}])[0]
    w = f.get('witness') or {}
    if 'hist' in w:
        run = HistoryRun(w['text'], w['parent'], w['hist']).run()
        for x in run.fails:
            print('monitor:', x['sig'], x['what'])
        bad = ctx.run_coq_cases('replayh', PREAMBLE, 'hcase', 'check_hcase', [run.hcase]) if run.hcase else []
        print('model/implementation agree' if not bad else 'model/implementation DISAGREE')
        return 1 if (run.fails or bad) else 0
    if 'text' in w:
        run = DocRun(w['text'], w.get('ops', [])).run()
        for x in run.fails:
            print('monitor:', x['sig'], x['what'])
        bad = ctx.run_coq_cases('replay', PREAMBLE, 'icase', 'check_case', run.cases)
        bad2 = ctx.run_coq_cases('replayc', PREAMBLE, 'option str * str * option (list str) * option (str * str)',
                                 'check_comment', run.comment_cases)
        print('model/implementation agree' if not (bad or bad2) else 'model/implementation DISAGREE')
        return 1 if (run.fails or bad or bad2) else 0
    print(json.dumps(f, indent=1))
    return 1
