"""C05 - see DESIGN.md §7. Monitors in doc_checks.py; theorems in coq/theories/properties/C05.v."""
from harness import common, doc_checks, tree_check


def run(ctx: common.Ctx):
    tree_check.setup(ctx, 'C05')
    doc_checks.run_c05(ctx)
    doc_checks.run_c05_costs(ctx)
    doc_checks.run_c05_comment_handover(ctx)
    doc_checks.run_c06_glued_removals(ctx, 'C05')
    tree_check.correspondence(ctx, 'C05')


def search(ctx: common.Ctx):
    doc_checks.run_c05(ctx)
    doc_checks.run_c05_costs(ctx)
    doc_checks.run_c05_comment_handover(ctx)
    doc_checks.run_c06_glued_removals(ctx, 'C05')


def replay(ctx, path):
    return tree_check.replay(ctx, path, 'C05')
