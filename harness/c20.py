"""C20 - see DESIGN.md §7. Monitors in doc_checks.py; theorems in coq/theories/properties/C20.v."""
from harness import common, doc_checks, tree_check


def run(ctx: common.Ctx):
    tree_check.setup(ctx, 'C20')
    doc_checks.run_c20(ctx)
    doc_checks.run_c20_claim_unclaim(ctx)
    tree_check.correspondence(ctx, 'C20')


def search(ctx: common.Ctx):
    doc_checks.run_c20(ctx)
    doc_checks.run_c20_claim_unclaim(ctx)


def replay(ctx, path):
    return tree_check.replay(ctx, path, 'C20')
