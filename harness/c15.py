"""C15 - constructed models are well-formed and parse back to the same content."""
from harness import common, doc_checks, tree_check

tree_check.RULES['C15'] = ('every tree model class with from_value, arguments by parameter name from in-domain pools, each optional '
                           'argument present with probability 0.6 (thorough: 150 draws per class), plus directives assembled into '
                           'a File; the constructed tree must satisfy the C05 well-formedness statement, its printed text must be '
                           'accepted by parse() for that class and the re-parsed content must equal the constructed content')


def run(ctx: common.Ctx):
    tree_check.setup(ctx, 'C15')
    doc_checks.run_c15(ctx)
    doc_checks.run_c15_expressions(ctx)
    doc_checks.run_c15_comment_layouts(ctx)
    tree_check.correspondence(ctx, 'C15')


def search(ctx: common.Ctx):
    doc_checks.run_c15(ctx)
    doc_checks.run_c15_expressions(ctx)
    doc_checks.run_c15_comment_layouts(ctx)


def replay(ctx, path):
    return tree_check.replay(ctx, path, 'C15')


# =============================================================================================
# custom.py: _disambiguate_values / _unsimplify_value / _simplify_value / _update_raw
#   model CustomValues.v, theorems C15_custom_*, case checkers CustomValuesRun.v
# =============================================================================================
import datetime as _dt
import io as _io
import json as _json
import random as _random
import re as _re
from decimal import Decimal as _D
from typing import Optional

from harness.common import coq_bool, coq_list, coq_opt, coq_str, coq_z

CUSTOM_PREAMBLE = 'From AB Require Import Prelude NumExpr NumExprRun CustomValues CustomValuesRun.'
CUSTOM_GRAMMAR = {
    'custom': '_leading_comment DATE CUSTOM ESCAPED_STRING repeated{_custom_value} _comment_eol _meta_items _trailing_comment',
    '_custom_value': 'ESCAPED_STRING | DATE | BOOL | amount | number_expr | ACCOUNT',
    'amount': 'number_expr CURRENCY',
}
SIG_CUSTOM_MERGE = 'C15:custom-values-reparse'
_CU = {}


def _cu():
    if not _CU:
        from autobean_refactor import models, parser, printer
        import importlib
        custom_mod = importlib.import_module('autobean_refactor.models.custom')
        from harness import c13
        _CU.update(M=models, P=parser.Parser(), printer=printer, custom=custom_mod, c13=c13)
    return _CU


def _cu_print(m) -> str:
    return _cu()['printer'].print_model(m, _io.StringIO()).getvalue()


def custom_tie(ctx) -> None:
    path = common.REPO / 'autobean_refactor' / 'beancount.lark'
    try:
        src = path.read_text()
    except OSError as e:
        ctx.fail('tie', 'grammar-unreadable', f'cannot read {path}: {e}')
        return
    rules = {}
    for line in src.splitlines():
        m = _re.match(r'^(\??[A-Za-z_][A-Za-z_0-9]*)\s*:\s*(.*?)\s*$', line)
        if m and not line.startswith('//'):
            rules.setdefault(m.group(1), _re.sub(r'\s+', ' ', m.group(2)))
    for name, want in CUSTOM_GRAMMAR.items():
        if rules.get(name) != want:
            ctx.fail('tie', 'grammar-rule-changed',
                     f'beancount.lark rule {name!r} is {rules.get(name)!r}; CustomValues.parse_values was written for {want!r}',
                     {'rule': name, 'found': rules.get(name), 'expected': want})
    ctx.count('pinned_grammar_rules', len(CUSTOM_GRAMMAR))


# ----- observing raw values ---------------------------------------------------------------------
class _Odd(Exception):
    pass


def cu_obs(v):
    I = _cu()
    M, c13 = I['M'], I['c13']
    try:
        if isinstance(v, M.EscapedString):
            return ('str', v.raw_text)
        if isinstance(v, M.Date):
            return ('date', v.raw_text)
        if isinstance(v, M.Bool):
            return ('bool', v.raw_text)
        if isinstance(v, M.Account):
            return ('account', v.raw_text)
        if isinstance(v, M.NumberExpr):
            return ('num', c13.observe(v)[1])
        if isinstance(v, M.Amount):
            return ('amount', c13.observe(v.raw_number)[1], v.raw_currency.raw_text)
    except c13.Malformed as e:
        raise _Odd(f'malformed number expression: {e}')
    raise _Odd(f'unexpected raw value {type(v).__name__}')


def cu_strip_tree(t):
    k = t[0]
    if k == 'num':
        return t
    if k == 'paren':
        return ('paren', '', cu_strip_tree(t[2]), '')
    if k == 'un':
        return ('un', t[1], '', cu_strip_tree(t[3]))
    if k in ('matom', 'amul'):
        return (k, cu_strip_tree(t[1]))
    return (k, cu_strip_tree(t[1]), '', t[3], '', cu_strip_tree(t[5]))


def cu_strip(o):
    if o[0] == 'num':
        return ('num', cu_strip_tree(o[1]))
    if o[0] == 'amount':
        return ('amount', cu_strip_tree(o[1]), o[2])
    return o


def cu_coq_value(o) -> str:
    c13 = _cu()['c13']
    k = o[0]
    if k == 'num':
        return f'(VNum {c13.coq_tree(o[1])})'
    if k == 'amount':
        return f'(VAmount {c13.coq_tree(o[1])} {coq_str(o[2])})'
    return '(%s %s)' % ({'str': 'VStr', 'date': 'VDate', 'bool': 'VBool', 'account': 'VAccount'}[k], coq_str(o[1]))


def cu_free(v) -> bool:
    ts = v.token_store
    return (not ts) or (v.first_token is ts.get_first() and v.last_token is ts.get_last())


_TOK = {'EscapedString': 'CStr', 'Date': 'CDate', 'Bool': 'CBool', 'Account': 'CAcct', 'Currency': 'CCur'}


def cu_coq_tok(kind: str, text: str) -> str:
    if kind in _TOK:
        return f'{_TOK[kind]} {coq_str(text)}'
    if kind == 'Number':
        return f'CLex (LNum {coq_str(text)})'
    if kind in ('UnaryOp', 'AddOp') and text in '+-' and len(text) == 1:
        return f'CLex (LSign {coq_bool(text == "-")})'
    if kind == 'MulOp' and text in '*/' and len(text) == 1:
        return f'CLex (LStar {coq_bool(text == "/")})'
    if kind == 'LeftParen' and text == '(':
        return 'CLex LLp'
    if kind == 'RightParen' and text == ')':
        return 'CLex LRp'
    raise _Odd(f'unexpected token {kind} {text!r} inside a custom value')


def cu_sig_tokens(v) -> list[str]:
    out, t, n = [], v.first_token, 0
    while True:
        if type(t).__name__ != 'Whitespace':
            out.append(cu_coq_tok(type(t).__name__, t.raw_text))
        if t is v.last_token:
            return out
        t = v.token_store.get_next(t)
        n += 1
        if t is None or n > 10000:
            raise _Odd('last_token is not reachable from first_token')


def cu_coq_dec(d: _D) -> str:
    return f'(SExt {coq_bool(d < 0)} {coq_str(format(d.copy_abs(), "f"))})'


def cu_coq_py(x) -> str:
    """a Python-level value as CustomValues.pyval (raw models via cu_obs)"""
    if isinstance(x, str):
        return f'(PStr {coq_str(x)})'
    if isinstance(x, bool):
        return f'(PBool {coq_bool(x)})'
    if isinstance(x, _dt.datetime):
        return f'(PDateTime ({x.year}, {x.month}, {x.day}) {x.hour * 60 + x.minute})'
    if isinstance(x, _dt.date):
        return f'(PDate ({x.year}, {x.month}, {x.day}))'
    if isinstance(x, _D):
        return f'(PDec {cu_coq_dec(x)})'
    return f'(PRaw {cu_coq_value(cu_obs(x))})'


# ----- generating / building arguments ----------------------------------------------------------
CU_STRS = ['', 's', 'a b', 'q"uote', 'back\\slash', 'tab\there', 'two\nlines', 'é✓']
CU_DATES = [(2000, 1, 1), (1999, 12, 31), (2024, 2, 29), (1000, 10, 9), (9999, 1, 2)]
CU_DECS = ['0', '1', '-2', '3.50', '-0.75', '100', '-100', '1E+3', '-1E+3', '-0', '12.00', '-7.25', '1E-7', '-2.5E-7']
CU_CURS = ['USD', 'EUR', 'XY', "AB.C-D'E_F"]
CU_ACCTS = ['Assets:A', 'Expenses:Food:Out', 'Liabilities:C-1']
CU_ATTACHED = ['2000-01-01 custom "t" {}', '2000-01-01 custom "t" "a" {} TRUE']


def cu_gen_expr(rng) -> str:
    c13 = _cu()['c13']
    s = c13.gen_expr(rng, rng.choice([0, 0, 1, 1, 2]))
    if rng.random() < 0.45:
        s = rng.choice('-+-') + rng.choice(['', '', ' ']) + s
    return s


def cu_gen_arg(rng, mode: str, i: int) -> dict:
    r = rng.random()
    if r < 0.30:
        return {'k': 'num', 'text': cu_gen_expr(rng)}
    if r < 0.45:
        return {'k': 'dec', 'v': rng.choice(CU_DECS)} if mode == 'value' else {'k': 'numv', 'v': rng.choice(CU_DECS)}
    if r < 0.55:
        return {'k': 'amount', 'text': cu_gen_expr(rng), 'cur': rng.choice(CU_CURS)}
    if r < 0.63:
        return {'k': 'amountv', 'v': rng.choice(CU_DECS), 'cur': rng.choice(CU_CURS)}
    if r < 0.70:
        return {'k': 'str' if mode == 'value' else 'rstr', 'v': rng.choice(CU_STRS)}
    if r < 0.76:
        return {'k': 'date' if mode == 'value' else 'rdate', 'v': list(rng.choice(CU_DATES))}
    if r < 0.79 and mode == 'value':
        return {'k': 'datetime', 'v': list(rng.choice(CU_DATES)), 't': [rng.randrange(24), rng.randrange(60)]}
    if r < 0.85:
        return {'k': 'bool' if mode == 'value' else 'rbool', 'v': rng.random() < 0.5}
    if r < 0.91:
        return {'k': 'account', 'v': rng.choice(CU_ACCTS)}
    if r < 0.95:
        return {'k': 'attached', 'doc': rng.randrange(len(CU_ATTACHED)),
                'text': rng.choice([cu_gen_expr(rng), cu_gen_expr(rng) + ' USD', '"z"', 'Assets:Z']),
                'inner': rng.random() < 0.3}
    return {'k': 'dup', 'of': rng.randrange(i)} if i else {'k': 'num', 'text': cu_gen_expr(rng)}


def cu_gen_call(rng) -> dict:
    mode = rng.choice(['value', 'value', 'children'])
    n = rng.choice([0, 1, 2, 2, 3, 3, 4, 5, 6])
    args = [cu_gen_arg(rng, mode, i) for i in range(n)]
    if rng.random() < 0.65:   # most calls are accepted
        args = [a if a['k'] not in ('attached', 'dup') else {'k': 'num', 'text': cu_gen_expr(rng)} for a in args]
    return {'kind': 'custom-call', 'mode': mode, 'args': args}


CU_FIXED_CALLS = [
    {'kind': 'custom-call', 'mode': 'value', 'args': [{'k': 'dec', 'v': '1'}, {'k': 'dec', 'v': '-2'}]},
    {'kind': 'custom-call', 'mode': 'value', 'args': [{'k': 'dec', 'v': '1'}, {'k': 'amountv', 'v': '-2', 'cur': 'USD'},
                                                     {'k': 'dec', 'v': '-3'}, {'k': 'str', 'v': 's'}, {'k': 'dec', 'v': '-4'}]},
    {'kind': 'custom-call', 'mode': 'children', 'args': [{'k': 'num', 'text': '1 + 2'}, {'k': 'num', 'text': '- 3 * 4'},
                                                        {'k': 'num', 'text': '+(5)'}, {'k': 'amount', 'text': '-6', 'cur': 'EUR'}]},
    {'kind': 'custom-call', 'mode': 'children', 'args': [{'k': 'num', 'text': '1'}, {'k': 'num', 'text': '(-2)'},
                                                        {'k': 'num', 'text': '2 * -3'}, {'k': 'num', 'text': '--4'}]},
    {'kind': 'custom-call', 'mode': 'children', 'args': [{'k': 'num', 'text': '1'}, {'k': 'num', 'text': '-2'},
                                                        {'k': 'attached', 'doc': 0, 'text': '-3', 'inner': False}]},
    {'kind': 'custom-call', 'mode': 'value', 'args': [{'k': 'dec', 'v': '1'}, {'k': 'num', 'text': '-2'}, {'k': 'dup', 'of': 1}]},
    {'kind': 'custom-call', 'mode': 'value', 'args': [{'k': 'numv', 'v': '5'}, {'k': 'datetime', 'v': [2001, 2, 3], 't': [4, 5]},
                                                     {'k': 'dec', 'v': '-1'}, {'k': 'bool', 'v': True}, {'k': 'account', 'v': 'Assets:A'}]},
]


def cu_build_arg(spec: dict, built: list):
    I = _cu()
    M, P = I['M'], I['P']
    k = spec['k']
    if k == 'str':
        return spec['v']
    if k == 'date':
        return _dt.date(*spec['v'])
    if k == 'datetime':
        return _dt.datetime(*spec['v'], *spec['t'])
    if k == 'bool':
        return bool(spec['v'])
    if k == 'dec':
        return _D(spec['v'])
    if k == 'rstr':
        return M.EscapedString.from_value(spec['v'])
    if k == 'rdate':
        return M.Date.from_value(_dt.date(*spec['v']))
    if k == 'rbool':
        return M.Bool.from_value(bool(spec['v']))
    if k == 'account':
        return M.Account.from_value(spec['v'])
    if k == 'num':
        return P.parse(spec['text'], M.NumberExpr)
    if k == 'numv':
        return M.NumberExpr.from_value(_D(spec['v']))
    if k == 'amount':
        return P.parse(spec['text'] + ' ' + spec['cur'], M.Amount)
    if k == 'amountv':
        return M.Amount.from_value(_D(spec['v']), spec['cur'])
    if k == 'attached':
        c = P.parse(CU_ATTACHED[spec['doc']].format(spec['text']), M.Custom)
        v = c.raw_values[spec['doc']]
        if spec.get('inner') and isinstance(v, M.Amount):
            return v.raw_number
        return v
    if k == 'dup':
        x = built[spec['of']]
        return x
    raise ValueError(k)


def _norm(x):
    """a Date token built from a datetime.datetime hands that very object back until the text is re-read; the model
    (and the re-parse) know the date only"""
    return x.date() if isinstance(x, _dt.datetime) else x


def _is_raw(x) -> bool:
    return not isinstance(x, (str, _dt.date, bool, _D))


class CustomCall:
    """one Custom.from_value / from_children call on the real implementation, and everything observed"""

    def __init__(self, spec: dict):
        I = _cu()
        M, P, c13 = I['M'], I['P'], I['c13']
        self.spec, self.coq, self.monitor, self.odd = spec, None, [], None
        built: list = []
        for a in spec['args']:
            built.append(cu_build_arg(a, built))
        ids: dict[int, int] = {}
        raws = [x for x in built if _is_raw(x)]
        try:
            before, before_raw = [], []
            for x in built:
                if _is_raw(x):
                    n = ids.setdefault(id(x), len(ids) + 1)
                    before_raw.append(cu_coq_value(cu_obs(x)))
                    before.append(f'inr (CV {n} {coq_bool(cu_free(x))} {before_raw[-1]})')
                else:
                    before.append(f'inl {cu_coq_py(x)}')
            exc, result = 0, None
            try:
                if spec['mode'] == 'value':
                    result = M.Custom.from_value(_dt.date(2000, 1, 1), 't', built)
                else:
                    result = M.Custom.from_children(M.Date.from_value(_dt.date(2000, 1, 1)),
                                                    M.EscapedString.from_value('t'), built)
            except ValueError:
                exc = 1
            except Exception as e:      # noqa: BLE001 - any other exception class is a disagreement with the model
                exc = 9
                self.odd = f'raised {type(e).__name__}'
            self.exc = exc
            after = [cu_coq_value(cu_obs(x)) for x in raws]
            out, toks, simple, reparsed = [], [], [], None
            self.text = None
            if result is not None:
                objs = list(result.raw_values)
                obs = [cu_obs(v) for v in objs]
                out = [cu_coq_value(o) for o in obs]
                toks = [coq_list(cu_sig_tokens(v)) for v in objs]
                vals = []
                for rawv in objs:
                    if isinstance(rawv, M.NumberExpr):      # .value may be undefined (division by zero): keep the term
                        vals.append(c13.safe(lambda: I['custom']._simplify_value(rawv)))
                        simple.append(f'(PDec {c13.coq_term(c13.term_of_text(_cu_print(rawv)))})')
                    else:
                        vals.append(_norm(I['custom']._simplify_value(rawv)))
                        simple.append(cu_coq_py(vals[-1]))
                self.text = _cu_print(result)
                try:
                    again = P.parse(self.text, M.Custom)
                    robs = [cu_obs(v) for v in again.raw_values]
                    reparsed = coq_list(cu_coq_value(o) for o in robs)
                    # the property's own statement: same values, in the same order (spacing aside)
                    if [cu_strip(o) for o in robs] != [cu_strip(o) for o in obs]:
                        self.monitor.append(f'{self.text!r} re-parses to {len(robs)} value(s) '
                                            f'{[_cu_print(v) for v in again.raw_values]}, constructed {len(obs)}: '
                                            f'{[_cu_print(v) for v in objs]}')
                    else:
                        revals = [c13.safe(lambda: I['custom']._simplify_value(v)) for v in again.raw_values]
                        if [x for x in revals if not _is_raw(x)] != [x for x in vals if not _is_raw(x)]:
                            self.monitor.append(f'{self.text!r}: values read {revals!r} after re-parse, {vals!r} before')
                except _Odd:
                    raise
                except Exception as e:      # noqa: BLE001
                    self.monitor.append(f'{self.text!r} (printed Custom) is refused by the parser: {type(e).__name__}')
            self.n_wrapped = sum(1 for a, b in zip(after, before_raw) if a != b) if result is not None else 0
            self.coq = (f'mkdcase {coq_list(before)} {exc} {coq_list(after)} {coq_list(out)} {coq_list(toks)} '
                        f'{coq_list(simple)} {coq_opt(reparsed)}')
        except _Odd as e:
            self.odd = str(e)


def cu_gen_stream(rng) -> list[tuple[str, str]]:
    """parts (kind, text) of an UNDISAMBIGUATED value list, some of them not values at all"""
    parts = []
    for _ in range(rng.choice([0, 1, 2, 2, 3, 3, 4, 5])):
        r = rng.random()
        if r < 0.55:
            parts.append(('lex', cu_gen_expr(rng)))
        elif r < 0.68:
            parts.append(('lex', cu_gen_expr(rng)))
            parts.append(('Currency', rng.choice(CU_CURS)))
        elif r < 0.74:
            parts.append(('EscapedString', '"' + rng.choice(['', 's', 'a b']) + '"'))
        elif r < 0.80:
            parts.append(('Date', rng.choice(['2001-02-03', '1999/12/31'])))
        elif r < 0.86:
            parts.append(('Bool', rng.choice(['TRUE', 'FALSE'])))
        elif r < 0.92:
            parts.append(('Account', rng.choice(CU_ACCTS)))
        elif r < 0.96:
            parts.append(('lex', rng.choice(['*', ')', '(', '+', '- ', '1 +', '( 2', '/ 3'])))
        else:
            parts.append(('Currency', rng.choice(CU_CURS)))
    # a date directly after a dangling operator / open parenthesis is not lexed as a DATE there (the contextual lexer
    # expects a number: `+ 2001-02-03` is the expression +2001 - 02 - 03), so the token kinds given to the model would
    # not be the real lexing: such streams are not generated
    out = []
    for kind, text in parts:
        if kind == 'Date' and out and out[-1][0] == 'lex' and out[-1][1].rstrip()[-1:] in ('+', '-', '*', '/', '('):
            continue
        out.append((kind, text))
    return out


CU_FIXED_STREAMS = [
    [('lex', '1'), ('lex', '-2')], [('lex', '1'), ('lex', '(2)')], [('lex', '1'), ('lex', '(2)'), ('Currency', 'USD')],
    [('lex', '1'), ('lex', '2 * 3'), ('lex', '-4'), ('Currency', 'USD'), ('Bool', 'TRUE')],
    [('lex', '1'), ('lex', '-'), ('EscapedString', '"s"')], [('lex', '1 * 2'), ('lex', '+3'), ('lex', '4')],
    [('lex', '1'), ('Currency', 'USD'), ('lex', '-2'), ('lex', '3')], [('lex', '1 +2 * -3'), ('lex', '(4) - 5')],
    [('lex', '1'), ('Date', '2001-01-01'), ('lex', '-3'), ('Currency', 'USD')], [('lex', '(1'), ('lex', '2)')],
    [('lex', '1'), ('Currency', 'USD'), ('Currency', 'USD')], [('Currency', 'USD')], [],
]


def cu_stream_case(parts) -> tuple[str, Optional[int], str]:
    I = _cu()
    M, P, c13 = I['M'], I['P'], I['c13']
    toks = []
    for kind, text in parts:
        if kind == 'lex':
            for k, s in c13.tokenize(text) or []:
                toks.append(cu_coq_tok({'num': 'Number'}.get(k) or {'+': 'AddOp', '-': 'AddOp', '*': 'MulOp', '/': 'MulOp',
                                                                   '(': 'LeftParen', ')': 'RightParen'}[s], s))
        else:
            toks.append(cu_coq_tok(kind, text))
    text = '2000-01-01 custom "t"' + ''.join(' ' + t for _, t in parts)
    try:
        c = P.parse(text, M.Custom)
        vals = [cu_obs(v) for v in c.raw_values]
        got, n = coq_list(cu_coq_value(o) for o in vals), len(vals)
    except _Odd:
        raise
    except Exception:      # noqa: BLE001 - the parser refuses the text
        got, n = None, None
    return f'({coq_list(toks)}, {coq_opt(got)})', n, text


def cu_update_cases() -> list[tuple[str, dict]]:
    I = _cu()
    M, P = I['M'], I['P']
    raws = [lambda: M.EscapedString.from_value('a'), lambda: M.Date.from_value(_dt.date(2000, 1, 1)),
            lambda: M.Bool.from_value(False), lambda: P.parse('1 + 2', M.NumberExpr), lambda: M.NumberExpr.from_value(_D('-3')),
            lambda: M.Amount.from_value(_D(1), 'USD'), lambda: M.Account.from_value('Assets:A')]
    vals = [lambda: 'x"y', lambda: '', lambda: _dt.date(2024, 2, 29), lambda: _dt.datetime(2001, 2, 3, 4, 5), lambda: True,
            lambda: False, lambda: _D('-3.5'), lambda: _D('4'), lambda: _D('1E+3'), lambda: M.Account.from_value('Assets:B'),
            lambda: M.NumberExpr.from_value(_D(7))]
    out = []
    for i, mk in enumerate(raws):
        for j, mv in enumerate(vals):
            r, v = mk(), mv()
            before = cu_coq_value(cu_obs(r))
            ok = I['custom']._update_raw(r, v)
            out.append((f'({before}, {cu_coq_py(v)}, {coq_bool(bool(ok))}, {cu_coq_value(cu_obs(r))})',
                        {'kind': 'custom-update', 'raw': i, 'value': j}))
    return out


def run_custom(ctx: common.Ctx, only: Optional[dict] = None) -> None:
    """correspondence + monitor for custom.py's hand-written value handling (see CustomValues.v)"""
    ctx.assumptions.append('custom.py: Custom.values edits through the repeated wrapper are not disambiguated by the source '
                           '(its TODO; known finding C06:custom-values-adjacent-numbers) and are outside C15_custom_*')
    if not ctx.require_coq([], extra_targets=['CustomValuesRun']):
        return
    custom_tie(ctx)
    rng = _random.Random(ctx.rng.getrandbits(48))
    specs = [only] if only else CU_FIXED_CALLS + [cu_gen_call(rng) for _ in range(ctx.scale(220, 1500))]
    runs = [CustomCall(s) for s in specs]
    for r in runs:
        if r.odd:
            ctx.fail('corr', 'custom-unexpected-shape', f'Custom.from_{r.spec["mode"]}: {r.odd}', r.spec)
        for what in r.monitor:
            ctx.monitor_failure(SIG_CUSTOM_MERGE, what, r.spec)
        kinds = [a['k'] for a in r.spec['args']]
        ctx.case({'custom': r.spec}, nontrivial=len(kinds) >= 2)
        ctx.dist('custom:' + ('refused' if getattr(r, 'exc', 0) else 'wrapped' if getattr(r, 'n_wrapped', 0) else 'plain'))
    good = [r for r in runs if r.coq]
    bad = ctx.run_coq_cases('custom', CUSTOM_PREAMBLE, 'dcase', 'check_dcase', [r.coq for r in good], chunk=40)
    ctx.count('traces_validated_against_impl', len(good) - len(bad))
    for i in bad[:3]:
        r = good[i]
        ctx.fail('corr', 'custom-disambiguate-correspondence',
                 f'Custom.from_{r.spec["mode"]} and CustomValues.disambiguate disagree (exception code {r.exc}, printed {r.text!r})',
                 r.spec)
    if only:
        return
    # the grammar side: undisambiguated juxtapositions, model's parse_values against the real parser
    streams = CU_FIXED_STREAMS + [cu_gen_stream(rng) for _ in range(ctx.scale(200, 1200))]
    pcases = []
    for parts in streams:
        try:
            coq, n, text = cu_stream_case(parts)
        except _Odd as e:
            ctx.fail('corr', 'custom-unexpected-shape', f'parsed custom values: {e}', {'kind': 'custom-stream', 'parts': parts})
            continue
        pcases.append((coq, parts, text))
        ctx.dist('custom-stream:' + ('refused' if n is None else 'merged' if n < sum(1 for k, _ in parts if k != 'Currency') else 'split'))
    bad = ctx.run_coq_cases('custom_parse', CUSTOM_PREAMBLE, 'list ctok * option (list value)', 'check_pcase',
                            [c for c, _, _ in pcases], chunk=80)
    ctx.count('traces_validated_against_impl', len(pcases) - len(bad))
    for i in bad[:3]:
        ctx.fail('corr', 'custom-parse-correspondence',
                 f'the parser and CustomValues.parse_values split {pcases[i][2]!r} differently',
                 {'kind': 'custom-stream', 'parts': pcases[i][1]})
    # _update_raw over (raw kind x value type)
    ucases = cu_update_cases()
    bad = ctx.run_coq_cases('custom_update', CUSTOM_PREAMBLE, 'value * pyval sym * bool * value', 'check_ucase',
                            [c for c, _ in ucases], chunk=100)
    ctx.count('traces_validated_against_impl', len(ucases) - len(bad))
    for i in bad[:3]:
        ctx.fail('corr', 'custom-update-raw-correspondence', 'custom._update_raw and CustomValues.update_raw disagree', ucases[i][1])


_tree_run, _tree_search, _tree_replay = run, search, replay


def run(ctx: common.Ctx):      # noqa: F811 - extends the check above
    _tree_run(ctx)
    run_custom(ctx)


def search(ctx: common.Ctx):      # noqa: F811
    _tree_search(ctx)
    run_custom(ctx)


def replay(ctx, path):      # noqa: F811
    data = _json.loads(open(path).read())
    f = data.get('failure') or (data.get('what_no_longer_checks') or [{}])[0]
    w = f.get('witness') or {}
    if isinstance(w, dict) and w.get('kind') == 'custom-call':
        r = CustomCall(w)
        print(_json.dumps({'spec': w, 'exception_code': getattr(r, 'exc', None), 'printed': getattr(r, 'text', None),
                           'monitor': r.monitor, 'odd': r.odd}, indent=1))
        run_custom(ctx, only=w)
        return 1 if (r.monitor or r.odd or ctx.failures) else 0
    return _tree_replay(ctx, path)
