"""C15 - constructed models are well-formed and parse back to the same content."""
from harness import common, doc_checks, tree_check

tree_check.RULES['C15'] = ('every tree model class with from_value, arguments by parameter name from in-domain pools, each optional '
                           'argument present with probability 0.6 (thorough: 150 draws per class), plus directives assembled into '
                           'a File; the constructed tree must satisfy the C05 well-formedness statement, its printed text must be '
                           'accepted by parse() for that class and the re-parsed content must equal the constructed content')


def run(ctx: common.Ctx):
    tree_check.setup(ctx, 'C15')
    doc_checks.run_c15(ctx)
    doc_checks.run_c15_comment_layouts(ctx)
    tree_check.correspondence(ctx, 'C15')


def search(ctx: common.Ctx):
    doc_checks.run_c15(ctx)
    doc_checks.run_c15_comment_layouts(ctx)


def replay(ctx, path):
    return tree_check.replay(ctx, path, 'C15')
