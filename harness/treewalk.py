"""Generic walking of autobean_refactor model trees (no knowledge of individual classes):
children by introspection of the field descriptors, structural dump, well-formedness check (the C05
statement evaluated on the implementation), semantic content (for re-parse comparison, C06/C15)."""
from __future__ import annotations

from typing import Any, Iterator, Optional

from autobean_refactor import models
from autobean_refactor.models import base
from autobean_refactor.models.internal import fields as fields_lib
from autobean_refactor.models.internal.repeated import Repeated
from autobean_refactor.models.internal.placeholder import Placeholder

TRIVIA_RULES = {'WHITESPACE', '_NEWLINE', '_COMMA', 'BLOCK_COMMENT', 'PLACEHOLDER'}


def node_fields(m: base.RawTreeModel) -> list[tuple[str, Any]]:
    """(attribute name, value) for every node field of a tree model, in declaration (= span) order."""
    if isinstance(m, Repeated):
        return [('placeholder', m.placeholder)] + [(f'items[{i}]', it) for i, it in enumerate(m.items)]
    if isinstance(m, (models.NumberAddExpr, models.NumberMulExpr)):
        out = []
        ops = m.raw_ops                      # public properties (the private storage may be named differently)
        for i, opd in enumerate(m.raw_operands):
            if i:
                out.append((f'ops[{i-1}]', ops[i - 1]))
            out.append((f'operands[{i}]', opd))
        return out
    seen = {}
    for cls in reversed(type(m).__mro__):
        for name, attr in vars(cls).items():
            if isinstance(attr, fields_lib.field):
                seen[name] = attr
    # order: the order of __init__ assignment = order in instance __dict__
    order = [k for k in m.__dict__ if k in seen]
    missing = [k for k in seen if k not in m.__dict__]
    out = [(k, m.__dict__[k]) for k in order]
    for k in missing:
        out.append((k, None))
    return out


def children(m) -> list[tuple[str, Any]]:
    if isinstance(m, base.RawTokenModel):
        return []
    return [(k, v) for k, v in node_fields(m) if v is not None]


def walk(m, path='root') -> Iterator[tuple[str, Any]]:
    yield path, m
    if isinstance(m, base.RawTreeModel):
        for k, v in children(m):
            yield from walk(v, f'{path}.{k}')


def leaves(m) -> list[base.RawTokenModel]:
    return [x for _, x in walk(m) if isinstance(x, base.RawTokenModel)]


def dump(m) -> Any:
    """Structural dump: class, per-field children (recursively), leaf = (RULE, raw_text). Ownership of
    comments shows up as the presence of _leading_comment/_trailing_comment/entries."""
    if m is None:
        return None
    if isinstance(m, base.RawTokenModel):
        extra = ()
        if isinstance(m, models.BlockComment):
            extra = (m.claimed,)
        return (type(m).__name__, m.raw_text) + extra
    d = {'__class__': type(m).__name__}
    if hasattr(m, 'indent_by') and 'indent_by' in m.__dict__:
        d['indent_by'] = m.__dict__['indent_by']
    for k, v in node_fields(m):
        d[k] = dump(v)
    return d


def wf_problems(root, *, expect_whole_store: bool = False) -> list[str]:
    """The C05 statement on the implementation. Returns a list of human-readable problems (empty = WF)."""
    probs: list[str] = []
    store = root.token_store
    if store is None:
        return ['root has no token store']
    toks = list(store)
    pos = {id(t): i for i, t in enumerate(toks)}
    owner: dict[int, list[str]] = {}

    def span(m, path) -> Optional[tuple[int, int]]:
        try:
            f, l = m.first_token, m.last_token
        except Exception as e:  # noqa
            probs.append(f'{path}: first/last raised {type(e).__name__}')
            return None
        if id(f) not in pos or id(l) not in pos:
            probs.append(f'{path} ({type(m).__name__}): first/last token not in the root store')
            return None
        if pos[id(f)] > pos[id(l)]:
            probs.append(f'{path} ({type(m).__name__}): first token after last token')
            return None
        return pos[id(f)], pos[id(l)]

    def rec(m, path) -> Optional[tuple[int, int]]:
        if isinstance(m, base.RawTokenModel):
            if id(m) not in pos:
                probs.append(f'{path}: leaf {type(m).__name__} {m.raw_text!r} is not in the root store')
                return None
            owner.setdefault(id(m), []).append(path)
            return pos[id(m)], pos[id(m)]
        if m.token_store is not store:
            probs.append(f'{path} ({type(m).__name__}): lives in a different token store')
        sp = span(m, path)
        prev_end = None
        prev_name = None
        for k, v in children(m):
            csp = rec(v, f'{path}.{k}')
            if csp is None or sp is None:
                continue
            if csp[0] < sp[0] or csp[1] > sp[1]:
                probs.append(f'{path}.{k}: child span {csp} outside parent span {sp}')
            if prev_end is not None and csp[0] <= prev_end:
                # an empty Repeated's span is its placeholder; placeholders may be permuted among
                # themselves by comment claiming, so only flag overlaps that involve visible text
                if any(toks[i].raw_text for i in range(csp[0], min(prev_end, csp[1]) + 1)):
                    probs.append(f'{path}.{k}: overlaps/precedes previous sibling {prev_name} ({csp} vs end {prev_end})')
            prev_end = csp[1] if prev_end is None else max(prev_end, csp[1])
            prev_name = k
        return sp

    rec(root, 'root')
    for t in toks:
        rule = getattr(t, 'RULE', None)
        n = len(owner.get(id(t), []))
        if n > 1:
            probs.append(f'token {rule} {t.raw_text!r} is a leaf at {n} positions: {owner[id(t)][:3]}')
        significant = bool(t.raw_text) and rule not in TRIVIA_RULES
        if significant and n == 0:
            probs.append(f'significant token {rule} {t.raw_text!r} at index {pos[id(t)]} is owned by no leaf')
    if expect_whole_store:
        sp = span(root, 'root')
        if sp is not None and toks and sp != (0, len(toks) - 1):
            # tokens outside the root span must be invisible
            outside = ''.join(t.raw_text for i, t in enumerate(toks) if i < sp[0] or i > sp[1])
            if outside:
                probs.append(f'self-contained tree does not span its store (visible text {outside!r} outside)')
    return probs


def text_of(m) -> str:
    import io
    from autobean_refactor import printer
    return printer.print_model(m, io.StringIO()).getvalue()


def content(m) -> Any:
    """Semantic content for re-parse comparison: classes, fields, leaf values, nesting and order;
    block-comment attribution and trailing blanks of inline comments are left out (C06 text)."""
    if m is None:
        return None
    if isinstance(m, models.BlockComment):
        return None
    if isinstance(m, base.RawTokenModel):
        if isinstance(m, models.InlineComment):
            return ('InlineComment', m.raw_text.rstrip(' \t'))
        if isinstance(m, Placeholder) or not m.raw_text and type(m).__name__ in ('Eol', 'DedentMark'):
            return None
        v = getattr(m, 'value', m.raw_text)
        return (type(m).__name__, repr(v))
    d = {'__class__': type(m).__name__}
    for k, v in node_fields(m):
        if k in ('_leading_comment', '_trailing_comment', '_dedent_mark', '_eol', 'placeholder'):
            continue
        if isinstance(v, Repeated):
            d[k] = [content(x) for x in v.items if not isinstance(x, models.BlockComment)]
        else:
            c = content(v)
            d[k] = c
    return d
