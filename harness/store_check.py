"""Shared body of the C07 / C08 / C02 checks (all three are theorems about Store.v)."""
from __future__ import annotations

import json
import random

from harness import common, store_driver as sd

PREAMBLE = 'From AB Require Import Store StoreRun.'


def histories(ctx, n_hist: int, text_heavy: bool):
    for k in range(n_hist):
        lf = ctx.rng.choice(sd.LFS_QUICK if ctx.quick else sd.LFS_QUICK + [7, 16])
        n_ops = ctx.rng.choice([4, 8, 15, 30] if ctx.quick else [8, 15, 30, 60])
        n_tok = ctx.rng.choice([6, 12, 8 * lf, 14 * lf])
        n_tok = min(n_tok, 90)
        texts, ops = sd.gen_history(ctx.rng, lf, n_ops, n_tok)
        if text_heavy:
            # more text updates, on live tokens, with and without line breaks
            extra = []
            for op in ops:
                extra.append(op)
                if ctx.rng.random() < 0.5:
                    extra.append(('set_text', ctx.rng.randrange(1, n_tok + 1), sd.gen_text(ctx.rng)))
            ops = extra
        yield lf, texts, ops


def run_store(ctx: common.Ctx, prop_sigs: tuple[str, ...], n_quick: int, n_thorough: int, text_heavy: bool = False):
    n_hist = ctx.scale(n_quick, n_thorough)
    cases, metas = [], []
    for lf, texts, ops in histories(ctx, n_hist, text_heavy):
        steps, fails = sd.run_history(lf, texts, ops)
        blocks_max = max((len(d['blocks']) for _, d in steps), default=0)
        ctx.case({'lf': lf, 'n_tok': len(texts), 'ops': [o[0] for o in ops][:12], 'blocks_max': blocks_max},
                 nontrivial=blocks_max >= 2 or any(d['res'] for _, d in steps))
        ctx.dist(f'lf={lf}')
        ctx.dist(f'blocks_max={min(blocks_max, 6)}')
        for o, d in steps:
            ctx.dist('op=' + o[0])
            if d['res']:
                ctx.dist(f'refused={d["res"]}')
        ctx.count('impl_steps', len(steps))
        for f in fails:
            if f['sig'].split(':')[0] in prop_sigs:
                ctx.monitor_failure(f['sig'], f['what'], f['where'])
            else:
                ctx.count('other_property_failures')
                ctx.notes.append(f'(belongs to {f["sig"]}) {f["what"]}')
        cases.append(sd.coq_case(lf, texts, steps))
        metas.append((lf, texts, ops))
    bad = ctx.run_coq_cases('store', PREAMBLE, 'scase', 'check_case', cases, chunk=40)
    ctx.count('traces_validated_against_impl', len(cases) - len(bad))
    for i in bad[:3]:
        lf, texts, ops = metas[i]
        small = shrink(ctx, lf, texts, ops)
        ctx.fail('corr', 'store-correspondence',
                 'Store.v and token_store.py disagree on the concrete state after an operation history',
                 {'lf': small[0], 'texts': small[1], 'ops': small[2]})


def disagrees(ctx, lf, texts, ops) -> bool:
    steps, _ = sd.run_history(lf, texts, ops)
    bad = ctx.run_coq_cases('shrink', PREAMBLE, 'scase', 'check_case', [sd.coq_case(lf, texts, steps)])
    return bool(bad)


def shrink(ctx, lf, texts, ops, budget: int = 25):
    """Greedy delta-debugging on the operation list (keeps the first op: the initial contents)."""
    cur = list(ops)
    n = 0
    # first: cut the tail after the first disagreeing step
    lo, hi = 1, len(cur)
    while lo < hi and n < budget:
        mid = (lo + hi) // 2
        n += 1
        if disagrees(ctx, lf, texts, cur[:mid]):
            hi = mid
        else:
            lo = mid + 1
    cur = cur[:hi]
    i = 1
    while i < len(cur) - 1 and n < budget:
        cand = cur[:i] + cur[i + 1:]
        n += 1
        try:
            if disagrees(ctx, lf, texts, cand):
                cur = cand
                continue
        except Exception:
            pass
        i += 1
    return lf, texts, cur


def replay(ctx: common.Ctx, path: str, prop_sigs) -> int:
    data = json.loads(open(path).read())
    f = data.get('failure') or (data.get('what_no_longer_checks') or [{}])[0]
    w = f.get('witness') or {}
    if 'ops' in w:
        lf, texts, ops = w['lf'], w['texts'], [tuple(o) for o in w['ops']]
        steps, fails = sd.run_history(lf, texts, ops)
        for x in fails:
            print('monitor:', x['sig'], x['what'])
        bad = ctx.run_coq_cases('replay', PREAMBLE, 'scase', 'check_case', [sd.coq_case(lf, texts, steps)])
        print('model/implementation agree' if not bad else 'model/implementation DISAGREE')
        return 1 if (fails or bad) else 0
    print(json.dumps(f, indent=1))
    return 1
