"""Shared body of the C07 / C08 / C02 checks (all three are theorems about Store.v)."""
from __future__ import annotations

import json
import random

from harness import common, store_driver as sd

PREAMBLE = 'From AB Require Import Store StoreRun.'


def histories(ctx, n_hist: int, text_heavy: bool):
    for k in range(n_hist):
        lf = ctx.rng.choice(sd.LFS_QUICK if ctx.quick else sd.LFS_QUICK + [7, 16])
        n_ops = ctx.rng.choice([4, 8, 15, 30] if ctx.quick else [8, 15, 30, 60])
        n_tok = ctx.rng.choice([6, 12, 8 * lf, 14 * lf])
        n_tok = min(n_tok, 90)
        directed_breaks = False
        if k % 6 == 5:
            texts, ops = sd.gen_directed_breaks(ctx.rng, lf)
            n_tok = len(texts)
            directed_breaks = True
        elif k % 3 == 2:
            texts, ops = sd.gen_directed(ctx.rng, lf)
            n_tok = len(texts)
        else:
            texts, ops = sd.gen_history(ctx.rng, lf, n_ops, n_tok)
        if text_heavy and not directed_breaks:
            # more text updates, on live tokens, with and without line breaks
            extra = []
            for op in ops:
                extra.append(op)
                if ctx.rng.random() < 0.5:
                    extra.append(('set_text', ctx.rng.randrange(1, n_tok + 1), sd.gen_text(ctx.rng)))
            ops = extra
        yield lf, texts, ops


def run_store(ctx: common.Ctx, prop_sigs: tuple[str, ...], n_quick: int, n_thorough: int, text_heavy: bool = False):
    n_hist = ctx.scale(n_quick, n_thorough)
    cases, metas = [], []
    for lf, texts, ops in histories(ctx, n_hist, text_heavy):
        steps, fails = sd.run_history(lf, texts, ops)
        blocks_max = max((len(d['blocks']) for _, d in steps), default=0)
        ctx.case({'lf': lf, 'n_tok': len(texts), 'ops': [o[0] for o in ops][:12], 'blocks_max': blocks_max},
                 nontrivial=blocks_max >= 2 or any(d['res'] for _, d in steps))
        ctx.dist(f'lf={lf}')
        ctx.dist(f'blocks_max={min(blocks_max, 6)}')
        for o, d in steps:
            ctx.dist('op=' + o[0])
            if d['res']:
                ctx.dist(f'refused={d["res"]}')
        ctx.count('impl_steps', len(steps))
        for f in fails:
            if f['sig'].split(':')[0] in prop_sigs:
                ctx.monitor_failure(f['sig'], f['what'], f['where'])
            else:
                ctx.count('other_property_failures')
                ctx.notes.append(f'(belongs to {f["sig"]}) {f["what"]}')
        cases.append(sd.coq_case(lf, texts, steps))
        metas.append((lf, texts, ops))
    bad = ctx.run_coq_cases('store', PREAMBLE, 'scase', 'check_case', cases, chunk=40)
    ctx.count('traces_validated_against_impl', len(cases) - len(bad))
    for i in bad[:3]:
        lf, texts, ops = metas[i]
        small = shrink(ctx, lf, texts, ops)
        ctx.fail('corr', 'store-correspondence',
                 'Store.v and token_store.py disagree on the concrete state after an operation history',
                 {'lf': small[0], 'texts': small[1], 'ops': small[2]})


def disagrees(ctx, lf, texts, ops) -> bool:
    steps, _ = sd.run_history(lf, texts, ops)
    bad = ctx.run_coq_cases('shrink', PREAMBLE, 'scase', 'check_case', [sd.coq_case(lf, texts, steps)])
    return bool(bad)


def shrink(ctx, lf, texts, ops, budget: int = 25):
    """Greedy delta-debugging on the operation list (keeps the first op: the initial contents)."""
    cur = list(ops)
    n = 0
    # first: cut the tail after the first disagreeing step
    lo, hi = 1, len(cur)
    while lo < hi and n < budget:
        mid = (lo + hi) // 2
        n += 1
        if disagrees(ctx, lf, texts, cur[:mid]):
            hi = mid
        else:
            lo = mid + 1
    cur = cur[:hi]
    i = 1
    while i < len(cur) - 1 and n < budget:
        cand = cur[:i] + cur[i + 1:]
        n += 1
        try:
            if disagrees(ctx, lf, texts, cand):
                cur = cand
                continue
        except Exception:
            pass
        i += 1
    return lf, texts, cur


def replay(ctx: common.Ctx, path: str, prop_sigs) -> int:
    data = json.loads(open(path).read())
    f = data.get('failure') or (data.get('what_no_longer_checks') or [{}])[0]
    w = f.get('witness') or {}
    if 'ops' in w:
        lf, texts, ops = w['lf'], w['texts'], [tuple(o) for o in w['ops']]
        steps, fails = sd.run_history(lf, texts, ops, all_iters_at=set(range(len(ops))) if w.get('all_iters') else None)
        for x in fails:
            print('monitor:', x['sig'], x['what'])
        bad = ctx.run_coq_cases('replay', PREAMBLE, 'scase', 'check_case', [sd.coq_case(lf, texts, steps)])
        print('model/implementation agree' if not bad else 'model/implementation DISAGREE')
        return 1 if (fails or bad) else 0
    if 'property_steps' in w:
        from harness import gen_docs
        sd.set_load_factor(w['lf'])
        doc = gen_docs.parse_ok(w['text'], auto_claim=w.get('auto_claim', True))
        rc = 0
        for k, e1, e2 in w['property_steps']:
            got = property_step(doc, k, _dec(e1), _dec(e2))
            if got is not None and got[0] != 'refused':
                print('monitor:', got[0], got[1])
                rc = 1
                break
        sd.set_load_factor(1000)
        print('reproduced' if rc else 'not reproduced')
        return rc
    print(json.dumps(f, indent=1))
    return 1


# ---- document level (C02 / C08): value / raw_text / indent assignments on parsed ledgers ----------
def _new_value(rng, tok):
    import datetime
    import decimal
    rule = getattr(tok, 'RULE', None)
    if rule == 'ESCAPED_STRING':
        # incl. texts of one length with different line-break layouts (a "same width, nothing moves" shortcut is wrong)
        return 'value', rng.choice(['n', 'two\nlines', 'q"uote', 'a\n\nb\n', '', 'two lines', 'tw\no\nines', 'two\nlines', 'twolines\n'])
    if rule == 'BLOCK_COMMENT':
        return rng.choice([('value', rng.choice(['x', 'x\ny', 'x\n\nz', ''])), ('indent', rng.choice(['', '  ', '\t']))])
    if rule == 'INLINE_COMMENT':
        return 'value', rng.choice(['c', 'longer comment', ''])
    if rule == 'NUMBER':
        return 'value', decimal.Decimal(rng.choice(['42.5', '0', '1000000', '3.14159']))
    if rule == 'DATE':
        return 'value', datetime.date(rng.choice([1999, 2024]), rng.randrange(1, 13), rng.randrange(1, 29))
    if rule == 'ACCOUNT':
        return 'value', rng.choice(['Assets:X', 'Expenses:Very:Long:Account-Name'])
    if rule == 'CURRENCY':
        return 'value', rng.choice(['JPY', 'AB', 'LONG.CUR-X'])
    if rule == 'TAG':
        return 'value', rng.choice(['t', 'longer-tag'])
    if rule == 'LINK':
        return 'value', rng.choice(['l', 'longer-link'])
    if rule == 'META_KEY':
        return 'value', rng.choice(['kk', 'another-key'])
    if rule == 'WHITESPACE':
        return 'raw_text', rng.choice([' ', '   ', '\t'])
    if rule == '_NEWLINE':
        return 'raw_text', rng.choice(['\n', '\n\n', '\r\n'])
    return None


def _positions(tokens):
    line = col = 0
    out = []
    for t in tokens:
        out.append((line, col))
        s = t.raw_text
        if '\n' in s:
            line += s.count('\n')
            col = len(s) - s.rfind('\n') - 1
        else:
            col += len(s)
    return out


def setter_tie(ctx: common.Ctx):
    """Tie (ast, fail closed): every value / raw_text / indent setter of the token classes writes its text
    through Token._update_raw_text (the function Store.set_text models) and never assigns _raw_text directly."""
    import ast
    files = ['autobean_refactor/models/internal/base_token_models.py', 'autobean_refactor/models/block_comment.py',
             'autobean_refactor/token_store.py']
    for rel in files:
        path = common.REPO / rel
        try:
            tree = ast.parse(path.read_text())
        except Exception as e:
            ctx.fail('tie', 'setter-tie', f'cannot parse {rel}: {e}')
            continue
        for cls in [n for n in ast.walk(tree) if isinstance(n, ast.ClassDef)]:
            for fn in [n for n in cls.body if isinstance(n, ast.FunctionDef)]:
                is_setter = any(isinstance(d, ast.Attribute) and d.attr == 'setter' for d in fn.decorator_list)
                writes_raw = [n for n in ast.walk(fn) if isinstance(n, ast.Assign) and any(
                    isinstance(t, ast.Attribute) and t.attr == '_raw_text' for t in n.targets)]
                calls_update = any(isinstance(n, ast.Call) and isinstance(n.func, ast.Attribute) and n.func.attr == '_update_raw_text'
                                   for n in ast.walk(fn))
                if writes_raw and fn.name not in ('__init__', '_update_raw_text'):
                    ctx.fail('tie', 'setter-tie', f'{rel}: {cls.name}.{fn.name} assigns _raw_text directly (bypasses the size caches the '
                                                  f'store theorems are about)')
                if is_setter and fn.name in ('value', 'indent', 'raw_text') and not calls_update:
                    ctx.fail('tie', 'setter-tie', f'{rel}: setter {cls.name}.{fn.name} does not go through _update_raw_text')
    ctx.count('setter_tie_checked')


# ---- value-level properties that are specified to update ONE existing token in place ------------------------
def _walk_models(root):
    """All models reachable from a File through raw_* attributes, in a deterministic order."""
    from autobean_refactor.models import base
    seen, out, todo = set(), [], [root]
    while todo:
        m = todo.pop(0)
        if id(m) in seen or not isinstance(m, base.RawModel):
            continue
        seen.add(id(m))
        out.append(m)
        for name in sorted(n for n in dir(type(m)) if n.startswith('raw_')):
            try:
                v = getattr(m, name)
            except Exception:
                continue
            if isinstance(v, base.RawModel):
                todo.append(v)
            elif v is not None and not isinstance(v, (str, bytes)):
                try:
                    todo.extend(x for x in v if isinstance(x, base.RawModel))
                except TypeError:
                    pass
    return out


def _value_slots(f):
    """(model, attribute name, descriptor, token) for every value property (required / optional string / indented
    string / decimal / date) whose slot currently holds a single token."""
    import inspect
    from autobean_refactor.models import base
    from autobean_refactor.models.internal import value_properties as vp
    kinds = (vp.required_value_property, vp.optional_string_property, vp.optional_indented_string_property,
             vp.optional_decimal_property, vp.optional_date_property)
    out = []
    for m in _walk_models(f):
        for name in sorted(dir(type(m))):
            if name.startswith('_'):
                continue
            try:
                d = inspect.getattr_static(type(m), name)
            except AttributeError:
                continue
            if not isinstance(d, kinds):
                continue
            try:
                inner = d._inner_property.__get__(m)
            except Exception:
                continue
            if isinstance(inner, base.RawTokenModel) and inner.token_store is f.token_store:
                out.append((m, name, d, inner))
    return out


def _enc(v):
    import datetime
    import decimal
    if isinstance(v, decimal.Decimal):
        return ['dec', str(v)]
    if isinstance(v, datetime.date):
        return ['date', v.isoformat()]
    return ['str', v]


def _dec(e):
    import datetime
    import decimal
    return {'dec': decimal.Decimal, 'date': datetime.date.fromisoformat, 'str': str}[e[0]](e[1])


def _slot_values(rng, tok):
    """Two values of the token's domain, boundary ones first ('' where the domain has it, one character, several
    lines for comments)."""
    rule = getattr(tok, 'RULE', None)
    if rule == 'BLOCK_COMMENT':
        pool = ['', 'x', 'two\nlines', 'a\n\nb']
    elif rule == 'INLINE_COMMENT':
        pool = ['', 'c', 'longer comment']
    elif rule == 'ESCAPED_STRING':
        pool = ['', 'n', 'two\nlines', 'q"uote']
    else:
        got = _new_value(rng, tok)
        if got is None or got[0] != 'value':
            return None
        pool = [got[1], (_new_value(rng, tok) or got)[1]]
    rng.shuffle(pool)
    return pool[0], pool[1 % len(pool)]


def property_step(f, slot_index: int, v1, v2):
    """One in-place property assignment and a follow-up through the held token. Returns (signature, message) or None."""
    from harness import gen_docs
    slots = _value_slots(f)
    if slot_index >= len(slots):
        return None
    m, name, d, held = slots[slot_index]
    store = f.token_store
    toks = list(store)
    before = [t.raw_text for t in toks]
    i = next(k for k, t in enumerate(toks) if t is held)
    indent0 = getattr(held, 'indent', None)
    label = f'{type(m).__name__}.{name} = {v1!r} (slot token {i}, {held.RULE})'
    try:
        setattr(m, name, v1)
    except (ValueError, TypeError, AssertionError):
        return ('refused', label)
    after = list(store)
    if d._inner_property.__get__(m) is not held or held.token_store is not store:
        return ('C02:doc-property-token-swapped', f'{label}: the token object at that slot was replaced instead of updated')
    if len(after) != len(toks) or any(a is not b for a, b in zip(after, toks)):
        return ('C02:doc-identity', f'{label}: token identity/order changed')
    now = [t.raw_text for t in after]
    if now[:i] != before[:i] or now[i + 1:] != before[i + 1:]:
        return ('C02:doc-other-text', f'{label}: another token changed')
    if gen_docs.print_model(f) != ''.join(before[:i]) + held.raw_text + ''.join(before[i + 1:]):
        return ('C02:doc-print', f'{label}: printed text is not the old text with that token span replaced')
    if indent0 is not None and held.indent != indent0:
        return ('C02:doc-comment-reindented', f'{label}: the comment was re-indented from {indent0!r} to {held.indent!r}')
    if getattr(m, name) != v1:
        return ('C02:doc-property-readback', f'{label}: reads back {getattr(m, name)!r}')
    # a reference to the token taken before the assignment still writes through to the document
    try:
        held.value = v2
    except (ValueError, TypeError, AssertionError):
        return None
    if gen_docs.print_model(f) != ''.join(before[:i]) + held.raw_text + ''.join(before[i + 1:]) or getattr(m, name) != v2:
        return ('C02:doc-held-token-dead', f'{label}: a later assignment {v2!r} through the held token does not reach the document')
    return None


def run_property_steps(ctx, f, text, lf, auto_claim, prop_sigs) -> bool:
    """A few in-place property assignments on a freshly parsed document. False when a failure was recorded."""
    steps = []
    n = len(_value_slots(f))
    if not n:
        return True
    order = list(range(n))
    ctx.rng.shuffle(order)
    # comment slots first: their boundary value '' is the fragile one
    slots = _value_slots(f)
    order.sort(key=lambda k: 0 if slots[k][3].RULE in ('BLOCK_COMMENT', 'INLINE_COMMENT') else 1)
    for k in order[:ctx.rng.choice([2, 4, 6])]:
        tok = _value_slots(f)[k][3] if k < len(_value_slots(f)) else None
        vals = _slot_values(ctx.rng, tok) if tok is not None else None
        if vals is None:
            continue
        steps.append([k, _enc(vals[0]), _enc(vals[1])])
        got = property_step(f, k, vals[0], vals[1])
        if got is None:
            ctx.count('property_assignments')
            continue
        if got[0] == 'refused':
            ctx.count('assignment_refused')
            continue
        if got[0].split(':')[0] in prop_sigs:
            ctx.monitor_failure(got[0], got[1], {'lf': lf, 'text': text, 'auto_claim': auto_claim, 'property_steps': steps})
            return False
    return True


def comment_indent_probe(ctx: common.Ctx):
    """An indent assignment on a block comment whose lines all read '; text' or a bare ';' (LF and CRLF, with empty
    comment lines) changes the indentation only: what follows the indentation of every line stays as it was."""
    from autobean_refactor import models
    raws = ['; a\n; b', '  ; a\n  ;\n  ; b', '\t; a\r\n\t;\r\n\t; b', '    ; x\r\n    ;\r\n    ;\r\n    ; y z', '; only', '  ;\n  ; after blank',
            '; a\r\n;\r\n; b\r\n;\r\n; c']
    for raw in raws:
        for ind_ in ('', '  ', '\t', '      '):
            try:
                t = models.BlockComment.from_raw_text(raw)
            except Exception:
                continue
            ctx.count('comment_indent_probes')
            before = [ln.lstrip(' \t') for ln in t.raw_text.split('\n')]
            t.indent = ind_
            lines = t.raw_text.split('\n')
            after = [ln.lstrip(' \t') for ln in lines]
            if after != before or any(not ln.startswith(ind_ + ';') for ln in lines):
                ctx.monitor_failure('C02:doc-comment-reindented', f'indent = {ind_!r} on the comment {raw!r} gives {t.raw_text!r}: characters behind '
                                    f'the indentation changed (or a line is not indented as assigned)', {'raw': raw, 'indent': ind_})
                return
            v = t.value
            t.value = v
            if [ln.lstrip(' \t') for ln in t.raw_text.split('\n')] != before:
                ctx.monitor_failure('C02:doc-state-vs-text', f'value = <its own value> on the comment {raw!r} (indent {ind_!r}) rewrites it to '
                                    f'{t.raw_text!r}', {'raw': raw, 'indent': ind_})
                return


def run_documents(ctx: common.Ctx, prop_sigs, n_quick: int = 25, n_thorough: int = 250):
    from harness import gen_docs
    setter_tie(ctx)
    if 'C02' in prop_sigs:
        comment_indent_probe(ctx)
    sd.set_load_factor(ctx.rng.choice([4, 10, 1000]))
    for _ in range(ctx.scale(n_quick, n_thorough)):
        lf = ctx.rng.choice([3, 8, 1000])
        sd.set_load_factor(lf)
        text = gen_docs.ledger(ctx.rng)
        auto_claim = ctx.rng.random() < 0.7
        f = gen_docs.parse_ok(text, auto_claim=auto_claim)
        if f is None:
            ctx.count('rejected_documents')
            continue
        if 'C02' in prop_sigs and not run_property_steps(ctx, f, text, lf, auto_claim, prop_sigs):
            continue
        f = gen_docs.parse_ok(text, auto_claim=auto_claim)     # token-level assignments start from the parsed text again
        store = f.token_store
        n_assign = 0
        hist = []
        last_tok = None
        for step in range(ctx.rng.choice([3, 6, 12])):
            toks = list(store)
            cands = [t for t in toks if _new_value(ctx.rng, t) is not None]
            if not cands:
                break
            tok = ctx.rng.choice(cands)
            if hist and ctx.rng.random() < 0.35 and any(t is last_tok for t in cands):
                tok = last_tok            # several assignments in a row to one token
            last_tok = tok
            attr, val = _new_value(ctx.rng, tok)
            before = [t.raw_text for t in toks]
            i = next(k for k, t in enumerate(toks) if t is tok)
            prev_indent = None
            if tok.RULE == 'BLOCK_COMMENT':
                # sometimes first give the comment another indentation through its raw text, then assign as planned
                if ctx.rng.random() < 0.4:
                    try:
                        tok.raw_text = ctx.rng.choice(['\t; re\n\t; written', '  ;x', '      ; y'])
                        before = [t.raw_text for t in toks]
                    except Exception:
                        pass
                prev_indent = type(tok).from_raw_text(tok.raw_text).indent
            # a refused raw text (outside the token type's language) must leave the document as it was
            bad_text = {'DATE': '2021-02-30', 'NUMBER': '12x', 'BOOL': 'true', 'ESCAPED_STRING': 'no quotes'}.get(tok.RULE)
            if bad_text is not None and ctx.rng.random() < 0.5:
                printed0 = gen_docs.print_model(f)
                try:
                    tok.raw_text = bad_text
                    refused = False
                except Exception:
                    refused = True
                if refused and (gen_docs.print_model(f) != printed0 or tok.raw_text != before[i]):
                    ctx.monitor_failure('C02:doc-refused-assignment-wrote', f'raw_text = {bad_text!r} on token {i} ({tok.RULE}) was refused '
                                        f'but the token text changed', {'lf': lf, 'text': text, 'assignments': hist})
                    break
                if not refused:
                    before = [t.raw_text for t in toks]
            try:
                setattr(tok, attr, val)
            except Exception as e:      # out-of-domain value for this token type: not this property's concern
                ctx.count('assignment_refused')
                continue
            n_assign += 1
            hist.append((i, tok.RULE, attr, repr(val)))
            after = list(store)
            if 'C02' in prop_sigs and hasattr(type(tok), 'from_raw_text'):
                # the new raw text is the rendering of the token's state: re-reading it gives the same value (and, for
                # comments, the indent the token had - a value assignment must not re-indent, an indent one not re-word)
                try:
                    fresh = type(tok).from_raw_text(tok.raw_text)
                    same = (getattr(fresh, 'value', None) == getattr(tok, 'value', None)
                            and getattr(fresh, 'indent', None) == getattr(tok, 'indent', None))
                except Exception as e:
                    same = False
                if not same:
                    ctx.monitor_failure('C02:doc-state-vs-text', f'after {attr} assignment on token {i} ({tok.RULE}) the raw text '
                                        f'{tok.raw_text!r} does not describe the token (value {getattr(tok, "value", None)!r}, indent '
                                        f'{getattr(tok, "indent", None)!r})', {'lf': lf, 'text': text, 'assignments': hist})
                    break
                if tok.RULE == 'BLOCK_COMMENT' and attr == 'value' and prev_indent is not None and tok.indent != prev_indent:
                    ctx.monitor_failure('C02:doc-comment-reindented', f'value assignment on comment token {i} changed its indentation '
                                        f'from {prev_indent!r} to {tok.indent!r}', {'lf': lf, 'text': text, 'assignments': hist})
                    break
            where = {'lf': lf, 'text': text, 'assignments': hist}
            if 'C02' in prop_sigs:
                if len(after) != len(toks) or any(a is not b for a, b in zip(after, toks)):
                    ctx.monitor_failure('C02:doc-identity', f'{attr} assignment on token {i} ({tok.RULE}) changed token identity/order', where)
                    break
                now = [t.raw_text for t in after]
                if now[:i] != before[:i] or now[i + 1:] != before[i + 1:]:
                    ctx.monitor_failure('C02:doc-other-text', f'{attr} assignment on token {i} ({tok.RULE}) changed another token', where)
                    break
                printed = gen_docs.print_model(f)
                if printed != ''.join(before[:i]) + tok.raw_text + ''.join(before[i + 1:]):
                    ctx.monitor_failure('C02:doc-print', f'printed text is not the old text with token {i} replaced', where)
                    break
            if 'C08' in prop_sigs:
                exp = _positions(after)
                bad = None
                for k, t in enumerate(after):
                    x = t.raw_text
                    if (t.size.line, t.size.column) != (x.count('\n'), len(x) - x.rfind('\n') - 1):
                        bad = f'token {k} ({t.RULE}) has cached size {(t.size.line, t.size.column)} for text {x!r} after {attr} assignment on token {i}'
                        break
                    p = store.get_position(t)
                    if (p.line, p.column) != exp[k]:
                        bad = f'get_position(token {k}) = {(p.line, p.column)}, text says {exp[k]} after {attr} assignment on token {i} ({tok.RULE})'
                        break
                    if store.get_index(t) != k:
                        bad = f'get_index(token {k}) = {store.get_index(t)}'
                        break
                if bad:
                    ctx.monitor_failure('C08:doc-position', bad, where)
                    break
        ctx.case({'doc_chars': len(text), 'tokens': len(store), 'assignments': hist[:6], 'lf': lf}, nontrivial=n_assign > 0)
        ctx.count('document_assignments', n_assign)
    sd.set_load_factor(1000)
