"""Seeded generator of beancount ledgers: structured, mostly valid, covering every directive kind,
optional parts, comments in every position, indentation styles, blank / whitespace-only lines,
LF / CRLF and a missing final newline."""
from __future__ import annotations

import random

ACCOUNTS = ['Assets:Cash', 'Assets:Bank:Checking', 'Expenses:Food', 'Income:Salary', 'Liabilities:Card-1',
            'Equity:Opening-Balances', 'Assets:É:Ünï']
CURRENCIES = ['USD', 'EUR', 'GBP', 'HOOL', 'V-X.Y', 'CAD']
STRINGS = ['"x"', '"hello world"', '""', '"with \\"quote\\""', '"multi\nline"', '"back\\\\slash"', '"ünï ©"', '"a;b"']
TAGS = ['#tag', '#t-2', '#a/b.c']
LINKS = ['^link', '^l-1']
KEYS = ['key:', 'foo-bar:', 'k2_x:', 'note:']
NUMS = ['1', '12.50', '1,234.5', '0.001', '7.', '100']
EXPRS = ['1 + 2', '(3 - 1) * 2', '-4', '10 / 4', '2 * (1 + 1) - 3', '+5', '- ( 2 )']
FLAGS = ['*', '!', 'txn', 'P', '#']
PFLAGS = ['!', '*', '?', '&']


class G:
    def __init__(self, rng: random.Random, *, crlf: bool = False, comments: bool = True, indent: str = '    '):
        self.r = rng
        self.nl = '\r\n' if crlf else '\n'
        self.comments = comments
        self.indent = indent

    def pick(self, xs):
        return self.r.choice(xs)

    def maybe(self, p=0.5):
        return self.r.random() < p

    def sp(self):
        return self.pick([' ', ' ', '  ', '\t', ' \t '])

    def gl(self):
        """blanks where the grammar does not need any: now and then the two neighbours are glued together
        (`!Assets:Foo`, `{1#2 USD}`, `10USD`, `@1 USD`, `USD{...}`) - legal, and where edits next to a child go wrong"""
        return '' if self.maybe(0.12) else self.sp()

    def date(self):
        return self.pick(['2000-01-01', '2012-12-31', '1999/1/2', '0987-06-05', '2020-02-29'])

    def num(self):
        return self.pick(NUMS) if self.maybe(0.6) else self.pick(EXPRS)

    def amount(self):
        return self.num() + self.gl() + self.pick(CURRENCIES)

    def inline(self):
        if self.comments and self.maybe(0.25):
            return self.pick([' ', '', '  ']) + self.pick(['; c', ';', ';; x ; y', '; ünï'])
        return ''

    def eol(self):
        tail = self.inline()
        if not tail and self.maybe(0.12):
            tail = self.pick([' ', '   ', '\t', '  '])        # blanks in front of the line end
        return tail + self.nl

    def block_comment(self, ind: str, n=None):
        n = n or self.r.choice([1, 1, 2, 3])
        return ''.join(ind + self.pick(['; block', ';nospace', '; ', ';', '; two  words']) + self.nl for _ in range(n))

    def meta_value(self):
        k = self.r.randrange(10)
        return [self.pick(STRINGS), self.pick(ACCOUNTS), self.date(), self.pick(CURRENCIES), self.pick(TAGS),
                'TRUE', 'NULL', self.num(), self.amount(), ''][k]

    def meta(self, ind: str, pmeta=0.4):
        out = ''
        while self.maybe(pmeta):
            if self.comments and self.maybe(0.2):
                out += self.block_comment(ind)
            v = self.meta_value()
            out += ind + self.pick(KEYS) + (self.sp() + v if v else '') + self.eol()
            pmeta *= 0.7
        return out

    def cost(self):
        comps = []
        k = self.r.randrange(9)
        if k == 8:
            comps.append(self.num() + self.pick([' # ', ' # ', '#', ' #', '# ']) + self.pick(CURRENCIES))
        elif k == 0:
            pass
        elif k == 1:
            comps.append(self.num())
        elif k == 2:
            comps.append(self.pick(CURRENCIES))
        elif k == 3:
            comps.append(self.amount())
        elif k == 4:
            comps.append(self.num() + self.pick([' # ', ' # ', '#', ' #', '# ']) + self.num() + ' ' + self.pick(CURRENCIES))
        elif k == 5:
            comps.append(self.pick(['# ', '# ', '#']) + self.num() + ' ' + self.pick(CURRENCIES))
        else:
            comps.append(self.amount())
        if self.maybe(0.3):
            comps.append(self.date())
        if self.maybe(0.3):
            comps.append(self.pick(['"label"', '"l2"']))
        if self.maybe(0.15):
            comps.append('*')
        self.r.shuffle(comps)
        sep = self.pick([', ', ', ', ' , '])
        body = sep.join(comps)
        return ('{{' + body + '}}') if self.maybe(0.3) else ('{' + body + '}')

    def posting(self, ind: str):
        out = ind
        if self.maybe(0.2):
            out += self.pick(PFLAGS) + self.gl()
        out += self.pick(ACCOUNTS)
        k = self.r.randrange(5)
        if k == 0:
            pass
        elif k == 1:
            out += self.sp() + self.num()
        elif k == 2:
            out += self.sp() + self.pick(CURRENCIES)
        else:
            out += self.sp() + self.amount()
            if self.maybe(0.35):
                out += self.gl() + self.cost()
            if self.maybe(0.3):
                out += self.gl() + self.pick(['@', '@@']) + self.pick(['', self.gl() + self.amount(), self.gl() + self.num(),
                                                                       self.gl() + self.pick(CURRENCIES)])
        out += self.eol()
        out += self.meta(ind + self.indent, 0.25)
        return out

    def tags_links(self):
        out = ''
        while self.maybe(0.3):
            out += self.sp() + self.pick(TAGS + LINKS)
        return out

    def directive(self):
        ind = self.indent
        d = self.date()
        s = self.sp
        k = self.r.randrange(22)
        if k == 0:
            return f'option{s()}"title"{s()}{self.pick(STRINGS)}' + self.eol()
        if k == 1:
            return f'include{s()}{self.pick(["\"a.bean\"", "\"sub/*.bean\""])}' + self.eol()
        if k == 2:
            return f'plugin{s()}"mod.x"' + (s() + self.pick(STRINGS) if self.maybe() else '') + self.eol()
        if k == 3:
            return f'pushtag{s()}{self.pick(TAGS)}' + self.eol()
        if k == 4:
            return f'poptag{s()}{self.pick(TAGS)}' + self.eol()
        if k == 5:
            v = self.meta_value()
            return f'pushmeta{s()}{self.pick(KEYS)}' + (s() + v if v else '') + self.eol()
        if k == 6:
            return f'popmeta{s()}{self.pick(KEYS)}' + self.eol()
        if k == 7:
            tol = (s() + '~' + s() + self.num()) if self.maybe(0.3) else ''
            return f'{d}{s()}balance{s()}{self.pick(ACCOUNTS)}{s()}{self.num()}{tol}{s()}{self.pick(CURRENCIES)}' \
                + self.eol() + self.meta(ind)
        if k == 8:
            return f'{d}{s()}close{s()}{self.pick(ACCOUNTS)}' + self.eol() + self.meta(ind)
        if k == 9:
            return f'{d}{s()}commodity{s()}{self.pick(CURRENCIES)}' + self.eol() + self.meta(ind)
        if k == 10:
            return f'{d}{s()}pad{s()}{self.pick(ACCOUNTS)}{s()}{self.pick(ACCOUNTS)}' + self.eol() + self.meta(ind)
        if k == 11:
            return f'{d}{s()}event{s()}"type"{s()}{self.pick(STRINGS)}' + self.eol() + self.meta(ind)
        if k == 12:
            return f'{d}{s()}query{s()}"name"{s()}"select 1"' + self.eol() + self.meta(ind)
        if k == 13:
            return f'{d}{s()}price{s()}{self.pick(CURRENCIES)}{s()}{self.amount()}' + self.eol() + self.meta(ind)
        if k == 14:
            return f'{d}{s()}note{s()}{self.pick(ACCOUNTS)}{s()}{self.pick(STRINGS)}{self.tags_links()}' \
                + self.eol() + self.meta(ind)
        if k == 15:
            return f'{d}{s()}document{s()}{self.pick(ACCOUNTS)}{s()}"/p/a.pdf"{self.tags_links()}' \
                + self.eol() + self.meta(ind)
        if k == 16:
            cur = self.pick(['', 'USD', 'USD,EUR', 'USD, EUR ,GBP'])
            book = (s() + '"STRICT"') if self.maybe(0.3) else ''
            return f'{d}{s()}open{s()}{self.pick(ACCOUNTS)}' + (s() + cur if cur else '') + book + self.eol() + self.meta(ind)
        if k == 17:
            vals = ''
            while self.maybe(0.5):
                vals += s() + self.pick([self.pick(STRINGS), self.date(), 'TRUE', self.amount(), self.num(),
                                         self.pick(ACCOUNTS)])
            return f'{d}{s()}custom{s()}"budget"{vals}' + self.eol() + self.meta(ind)
        if k in (18, 19, 20):
            out = f'{d}{s()}{self.pick(FLAGS)}'
            a = self.r.randrange(3)
            if a >= 1:
                out += s() + self.pick(STRINGS)
            if a == 2:
                out += s() + self.pick(STRINGS)
            out += self.tags_links() + self.eol()
            body = self.meta(ind, 0.35)
            n = self.r.choice([0, 1, 2, 2, 3])
            for _ in range(n):
                if self.comments and self.maybe(0.15):
                    body += self.block_comment(ind)
                body += self.posting(ind)
            if self.comments and self.maybe(0.1) and body:
                body += self.block_comment(ind)
            return out + body
        return self.pick(['* org heading', '** sub', ': colon line', '# hash line', '! bang']) + self.nl

    def ledger(self, n_dir=None):
        n = n_dir if n_dir is not None else self.r.choice([0, 1, 2, 3, 5, 8])
        out = ''
        if self.comments and self.maybe(0.2):
            out += self.block_comment('')
        for _ in range(n):
            r = self.r.random()
            if r < 0.2:
                out += self.pick(['', '', '  ', '\t']) + self.nl          # blank / whitespace-only line
            elif r < 0.35 and self.comments:
                out += self.block_comment(self.pick(['', '', '  ']))
                if self.maybe(0.4):
                    out += self.nl
            out += self.directive()
        if self.comments and self.maybe(0.2):
            out += self.block_comment('')
        if self.maybe(0.15) and out.endswith(self.nl):
            out = out[:-len(self.nl)]                                      # missing final newline
        return out


def ledger(rng: random.Random, **kw) -> str:
    crlf = kw.pop('crlf', rng.random() < 0.15)
    indent = kw.pop('indent', rng.choice(['    ', '  ', '\t', '      ']))
    n_dir = kw.pop('n_dir', None)
    return G(rng, crlf=crlf, indent=indent, **kw).ledger(n_dir)


def parse_ok(text: str, auto_claim: bool = True):
    """Returns the parsed File or None when the real parser rejects the text."""
    from autobean_refactor import models, parser as parser_lib
    global _PARSER
    try:
        _PARSER
    except NameError:
        _PARSER = parser_lib.Parser()
    try:
        return _PARSER.parse(text, models.File, auto_claim_comments=auto_claim)
    except Exception:
        return None


def print_model(m) -> str:
    import io
    from autobean_refactor import printer
    return printer.print_model(m, io.StringIO()).getvalue()
