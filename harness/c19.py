"""C19 - a refused operation leaves the document exactly as it was.

Uses the driver of harness/c03.py (same scripts, same correspondence with Repeated.v / Fields.v); the
monitor that belongs to this property is the snapshot comparison after every exception (printed
text, token identity list of every involved store including the donors', structural dump of the
trees) and "an attached node is always refused"."""
from harness import common, c03


def run(ctx: common.Ctx):
    ctx.rule = c03.RULE
    ctx.assumptions += [
        'the token store is the plain list Repeated.v operates on (C07)',
        'refusal sites outside properties.py/fields.py/base.py/base_token_models.py/block_comment.py (number '
        'expressions: C13, cost specs: C09, comment claiming: C14) are watched by the snapshot monitor only '
        'when the generated scripts reach them; their models live with those properties',
        'known finding D15: RawModel.detach cannot tell a free-standing node from a child spanning the whole '
        'store of its free-standing parent (C19_reuse_refused_refuted / _partial)']
    ctx.require_coq(['properties/C19'], extra_targets=['RepeatedRun'])
    c03.run_slots(ctx, ('C19',), ctx.scale(210, 1500), 8)
    probe_ancestor_into_descendant(ctx)


SIG_ANCESTOR = 'C19:refusal-not-atomic:ancestor-into-descendant'   # known finding (same root cause as D15)


def probe_ancestor_into_descendant(ctx: common.Ctx):
    """Directed: a free-standing number expression whose proper sub-model spans the whole store is assigned into
    one of its own descendants (paren.raw_inner_expr = enclosing sum). detach() cannot tell the sub-model from
    a root (D15), takes every token out of the store, and the splice then fails on a reference token that
    has left the store: the call is refused with the document emptied. Recorded finding; any OTHER outcome that
    changes the document (or an accepted assignment) is reported under the general signatures."""
    from autobean_refactor import parser as parser_lib, models
    from harness import gen_docs
    parser = parser_lib.Parser()
    for text in ('(1 + 2) * 3', '(1 + 2)', '((4))', '-(1 + 2)'):
        try:
            e = parser.parse(text, models.NumberExpr)
            add = e.raw_number_add_expr
            atom = add.raw_operands[0].raw_operands[0]
            if isinstance(atom, models.NumberUnaryExpr):
                atom = atom.raw_operand
            if not isinstance(atom, models.NumberParenExpr):
                continue
        except Exception:
            continue
        before = gen_docs.print_model(e)
        ctx.count('ancestor_into_descendant_probes')
        try:
            atom.raw_inner_expr = add
        except Exception as x:
            after = gen_docs.print_model(e)
            if after != before:
                ctx.monitor_failure(SIG_ANCESTOR, f'{text!r}: paren.raw_inner_expr = <the enclosing sum> raised {type(x).__name__} '
                                    f'and left the document printing {after!r}', {'text': text, 'assign': 'paren.raw_inner_expr = expr.raw_number_add_expr'})
        else:
            ctx.monitor_failure(c03.SIG_REUSE, f'{text!r}: an enclosing expression was accepted as its own descendant\'s child',
                                {'text': text})


def search(ctx: common.Ctx):
    c03.run_slots(ctx, ('C19',), ctx.scale(50, 300), 8)


def replay(ctx, path):
    return c03.replay(ctx, path, ('C19',))
