"""C19 - a refused operation leaves the document exactly as it was.

Uses the driver of harness/c03.py (same scripts, same correspondence with Repeated.v / Fields.v); the
monitor that belongs to this property is the snapshot comparison after every exception (printed
text, token identity list of every involved store including the donors', structural dump of the
trees) and "an attached node is always refused"."""
from harness import common, c03


def run(ctx: common.Ctx):
    ctx.rule = c03.RULE
    ctx.assumptions += [
        'the token store is the plain list Repeated.v operates on (C07)',
        'refusal sites outside properties.py/fields.py/base.py/base_token_models.py/block_comment.py (number '
        'expressions: C13, cost specs: C09, comment claiming: C14) are watched by the snapshot monitor only '
        'when the generated scripts reach them; their models live with those properties',
        'known finding D15: RawModel.detach cannot tell a free-standing node from a child spanning the whole '
        'store of its free-standing parent (C19_reuse_refused_refuted / _partial)']
    ctx.require_coq(['properties/C19'], extra_targets=['RepeatedRun'])
    c03.run_slots(ctx, ('C19',), ctx.scale(210, 1500), 8)


def search(ctx: common.Ctx):
    c03.run_slots(ctx, ('C19',), ctx.scale(50, 300), 8)


def replay(ctx, path):
    return c03.replay(ctx, path, ('C19',))
