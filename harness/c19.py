"""C19 - a refused operation leaves the document exactly as it was.

Uses the driver of harness/c03.py (same scripts, same correspondence with Repeated.v / Fields.v); the
monitor that belongs to this property is the snapshot comparison after every exception (printed
text, token identity list of every involved store including the donors', structural dump of the
trees) and "an attached node is always refused"."""
from harness import common, c03


def run(ctx: common.Ctx):
    ctx.rule = c03.RULE
    ctx.assumptions += [
        'the token store is the plain list Repeated.v operates on (C07)',
        'refusal sites outside properties.py/fields.py/base.py/base_token_models.py/block_comment.py (number '
        'expressions: C13, cost specs: C09, comment claiming: C14) are watched by the snapshot monitor only '
        'when the generated scripts reach them; their models live with those properties',
        'known finding D15: RawModel.detach cannot tell a free-standing node from a child spanning the whole '
        'store of its free-standing parent (C19_reuse_refused_refuted / _partial)']
    ctx.require_coq(['properties/C19'], extra_targets=['RepeatedRun', 'NumExprStepsRun'])
    c03.run_slots(ctx, ('C19',), ctx.scale(210, 1500), 8)
    probe_ancestor_into_descendant(ctx)
    probe_whole_field_refusals(ctx)
    probe_mapping_batch_refusals(ctx)
    probe_extended_slice_refusals(ctx)
    probe_unconsumable_operands(ctx)
    probe_duplicate_in_batch(ctx)
    probe_cost_raw_refusals(ctx)
    probe_spent_left_operand(ctx)
    corr_arith_operands(ctx)


def probe_extended_slice_refusals(ctx: common.Ctx):
    """raw_xs[a:b:k] = values (k != 1, replaced element by element) and raw_xs[a:b] = values with a node that is
    still attached elsewhere at ANY position of the batch - the first, a middle or the last one: the whole call is
    refused and nothing was replaced, removed or detached."""
    import copy, random
    from autobean_refactor.models import base
    from harness import gen_docs, treewalk
    fixed = ['2000-01-01 * "n" #t1 ^l1 #t2 ^l2 #t3\n  Assets:A  1 USD\n  Assets:B  2 USD\n  Assets:C  3 USD\n  Assets:D\n'
             '2000-01-02 * "m" #u1 ^k1 #u2\n  Assets:E  1 USD\n  Assets:F\n2000-01-03 open Assets:G USD, EUR, GBP, JPY\n']
    for k in range(ctx.scale(40, 300)):
        r = random.Random(ctx.rng.randrange(1 << 30))
        text = fixed[0] if k % 2 == 0 else gen_docs.ledger(r)
        f = gen_docs.parse_ok(text, True)
        if f is None:
            continue
        lists = []
        for path, m in treewalk.walk(f):
            if isinstance(m, base.RawTreeModel):
                for name, kind, _ in c03.slots_of(m):
                    if kind == 'rep':
                        try:
                            w = getattr(m, name)
                            if len(w) >= 2:
                                lists.append((path, m, name, w))
                        except Exception:
                            pass
        if not lists:
            continue
        path, m, name, w = r.choice(lists)
        n = len(w)
        step = r.choice([2, 2, -1, -2, 3, 1])
        sl = slice(None, None, step) if step != 1 else slice(0, r.randint(1, n))
        idx = list(range(n))[sl]
        if len(idx) < 2:
            continue
        donors_pool = [x for p2, m2, n2, w2 in lists if w2 is not w for x in w2 if type(x) in {type(y) for y in w}]
        if not donors_pool:
            donors_pool = [x for i, x in enumerate(w) if i not in idx]       # an element of the same list outside the slice
        if not donors_pool:
            continue
        bad_at = r.randrange(len(idx))
        vals = [copy.deepcopy(w[i]) for i in idx]
        vals[bad_at] = r.choice(donors_pool)
        before = (gen_docs.print_model(f), [id(t) for t in f.token_store], treewalk.dump(f), [id(x) for x in w])
        wit = {'text': text, 'list': f'{path}.{name}', 'slice': [sl.start, sl.stop, sl.step], 'attached_at': bad_at, 'of': len(idx)}
        ctx.count('extended_slice_refusal_probes')
        ctx.dist('ext-slice-step=' + str(step))
        try:
            w[sl] = vals
        except ValueError:
            after = (gen_docs.print_model(f), [id(t) for t in f.token_store], treewalk.dump(f), [id(x) for x in w])
            if after != before:
                ctx.monitor_failure(c03.SIG_ATOMIC, f'{path}.{name}[{sl.start}:{sl.stop}:{sl.step}] = batch with an attached node at position '
                                    f'{bad_at} of {len(idx)} was refused, but the document now prints {after[0][:120]!r}', wit)
        except Exception as e:
            ctx.monitor_failure(c03.SIG_ATOMIC, f'{path}.{name}[...] = batch with an attached node raised {type(e).__name__}: {e}', wit)
        else:
            ctx.monitor_failure(c03.SIG_REUSE, f'{path}.{name}[{sl.start}:{sl.stop}:{sl.step}] = batch with a node attached elsewhere was accepted', wit)


def probe_mapping_batch_refusals(ctx: common.Ctx):
    """meta.update(...) / raw_meta.update(...) with a batch whose k-th value is a node that lives elsewhere: the whole
    call is refused and no key was written (repaired defect 471ed44: MutableMapping.update assigns key by key)."""
    import datetime, random
    from decimal import Decimal
    from autobean_refactor import models
    from autobean_refactor.models import base as base_
    from harness import gen_docs, treewalk
    texts = ['2000-01-01 open Assets:Foo USD\n    aa: 1\n    bb: "x"\n2000-01-02 close Assets:Foo\n    cc: Assets:Bar\n',
             # the same key twice: meta[key] = ... writes to the FIRST item, so the value node of the second one is "elsewhere"
             '2000-01-01 open Assets:Foo USD\n    aa: Assets:One\n    aa: Assets:Two\n    bb: 2000-01-01\n    bb: 2000-01-02\n2000-01-02 close Assets:Foo\n',
             '2000-01-01 *\n    aa: 1\n    Assets:A  1 USD\n      pp: 2000-01-01\n    Assets:B\n2000-01-02 close Assets:A\n']
    for k in range(ctx.scale(30, 200)):
        r = random.Random(ctx.rng.randrange(1 << 30))
        text = r.choice(texts)
        f = gen_docs.parse_ok(text, True)
        holders = [(p, m) for p, m in treewalk.walk(f) if hasattr(m, 'meta') and hasattr(m, 'raw_meta') and p != 'root']
        meta_values = set()
        for _, h in holders:
            first = {}
            for it in h.raw_meta:
                if it.key not in first:            # only the FIRST item of a key holds "the key's own current value"
                    first[it.key] = it
                    meta_values.add(id(it.raw_value))
        # (a key's own current value assigned back to it is a no-op, not a reuse: such nodes are not used as "attached")
        attached = [m for _, m in treewalk.walk(f) if isinstance(m, (models.Account, models.Date, models.NumberExpr))
                    and m.token_store is f.token_store and id(m) not in meta_values]
        p, m = r.choice(holders)
        raw = r.random() < 0.35
        plain = [Decimal(7), 'str', None, True, datetime.date(2001, 2, 3)]
        n = r.choice([2, 3, 4])
        bad_at = r.randrange(n)
        keys = r.sample(['aa', 'bb', 'cc', 'pp', 'n1', 'n2', 'n3'], n)
        if raw:
            other = [x for _, x in holders if x is not m and len(x.raw_meta)]
            if not other:
                continue
            vals = [models.MetaItem.from_value(key, r.choice(plain), indent='    ') for key in keys]
            vals[bad_at] = r.choice(other).raw_meta[0]
        else:
            vals = [r.choice(plain) for _ in keys]
            vals[bad_at] = r.choice(attached)
            seen_k, dups = {}, []
            for it in m.raw_meta:
                if it.key in seen_k and isinstance(it.raw_value, base_.RawModel):
                    dups.append(it)
                seen_k.setdefault(it.key, it)
            if dups and r.random() < 0.6:
                # hand a repeated key the value node of its SECOND item, after at least one other key
                it = r.choice(dups)
                bad_at = max(1, bad_at)
                keys = [k_ for k_ in keys if k_ != it.key][:n - 1]
                keys.insert(min(bad_at, len(keys)), it.key)
                bad_at = keys.index(it.key)
                vals = [r.choice(plain) for _ in keys]
                vals[bad_at] = it.raw_value
                n = len(keys)
        pairs = list(zip(keys, vals))
        arg = dict(pairs) if r.random() < 0.6 else pairs
        before = (gen_docs.print_model(f), [id(t) for t in f.token_store], treewalk.dump(f))
        w = {'text': text, 'holder': p, 'raw': raw, 'keys': keys, 'attached_at': bad_at}
        ctx.count('mapping_batch_refusal_probes')
        try:
            (m.raw_meta if raw else m.meta).update(arg)
        except ValueError:
            after = (gen_docs.print_model(f), [id(t) for t in f.token_store], treewalk.dump(f))
            if after != before:
                ctx.monitor_failure(c03.SIG_ATOMIC, f'{p}.{"raw_meta" if raw else "meta"}.update(batch with an attached node at position '
                                    f'{bad_at} of {n}) was refused but the document now prints {after[0]!r}', w)
        except Exception as e:
            ctx.monitor_failure(c03.SIG_ATOMIC, f'{p}.meta.update(...) raised {type(e).__name__}: {e}', w)
        else:
            ctx.monitor_failure(c03.SIG_REUSE, f'{p}.{"raw_meta" if raw else "meta"}.update(batch with an attached node) was accepted', w)


def probe_whole_field_refusals(ctx: common.Ctx):
    """Whole-field assignment of a repeated field (dst.raw_xs = src.raw_xs) with a wrapper that is still attached to
    another model - of the same document, of a second parse, of a document without a final newline; empty and
    non-empty lists - must be refused, and afterwards text, tokens, tree AND the accessors of both sides are what
    they were: dst.raw_xs is still dst's list (same items), its value views read the same, and an edit made through
    dst's accessor edits dst, not src."""
    import copy, random
    from autobean_refactor.models import base
    from harness import gen_docs, treewalk

    def rep_slots(f):
        out = []
        for path, m in treewalk.walk(f):
            if not isinstance(m, base.RawTreeModel) or path == 'root':
                continue
            for name, kind, _ in c03.slots_of(m):
                if kind == 'rep':
                    out.append((path, m, name))
        return out

    def views(m):
        d = {}
        for name in dir(type(m)):
            if name.startswith('_'):
                continue
            try:
                v = getattr(m, name)
            except Exception:
                continue
            if hasattr(v, '__iter__') and hasattr(v, '__len__') and not isinstance(v, (str, bytes, dict)) and not hasattr(v, 'keys'):
                try:
                    d[name] = [(id(x) if isinstance(x, base.RawModel) else repr(x)) for x in v]
                except Exception:
                    pass
        return d

    fixed = ['2000-01-01 open Assets:A USD, EUR\n2000-01-02 open Assets:B\n2000-01-03 open Assets:C CAD',
             '2000-01-01 * "n" #t1 ^l1\n  Assets:A  1 USD\n2000-01-02 * "m"\n  Assets:B  1 USD\n2000-01-03 * "k" #t2']
    n = ctx.scale(40, 300)
    for k in range(n + len(fixed)):
        r = random.Random(ctx.rng.randrange(1 << 30))
        text = fixed[k] if k < len(fixed) else gen_docs.ledger(r)
        if k >= len(fixed) and r.random() < 0.4:
            text = text.rstrip('\r\n')          # no final newline: the last directive ends the store
        f, g = gen_docs.parse_ok(text, True), gen_docs.parse_ok(text, True)
        if f is None or g is None:
            continue
        sf, sg = rep_slots(f), rep_slots(g)
        if not sf:
            continue
        for _ in range(4):
            i = r.randrange(len(sf))
            dpath, dst, name = sf[i]
            same_doc = r.random() < 0.4
            cands = [(p_, m_, n_) for p_, m_, n_ in (sf if same_doc else sg)
                     if n_ == name and type(m_) is type(dst) and m_ is not dst]
            if not same_doc and r.random() < 0.5:
                cands = [c_ for c_ in cands if c_[0] == dpath] or cands       # the twin position of the other parse
            if not cands:
                continue
            spath, src, _ = r.choice(cands)
            sdoc = f if same_doc else g
            try:
                dw, sw = getattr(dst, name), getattr(src, name)
                before = (gen_docs.print_model(f), gen_docs.print_model(sdoc), [id(t) for t in f.token_store],
                          [id(t) for t in sdoc.token_store], treewalk.dump(f), treewalk.dump(sdoc), views(dst), views(src))
            except Exception:
                continue
            w = {'text': text, 'dst': dpath, 'src': spath, 'field': name, 'same_document': same_doc}
            ctx.count('whole_field_refusal_probes')
            ctx.dist('whole-field-src-empty=' + str(len(sw) == 0))
            try:
                setattr(dst, name, sw)
            except ValueError:
                pass
            except Exception as e:
                ctx.monitor_failure(c03.SIG_ATOMIC, f'{dpath}.{name} = <attached list of {spath}> raised {type(e).__name__}', w)
                break
            else:
                ctx.monitor_failure(c03.SIG_REUSE, f'{dpath}.{name} = {spath}.{name} (a list still attached to its model) was accepted: '
                                    f'source document now prints {gen_docs.print_model(sdoc)[:80]!r}', w)
                break
            try:
                after = (gen_docs.print_model(f), gen_docs.print_model(sdoc), [id(t) for t in f.token_store],
                         [id(t) for t in sdoc.token_store], treewalk.dump(f), treewalk.dump(sdoc), views(dst), views(src))
            except Exception as e:
                ctx.monitor_failure(c03.SIG_ATOMIC, f'after the refused {dpath}.{name} = {spath}.{name} the documents cannot be read: {type(e).__name__}', w)
                break
            what = [nm for nm, a_, b_ in zip(('target text', 'source text', 'target tokens', 'source tokens', 'target tree', 'source tree',
                                              'accessors of the target', 'accessors of the source'), before, after) if a_ != b_]
            if getattr(dst, name) is not dw:
                try:
                    same_items = [id(x) for x in getattr(dst, name)] == [id(x) for x in dw]
                except Exception:
                    same_items = False
                if not same_items:
                    what.append('the target\'s list accessor')
            if what:
                ctx.monitor_failure(c03.SIG_ATOMIC, f'{dpath}.{name} = {spath}.{name} was refused (attached list) but changed: ' + ', '.join(what), w)
                break
            # an edit through the target's accessor edits the target, and only it
            if len(getattr(dst, name)):
                t_src = gen_docs.print_model(sdoc) if not same_doc else None
                s_items = [id(x) for x in getattr(src, name)]
                try:
                    getattr(dst, name).pop(0)
                except Exception:
                    break
                if (t_src is not None and gen_docs.print_model(sdoc) != t_src) or [id(x) for x in getattr(src, name)] != s_items \
                        or gen_docs.print_model(f) == before[0]:
                    ctx.monitor_failure(c03.SIG_ATOMIC, f'after the refused {dpath}.{name} = {spath}.{name}, an edit through {dpath}.{name} '
                                        f'did not edit the target (or edited the source)', w)
                break      # the documents are edited now: next pair


SIG_ANCESTOR = 'C19:refusal-not-atomic:ancestor-into-descendant'   # known finding (same root cause as D15)


def probe_ancestor_into_descendant(ctx: common.Ctx):
    """Directed: a free-standing number expression whose proper sub-model spans the whole store is assigned into
    one of its own descendants (paren.raw_inner_expr = enclosing sum). detach() cannot tell the sub-model from
    a root (D15), takes every token out of the store, and the splice then fails on a reference token that
    has left the store: the call is refused with the document emptied. Recorded finding; any OTHER outcome that
    changes the document (or an accepted assignment) is reported under the general signatures."""
    from autobean_refactor import parser as parser_lib, models
    from harness import gen_docs
    parser = parser_lib.Parser()
    for text in ('(1 + 2) * 3', '(1 + 2)', '((4))', '-(1 + 2)'):
        try:
            e = parser.parse(text, models.NumberExpr)
            add = e.raw_number_add_expr
            atom = add.raw_operands[0].raw_operands[0]
            if isinstance(atom, models.NumberUnaryExpr):
                atom = atom.raw_operand
            if not isinstance(atom, models.NumberParenExpr):
                continue
        except Exception:
            continue
        before = gen_docs.print_model(e)
        ctx.count('ancestor_into_descendant_probes')
        try:
            atom.raw_inner_expr = add
        except Exception as x:
            after = gen_docs.print_model(e)
            if after != before:
                ctx.monitor_failure(SIG_ANCESTOR, f'{text!r}: paren.raw_inner_expr = <the enclosing sum> raised {type(x).__name__} '
                                    f'and left the document printing {after!r}', {'text': text, 'assign': 'paren.raw_inner_expr = expr.raw_number_add_expr'})
        else:
            ctx.monitor_failure(c03.SIG_REUSE, f'{text!r}: an enclosing expression was accepted as its own descendant\'s child',
                                {'text': text})


def probe_duplicate_in_batch(ctx: common.Ctx):
    """Directed: "no node or token ever appears in two places" - the SAME free token model object listed twice in one
    batch (slice assignment, extended slice, slice through a value view, extend) must be refused, and refused before
    anything is written: document text, token identities, raw lists and views are what they were."""
    from autobean_refactor import models
    from harness import gen_docs
    text = ('2000-01-01 open Assets:Foo  USD, EUR,GBP\n'
            '2000-01-02 document Assets:Foo "foo.pdf"  #aaa  ^bbb  #ccc ^ddd #eee\n'
            '2000-01-03 custom "budget" Assets:Foo "monthly" 10.00 USD Assets:Bar\n')
    mk = {
        'cur': lambda: models.Currency.from_value('XXX'),
        'tag': lambda: models.Tag.from_value('dup'),
        'acc': lambda: models.Account.from_value('Assets:Dup'),
    }
    plans = []
    for sl in (slice(0, 2), slice(1, 3), slice(0, 0), slice(None, None, 2), slice(2, 0, -1), slice(1, 1)):
        plans += [(0, 'raw_currencies', 'cur', sl), (1, 'raw_tags_links', 'tag', sl), (2, 'raw_values', 'acc', sl)]
    for di, attr, kind, sl in plans:
        for fresh_first in (False, True):
            f = gen_docs.parse_ok(text, True)
            d = f.raw_directives[di]
            xs = getattr(d, attr)
            t = mk[kind]()
            n = len(range(*sl.indices(len(xs)))) if sl.step not in (None, 1) else None
            batch = [t, t] if not fresh_first else [mk[kind](), t, t]
            if n is not None:
                batch = (batch * 3)[:n] if n >= 2 else None
                if batch is None or len({id(x) for x in batch}) == len(batch):
                    continue
            snap = lambda: (gen_docs.print_model(f), [id(x) for x in f.token_store], [id(x) for x in xs], treewalk_dump(f))
            before = snap()
            ctx.count('duplicate_in_batch_probes')
            w = {'text': text, 'call': f'directives[{di}].{attr}[{sl.start}:{sl.stop}:{sl.step}] = batch with the same free {kind} token twice'
                                       + (' behind a fresh one' if fresh_first else '')}
            try:
                xs[sl] = batch
            except Exception as x:
                after = snap()
                if after != before:
                    what = [nm for nm, a, b in zip(('printed text', 'token identities', 'the raw list', 'tree'), after, before) if a != b]
                    ctx.monitor_failure(c03.SIG_ATOMIC, f'{w["call"]} raised {type(x).__name__} ({x}) after changing {", ".join(what)}: '
                                        f'the document prints {after[0]!r}', w)
            else:
                ctx.monitor_failure(c03.SIG_REUSE, f'{w["call"]} was accepted: one token object is now listed twice', w)


def probe_cost_raw_refusals(ctx: common.Ctx):
    """Directed: "an illegal cost combination" / re-inserting a node that lives elsewhere, through the raw setters of a
    cost (raw_number_per, raw_number_total, raw_currency): every written form of a cost x every raw setter x a donor
    that is still attached to ANOTHER posting of the same document must be refused with the cost - braces, components,
    text - and the donor's posting exactly as they were. (The value-level record semantics and the statement order of
    these setters are C09's model, Cost.v; this is the snapshot monitor of THIS property on the same calls.)"""
    from harness import gen_docs
    costs = ['{{10.00 USD}}', '{10.00 USD}', '{{USD}}', '{USD}', '{{10.00}}', '{10.00}', '{1 # 2 USD}', '{{1 # 2 USD}}',
             '{# 2 USD}', '{1 # USD}', '{}', '{{}}', '{10.00 USD, 2000-01-01, "lot"}', '{*, 10.00 USD}']
    for cost_text in costs:
        for attr in ('raw_number_per', 'raw_number_total', 'raw_currency'):
            text = f'2000-01-01 *\n    Assets:Foo  1 GOOG {cost_text}\n    Assets:Baz  -30.00 USD\n    Assets:Qux  4 EUR\n'
            f = gen_docs.parse_ok(text, True)
            if f is None:
                ctx.count('cost_texts_rejected_by_parser')
                break
            txn = f.raw_directives[0]
            cost = txn.raw_postings[0].cost
            donor = txn.raw_postings[1].raw_currency if attr == 'raw_currency' else txn.raw_postings[1].raw_number
            snap = lambda: (gen_docs.print_model(f), [id(t) for t in f.token_store], treewalk_dump(f))
            before = snap()
            ctx.count('cost_raw_refusal_probes')
            w = {'text': text, 'call': f'postings[0].cost.{attr} = <{type(donor).__name__} attached to postings[1]>'}
            try:
                setattr(cost, attr, donor)
            except Exception as x:
                try:
                    after = snap()
                except Exception as y:
                    ctx.monitor_failure(c03.SIG_ATOMIC, f'{w["call"]} on {cost_text!r} raised {type(x).__name__} and left a document that '
                                        f'cannot be read ({type(y).__name__})', w)
                    continue
                if after != before:
                    what = [nm for nm, a, b in zip(('printed text', 'token identities', 'tree'), after, before) if a != b]
                    ctx.monitor_failure(c03.SIG_ATOMIC, f'{w["call"]} on {cost_text!r} raised {type(x).__name__} ({x}) but changed '
                                        f'{", ".join(what)}: the posting prints {after[0].splitlines()[1]!r}', w)
            else:
                ctx.monitor_failure(c03.SIG_REUSE, f'{w["call"]} on {cost_text!r} was accepted: the node now lives in two places', w)


def probe_unconsumable_operands(ctx: common.Ctx):
    """Directed: "an arithmetic operand that cannot be consumed". The right operand of an in-place operator is a
    NumberExpr whose expression tree was legally moved into another expression (it spanned its whole store), so it has
    no tokens left and cannot be copied: the operator must refuse - with the left operand, attached inside a ledger,
    exactly as it was, whichever wrapping (parentheses around a sum, around a signed number) it would have needed."""
    import decimal
    import operator
    from autobean_refactor import models
    from harness import gen_docs

    def spent():
        donor = models.NumberExpr.from_value(decimal.Decimal(5))
        receiver = models.NumberExpr.from_value(decimal.Decimal(7))
        receiver.raw_number_add_expr = donor.raw_number_add_expr
        return donor

    lefts = ['1 + 2', '4', '-3', '2 * 3', '8 / 2 - 1', '(1 + 2)', '- (1 + 2)', '1 - -2']
    ops = [('+=', operator.iadd), ('-=', operator.isub), ('*=', operator.imul), ('/=', operator.itruediv)]
    for left in lefts:
        text = f'2000-01-01 *\n    Assets:Foo       {left} USD\n    Assets:Bar\n'
        for opn, fn in ops:
            f = gen_docs.parse_ok(text, True)
            if f is None:
                continue
            number = f.raw_directives[0].postings[0].raw_number
            snap = lambda: (gen_docs.print_model(f), [id(t) for t in f.token_store], gen_docs.print_model(number),
                            id(number.raw_number_add_expr), treewalk_dump(f))
            before = snap()
            try:
                operand = spent()
            except Exception:
                ctx.count('unconsumable_operand_not_constructible')
                return
            ctx.count('unconsumable_operand_probes')
            w = {'text': text, 'op': f'postings[0].raw_number {opn} <NumberExpr whose tree was moved away>'}
            try:
                fn(number, operand)
            except Exception as x:
                try:
                    after = snap()
                except Exception as y:
                    ctx.monitor_failure(c03.SIG_ATOMIC, f'{left!r} {opn} <spent operand> raised {type(x).__name__} and left a document '
                                        f'that cannot be read ({type(y).__name__})', w)
                    continue
                if after != before:
                    what = [n for n, a, b in zip(('printed text', 'token identities', 'the number\'s own text', 'the number\'s child', 'tree'), after, before) if a != b]
                    ctx.monitor_failure(c03.SIG_ATOMIC, f'{left!r} {opn} <operand that cannot be consumed> raised {type(x).__name__} but changed '
                                        f'{", ".join(what)}: the document prints {after[0]!r}', w)
            else:
                # accepted: then the result must at least be a document that says what it prints (not this property's)
                ctx.count('unconsumable_operand_accepted')


SPENT_LEFT_TEXT = '2000-01-01 *\n    Assets:Foo       7 USD\n    Assets:Bar\n'


def probe_spent_left_operand(ctx: common.Ctx):
    """Directed: the LEFT operand of an in-place operator is a NumberExpr whose tree was moved into a number of a ledger.
    Every `left OP= x` must be refused (ValueError) with that ledger exactly as it was: C19_arith_refused_atomic covers the
    spent left operand (repaired defect number-expr-spent-left-operand: `*=` / `/=` on a sum used to write the parentheses
    into the receiving ledger through the tree's token store before the splice into the left operand's own, empty store
    raised; model of the code as found: C19_asfound_arith_spent_self_refuted). Any change is a violation."""
    import decimal
    import operator
    from autobean_refactor import models, parser as parser_lib
    from harness import gen_docs
    parser = parser_lib.Parser()
    ops = [('+=', operator.iadd), ('-=', operator.isub), ('*=', operator.imul), ('/=', operator.itruediv)]
    for left in ('1 + 2', '4', '2 * 3', '8 / 2 - 1', '(1 + 2)', '1 - -2'):
        for opn, fn in ops:
            f = gen_docs.parse_ok(SPENT_LEFT_TEXT, True)
            if f is None:
                continue
            receiver = f.raw_directives[0].postings[0].raw_number
            try:
                donor = parser.parse(left, models.NumberExpr)
                receiver.raw_number_add_expr = donor.raw_number_add_expr
            except Exception:
                ctx.count('spent_left_operand_not_constructible')
                continue
            snap = lambda: (gen_docs.print_model(f), [id(t) for t in f.token_store], gen_docs.print_model(receiver),
                            id(receiver.raw_number_add_expr), treewalk_dump(f))
            before = snap()
            ctx.count('spent_left_operand_probes')
            w = {'text': SPENT_LEFT_TEXT, 'moved_in': left,
                 'op': f'donor = parse({left!r}, NumberExpr); postings[0].raw_number.raw_number_add_expr = donor.raw_number_add_expr; donor {opn} 3'}
            try:
                fn(donor, decimal.Decimal(3))
            except Exception as x:
                try:
                    after = snap()
                except Exception as y:
                    ctx.monitor_failure(c03.SIG_ATOMIC, f'<spent {left!r}> {opn} 3 raised {type(x).__name__} and left a ledger that cannot be read ({type(y).__name__})', w)
                    continue
                if after != before:
                    line = after[0].splitlines()[1]
                    ctx.monitor_failure(c03.SIG_ATOMIC, f'<NumberExpr {left!r} whose tree was moved into a posting> {opn} 3 raised {type(x).__name__} '
                                        f'but the posting now prints {line!r} (was {before[0].splitlines()[1]!r})', w)
            else:
                ctx.count('spent_left_operand_accepted')


ARITH_PREAMBLE = 'From AB Require Import Prelude NumExpr NumExprRun NumExprSteps NumExprStepsRun.'
SIG_ARITH_CORR = 'C19:arith-operand:model-vs-implementation'


def corr_arith_operands(ctx: common.Ctx):
    """Correspondence of NumExprSteps.v (the in-place operators statement by statement) with the implementation: for every
    left operand text x operator x right operand kind - spent expression, live expressions (free-standing, attached in
    another ledger, the left operand itself), ints / Decimals, NaN, a str - the call is made on the posting's number of a
    parsed ledger and what the implementation did (exception class; raw texts of ALL tokens of the store afterwards; where
    self starts; self's tree with its gaps) is compared with `s_idunder VCode` evaluated inside Coq on what was read before
    the call.  A refusal that leaves tokens behind, a refusal the model does not have, an accepted call whose parentheses or
    spacing differ: all are disagreements."""
    import decimal
    import operator
    from autobean_refactor import models, parser as parser_lib
    from harness import c13, gen_docs
    from harness.common import coq_str, coq_list, coq_z
    D = decimal.Decimal
    parser = parser_lib.Parser()

    def spent():
        donor = models.NumberExpr.from_value(D(5))
        receiver = models.NumberExpr.from_value(D(7))
        receiver.raw_number_add_expr = donor.raw_number_add_expr
        return donor

    def attached(t):
        g = gen_docs.parse_ok(f'2001-02-03 *\n    Assets:Other    {t} EUR\n    Assets:Rest\n', True)
        return g.raw_directives[0].postings[0].raw_number

    def read(expr):
        """(raw texts before first_token, tree, raw texts after last_token, raw texts of the whole store)"""
        _, tree, _ = c13.observe(expr)
        toks = list(expr.token_store)
        i0 = next(i for i, t in enumerate(toks) if t is expr.first_token)
        i1 = next(i for i, t in enumerate(toks) if t is expr.last_token)
        texts = [t.raw_text for t in toks]
        return texts[:i0], tree, texts[i1 + 1:], texts

    def strs(l):
        return coq_list(coq_str(x) for x in l)

    def scalar(d):
        d = D(d)
        if d.is_nan():
            return 'ONaN'
        return f'(OScalar {common.coq_bool(d < 0)} {coq_str(format(d.copy_abs(), "f"))})'

    def live(expr):
        p, t, q, _ = read(expr)
        return f'(live {strs(p)} {c13.coq_tree(t)} {strs(q)})'

    # (name, factory number -> python operand, python operand -> Coq operand [called BEFORE the operator])
    operands = [
        ('spent', lambda n: spent(), lambda o: '(OExpr Spent)'),
        ('live 7', lambda n: parser.parse('7', models.NumberExpr), live),
        ('live -2', lambda n: parser.parse('-2', models.NumberExpr), live),
        ('live 3 - 1', lambda n: parser.parse('3 - 1', models.NumberExpr), live),
        ('live 2*3', lambda n: parser.parse('2*3', models.NumberExpr), live),
        ('live (4)', lambda n: parser.parse('(4)', models.NumberExpr), live),
        ('attached 6 / 3', lambda n: attached('6 / 3'), live),
        ('attached 1 + 1', lambda n: attached('1 + 1'), live),
        ('self', lambda n: n, live),
        ('int 3', lambda n: 3, scalar),
        ('int -4', lambda n: -4, scalar),
        ('Decimal 1E+3', lambda n: D('1E+3'), scalar),
        ('Decimal -0.50', lambda n: D('-0.50'), scalar),
        ('Decimal NaN', lambda n: D('NaN'), scalar),
        ('str', lambda n: 's', lambda o: 'ONotNumber'),
        ('float', lambda n: 1.5, lambda o: 'ONotNumber'),
    ]
    lefts = ['1 + 2', '4', '-3', '2 * 3', '8 / 2 - 1', '(1 + 2)', '- (1 + 2)', '1 - -2', '1+2']
    ops = [('+=', operator.iadd, 'OpAdd'), ('-=', operator.isub, 'OpSub'), ('*=', operator.imul, 'OpMul'), ('/=', operator.itruediv, 'OpDiv')]
    cases, wits = [], []
    for left in lefts:
        text = f'2000-01-01 *\n    Assets:Foo       {left} USD\n    Assets:Bar\n'
        for opn, fn, opc in ops:
            for oname, mk, to_coq in operands:
                w = {'text': text, 'op': f'postings[0].raw_number {opn} <{oname}>'}
                f = gen_docs.parse_ok(text, True)
                if f is None:
                    continue
                number = f.raw_directives[0].postings[0].raw_number
                try:
                    operand = mk(number)
                    coq_operand = to_coq(operand)
                    pre, tree, post, before = read(number)
                except Exception as x:
                    ctx.fail('corr', SIG_ARITH_CORR, f'{left!r} {opn} <{oname}>: the operands cannot be read before the call ({type(x).__name__}: {x})', w)
                    continue
                exc = None
                try:
                    r = fn(number, operand)
                    if r is not number:
                        ctx.fail('corr', SIG_ARITH_CORR, f'{left!r} {opn} <{oname}> did not return self', w)
                        continue
                except Exception as x:
                    exc = common.exn_name(x)
                try:
                    pre2, tree2, _, after = read(number)
                except Exception as x:
                    ctx.fail('corr', SIG_ARITH_CORR, f'{left!r} {opn} <{oname}> ({"raised " + exc if exc else "returned"}): afterwards the left operand is no '
                             f'longer a tree over its store ({type(x).__name__}: {x}); the posting prints {gen_docs.print_model(f).splitlines()[1]!r}', w)
                    continue
                cases.append(f'(mkacase {strs(pre)} {c13.coq_tree(tree)} true {strs(post)} {strs(before)} {opc} {coq_operand} '
                             f'{common.coq_opt(exc)} {strs(after)} {coq_z(len(pre2))} {c13.coq_tree(tree2)})')
                wits.append((w, left, opn, oname, exc, gen_docs.print_model(f).splitlines()[1]))
                ctx.dist('arith-operand=' + oname.split()[0] + (':refused' if exc else ':accepted'))
    # the LEFT operand is itself spent: its tree was moved into the posting's number; what is read (and compared) is the
    # receiving document and the tree both objects still point at
    for left in lefts:
        for opn, fn, opc in ops:
            for oname, mk, to_coq in operands:
                if oname not in ('spent', 'live 3 - 1', 'attached 1 + 1', 'int 3', 'Decimal NaN', 'str'):
                    continue
                w = {'spent_left': left, 'op': f'<NumberExpr {left!r} whose tree was moved into postings[0].raw_number> {opn} <{oname}>'}
                f = gen_docs.parse_ok(SPENT_LEFT_TEXT, True)
                try:
                    receiver = f.raw_directives[0].postings[0].raw_number
                    donor = parser.parse(left, models.NumberExpr)
                    receiver.raw_number_add_expr = donor.raw_number_add_expr
                    operand = mk(receiver)
                    coq_operand = to_coq(operand)
                    pre, tree, post, before = read(receiver)
                    child = donor.raw_number_add_expr
                except Exception as x:
                    ctx.fail('corr', SIG_ARITH_CORR, f'spent {left!r} {opn} <{oname}>: cannot be set up ({type(x).__name__}: {x})', w)
                    continue
                exc = None
                try:
                    fn(donor, operand)
                except Exception as x:
                    exc = common.exn_name(x)
                try:
                    pre2, tree2, _, after = read(receiver)
                    if exc and (donor.raw_number_add_expr is not child or receiver.raw_number_add_expr is not child):
                        raise c13.Malformed('the refused call replaced the tree of the left operand')
                    if not exc:
                        tree2 = None
                except Exception as x:
                    ctx.fail('corr', SIG_ARITH_CORR, f'spent {left!r} {opn} <{oname}> ({"raised " + exc if exc else "returned"}): afterwards the receiving '
                             f'expression is no longer a tree over its store ({type(x).__name__}: {x})', w)
                    continue
                if tree2 is None:
                    ctx.fail('corr', SIG_ARITH_CORR, f'spent {left!r} {opn} <{oname}> was accepted (the model refuses every call on a spent left operand)', w)
                    continue
                cases.append(f'(mkacase {strs(pre)} {c13.coq_tree(tree)} false {strs(post)} {strs(before)} {opc} {coq_operand} '
                             f'{common.coq_opt(exc)} {strs(after)} {coq_z(len(pre2))} {c13.coq_tree(tree2)})')
                wits.append((w, 'spent ' + left, opn, oname, exc, gen_docs.print_model(f).splitlines()[1]))
                ctx.dist('arith-spent-left-operand=' + oname.split()[0] + (':refused' if exc else ':accepted'))
    bad = ctx.run_coq_cases('arith', ARITH_PREAMBLE, 'acase', 'check_case', cases, chunk=120)
    for i in bad:
        w, left, opn, oname, exc, line = wits[i]
        ctx.fail('corr', SIG_ARITH_CORR, f'{left!r} {opn} <{oname}>: the implementation {"raised " + exc if exc else "returned"} and the posting prints '
                 f'{line!r}; the statement-order model (NumExprSteps.s_idunder VCode) says otherwise', w)
    ctx.count('traces_validated_against_impl', len(cases) - len(bad))
    ctx.count('arith_operand_cases', len(cases))


def treewalk_dump(root):
    from harness import treewalk
    return treewalk.dump(root)


def search(ctx: common.Ctx):
    c03.run_slots(ctx, ('C19',), ctx.scale(50, 300), 8)


def replay(ctx, path):
    return c03.replay(ctx, path, ('C19',))
