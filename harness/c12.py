"""C12 - token value, raw text and lexer agree for every value in the domain.

Three layers (see coq/theories/Tokens.v, TokensProofs.v, properties/C12.v):
  tie    the literal text of every modelled terminal in beancount.lark and the pattern lark compiles from it
         are pinned (the hand-written recognisers lex_K were written for exactly these);
  corr   codecs of Tokens.v vs the implementation's escape/unescape/_parse_value/_format_value/_splitlines,
         recognisers vs lark's lexer on the same texts (lexemes, mutated lexemes, and lexeme + following text:
         the tie of the extent-stability theorems of TokensStable.v / properties/C06.v), token assignment
         histories vs the real token objects
         (all evaluated inside Coq with vm_compute);
  monitor the property's own statement on the implementation: from_value(v).value == v, the produced text
         re-lexes (Parser.parse_token and inside a real ledger snippet) as one token of the same type and
         value, every lexeme with a valid meaning is accepted verbatim, and value/raw_text/indent
         assignment sequences keep value and raw text describing each other.
"""
from __future__ import annotations

import copy
import datetime
import decimal
import json
import re

from harness import common

PREAMBLE = 'From AB Require Import Prelude Tokens TokensRun.'

# ------------------------------------------------------------------------------------------------------
# tie: the grammar text the recognisers were written for
PINNED_GRAMMAR = {
    'ESCAPED_STRING': r'ESCAPED_STRING : /".*?(?<!\\)(\\\\)*?"/s',
    'INLINE_COMMENT': r'INLINE_COMMENT: /;[^\r\n]*/s',
    'BLOCK_COMMENT': r'BLOCK_COMMENT: /^/m INLINE_COMMENT (_NEWLINE INLINE_COMMENT)* | /^/m WHITESPACE INLINE_COMMENT (_NEWLINE WHITESPACE INLINE_COMMENT)*',
    'WHITESPACE': r'WHITESPACE: /[ \t]+/',
    '_NEWLINE': r'_NEWLINE: /\r*\n/',
    'DATE': r'DATE.10: /[0-9]{4,}[-\/][0-9]{1,2}[-\/][0-9]{1,2}/',
    'NUMBER': r'NUMBER: (/([0-9]{1,3})(,[0-9]{3})+/ | /[0-9]+/) [/\.[0-9]*/]',
    'TAG': r'TAG: /#[A-Za-z0-9-_\/.]+/',
    'LINK': r'LINK: /\^[A-Za-z0-9-_\/.]+/',
    'META_KEY': r'META_KEY: /[a-z][a-zA-Z0-9-_]+:/',
    'BOOL': r'BOOL.10: "TRUE" | "FALSE"',
    'NULL': r'NULL.10: "NULL"',
    'POSTING_FLAG': r'POSTING_FLAG: /[*!&#?%PSTCURM]/',
    'TRANSACTION_FLAG': r'TRANSACTION_FLAG: POSTING_FLAG | "txn"',
    '_NON_ASCII': r'_NON_ASCII: /[^\x00-\x7f]/',
    '_ACCOUNT_TYPE': r'_ACCOUNT_TYPE: (/[A-Z]/ | _NON_ASCII) (/[A-Za-z0-9\-]/ | _NON_ASCII)*',
    '_ACCOUNT_NAME': r'_ACCOUNT_NAME: (/[A-Z0-9]/ | _NON_ASCII) (/[A-Za-z0-9\-]/ | _NON_ASCII)*',
    'ACCOUNT': r'ACCOUNT: _ACCOUNT_TYPE (":" _ACCOUNT_NAME)+',
    '_CURRENCY_BODY': r"_CURRENCY_BODY: /[A-Z0-9'._-]*/",
    'CURRENCY': r'CURRENCY: /[A-Z]/ _CURRENCY_BODY /[A-Z0-9]/',
    'INDENT': r'INDENT: /^/m WHITESPACE /(?=[^ \t\r\n])/s',
}
PINNED_CONTINUATION = {'CURRENCY': r'        | "/" _CURRENCY_BODY /[A-Z]/ [_CURRENCY_BODY /[A-Z0-9]/]'}
PINNED_COMPILED = {
    'ESCAPED_STRING': '(?s:".*?(?<!\\\\)(\\\\\\\\)*?")',
    'INLINE_COMMENT': '(?s:;[^\r\n]*)',
    'BLOCK_COMMENT': '(?:(?m:^)[ \t]+(?s:;[^\r\n]*)(?:\r*\n[ \t]+(?s:;[^\r\n]*))*|(?m:^)(?s:;[^\r\n]*)(?:\r*\n(?s:;[^\r\n]*))*)',
    'DATE': '[0-9]{4,}[-\\/][0-9]{1,2}[-\\/][0-9]{1,2}',
    'NUMBER': '(?:([0-9]{1,3})(,[0-9]{3})+|[0-9]+)(?:\\.[0-9]*)?',
    'TAG': '#[A-Za-z0-9-_\\/.]+',
    'LINK': '\\^[A-Za-z0-9-_\\/.]+',
    'META_KEY': '[a-z][a-zA-Z0-9-_]+:',
    'BOOL': '(?:FALSE|TRUE)',
    'NULL': 'NULL',
    'POSTING_FLAG': '[*!&#?%PSTCURM]',
    'TRANSACTION_FLAG': '(?:txn|[*!&#?%PSTCURM])',
    'CURRENCY': "(?:/[A-Z0-9'._-]*[A-Z](?:[A-Z0-9'._-]*[A-Z0-9])?|[A-Z][A-Z0-9'._-]*[A-Z0-9])",
    'ACCOUNT': '(?:[^\x00-\x7f]|[A-Z])(?:(?:[A-Za-z0-9\\-]|[^\x00-\x7f]))*(?::(?:[A-Z0-9]|[^\x00-\x7f])(?:(?:[A-Za-z0-9\\-]|[^\x00-\x7f]))*)+',
    'INDENT': '(?m:^)[ \t]+(?s:(?=[^ \t\r\n]))',
}
CODE = {'ValueError': 1, 'IndexError': 2, 'KeyError': 3, 'AssertionError': 4, 'TypeError': 5,
        'NotImplementedErr': 6, 'ModelStuck': 8}

# class ids of the history cases in TokensRun.run_hist
CLS = {'EscapedString': 1, 'InlineComment': 2, 'Tag': 3, 'Link': 4, 'MetaKey': 5, 'Currency': 6, 'Account': 6,
       'BlockComment': 7, 'Date': 8, 'Number': 9, 'Bool': 10, 'TransactionFlag': 11, 'PostingFlag': 6, 'Indent': 6}
# function ids of TokensRun.model_out: (parse, format, lex)
FN = {'EscapedString': (4, 5, 6), 'BlockComment': (8, 9, 10), 'InlineComment': (11, 12, 13), 'Date': (14, 15, 16),
      'Number': (17, 18, 19), 'Tag': (20, 21, 22), 'Link': (23, 24, 25), 'MetaKey': (26, 27, 28),
      'Bool': (29, 30, 31), 'Null': (None, None, 32), 'Account': (33, 34, 41), 'Currency': (33, 34, 42),
      'TransactionFlag': (36, 37, 38), 'PostingFlag': (33, 34, 39), 'Indent': (33, 34, None)}

LINEBREAKS = '\n\r\x0b\x0c\x1c\x1d\x1e\x85\u2028\u2029'


def S(cps) -> str:
    return ''.join(map(chr, cps))


def L(s: str) -> list[int]:
    return [ord(c) for c in s]


class Impl:
    """The implementation under test and the two behaviours the model is parametric in."""

    def __init__(self):
        from autobean_refactor import parser, models
        from autobean_refactor.models import block_comment
        from lark import lexer
        self.parser_mod, self.models, self.block_comment, self.lexer_mod = parser, models, block_comment, lexer
        self.p = parser.Parser()
        self.conf = self.p._lark.parser.lexer_conf
        self._lexers = {}
        # which _splitlines / which date formatting does this tree have?  (behavioural probe; the
        # correspondence then checks the whole function against the model of that mode)
        try:
            self.sm = 1 if block_comment._splitlines('a\x0cb\rc') == ['a\x0cb\rc'] else 0
        except Exception:
            self.sm = 0
        try:
            self.dm = 1 if models.Date._format_value(datetime.date(999, 1, 2)) == '0999-01-02' else 0
        except Exception:
            self.dm = 0
        # does the raw_text setter write the text before parsing it (as found) or parse first
        # (fixes/token-raw-text-parse-first.patch)?  Both satisfy C12; the model follows the tree.
        self.rm = 0
        try:
            t = models.Bool.from_raw_text('TRUE')
            try:
                t.raw_text = 'MAYBE'
            except Exception:
                pass
            self.rm = 1 if t.raw_text == 'TRUE' else 0
        except Exception:
            pass

    def K(self, name):
        return getattr(self.models, name)

    def lark_len(self, rule: str, text: str) -> int:
        """Length of the first token lark's lexer (restricted to one terminal, as Parser.parse_token
        does) produces at position 0; -1 when it produces none."""
        lx = self._lexers.get(rule)
        if lx is None:
            conf = copy.deepcopy(self.conf)
            conf.terminals = [conf.terminals_by_name[rule]]
            lx = self._lexers[rule] = self.lexer_mod.BasicLexer(conf)
        try:
            it = self.lexer_mod.LexerThread.from_text(lx, text).lex(None)
            tok = next(it)
            return len(tok.value)
        except StopIteration:
            return -1
        except Exception as e:
            if type(e).__name__ in ('UnexpectedCharacters', 'UnexpectedToken', 'UnexpectedInput'):
                return -1
            raise


# ------------------------------------------------------------------------------------------------------
def tie(ctx, impl: Impl):
    src = (common.REPO / 'autobean_refactor' / 'beancount.lark').read_text()
    lines = src.splitlines()
    for name, want in PINNED_GRAMMAR.items():
        head = re.compile(r'^' + re.escape(name) + r'(\.\d+)?\s*:')
        found = [ln.rstrip() for ln in lines if head.match(ln)]
        if found != [want]:
            ctx.fail('tie', f'grammar-text:{name}',
                     f'terminal {name} in beancount.lark is no longer the text lex_{name.lower()} was written for',
                     {'terminal': name, 'expected': want, 'found': found})
        cont = PINNED_CONTINUATION.get(name)
        if cont is not None:
            idx = [i for i, ln in enumerate(lines) if head.match(ln)]
            nxt = lines[idx[0] + 1].rstrip() if idx and idx[0] + 1 < len(lines) else None
            if nxt != cont:
                ctx.fail('tie', f'grammar-text:{name}', f'second alternative of terminal {name} changed',
                         {'terminal': name, 'expected': cont, 'found': nxt})
    for name, want in PINNED_COMPILED.items():
        try:
            t = impl.conf.terminals_by_name[name]
            got = t.pattern.to_regexp()
        except Exception as e:  # fail closed
            got = f'<{type(e).__name__}>'
        if got != want:
            ctx.fail('tie', f'compiled-pattern:{name}',
                     f'lark compiles terminal {name} to a different pattern than the recogniser models',
                     {'terminal': name, 'expected': want, 'found': got})
    ctx.count('pinned_terminals', len(PINNED_GRAMMAR))


# ------------------------------------------------------------------------------------------------------
# value <-> integer payload (what crosses the Coq boundary)
def val_payload(cls: str, v) -> list[int]:
    if cls == 'Date':
        return [v.year, v.month, v.day]
    if cls == 'Number':
        t = v.as_tuple()
        return [t.sign, t.exponent] + list(t.digits)
    if cls == 'Bool':
        return [1 if v else 0]
    return L(v)


def payload_val(cls: str, p: list[int]):
    if cls == 'Date':
        return datetime.date(p[0], p[1], p[2])
    if cls == 'Number':
        return decimal.Decimal((p[0], tuple(p[2:]), p[1]))
    if cls == 'Bool':
        return bool(p[0])
    return S(p)


def enc_exc(e: BaseException):
    return [[1, CODE[common.exn_name(e)]]]


def observe(impl: Impl, k: int, args: list[list[int]]):
    """Run function k of the implementation on args; the encoding TokensRun.model_out produces."""
    M = impl.models
    a0 = args[0] if args else []
    s0 = S(a0) if all(0 <= x < 0x110000 for x in a0) else ''

    def res(f, enc):
        try:
            r = f()
        except Exception as e:
            return enc_exc(e)
        return [[0]] + enc(r)

    def lex(rule):
        return [[impl.lark_len(rule, s0)]]
    es = M.EscapedString
    if k == 1: return [L(es.escape(s0))]
    if k == 2: return [L(es.escape(s0, aggressive=True))]
    if k == 3: return [L(es.unescape(s0))]
    if k == 4: return res(lambda: es._parse_value(s0), lambda r: [L(r)])
    if k == 5: return [L(es._format_value(s0))]
    if k == 6: return lex('ESCAPED_STRING')
    if k == 7: return [L(x) for x in impl.block_comment._splitlines(s0)]
    if k == 8: return res(lambda: M.BlockComment._parse_value(s0), lambda r: [L(r[0]), L(r[1])])
    if k == 9: return [L(M.BlockComment._format_value(s0, S(args[1])))]
    if k == 10: return lex('BLOCK_COMMENT')
    if k == 11: return res(lambda: M.InlineComment._parse_value(s0), lambda r: [L(r)])
    if k == 12: return [L(M.InlineComment._format_value(s0))]
    if k == 13: return lex('INLINE_COMMENT')
    if k == 14: return res(lambda: M.Date._parse_value(s0), lambda r: [val_payload('Date', r)])
    if k == 15: return [L(M.Date._format_value(payload_val('Date', a0)))]
    if k == 16: return lex('DATE')
    if k == 17: return res(lambda: M.Number._parse_value(s0), lambda r: [val_payload('Number', r)])
    if k == 18: return [L(M.Number._format_value(payload_val('Number', a0)))]
    if k == 19: return lex('NUMBER')
    if k == 20: return res(lambda: M.Tag._parse_value(s0), lambda r: [L(r)])
    if k == 21: return [L(M.Tag._format_value(s0))]
    if k == 22: return lex('TAG')
    if k == 23: return res(lambda: M.Link._parse_value(s0), lambda r: [L(r)])
    if k == 24: return [L(M.Link._format_value(s0))]
    if k == 25: return lex('LINK')
    if k == 26: return res(lambda: M.MetaKey._parse_value(s0), lambda r: [L(r)])
    if k == 27: return [L(M.MetaKey._format_value(s0))]
    if k == 28: return lex('META_KEY')
    if k == 29: return res(lambda: M.Bool._parse_value(s0), lambda r: [val_payload('Bool', r)])
    if k == 30: return [L(M.Bool._format_value(payload_val('Bool', a0)))]
    if k == 31: return lex('BOOL')
    if k == 32: return lex('NULL')
    if k == 33: return res(lambda: M.Currency._parse_value(s0), lambda r: [L(r)])
    if k == 34: return [L(M.Account._format_value(s0))]
    if k == 36: return res(lambda: M.TransactionFlag._parse_value(s0), lambda r: [L(r)])
    if k == 37: return [L(M.TransactionFlag._format_value(s0))]
    if k == 38: return lex('TRANSACTION_FLAG')
    if k == 39: return lex('POSTING_FLAG')
    if k == 41: return lex('ACCOUNT')
    if k == 42: return lex('CURRENCY')
    if k == 35: return [L(str(payload_val('Number', a0)))]      # CPython's str(Decimal) vs number_format_str
    if k == 40: return observe_history(impl, args)
    raise ValueError(k)


HIST_CLASS = {1: 'EscapedString', 2: 'InlineComment', 3: 'Tag', 4: 'Link', 5: 'MetaKey', 6: 'Currency',
              7: 'BlockComment', 8: 'Date', 9: 'Number', 10: 'Bool', 11: 'TransactionFlag'}


def observe_history(impl: Impl, args):
    cid, ik = args[0]
    cls = HIST_CLASS[cid]
    K = impl.K(cls)
    out = []

    def dump(t, code):
        out.append([code])
        out.append(L(t.raw_text))
        out.append(val_payload(cls, t.value))
        if cls == 'BlockComment':
            out.append(L(t.indent))
    try:
        if ik == 0:
            t = K.from_raw_text(S(args[1]))
        elif cls == 'BlockComment':
            t = K.from_value(S(args[1]), indent=S(args[2]))
        else:
            t = K.from_value(payload_val(cls, args[1]))
    except Exception as e:
        return [[CODE[common.exn_name(e)]]]
    dump(t, 0)
    ops = args[3:]
    for i in range(0, len(ops) - 1, 2):
        kind, p = ops[i][0], ops[i + 1]
        code = 0
        try:
            if kind == 0:
                t.raw_text = S(p)
            elif kind == 1:
                t.value = payload_val(cls, p)
            else:
                t.indent = S(p)
        except Exception as e:
            code = CODE[common.exn_name(e)]
        dump(t, code)
    return out


def coq_case(impl: Impl, k: int, args, exp) -> str:
    ll = lambda xs: common.coq_list(common.coq_zlist(x) for x in xs)
    return f'mkc {k} {impl.sm} {impl.dm} {impl.rm} {ll(args)} {ll(exp)}'


# ------------------------------------------------------------------------------------------------------
# generators (everything from ctx.rng)
TEXT_ALPHABET = ['"', '\\', 'n', 't', 'r', 'a', 'Z', '0', ' ', ' ', ';', ';', '\t', '\n', '\n', '\r', '\x0c', '\x0b',
                 '\x1c', '\x1d', '\x1e', '\x85', '\u2028', '\u2029', '\xe9', '\U0001f600', '\x08', '#', ':', '-']
SPECIAL_TEXTS = ['', '\r\r\n', 'a\r\r\nb', '\n', '\r\n', 'a\n', 'a\r\nb', ' a', 'a\x0cb', 'a\x85b', 'a\u2028b', 'a\rb',
                 '\\', '"', '\\"', '\\\\', '\\\n', 'a\\', '\\n', ' ', ';', '; ;', '\n\n', ' \n a', 'a\n\n b', '\r',
                 'a\x0b', 'a\x1c\x1d\x1eb', '\u2029', 'x\ny', ' x\n y', ' x\ny']


def gen_text(rng, alphabet=TEXT_ALPHABET, maxlen=14) -> str:
    if rng.random() < 0.12:
        return rng.choice(SPECIAL_TEXTS)
    n = rng.choice([0, 1, 2, 3, 5, 8, maxlen])
    return ''.join(rng.choice(alphabet) for _ in range(n))


def gen_inline_value(rng) -> str:
    s = gen_text(rng).replace('\r', '').replace('\n', '')
    return s.lstrip(' ')


def gen_block_value(rng) -> str:
    """A value of BlockComment's domain: lines of [^\\r\\n]* joined by \\r*\\n."""
    n = rng.choice([1, 1, 2, 3, 5])
    out = []
    for i in range(n):
        body = gen_text(rng, maxlen=8).replace('\r', '').replace('\n', '')
        if rng.random() < 0.25:
            body = ''
        out.append(body)
        if i < n - 1:
            out.append(rng.choice(['\n', '\n', '\r\n', '\r\r\n']))
    return ''.join(out)


def gen_indent(rng) -> str:
    return rng.choice(['', '', ' ', '  ', '\t', ' \t', '    '])


def gen_date(rng) -> datetime.date:
    y = rng.choice([rng.randint(1, 9), rng.randint(10, 99), rng.randint(100, 999), rng.randint(1000, 9999),
                    rng.randint(1900, 2100), 1, 9999, 999, 1000, 2000, 2024])
    m = rng.randint(1, 12)
    last = (datetime.date(y + (m == 12), m % 12 + 1, 1) - datetime.timedelta(days=1)).day if y < 9999 or m < 12 else 31
    d = rng.choice([1, last, rng.randint(1, last)])
    return datetime.date(y, m, d)


def gen_digits(rng, n) -> list[int]:
    if n == 1:
        return [rng.randint(0, 9)]
    return [rng.randint(1, 9)] + [rng.randint(0, 9) for _ in range(n - 1)]


def gen_number(rng, in_domain=True) -> decimal.Decimal:
    """in_domain: any finite non-negative Decimal (large/small exponents, trailing zeros, zero with exponent)."""
    n = rng.choice([1, 1, 2, 3, 4, 7, 12, 30])
    ds = gen_digits(rng, n)
    r = rng.random()
    if r < 0.15:
        ds = [0]
    elif r < 0.35 and n > 1:
        k = rng.randint(1, n - 1)
        ds = ds[:n - k] + [0] * k                      # trailing zeros
    e = rng.choice([0, -rng.randint(0, len(ds) + 5), -rng.randint(0, len(ds) + 5), rng.randint(-40, 40),
                    -len(ds), -len(ds) - 1, -len(ds) + 1, -len(ds) - 6, -len(ds) - 7, 1, 3, 12])
    sign = 0 if in_domain else rng.choice([0, 0, 1])
    return decimal.Decimal((sign, tuple(ds), e))


FLAGS = '*!&#?%PSTCURM'
TAGCH = 'AZaz09-_/.bQ7'
KEYCH = 'azAZ09-_k'


def gen_tag_value(rng) -> str:
    return ''.join(rng.choice(TAGCH) for _ in range(rng.randint(1, 8)))


def gen_key_value(rng) -> str:
    return rng.choice('azk') + ''.join(rng.choice(KEYCH) for _ in range(rng.randint(1, 8)))


def gen_account(rng) -> str:
    def comp(first):
        return rng.choice(first) + ''.join(rng.choice('Aa0-z\xe9') for _ in range(rng.randint(0, 5)))
    return comp('AZ\xc9') + ''.join(':' + comp('AZ09\u4e2d') for _ in range(rng.randint(1, 3)))


def gen_currency(rng) -> str:
    body = ''.join(rng.choice("AZ09'._-") for _ in range(rng.randint(0, 6)))
    if rng.random() < 0.8:
        return rng.choice('AZU') + body + rng.choice('AZ09')
    return '/' + body + rng.choice('AZ')


def gen_value(rng, cls: str):
    """A value of the class's domain (= has a lexeme)."""
    if cls == 'EscapedString': return gen_text(rng)
    if cls == 'InlineComment': return gen_inline_value(rng)
    if cls == 'BlockComment': return gen_block_value(rng)
    if cls == 'Date': return gen_date(rng)
    if cls == 'Number': return gen_number(rng)
    if cls in ('Tag', 'Link'): return gen_tag_value(rng)
    if cls == 'MetaKey': return gen_key_value(rng)
    if cls == 'Bool': return rng.random() < 0.5
    if cls == 'Account': return gen_account(rng)
    if cls == 'Currency': return gen_currency(rng)
    if cls in ('TransactionFlag', 'PostingFlag'): return rng.choice(FLAGS)
    if cls == 'Indent': return rng.choice([' ', '  ', '    ', '\t', ' \t', '\t  '])
    raise ValueError(cls)


def gen_lexeme(rng, cls: str) -> str:
    """A text the grammar can produce for the terminal (checked against lark before use)."""
    if cls == 'EscapedString':
        parts = []
        for _ in range(rng.choice([0, 1, 2, 4, 8])):
            c = rng.choice(TEXT_ALPHABET)
            if c in '"\\' or rng.random() < 0.2:
                parts.append('\\' + rng.choice(TEXT_ALPHABET))
            else:
                parts.append(c)
        return '"' + ''.join(parts) + '"'
    if cls == 'InlineComment':
        return ';' + gen_text(rng).replace('\r', '').replace('\n', '')
    if cls == 'BlockComment':
        indented = rng.random() < 0.4
        lines = []
        for _ in range(rng.choice([1, 1, 2, 3, 4])):
            ind = rng.choice([' ', '  ', '\t', ' \t ']) if indented else ''
            lines.append(ind + ';' + rng.choice(['', ' ', '  ', '']) + gen_text(rng, maxlen=8).replace('\r', '').replace('\n', ''))
        out = lines[0]
        for ln in lines[1:]:
            out += rng.choice(['\n', '\n', '\r\n', '\r\r\n']) + ln
        return out
    if cls == 'Date':
        if rng.random() < 0.6:
            d = gen_date(rng)
            y = str(d.year).zfill(rng.choice([4, 4, 5, 6]))
            m = str(d.month).zfill(rng.choice([1, 2]))
            dd = str(d.day).zfill(rng.choice([1, 2]))
        else:
            y = ''.join(rng.choice('0129') for _ in range(rng.choice([4, 4, 5])))
            m = ''.join(rng.choice('0139') for _ in range(rng.choice([1, 2])))
            dd = ''.join(rng.choice('01239') for _ in range(rng.choice([1, 2])))
        return y + rng.choice('-/') + m + rng.choice('-/') + dd
    if cls == 'Number':
        if rng.random() < 0.4:
            ip = ''.join(rng.choice('0123456789') for _ in range(rng.randint(1, 3)))
            for _ in range(rng.randint(1, 3)):
                ip += ',' + ''.join(rng.choice('0123456789') for _ in range(3))
        else:
            ip = ''.join(rng.choice('0123456789') for _ in range(rng.choice([1, 2, 3, 4, 6, 10])))
        fr = rng.choice(['', '', '.', '.' + ''.join(rng.choice('0123456789') for _ in range(rng.randint(1, 8)))])
        return ip + fr
    if cls == 'Tag': return '#' + gen_tag_value(rng)
    if cls == 'Link': return '^' + gen_tag_value(rng)
    if cls == 'MetaKey': return gen_key_value(rng) + ':'
    if cls == 'Bool': return rng.choice(['TRUE', 'FALSE'])
    if cls == 'Null': return 'NULL'
    if cls == 'Account': return gen_account(rng)
    if cls == 'Currency': return gen_currency(rng)
    if cls == 'TransactionFlag': return rng.choice(['txn'] + list(FLAGS))
    if cls == 'PostingFlag': return rng.choice(FLAGS)
    raise ValueError(cls)


def gen_noise(rng, cls: str) -> str:
    """Texts around the terminal's language: mutated lexemes, for the recogniser/lexer comparison."""
    s = gen_lexeme(rng, cls)
    alpha = {'Date': '0129-/x.', 'Number': '0123456789,,..x;', 'Tag': TAGCH + '# :', 'Link': TAGCH + '^ :',
             'MetaKey': KEYCH + ': A', 'Bool': 'TRUEFALS ', 'Null': 'NUL ',
             'TransactionFlag': FLAGS + 'txnA ', 'PostingFlag': FLAGS + 'txA ', 'Account': "AZaz09-:_ \xe9", 'Currency': "AZ09'._-/a "}.get(cls, TEXT_ALPHABET)
    for _ in range(rng.choice([0, 1, 1, 2, 3])):
        r = rng.random()
        i = rng.randint(0, len(s))
        if r < 0.4 and s:
            i = min(i, len(s) - 1)
            s = s[:i] + s[i + 1:]
        elif r < 0.8:
            s = s[:i] + rng.choice(alpha) + s[i:]
        else:
            s = s + rng.choice(alpha)
    return s


# ------------------------------------------------------------------------------------------------------
# the domains, as the property means them (mirrors dom_K of Tokens.v)
BLOCK_VALUE_RE = re.compile(r'(?:[^\r\n]*\r*\n)*[^\r\n]*\Z')


def in_domain(cls: str, v, indent: str = '') -> bool:
    if cls == 'EscapedString': return True
    if cls == 'InlineComment': return not re.search(r'[\r\n]', v) and not v.startswith(' ')
    if cls == 'BlockComment': return bool(BLOCK_VALUE_RE.match(v)) and re.fullmatch(r'[ \t]*', indent) is not None
    if cls == 'Date': return True
    if cls == 'Number':
        t = v.as_tuple()
        return isinstance(t.exponent, int) and t.sign == 0          # every finite non-negative Decimal
    if cls in ('Tag', 'Link'): return re.fullmatch(r'[A-Za-z0-9\-_/.]+', v) is not None
    if cls == 'MetaKey': return re.fullmatch(r'[a-z][a-zA-Z0-9\-_]+', v) is not None
    if cls in ('TransactionFlag', 'PostingFlag'): return len(v) == 1 and v in FLAGS
    if cls == 'Indent': return re.fullmatch(r'[ \t]+', v) is not None
    return True


def same_value(cls, a, b) -> bool:
    if cls == 'Number':
        # Decimal equality is numeric (Decimal('1E+3') == Decimal('1000')); the representation is kept exactly
        # whenever the exponent is not positive (C12_number_roundtrip)
        if not (isinstance(a, decimal.Decimal) and isinstance(b, decimal.Decimal) and a == b):
            return False
        ta, tb = a.as_tuple(), b.as_tuple()
        return ta == tb or ta.exponent > 0 or tb.exponent > 0
    return type(a) is type(b) and a == b


# independent reading of what a lexeme means: computed here from the text, never with the implementation's
# _parse_value and never with Decimal(text) / strptime
def oracle_meaning(cls: str, s: str):
    """('ok', value) | ('invalid',) | ('unknown',)"""
    if cls == 'EscapedString':
        body, out, i = s[1:-1], [], 0
        unmap = {'n': '\n', 't': '\t', 'r': '\r', 'f': '\x0c', 'b': '\x08'}
        while i < len(body):
            if body[i] == '\\' and i + 1 < len(body) and body[i + 1] != '\n':
                out.append(unmap.get(body[i + 1], body[i + 1]))
                i += 2
            else:
                out.append(body[i])
                i += 1
        return ('ok', ''.join(out))
    if cls == 'InlineComment':
        return ('ok', s[1:].lstrip(' '))
    if cls == 'BlockComment':
        lines = s.split('\n')
        vals = [ln[ln.index(';') + 1:] for ln in lines]
        if all((not v.strip('\r')) or v.startswith(' ') for v in vals):
            vals = [v[1:] if v.startswith(' ') else v for v in vals]
        return ('ok', (lines[0][:lines[0].index(';')], '\n'.join(vals)))
    if cls == 'Date':
        y, m, d = (int(x) for x in re.split(r'[-/]', s))
        dim = [31, 29 if (y % 4 == 0 and y % 100 != 0) or y % 400 == 0 else 28, 31, 30, 31, 30, 31, 31, 30, 31, 30, 31]
        if not (1 <= y <= 9999 and 1 <= m <= 12 and 1 <= d <= dim[m - 1]):
            return ('invalid',)
        return ('ok', datetime.date(y, m, d))
    if cls == 'Number':
        t = s.replace(',', '')
        ip, _, fr = t.partition('.')
        digits = tuple(int(c) for c in str(int(ip + fr or '0')))
        return ('ok', decimal.Decimal((0, digits, -len(fr))))
    if cls in ('Tag', 'Link'): return ('ok', s[1:])
    if cls == 'MetaKey': return ('ok', s[:-1])
    if cls == 'Bool': return ('ok', {'TRUE': True, 'FALSE': False}[s])
    if cls == 'TransactionFlag': return ('ok', '*' if s == 'txn' else s)
    if cls in ('Account', 'Currency', 'PostingFlag', 'Indent'): return ('ok', s)
    return ('unknown',)


def exact_value(cls, got, want) -> bool:
    if cls == 'Number':
        return isinstance(got, decimal.Decimal) and got == want and got.as_tuple() == want.as_tuple()
    return type(got) is type(want) and got == want


RULE_OF = {'EscapedString': 'ESCAPED_STRING', 'BlockComment': 'BLOCK_COMMENT', 'InlineComment': 'INLINE_COMMENT',
           'Date': 'DATE', 'Number': 'NUMBER', 'Tag': 'TAG', 'Link': 'LINK', 'MetaKey': 'META_KEY', 'Bool': 'BOOL',
           'Null': 'NULL', 'Account': 'ACCOUNT', 'Currency': 'CURRENCY', 'TransactionFlag': 'TRANSACTION_FLAG',
           'PostingFlag': 'POSTING_FLAG', 'Indent': 'INDENT'}
# a ledger snippet in which the real parser must find the token again: (prefix, suffix)
CONTEXT = {'EscapedString': ('2000-01-01 note Assets:Foo ', '\n'), 'Date': ('', ' open Assets:Foo\n'),
           'Number': ('2000-01-01 balance Assets:Foo ', ' USD\n'), 'InlineComment': ('2000-01-01 open Assets:Foo ', '\n'),
           'BlockComment': ('', '\n2000-01-01 open Assets:Foo\n'), 'Tag': ('2000-01-01 * "x" ', '\n'),
           'Link': ('2000-01-01 * "x" ', '\n'), 'MetaKey': ('2000-01-01 open Assets:Foo\n  ', ' 1\n'),
           'Bool': ('2000-01-01 custom "x" ', '\n'), 'Account': ('2000-01-01 open ', '\n'),
           'Currency': ('2000-01-01 commodity ', '\n'), 'TransactionFlag': ('2000-01-01 ', ' "x"\n'),
           'PostingFlag': ('2000-01-01 *\n  ', ' Assets:Foo\n'), 'Indent': ('2000-01-01 *\n', 'Assets:Foo  1 USD\n'),
           'Null': ('2000-01-01 open Assets:Foo\n  k: ', '\n')}


def is_lexeme(impl: Impl, cls: str, s: str) -> bool:
    return bool(s) and impl.lark_len(RULE_OF[cls], s) == len(s)


def signature(cls: str, aspect: str, texts) -> str:
    """Structural class of a failure. The two defects known on the tree as found get their own class."""
    joined = ''.join(t for t in texts if isinstance(t, str))
    if cls == 'BlockComment' and any(c in joined for c in LINEBREAKS if c != '\n'):
        return 'C12:BlockComment:non-LF-line-boundary'
    if cls == 'Date' and aspect in ('relex', 'context', 'history') and any(
            isinstance(t, datetime.date) and t.year < 1000 for t in texts):
        return 'C12:Date:year-below-1000'
    return f'C12:{cls}:{aspect}'


def jv(cls, v):
    return val_payload(cls, v)


def in_context(impl: Impl, cls: str, raw: str):
    """Parse a ledger snippet containing raw with the real parser; (token of class cls at raw's place | None, tokens, text)."""
    pre, suf = CONTEXT[cls]
    text = pre + raw + suf
    f = impl.p.parse(text, impl.models.File)
    toks = list(f.token_store)
    K = impl.K(cls)
    pos, pick = 0, None
    for x in toks:
        if pos == len(pre) and type(x) is K and x.raw_text == raw:
            pick = x
        pos += len(x.raw_text)
    if ''.join(x.raw_text for x in toks) != text:
        pick = None
    return pick, toks, text


def check_value(impl: Impl, cls: str, v, indent: str = '', context: bool = True) -> list[dict]:
    """from_value(v).value == v; the produced text is exactly one token of the same type and value."""
    K = impl.K(cls)
    fails = []
    wit = {'fn': 'value', 'cls': cls, 'value': jv(cls, v), 'indent': L(indent)}

    def bad(aspect, what, *texts):
        fails.append({'sig': signature(cls, aspect, [v, *texts]), 'what': f'{cls}: {what}', 'witness': wit})
    try:
        t = K.from_value(v, indent=indent) if cls == 'BlockComment' else K.from_value(v)
    except Exception as e:
        bad('from_value', f'from_value({v!r}) raised {type(e).__name__}')
        return fails
    if not exact_value(cls, t.value, v):
        bad('from_value', f'from_value({v!r}).value is {t.value!r}')
    raw = t.raw_text
    if cls != 'Indent':      # an INDENT lexeme needs a following character: it is one lexeme only in context
        try:
            t2 = impl.p.parse_token(raw, K)
        except Exception as e:
            bad('relex', f'from_value({v!r}) wrote {raw!r}, which is not lexed as one {RULE_OF[cls]} token ({type(e).__name__})', raw)
            return fails
        if type(t2) is not K or not same_value(cls, t2.value, v) or t2.raw_text != raw or \
                (cls == 'BlockComment' and t2.indent != indent):
            bad('relex', f'from_value({v!r}) wrote {raw!r}, which reads back as {t2.value!r}', raw)
    if context and cls in CONTEXT and not (cls == 'BlockComment' and indent):
        try:
            pick, toks, text = in_context(impl, cls, raw)
        except Exception as e:
            bad('context', f'{raw!r} (from_value({v!r})) makes a ledger unparseable ({type(e).__name__})', raw)
            return fails
        if pick is None or not same_value(cls, pick.value, v):
            bad('context', f'{raw!r} (from_value({v!r})) inside {text!r} is lexed as '
                           f'{[(type(x).__name__, x.raw_text) for x in toks][:6]}', raw)
    return fails


def check_lexeme(impl: Impl, cls: str, s: str, context: bool = True) -> list[dict]:
    """A lexeme whose meaning is a valid value is accepted and kept verbatim (by Parser.parse_token, by
    from_raw_text and inside a parsed ledger); its value is what the text means (computed independently
    here); writing that value back gives a text with the same value."""
    K = impl.K(cls)
    fails = []
    wit = {'fn': 'lexeme', 'cls': cls, 'text': L(s)}

    def bad(aspect, what):
        fails.append({'sig': signature(cls, aspect, [s]), 'what': f'{cls}: {what}', 'witness': wit})
    if not is_lexeme(impl, cls, s):
        return fails
    meaning = oracle_meaning(cls, s)
    got = []
    for how, f in (('Parser.parse_token', lambda: impl.p.parse_token(s, K)), ('from_raw_text', lambda: K.from_raw_text(s))):
        try:
            t = f()
        except Exception as e:
            if meaning[0] != 'invalid':
                bad('verbatim', f'the {RULE_OF[cls]} lexeme {s!r} is refused by {how} ({type(e).__name__}: {str(e)[:60]})')
            continue
        if t.raw_text != s:
            bad('verbatim', f'{how}: lexeme {s!r} is stored as {t.raw_text!r}')
        got.append((how, t))
    if context and cls in CONTEXT and meaning[0] != 'invalid' and not (cls == 'BlockComment' and s[0] != ';'):
        try:
            pick, toks, text = in_context(impl, cls, s)
            if pick is not None:
                got.append(('the parsed ledger ' + repr(text), pick))
            # (a lexeme may legitimately be read differently inside a directive, e.g. a flag character that
            #  starts a tag; only the value of the token found at that place is checked)
        except Exception:
            pass
    if cls == 'Null' or meaning[0] != 'ok':
        return fails
    for how, t in got:
        val = (t.indent, t.value) if cls == 'BlockComment' else t.value
        want = meaning[1]
        ok = (val == want) if cls == 'BlockComment' else exact_value(cls, val, want)
        if not ok:
            bad('meaning', f'{how}: lexeme {s!r} means {want!r} but its value is {val!r}')
    if got:
        t = got[0][1]
        try:
            back = K.from_value(t.value, indent=t.indent) if cls == 'BlockComment' else K.from_value(t.value)
            t3 = impl.p.parse_token(back.raw_text, K)
            same = same_value(cls, t3.value, t.value) if cls != 'Number' else t3.value == t.value
        except Exception:
            same = False
        if not same and in_domain(cls, t.value, t.indent if cls == 'BlockComment' else ''):
            bad('describe', f'lexeme {s!r} has value {t.value!r}, which does not write back to a text with that value')
    return fails


def check_history(impl: Impl, cls: str, init, ops) -> list[dict]:
    """After every assignment of a value of the domain / a lexeme with a valid meaning / an indent, value
    and raw text describe each other: the raw text is one lexeme whose value is the token's value."""
    K = impl.K(cls)
    fails = []
    wit = {'fn': 'history', 'cls': cls, 'init': init, 'ops': ops}
    seen: list = []

    def bad(what):
        fails.append({'sig': signature(cls, 'history', seen), 'what': f'{cls}: {what}', 'witness': wit})

    def coherent(t, step):
        try:
            t2 = impl.p.parse_token(t.raw_text, K)
        except Exception as e:
            bad(f'after {step} raw_text {t.raw_text!r} is not one {RULE_OF[cls]} token ({type(e).__name__}) while value is {t.value!r}')
            return False
        if not same_value(cls, t2.value, t.value) or (cls == 'BlockComment' and t2.indent != t.indent):
            extra = f' (indent {t2.indent!r} vs {t.indent!r})' if cls == 'BlockComment' else ''
            bad(f'after {step} raw_text {t.raw_text!r} means {t2.value!r} but value is {t.value!r}{extra}')
            return False
        return True
    kind, p, ind = init
    try:
        if kind == 'raw':
            seen.append(S(p))
            t = K.from_raw_text(S(p))
        elif cls == 'BlockComment':
            seen.append(S(p))
            t = K.from_value(S(p), indent=S(ind))
        else:
            seen.append(payload_val(cls, p))
            t = K.from_value(payload_val(cls, p))
    except Exception as e:
        bad(f'creation from {init!r} raised {type(e).__name__}')
        return fails
    if not coherent(t, 'creation'):
        return fails
    for i, (kind, p) in enumerate(ops):
        try:
            if kind == 'raw':
                seen.append(S(p))
                t.raw_text = S(p)
                if t.raw_text != S(p):
                    bad(f'raw_text = {S(p)!r} stored {t.raw_text!r}')
                m = oracle_meaning(cls, S(p)) if is_lexeme(impl, cls, S(p)) else ('unknown',)
                val = (t.indent, t.value) if cls == 'BlockComment' else t.value
                if m[0] == 'ok' and not (val == m[1] if cls == 'BlockComment' else exact_value(cls, val, m[1])):
                    bad(f'raw_text = {S(p)!r} means {m[1]!r} but value is {val!r}')
            elif kind == 'value':
                v = payload_val(cls, p)
                seen.append(v)
                t.value = v
                if not same_value(cls, t.value, v):
                    bad(f'value = {v!r} reads back {t.value!r}')
            else:
                t.indent = S(p)
                if t.indent != S(p):
                    bad(f'indent = {S(p)!r} reads back {t.indent!r}')
        except Exception as e:
            bad(f'step {i} ({kind} = {p!r}) raised {type(e).__name__}')
            return fails
        if not coherent(t, f'step {i} ({kind})'):
            return fails
    return fails


# ------------------------------------------------------------------------------------------------------
VALUE_CLASSES = ['EscapedString', 'BlockComment', 'InlineComment', 'Date', 'Number', 'Tag', 'Link', 'MetaKey',
                 'Bool', 'Account', 'Currency', 'TransactionFlag', 'PostingFlag', 'Indent']
LEXEME_CLASSES = [c for c in VALUE_CLASSES if c != 'Indent'] + ['Null']
# fixed lexemes every run checks (text, and what it must mean is computed by oracle_meaning)
LEXEME_CORPUS = {
    'Number': ['1,234', '1,234.50', '12,345,678', '0', '007', '1.', '0.00', '123,456.', '999,999.999', '1234'],
    'Date': ['2000-01-02', '2000/1/2', '0999-12-31', '02000-2-29', '2001-02-29', '2000-13-01', '10000-01-01', '2000-1/2'],
    'EscapedString': ['""', '"a\\"b"', '"\\n"', '"\\\\"', '"a\nb"', '"\\\n"', '"\\f\\b\\t\\r\\x"'],
    'InlineComment': [';', '; a', ';  a', ';a;b', '; \x0c'],
    'BlockComment': [';', '; a\n; b', ';a\n; b', '; a\r\n;\r\n; b', '  ; a\n\t;b', '; a\x0cb', '; a\r\r\n; b'],
    'Bool': ['TRUE', 'FALSE'], 'Null': ['NULL'], 'Tag': ['#a', '#a-b_c/d.e'], 'Link': ['^a', '^1.2'],
    'MetaKey': ['ab:', 'aB-_9:'], 'TransactionFlag': ['txn', '*', '!', 'P', '#'], 'PostingFlag': ['*', '!', 'M'],
    'Account': ['Assets:Foo', 'A:0', 'Assets:Foo-Bar:Baz9', '\xc9a:\u4e2d'], 'Currency': ['USD', 'A1', "A'._-9", '/ES', '/6A.B9', '/A'],
}


# what may follow a lexeme directly (extent stability, coq/theories/TokensStable.v): blanks, the separators the
# code writes, and the characters each boundary_K is about
CONTINUATIONS = ['', ' ', '\t', '\n', '\r\n', '\r', ', ', ',', ', 234', ',234', ',23', ',2345', ',2012-01-01', '.', '.5', '5', '12',
                 'a', 'b', 'X', 'USD', '-X', '-', "'", "'.A", '_', '/', '/A', ':C', ':c', ':', ':0', '#', '#b', '^', '"', ';', '; c',
                 '\n; c', '\n ; c', '\r\n\t;c', '\n\n; c', '\nx', ' ;c', '\xe9', '\u4e2d', ')', '}', '@', '*', 'txn', 'xn', 'T', 'E']


def gen_continuation(rng) -> str:
    if rng.random() < 0.7:
        return rng.choice(CONTINUATIONS)
    return ''.join(rng.choice(" \t\n\r,.;:#^\"'-_/0123456789abzABZ\xe9*") for _ in range(rng.randint(1, 5)))


def continuation_cases(ctx, impl: Impl, add):
    """Tie of the extent-stability theorems: for lexemes s of every terminal and texts r, the terminal's real
    pattern matched at position 0 of s + r (CPython re on the pattern lark compiled, and lark's own lexer
    restricted to the terminal) must consume exactly what lexr_K consumes (the latter is compared inside Coq:
    every text added here becomes a `lex K` case of the correspondence)."""
    rng = ctx.rng
    n = ctx.scale(12, 120)
    total = 0
    for cls in LEXEME_CLASSES:
        rule = RULE_OF[cls]
        lk = FN[cls][2]
        try:
            pat = re.compile(impl.conf.terminals_by_name[rule].pattern.to_regexp())
        except Exception as e:  # fail closed
            ctx.fail('tie', f'compiled-pattern:{rule}', f'cannot compile the pattern of terminal {rule}: {type(e).__name__}', {'terminal': rule})
            continue
        lexemes = [s for s in LEXEME_CORPUS.get(cls, []) if is_lexeme(impl, cls, s)]
        pairs = [(s, r) for s in lexemes for r in CONTINUATIONS]
        for _ in range(n):
            s = gen_lexeme(rng, cls)
            if is_lexeme(impl, cls, s):
                pairs += [(s, gen_continuation(rng)) for _ in range(3)]
        for s, r in pairs:
            text = s + r
            m = pat.match(text)
            by_re = m.end() if m else -1
            by_lark = impl.lark_len(rule, text)
            if by_re != by_lark:
                ctx.fail('corr', f'lexeme-continuation:re-vs-lark:{rule}',
                         f'{rule}: re.match of the compiled pattern consumes {by_re} characters of {text!r}, lark\'s lexer {by_lark}',
                         {'fn': 'corr', 'k': lk, 'args': [L(text)], 'lexeme': L(s), 'continuation': L(r)})
            add(lk, L(text))
            total += 1
            ctx.dist(f'continuation:{cls}:' + ('same-extent' if by_re == len(s) else 'longer' if by_re > len(s) else 'other'))
    ctx.count('lexeme_continuation_cases', total)


def gen_hist(rng, impl, cls):
    """(init, ops) of valid assignments for the monitor/correspondence."""
    def a_value():
        return val_payload(cls, gen_value(rng, cls))

    def a_raw():
        for _ in range(20):
            s = gen_lexeme(rng, cls)
            if is_lexeme(impl, cls, s) and oracle_meaning(cls, s)[0] != 'invalid':
                return L(s)
        return L(impl.K(cls).from_value(gen_value(rng, cls)).raw_text)
    init = ('raw', a_raw(), []) if rng.random() < 0.5 else ('value', a_value(), L(gen_indent(rng)) if cls == 'BlockComment' else [])
    ops = []
    for _ in range(rng.choice([1, 2, 4, 7])):
        r = rng.random()
        if cls == 'BlockComment' and r < 0.3:
            ops.append(('indent', L(gen_indent(rng))))
        elif r < 0.6:
            ops.append(('value', a_value()))
        else:
            ops.append(('raw', a_raw()))
    return init, ops


def hist_args(cls, init, ops):
    kind, p, ind = init
    args = [[CLS[cls], 0 if kind == 'raw' else 1], p, ind]
    for k, q in ops:
        args.append([{'raw': 0, 'value': 1, 'indent': 2}[k]])
        args.append(q)
    return args


def run_all(ctx: common.Ctx):
    impl = Impl()
    rng = ctx.rng
    ctx.notes.append(f'tree under test: _splitlines mode={"LF-only" if impl.sm else "str.splitlines"}, '
                     f'Date format={"zero-padded" if impl.dm else "strftime"}, raw_text setter={"parse-first" if impl.rm else "write-first"}')
    tie(ctx, impl)
    if impl.sm == 0:
        ctx.fail('tie', 'model-mode:BlockComment',
                 'block_comment._splitlines is built on str.splitlines: theorems C12_block_* are about the repaired '
                 'code (split on LF only); C12_block_found_refuted applies to this tree', {'probe': 'a\\x0cb\\rc'})
    if impl.dm == 0:
        ctx.fail('tie', 'model-mode:Date',
                 'Date._format_value does not zero-pad the year: theorem C12_date_roundtrip is about the repaired '
                 'code; C12_date_found_refuted applies to this tree', {'probe': [999, 1, 2]})

    cases: list[tuple[int, list]] = []
    n = ctx.scale(40, 400)

    def add(k, *args):
        if k is not None:
            cases.append((k, [list(a) for a in args]))

    # ---- monitors + the function-level correspondence on the same inputs
    def report(fails):
        for f in fails:
            ctx.monitor_failure(f['sig'], f['what'], f['witness'])
    corpus = [('EscapedString', s) for s in SPECIAL_TEXTS] + \
             [('BlockComment', s) for s in SPECIAL_TEXTS if in_domain('BlockComment', s)] + \
             [('Date', datetime.date(999, 1, 2)), ('Date', datetime.date(1, 1, 1)), ('Date', datetime.date(9999, 12, 31)),
              ('Date', datetime.date(2000, 2, 29)), ('Number', decimal.Decimal('0.00')), ('Number', decimal.Decimal('0.000001')),
              ('Number', decimal.Decimal('1.50')), ('Number', decimal.Decimal('100')), ('Number', decimal.Decimal('1E+3')),
              ('Number', decimal.Decimal('1E-7')), ('Number', decimal.Decimal('1.2300E+2')), ('Number', decimal.Decimal('0E+5')),
              ('Number', decimal.Decimal('0E-9')), ('Number', decimal.Decimal('1.2300E+6')), ('Number', decimal.Decimal('12E-30'))]
    for cls in VALUE_CLASSES:
        vals = [v for c, v in corpus if c == cls] + [gen_value(rng, cls) for _ in range(n)]
        for v in vals:
            ind = gen_indent(rng) if cls == 'BlockComment' else ''
            if not in_domain(cls, v, ind):
                continue
            fails = check_value(impl, cls, v, ind)
            report(fails)
            ctx.case({'check': 'value', 'cls': cls, 'value': jv(cls, v)[:24]}, nontrivial=True)
            ctx.dist(f'value:{cls}')
            pk, fk, lk = FN[cls]
            if cls == 'BlockComment':
                add(fk, L(ind), L(v))
                raw = impl.K(cls)._format_value(ind, v)
            else:
                add(fk, jv(cls, v))
                raw = impl.K(cls)._format_value(v)
            add(pk, L(raw))
            add(lk, L(raw))
    for cls in LEXEME_CLASSES:
        for s in LEXEME_CORPUS.get(cls, []) + [gen_lexeme(rng, cls) for _ in range(n)]:
            lexeme = is_lexeme(impl, cls, s)
            ctx.dist(f'lexeme:{cls}:{"yes" if lexeme else "no"}')
            report(check_lexeme(impl, cls, s))
            ctx.case({'check': 'lexeme', 'cls': cls, 'text': L(s)[:24]}, nontrivial=lexeme)
            pk, fk, lk = FN[cls]
            # the digit-only domain of int()/Decimal() the model is exact on
            add(pk, L(s))
            add(lk, L(s))
            z = gen_noise(rng, cls)
            add(lk, L(z))
            if cls in ('Date', 'Number', 'Bool') or rng.random() < 0.5:
                add(pk, L(z))
    # ---- lexeme + following text: the recognisers keep/extend the extent exactly as the real patterns do
    continuation_cases(ctx, impl, add)
    # ---- codecs on arbitrary text (in and out of the domains)
    for _ in range(n * 3):
        s = gen_text(rng)
        ctx.dist('text:' + ('linebreak' if any(c in s for c in LINEBREAKS) else 'plain'))
        for k in (1, 2, 3, 4, 5, 7, 8, 11, 12, 6, 10, 13):
            add(k, L(s))
        add(9, L(gen_indent(rng)), L(s))
        add(9, L(gen_text(rng, maxlen=3)), L(s))
    for _ in range(n):
        v = gen_number(rng, in_domain=False)
        add(18, jv('Number', v))
        add(35, jv('Number', v))
        raw = str(v)
        if re.fullmatch(r'[0-9.,]*', raw):
            add(17, L(raw))
        add(19, L(raw))
        d = gen_date(rng)
        add(15, jv('Date', d))
    add(30, [0]); add(30, [1])

    # ---- assignment histories: monitor + correspondence
    hists = []
    for cls in [c for c in VALUE_CLASSES if c not in ('Account', 'PostingFlag', 'Indent')]:
        for _ in range(max(4, n // 3)):
            init, ops = gen_hist(rng, impl, cls)
            report(check_history(impl, cls, init, ops))
            ctx.case({'check': 'history', 'cls': cls, 'ops': [k for k, _ in ops]}, nontrivial=len(ops) >= 2)
            ctx.dist(f'history:{cls}')
            hists.append((cls, init, ops))
            add(40, *hist_args(cls, init, ops))
    # histories that include refused raw texts (the model keeps statement order: raw is written first)
    for cls in ('Date', 'Bool', 'BlockComment'):
        for _ in range(max(3, n // 6)):
            init, ops = gen_hist(rng, impl, cls)
            junk = {'Date': '2000-13-45', 'Bool': 'MAYBE', 'BlockComment': 'no semicolon'}[cls]
            ops = list(ops)
            ops.insert(rng.randint(0, len(ops)), ('raw', L(junk)))
            add(40, *hist_args(cls, init, ops))

    # ---- evaluate the model on everything
    rendered, keep = [], []
    for k, args in cases:
        try:
            exp = observe(impl, k, args)
        except Exception as e:  # the implementation function itself is gone / has another signature
            ctx.fail('corr', f'impl-call:{k}', f'calling implementation function #{k} failed: {type(e).__name__}: {e}',
                     {'fn': 'corr', 'k': k, 'args': args})
            continue
        rendered.append(coq_case(impl, k, args, exp))
        keep.append((k, args))
    bad = ctx.run_coq_cases('tokens', PREAMBLE, 'tcase', 'check_case', rendered, chunk=300)
    ctx.count('traces_validated_against_impl', len(rendered) - len(bad))
    seen_k = set()
    for i in bad:
        k, args = keep[i]
        ctx.dist(f'corr-bad:{FN_NAME.get(k, k)}')
        if k in seen_k:
            continue
        seen_k.add(k)
        small = shrink(ctx, impl, k, args)
        ctx.fail('corr', f'tokens-correspondence:{FN_NAME.get(k, k)}',
                 f'Tokens.v and the implementation disagree on {FN_NAME.get(k, k)}',
                 {'fn': 'corr', 'k': k, 'args': small, 'impl': observe(impl, k, small),
                  'text': [S(a) if all(0 <= x < 0x110000 for x in a) else None for a in small][:4]})


FN_NAME = {1: 'EscapedString.escape', 2: 'EscapedString.escape(aggressive)', 3: 'EscapedString.unescape',
           4: 'EscapedString._parse_value', 5: 'EscapedString._format_value', 6: 'lex ESCAPED_STRING',
           7: 'block_comment._splitlines', 8: 'BlockComment._parse_value', 9: 'BlockComment._format_value',
           10: 'lex BLOCK_COMMENT', 11: 'InlineComment._parse_value', 12: 'InlineComment._format_value',
           13: 'lex INLINE_COMMENT', 14: 'Date._parse_value', 15: 'Date._format_value', 16: 'lex DATE',
           17: 'Number._parse_value', 18: 'Number._format_value', 19: 'lex NUMBER', 20: 'Tag._parse_value',
           21: 'Tag._format_value', 22: 'lex TAG', 23: 'Link._parse_value', 24: 'Link._format_value', 25: 'lex LINK',
           26: 'MetaKey._parse_value', 27: 'MetaKey._format_value', 28: 'lex META_KEY', 29: 'Bool._parse_value',
           30: 'Bool._format_value', 31: 'lex BOOL', 32: 'lex NULL', 33: 'Simple._parse_value', 35: 'str(Decimal) (model of the formatting as found)',
           36: 'TransactionFlag._parse_value', 37: 'TransactionFlag._format_value', 38: 'lex TRANSACTION_FLAG',
           39: 'lex POSTING_FLAG', 41: 'lex ACCOUNT', 42: 'lex CURRENCY',
           34: 'Simple._format_value', 40: 'token assignment history'}


def disagrees(ctx, impl, k, args) -> bool:
    try:
        exp = observe(impl, k, args)
    except Exception:
        return False
    return bool(ctx.run_coq_cases('shrink', PREAMBLE, 'tcase', 'check_case', [coq_case(impl, k, args, exp)]))


def shrink(ctx, impl, k, args, budget: int = 30):
    """Greedy: drop operations of a history, then characters of each string argument."""
    cur = [list(a) for a in args]
    n = 0
    if k == 40:
        i = 3
        while i + 1 < len(cur) and n < budget:
            cand = cur[:i] + cur[i + 2:]
            n += 1
            if disagrees(ctx, impl, k, cand):
                cur = cand
            else:
                i += 2
        return cur
    for ai in range(len(cur)):
        if k in (15, 18, 30, 35):
            break
        i = 0
        while i < len(cur[ai]) and n < budget:
            cand = [list(a) for a in cur]
            del cand[ai][i]
            n += 1
            if disagrees(ctx, impl, k, cand):
                cur = cand
            else:
                i += 1
    return cur


# ------------------------------------------------------------------------------------------------------
def run(ctx: common.Ctx):
    ctx.rule = ('per token class: values of its domain (strings over an alphabet with quote, backslash, every '
                'str.splitlines boundary, CR CR LF, astral and non-ASCII characters, plus a fixed corpus; dates with '
                'years 1..9999 skewed below 1000; non-negative decimals of 1..30 digits with exponents -40..40, trailing zeros and zeros with exponent), lexemes drawn from a '
                'grammar of each terminal, mutated lexemes and lexemes followed directly by a text (blanks, ", ", digits, letters, punctuation; lexer comparison only), and assignment histories of 1..7 value/raw_text/indent '
                'assignments; a case is non-trivial when it is a domain value, a text lark lexes as one token, or a '
                'history of >= 2 assignments; distinct by (check, class, payload)')
    ctx.assumptions += [
        'CPython re on the pinned terminal patterns is an oracle: lex_K is compared with lark\'s lexer on every generated text',
        "format(Decimal, 'f') follows _pydecimal.__format__ as transcribed in Tokens.number_format, and str(Decimal) the to-scientific-string rule in Tokens.number_format_str (both compared with CPython on generated (sign, digits, exponent))",
        'Decimal(text)/int(text) are modelled on ASCII digit spellings only (what the NUMBER/DATE terminals admit)',
        'datetime.date(y, m, d) accepts exactly 1<=y<=9999 with the Gregorian month lengths; strftime("%Y") on this libc does not pad',
        'token objects: only _value/_indent/raw_text are modelled (base_token_models.py, block_comment.py); store bookkeeping is C07/C08',
    ]
    ctx.require_coq(['properties/C12'], extra_targets=['TokensRun'])
    run_all(ctx)


def search(ctx: common.Ctx):
    run_all(ctx)


def replay(ctx: common.Ctx, path: str) -> int:
    data = json.loads(open(path).read())
    f = data.get('failure') or (data.get('what_no_longer_checks') or [{}])[0]
    w = f.get('witness') or {}
    impl = Impl()
    fn = w.get('fn')
    fails = []
    if fn == 'value':
        fails = check_value(impl, w['cls'], payload_val(w['cls'], w['value']), S(w.get('indent', [])))
    elif fn == 'lexeme':
        fails = check_lexeme(impl, w['cls'], S(w['text']))
    elif fn == 'history':
        fails = check_history(impl, w['cls'], tuple(w['init']), [tuple(o) for o in w['ops']])
    elif fn == 'corr':
        k, args = w['k'], w['args']
        exp = observe(impl, k, args)
        bad = ctx.run_coq_cases('replay', PREAMBLE, 'tcase', 'check_case', [coq_case(impl, k, args, exp)])
        print(f'{FN_NAME.get(k, k)} on {[S(a) for a in args]!r}: implementation gives {exp}')
        print('model/implementation agree' if not bad else 'model/implementation DISAGREE')
        return 1 if bad else 0
    else:
        print(json.dumps(f, indent=1))
        return 1
    for x in fails:
        print('monitor:', x['sig'], x['what'])
    if not fails:
        print('no failure reproduced')
    return 1 if fails else 0
