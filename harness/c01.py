"""C01 - parse then print reproduces the input character for character.

Coq side: PostLex.v / Builder.v (models of parser.PostLex.process and parser.ModelBuilder), ParseProofs.v,
properties/C01.v. lark's lexer and LALR engine are oracles: this harness tees, in-process and without
source edits, the lexeme stream entering PostLex.process, the stream leaving it, the lark tree and the
built token list, and has Coq (ParseRun.check_code, vm_compute) reproduce the last two from the first
and the tree, and evaluate H-tile / H-order on that very input.

Monitors (the property's own statement on the implementation): for every accepted (text, target, mode)
print == text; concat(store) == text; every reachable sub-model prints text[a:b] of its span; first <= last.
"""
from __future__ import annotations

import ast
import concurrent.futures
import io
import itertools
import json
import re
import time
from typing import Any, Optional

import lark

from harness import common

PREAMBLE = 'From AB Require Import Prelude PostLex Builder ParseRun.'
SIG_D12 = 'C01:nonfile-target-trivia-outside-span'

# fixed codes of PostLex.v; every other terminal name gets 100 + rank
FIXED = {'PLACEHOLDER': 0, '_NEWLINE_INDENT_COMMENT': 1, '_NEWLINE': 2, 'EOL': 3, 'INDENT_MARK': 4,
         'DEDENT_MARK': 5, 'INDENT': 6, 'BLOCK_COMMENT': 7}

_ENV: dict[str, Any] = {}


# ---------------------------------------------------------------------------------------------
# implementation access + instrumentation (in-process wrappers, no source edits)
def env():
    """Observation points are call boundaries only: the `process` method of the lark PostLex objects the parser
    module defines (stream entering / leaving), lark's InteractiveParser.feed_eof (the tree), and the store of the
    returned model. ModelBuilder's private attributes are read only as an extra, finer check when they exist."""
    if _ENV:
        return _ENV
    from autobean_refactor import parser as P, models, printer
    from lark.parsers.lalr_interactive_parser import InteractiveParser
    cap: dict[str, Any] = {}

    def wrap_process(cls):
        orig = cls.process

        def process(self, stream):
            ins, outs = [], []
            cap['in'], cap['out'] = ins, outs

            def tee():
                for t in stream:
                    ins.append(t)
                    yield t
            for t in orig(self, tee()):
                outs.append(t)
                yield t
        process._verif_orig = orig
        cls.process = process

    for obj in list(vars(P).values()):
        if isinstance(obj, type) and issubclass(obj, lark.lark.PostLex) and obj is not lark.lark.PostLex \
                and 'process' in vars(obj):
            wrap_process(obj)
    orig_eof = InteractiveParser.feed_eof

    def feed_eof(self, *a, **kw):
        tree = orig_eof(self, *a, **kw)
        cap['tree'] = tree
        return tree
    InteractiveParser.feed_eof = feed_eof

    builder = getattr(P, 'ModelBuilder', None)
    if builder is not None and hasattr(builder, 'build'):
        orig_build = builder.build

        def build(self, *a, **kw):
            model = orig_build(self, *a, **kw)
            try:  # optional finer check: private state, when it still has the names Builder.v was written from
                cap['private'] = {'tokens': list(self._tokens), 'built': list(self._built_tokens)}
            except Exception:
                cap['private'] = None
            return model
        builder.build = build
    ignored = getattr(P, '_IGNORED_TOKENS', None)
    if ignored is None:  # fall back to the grammar's %ignore list
        gram = (common.REPO / 'autobean_refactor' / 'beancount.lark').read_text()
        ignored = re.findall(r'^%ignore\s+(\w+)', gram, re.M)
    code = dict(FIXED)
    for n in sorted(set(models.TOKEN_MODELS) | set(ignored)):
        if n not in code:
            code[n] = 100 + len(code)
    _ENV.update(P=P, models=models, printer=printer, cap=cap, parser=P.Parser(), code=code,
                ignored=sorted(ignored), targets=dict(models.TREE_MODELS))
    return _ENV


def tcode(name: str) -> int:
    code = env()['code']
    if name not in code:
        code[name] = 100 + len(code)
    return code[name]


def node_kind(data: str) -> str:
    """The tests _build_tree / _build_repeated_node make on tree.data (tie() pins that they are these)."""
    e = env()
    if data in ('repeated', 'repeated_sep'):
        return 'NRepeated'
    if data in ('indent', 'indent2'):
        return 'NIndent'
    if data.endswith('_'):
        return 'NSkip'
    if data in e['models'].TREE_MODELS:
        return 'NModel'
    return 'NUnknown'


def conv_tree(node, index) -> str:
    if node is None:
        return 'LNone'
    if isinstance(node, lark.Token):
        return f'LTok {common.coq_z(index.get(id(node), -1))}'
    return f'LNode {node_kind(str(node.data))} {common.coq_list(conv_tree(c, index) for c in node.children)}'


def coq_lexemes(pairs) -> str:
    return common.coq_list(f'({common.coq_z(c)}, {common.coq_str(s)})' for c, s in pairs)


def submodels(root) -> list:
    """Every model object reachable from the result through instance attributes (not the store)."""
    models = env()['models']
    seen: dict[int, Any] = {}
    todo = [root]
    while todo:
        x = todo.pop()
        if isinstance(x, (list, tuple)):
            todo.extend(x)
            continue
        if not isinstance(x, models.RawModel) or id(x) in seen:
            continue
        seen[id(x)] = x
        if isinstance(x, models.RawTreeModel):
            for k, v in vars(x).items():
                if k == '_token_store':
                    continue
                if isinstance(v, (list, tuple, models.RawModel)):
                    todo.append(v)
    return list(seen.values())


class Obs:
    """One accepted parse() call with everything observed."""
    pass


def observe(text: str, rule: str, acc: bool) -> Optional[Obs]:
    """Run the real parse(); None when the text is not accepted for this target."""
    e = env()
    cap = e['cap']
    cap.clear()
    target = e['targets'][rule]
    try:
        model = e['parser'].parse(text, target, auto_claim_comments=acc)
    except Exception as ex:  # not accepted (lark errors, token value errors): outside the quantifier
        o = None
        cap['reject'] = type(ex).__name__
        return o
    o = Obs()
    o.text, o.rule, o.acc, o.model = text, rule, acc, model
    o.is_file = target is e['models'].File
    o.postlex = not target.INLINE                 # which post-lexer parse() selects (public class attribute)
    o.store = list(model.token_store)
    o.observable = 'in' in cap and 'out' in cap and 'tree' in cap
    o.private_mismatch = None
    o.lex_out = []
    if o.observable:
        outs = cap['out']
        index = {id(t): i for i, t in enumerate(outs)}
        o.lex_in = [(t.type, str(t)) for t in cap['in']]
        o.lex_out = [(t.type, str(t)) for t in outs]
        o.tree = conv_tree(cap['tree'], index)
    idx = {id(t): i for i, t in enumerate(o.store)}
    try:
        o.root = (idx.get(id(model.first_token), -1), idx.get(id(model.last_token), -1))
    except Exception:
        o.root = (-1, -1)
    o.store_pairs = [(type(t).RULE, t.raw_text) for t in o.store]
    # without claiming, the store right after parse() is what the builder handed to it
    o.built, o.built_root = (o.store_pairs, o.root) if not acc else (None, None)
    priv = cap.get('private')
    o.has_private = bool(priv)
    if priv and o.observable:
        if [id(t) for t in priv['tokens']] != [id(t) for t in cap['out']]:
            o.private_mismatch = 'ModelBuilder._tokens is not the stream leaving PostLex.process'
        elif not acc and [id(t) for t in priv['built']] != [id(t) for t in o.store]:
            o.private_mismatch = 'the store does not hold ModelBuilder._built_tokens in order'
    return o


def coq_case(o: Obs, spans) -> str:
    e = env()
    lex = lambda l: coq_lexemes((tcode(n), s) for n, s in l)
    return ('(mkpcase ' + ' '.join([
        common.coq_str(o.text), common.coq_bool(o.postlex), lex(o.lex_in), lex(o.lex_out),
        common.coq_zlist(tcode(n) for n in e['ignored']),
        common.coq_zlist(tcode(n) for n in sorted(e['models'].TOKEN_MODELS)),
        '(' + o.tree + ')', lex(o.built), common.coq_bool(o.is_file),
        f'({common.coq_z(o.built_root[0])}, {common.coq_z(o.built_root[1])})',
        lex(o.store_pairs),
        common.coq_list(f'({common.coq_z(a)}, {common.coq_z(b)})' for a, b in spans),
        common.coq_bool(o.acc)]) + ')')


# ---------------------------------------------------------------------------------------------
# monitors: the property's statement, evaluated on the implementation
def print_of(model) -> str:
    return env()['printer'].print_model(model, io.StringIO()).getvalue()


def monitor(o: Obs):
    """Returns (failures [(signature, what)], spans [(first, last)] of every sub-model)."""
    e = env()
    fails = []
    store = o.store
    texts = [t.raw_text for t in store]
    idx = {id(t): i for i, t in enumerate(store)}
    off = [0]
    for s in texts:
        off.append(off[-1] + len(s))
    concat_ok = ''.join(texts) == o.text
    if not concat_ok:
        fails.append(('C01:store-concat', 'the concatenation of all tokens in the store is not the input text'))
    printed = print_of(o.model)
    fi, li = idx.get(id(o.model.first_token), -1), idx.get(id(o.model.last_token), -1)
    if printed != o.text:
        trivia = set(e['ignored'])
        inline = bool(getattr(e['targets'][o.rule], 'INLINE', False))
        outside = store[:max(fi, 0)] + store[li + 1:] if 0 <= fi <= li else store
        span_only = (not o.is_file and concat_ok and 0 <= fi <= li and printed == o.text[off[fi]:off[li + 1]]
                     and all((not t.raw_text) or type(t).RULE in trivia for t in outside))
        # the known finding, narrowly: (a) comment attribution off and comment/blank text outside the model,
        # (b) an INLINE target (no comment attribution at all) with blanks/comments around it
        if span_only and (inline or not o.acc):
            fails.append((SIG_D12, 'a non-File parse target prints only its own span although parse() accepted '
                                   '(and the store holds) blank/comment text outside it'))
        elif span_only:
            fails.append(('C01:claimed-target-drops-outside-text',
                          f'print(parse(text, {o.rule}, auto_claim_comments=True)) leaves out comment/blank lines around '
                          'the model that comment attribution should have made part of it'))
        else:
            fails.append(('C01:print-differs', f'print(parse(text, {o.rule}, auto_claim_comments={o.acc})) != text'))
    spans = []
    for m in submodels(o.model):
        try:
            a, b = idx.get(id(m.first_token), -1), idx.get(id(m.last_token), -1)
        except Exception as ex:
            fails.append(('C01:submodel-span-raises', f'first_token/last_token of a {type(m).__name__} raised '
                                                      f'{type(ex).__name__}'))
            continue
        spans.append((a, b))
        if a < 0 or b < 0:
            fails.append(('C01:submodel-not-in-store', f'first/last token of a {type(m).__name__} is not in the store'))
            continue
        if a > b:
            fails.append(('C01:first-after-last', f'first_token of a {type(m).__name__} comes after its last_token'))
            continue
        if print_of(m) != o.text[off[a]:off[b + 1]] and concat_ok:
            fails.append(('C01:submodel-slice', f'a {type(m).__name__} does not print the slice of the input it spans'))
    return fails, spans


# ---------------------------------------------------------------------------------------------
# generators
# non-ASCII pools deliberately contain text that is not stable under NFC/NFD/NFKC/NFKD: decomposed accents,
# conjoining Hangul jamo, singletons (U+212B, U+2126), compatibility characters, combining marks at token starts,
# U+FEFF inside strings
ACCOUNTS = ['Assets:Foo', 'Expenses:Food:Café', 'Liabilities:CC-1', 'Income:A:B:C9', '资产:现金',
            'Equity:Opening-Balances', 'Expenses:Cafe\u0301', 'Assets:\u212bngstrom:\u1112\u1161\u11ab',
            'Income:\ufb01n\uff21']
CURS = ['USD', 'EUR', 'GOOG', 'A1', "B.C'D-E"]
STRINGS = ['"foo"', '""', '"a \\" b"', '"multi\nline"', '"ü € \U0001d11e"', '"x;y"', '"tab\there"',
           '"back\\\\"', '"cr\r\nlf"', '"e\u0301 \u1100\u1161 \u212b \u2126"', '"\u0301starts with a mark"',
           '"a\ufeffb \u2460 \ufb01 \uff21"', '"\u00e9 vs e\u0301"']
TAGS = ['#tag', '^link', '#a-b_c/d.e', '^2000-01']
KEYS = ['aa:', 'key-1:', 'some_key:', 'zZ9:']
DATES = ['2000-01-01', '2012/2/3', '9999-12-31', '1999-1/09']
NUMS = ['1', '1.5', '1,000.00', '10.', '0.0001', '123456789']
INLINE_COMMENTS = ['; c', ';', ';; x ü', '; a ; b', ';\t tab ', '; end\u00a0', ';\u0301 mark first e\u0301',
                   '; \u212b \u1100\u1161\u11a8 \ufeff']
IGNORED_LINES = ['* Heading', '** sub', '# hash', ': colon', '! bang', 'Something else', '*', 'P odd',
                 '* He\u0301ading \u212b', '*\u0301', '# \u1100\u1161 \ufb01']
BLOCK_COMMENT_BODIES = ['; c', ';', ';;; 注释', '; x "y" {z}', ';2000-01-01 open A:B', '; trailing blanks  ', ';\t',
                        '; \u00a0nbsp\u3000', '; de\u0301compose\u0301 \u212b\u2126', ';\u0308\u1100\u1161', '; \ufeffbom \u2460']


class Gen:
    def __init__(self, rng):
        self.r = rng
        self.nlstyle = rng.choice(['lf', 'lf', 'crlf', 'mixed'])

    def c(self, xs):
        return self.r.choice(xs)

    def p(self, prob):
        return self.r.random() < prob

    def ws(self):
        return self.c([' ', ' ', ' ', '  ', '\t', ' \t ', '      '])

    def ows(self):
        return self.c(['', '', ' ', '  '])

    def nl(self):
        if self.nlstyle == 'lf':
            return '\n'
        if self.nlstyle == 'crlf':
            return '\r\n'
        return self.c(['\n', '\r\n', '\r\r\n', '\n'])

    def numexpr(self, d=0):
        k = self.r.random()
        if d >= 3 or k < 0.4:
            return self.c(NUMS)
        if k < 0.6:
            return self.numexpr(d + 1) + self.ows() + self.c('+-*/') + self.ows() + self.numexpr(d + 1)
        if k < 0.8:
            return '(' + self.ows() + self.numexpr(d + 1) + self.ows() + ')'
        return self.c('+-') + self.ows() + self.numexpr(d + 1)

    def amount(self):
        return self.numexpr() + self.ows() + self.c(CURS)

    def meta_value(self):
        return self.c([self.c(STRINGS), self.c(ACCOUNTS), self.c(DATES), self.c(CURS), self.c(TAGS), 'TRUE', 'FALSE',
                       'NULL', self.numexpr(), self.amount(), None])

    def tags(self):
        return ''.join(self.ws() + self.c(TAGS) for _ in range(self.c([0, 0, 1, 2, 3])))

    def cost_component(self):
        return self.c([self.c(DATES), '*', self.c(STRINGS[:3]), self.c(CURS), self.numexpr(), self.amount(),
                       self.numexpr() + self.ows() + '#' + self.ows() + self.numexpr() + ' ' + self.c(CURS),
                       '#' + self.ows() + self.numexpr() + ' ' + self.c(CURS), self.numexpr() + ' # ' + self.c(CURS)])

    def cost_spec(self):
        l, r = self.c([('{', '}'), ('{{', '}}')])
        n = self.c([0, 1, 1, 2, 3])
        inner = (self.ows() + ',' + self.ows()).join(self.cost_component() for _ in range(n))
        return l + self.ows() + inner + self.ows() + r

    def price_annotation(self):
        return self.c(['@', '@@']) + self.c(['', self.ows() + self.amount(), self.ows() + self.numexpr(),
                                             self.ows() + self.c(CURS)])

    def head(self, kind):
        """Text of a directive up to (not including) the optional inline comment / EOL."""
        w, s, d = self.ws, lambda: self.c(STRINGS), lambda: self.c(DATES)
        a, cu = lambda: self.c(ACCOUNTS), lambda: self.c(CURS)
        if kind == 'option':
            return 'option' + w() + s() + w() + s()
        if kind == 'include':
            return 'include' + w() + s()
        if kind == 'plugin':
            return 'plugin' + w() + s() + (w() + s() if self.p(.5) else '')
        if kind in ('pushtag', 'poptag'):
            return kind + w() + self.c(['#tag', '#a-b'])
        if kind == 'pushmeta':
            v = self.meta_value()
            return 'pushmeta' + w() + self.c(KEYS) + ('' if v is None else w() + v)
        if kind == 'popmeta':
            return 'popmeta' + w() + self.c(KEYS)
        if kind == 'balance':
            return d() + w() + 'balance' + w() + a() + w() + self.numexpr() + \
                (self.ows() + '~' + self.ows() + self.numexpr() if self.p(.4) else '') + w() + cu()
        if kind == 'close':
            return d() + w() + 'close' + w() + a()
        if kind == 'commodity':
            return d() + w() + 'commodity' + w() + cu()
        if kind == 'pad':
            return d() + w() + 'pad' + w() + a() + w() + a()
        if kind in ('event', 'query'):
            return d() + w() + kind + w() + s() + w() + s()
        if kind == 'price':
            return d() + w() + 'price' + w() + cu() + w() + self.amount()
        if kind in ('note', 'document'):
            return d() + w() + kind + w() + a() + w() + s() + self.tags()
        if kind == 'open':
            n = self.c([0, 0, 1, 2, 3])
            curs = (self.ows() + ',' + self.ows()).join(cu() for _ in range(n))
            return d() + w() + 'open' + w() + a() + (w() + curs if n else '') + (w() + s() if self.p(.3) else '')
        if kind == 'custom':
            vals = [self.c([s(), d(), 'TRUE', 'FALSE', self.amount(), self.numexpr(), a()])
                    for _ in range(self.c([0, 1, 2, 4]))]
            return d() + w() + 'custom' + w() + s() + ''.join(w() + v for v in vals)
        if kind == 'transaction':
            strs = self.c([0, 1, 2])
            return d() + w() + self.c(['*', '!', 'txn', 'P', '#', '?']) + ''.join(w() + s() for _ in range(strs)) \
                + self.tags()
        raise KeyError(kind)

    def eol_part(self):
        """optional whitespace + optional inline comment before the line end"""
        return (self.ows() + self.c(INLINE_COMMENTS) if self.p(.35) else self.c(['', '', '', ' ', '\t']))

    def block_comment(self, indent):
        n = self.c([1, 1, 2, 3])
        lines = []
        for _ in range(n):
            lines.append(indent + self.c(BLOCK_COMMENT_BODIES))
        return lines

    def meta_lines(self, indent, allow_comments=True):
        out = []
        for _ in range(self.c([0, 0, 1, 2, 3])):
            if allow_comments and self.p(.2):
                out += self.block_comment(self.c([indent, indent + '  ', ' ']))
            v = self.meta_value()
            out.append(indent + self.c(KEYS) + ('' if v is None else self.ws() + v) + self.eol_part())
        if allow_comments and self.p(.15):
            out += self.block_comment(indent)
        return out

    def posting(self, indent):
        t = indent
        if self.p(.25):
            t += self.c(['*', '!', 'P', '?']) + self.ws()
        t += self.c(ACCOUNTS)
        k = self.r.random()
        if k < .6:
            t += self.ws() + self.amount()
        elif k < .7:
            t += self.ws() + self.numexpr()
        elif k < .75:
            t += self.ws() + self.c(CURS)
        if self.p(.3):
            t += self.ws() + self.cost_spec()
        if self.p(.3):
            t += self.ws() + self.price_annotation()
        return t + self.eol_part()

    def entry_lines(self, kind, indent=None):
        """A directive as a list of lines (no line terminators)."""
        indent = indent or self.c(['  ', '    ', '\t', ' '])
        lines = [self.head(kind) + self.eol_part()]
        has_meta = kind in ('balance', 'close', 'commodity', 'pad', 'event', 'query', 'price', 'note', 'document',
                            'open', 'custom', 'transaction')
        if has_meta and self.p(.5):
            lines += self.meta_lines(indent)
        if kind == 'transaction':
            for _ in range(self.c([0, 1, 2, 3])):
                if self.p(.15):
                    lines += self.block_comment(self.c([indent, indent + ' ']))
                lines.append(self.posting(indent))
                if self.p(.3):
                    lines += self.meta_lines(indent + self.c(['  ', '    ', '\t']))
            if self.p(.2):
                lines += self.block_comment(indent)
        return lines

    KINDS = ['option', 'include', 'plugin', 'pushtag', 'poptag', 'pushmeta', 'popmeta', 'balance', 'close',
             'commodity', 'pad', 'event', 'query', 'price', 'note', 'document', 'open', 'custom', 'transaction',
             'transaction', 'transaction']

    def ledger(self, n_items):
        lines = []
        for _ in range(n_items):
            k = self.r.random()
            if k < .55:
                lines += self.entry_lines(self.c(self.KINDS))
            elif k < .65:
                lines.append('')                                  # blank line
            elif k < .72:
                lines.append(self.c([' ', '  ', '\t', '    \t']))  # whitespace-only line
            elif k < .85:
                lines += self.block_comment(self.c(['', '', '  ', '\t', ' ']))
            elif k < .92:
                lines.append(self.c(IGNORED_LINES))
            else:
                lines += ['', '']
        text = ''.join(ln + self.nl() for ln in lines)
        if lines and self.p(.3):                                  # missing final newline
            text = text.rstrip('\r\n') if self.p(.5) else text[:-1] if text.endswith('\n') and not text.endswith('\r\n') \
                else text.rstrip('\r\n')
        return text

    # snippets for single-model targets
    def snippet(self, rule):
        if rule == 'file':
            return self.ledger(self.c([0, 1, 2, 4]))
        if rule in self.KINDS:
            return self.nl().join(self.entry_lines(rule))
        simple = {
            'amount': self.amount, 'number_expr': self.numexpr, 'number_add_expr': self.numexpr,
            'number_mul_expr': lambda: self.c(NUMS) + self.ows() + self.c('*/') + self.ows() + self.c(NUMS)
            if self.p(.7) else self.c(NUMS),
            'number_paren_expr': lambda: '(' + self.ows() + self.numexpr() + self.ows() + ')',
            'number_unary_expr': lambda: self.c('+-') + self.ows() + self.numexpr(3),
            'compound_amount': lambda: self.c([self.numexpr() + ' # ' + self.numexpr() + ' ' + self.c(CURS),
                                               '# ' + self.numexpr() + ' ' + self.c(CURS),
                                               self.numexpr() + ' #' + self.ows() + self.c(CURS)]),
            'cost_spec': self.cost_spec,
            'unit_cost': lambda: '{' + self.cost_spec().strip('{}') + '}',
            'total_cost': lambda: '{{' + self.cost_spec().strip('{}') + '}}',
            'unit_price': lambda: '@' + self.price_annotation().lstrip('@'),
            'total_price': lambda: '@@' + self.price_annotation().lstrip('@'),
            'tolerance': lambda: '~' + self.ows() + self.numexpr(),
            'ignored_line': lambda: self.c(IGNORED_LINES),
        }
        if rule in simple:
            return simple[rule]()
        if rule == 'meta_item':
            ind = self.c(['', '  ', '    ', '\t'])
            v = self.meta_value()
            return ind + self.c(KEYS) + ('' if v is None else self.ws() + v) + self.eol_part()
        if rule == 'posting':
            ind = self.c(['  ', '    ', '\t', ' '])
            lines = [self.posting(ind)]
            if self.p(.4):
                lines += self.meta_lines(ind + '  ')
            return self.nl().join(lines)
        raise KeyError(rule)

    def multiline(self, text):
        """Break an inline snippet over several lines (indented continuation) at blanks or around punctuation."""
        brk = lambda: self.nl() + self.c(['    ', '  ', '\t', ' '])
        if ' ' in text:
            parts = text.split(' ')
            k = self.r.randrange(1, len(parts))
            return ' '.join(parts[:k]) + brk() + ' '.join(parts[k:])
        for ch in '+-*/,#{}()@~':
            if ch in text:
                i = text.index(ch)
                return (text[:i + 1] + brk() + text[i + 1:]) if i + 1 < len(text) else (text[:i] + brk() + text[i:])
        return text

    def with_outside_trivia(self, rule, text, inline):
        """Accepted text outside the model's own span (the D12 class)."""
        if inline:
            return self.c([' ', '  ', '\t', '']) + text + self.c([' ', '  ', '\t'])
        ind = ''
        if rule in ('posting', 'meta_item') and text[:1] in ' \t':
            ind = text[:len(text) - len(text.lstrip(' \t'))]         # comments at the model's own indentation
        lead = self.c(['', ind + '; lead' + self.nl(), ind + ';a' + self.nl() + ind + ';b' + self.nl(), self.nl()])
        trail = self.c(['', self.nl() + ind + '; trail', self.nl() + ind + '; t1' + self.nl() + ind + '; t2', '  '])
        return lead + text + trail


CORPUS = [
    ('file', ''), ('file', '\n'), ('file', '   '), ('file', '; only comment'), ('file', '\r\n\r\n'),
    ('file', '; c\n2000-01-01 open Assets:Foo  USD,EUR ; x\r\n  aa: 1\n\n  ; t\n'),
    ('file', '2000-01-01 *\n    Assets:Foo  100.00 USD\n  ; between\n    Assets:Bar\n; after\n'),
    ('file', '2000-01-01 * "p" "n" #t ^l ; c\n  aa: 1 ; m\n  Assets:Foo 1 USD {1 # 2 EUR, 2000-01-01} @@ 3 EUR\n'
             '    bb: TRUE\n  ; tail\n\n\n* org\n  ; indented\n\t\n2000-01-02 close Assets:Foo'),
    ('file', '    ; indented first\n2000-01-01 open Assets:Foo\n    ; indented after\n'),
    ('file', 'option "a" "b"\r\n\r\n; x\r\n; y\r\ninclude "f.bean"\r\n  \r\nplugin "p"'),
    ('file', '2000-01-01 *\n  ; only a comment\n'),
    ('file', '2000-01-01 open Assets:Foo\n  ; c1\n\n  ; c2\n2000-01-01 close Assets:Foo\n  aa: 1\n  ; c3'),
    ('number_expr', ' 1 + 2 '), ('open', '; lead\n2000-01-01 open Assets:Foo\n; trail'),
    ('transaction', '2000-01-01 * "foo" "bar" #baz ^qux ; quux\n    aaa1: 123 + 456 ; aaa2\n    Assets:Foo   100.00 USD\n'
                    '        ccc1: "ccc2" ; ccc3\n    Assets:Bar  -100.00 USD\n    eee1: "eee2" ; eee3'),
    ('file', '2000-01-01 * ; c\r\n  Assets:Foo ; x\r\n  Assets:Bar  1 USD;y\r\n'),
    ('file', '2000-01-01 *\n  Assets:Foo\n   \n'), ('file', '2000-01-01 *\n  Assets:Foo\n; unindented\n'),
    ('file', '2000-01-01 *\n  aa: 1\n    ; deeper\n  Assets:Foo\n      ; deeper still\n    bb: 2\n ; shallower\n'),
    ('file', '\n\n  \n; a\n\n; b\n  ; c\n; d'), ('file', '* h\r\r\n\r\r\n; c\r\r\n'),
    ('file', '2000-01-01 open Assets:Foo USD , EUR,GBP   "STRICT"   ; c  \n'),
    ('number_expr', '1 +\n    2'), ('number_expr', '(\n  1\n)'), ('amount', '1\nUSD'), ('amount', '1 \r\n\tUSD'),
    ('cost_spec', '{1 USD,\n    2000-01-01}'), ('cost_spec', '{{\n  1 USD\n}}'), ('unit_cost', '{1 USD,\n    "x"}'),
    ('total_cost', '{{1 # 2 USD,\n  *}}'), ('unit_price', '@\n  1 USD'), ('total_price', '@@ 1\n  USD'),
    ('tolerance', '~\n 1'), ('compound_amount', '1 #\n  2 USD'), ('number_paren_expr', '(1 +\n  2)'),
    ('number_unary_expr', '-\n  1'), ('number_expr', '1 + ; c\n  2'), ('number_expr', '1 +\n; block\n  2'),
    ('posting', '    Assets:Foo  1 USD'), ('posting', 'Assets:Foo'), ('meta_item', '  aa: 1'),
]


ODD_CHARS = ['\ufeff', '\x00', '\u200b', '\x0c', '\x1a', '\r', '\xa0', '\u2028', '\x85', '\x0b', '\u200e', '\x7f',
             '\ufffe', '\u00ad', '\u3000', '\x1c']


def odd_variants(rng, text: str, n: int):
    """A valid text with one odd character prepended / appended / inserted: mostly rejected by the unchanged parser;
    whenever parse() accepts one, the C01 statement must hold for it like for any other text."""
    for _ in range(n):
        ch = rng.choice(ODD_CHARS)
        k = rng.random()
        if k < .4:
            yield ch + text
        elif k < .6:
            yield text + ch
        else:
            i = rng.randrange(0, len(text) + 1)
            yield text[:i] + ch + text[i:]


def gen_inputs(ctx):
    """Yields (rule, text, origin)."""
    for rule, text, origin in gen_inputs0(ctx):
        yield rule, text, origin
        if origin in ('corpus', 'ledger', 'snippet') and text:
            n = 1 if origin == 'ledger' and ctx.rng.random() < .5 else 2 if origin != 'ledger' else 0
            for t in odd_variants(ctx.rng, text, n):
                yield rule, t, 'odd-char'
        if origin == 'snippet+outside' and '\r' not in text and '\n' in text:
            # the same text with the other line-end conventions (comment attribution must not depend on them)
            yield rule, text.replace('\n', '\r\n'), 'snippet+outside:crlf'
            yield rule, text.replace('\n', '\r\r\n'), 'snippet+outside:crcrlf'


def gen_inputs0(ctx):
    e = env()
    for rule, text in CORPUS:
        yield rule, text, 'corpus'
    rules = sorted(e['targets'])
    n_led = ctx.scale(160, 2500)
    for k in range(n_led):
        g = Gen(ctx.rng)
        yield 'file', g.ledger(ctx.rng.choice([1, 2, 3, 5, 8] if ctx.quick else [1, 3, 6, 12, 25])), 'ledger'
    per_rule = ctx.scale(5, 60)
    for rule in rules:
        if rule == 'file':
            continue
        inline = e['targets'][rule].INLINE
        for k in range(per_rule):
            g = Gen(ctx.rng)
            t = g.snippet(rule)
            yield rule, t, 'snippet'
            if k % 3 == 0 or not inline:
                yield rule, g.with_outside_trivia(rule, t, inline), 'snippet+outside'
            if inline and '"' not in t:
                yield rule, g.multiline(t), 'snippet+multiline'


# ---------------------------------------------------------------------------------------------
# large documents (beyond any internal batch size of the builder / block size of the store)
def n_store_tokens(text: str) -> Optional[int]:
    e = env()
    try:
        m = e['parser'].parse(text, e['models'].File, auto_claim_comments=False)
    except Exception:
        return None
    return len(m.token_store)


def large_ledger(rng, target: int, style: str, exact: bool) -> Optional[str]:
    """Many small directives (mostly transactions with meta/comments); each item is kept only if it parses on its
    own. With exact=True the store token count is made exactly `target` by dropping items / padding blank lines."""
    items, est = [], 1
    guard = 0
    while est < target and guard < 20 * target:
        guard += 1
        g = Gen(rng)
        g.nlstyle = style
        k = rng.random()
        if k < .7:
            lines = g.entry_lines('transaction')
        elif k < .85:
            lines = g.entry_lines(g.c(g.KINDS))
        elif k < .93:
            lines = g.block_comment('')
        else:
            lines = ['']
        t = ''.join(ln + g.nl() for ln in lines)
        n = n_store_tokens(t)
        if n is None:
            continue
        items.append(t)
        est += n - 1
    nl = '\r\n' if style == 'crlf' else '\n'
    text = ''.join(items)
    if not exact:
        return text if n_store_tokens(text) is not None else None
    for _ in range(8):
        n = n_store_tokens(text)
        if n is None:
            return None
        if n == target:
            return text
        if n > target:
            while items and n > target:
                n -= (n_store_tokens(items.pop()) or 1) - 1
            text = ''.join(items)
        else:
            text += nl * (target - n)
    return None


def huge_transaction(rng, n_postings: int, style: str) -> Optional[str]:
    g = Gen(rng)
    g.nlstyle = style
    head = '2000-01-01 * "huge" ; one directive' + g.nl()
    body = []
    guard = 0
    while len(body) < n_postings and guard < 20 * n_postings:
        guard += 1
        lines = [g.posting('  ')]
        if g.p(.2):
            lines += g.meta_lines('    ')
        if g.p(.1):
            lines += g.block_comment('  ')
        t = ''.join(ln + g.nl() for ln in lines)
        if n_store_tokens(head + t) is not None:
            body.append(t)
    text = head + ''.join(body)
    return text if n_store_tokens(text) is not None else None


def large_inputs(ctx):
    """Yields (rule, text, origin); origin 'large' = monitors only, 'large+coq' = also the builder correspondence."""
    from harness import store_driver as sd
    sd.LF_PINNED = True
    sd.set_load_factor(1000)
    try:
        out = []
        if ctx.quick:
            out.append(('many', 6500, 'lf', False, 'large'))
            out.append(('many', 6500, 'crlf', False, 'large'))
            out.append(('huge', 1500, 'lf', False, 'large'))
            out.append(('many', 4200, 'mixed', False, 'large+coq'))
        else:
            for p2 in (1000, 2048, 4096, 8192, 16384):
                for d in (-1, 0, 1):
                    out.append(('many', p2 + d, ctx.rng.choice(['lf', 'crlf']), True, 'large'))
            out.append(('huge', 1500, 'crlf', False, 'large'))
            out.append(('huge', 4000, 'lf', False, 'large'))
            out.append(('many', 4200, 'mixed', False, 'large+coq'))
            out.append(('many', 8300, 'lf', False, 'large+coq'))
        for kind, n, style, exact, origin in out:
            text = large_ledger(ctx.rng, n, style, exact) if kind == 'many' else huge_transaction(ctx.rng, n, style)
            if text is None:
                ctx.count('large_not_generated')
                ctx.notes.append(f'large document ({kind}, {n}, {style}) could not be generated')
                continue
            got = n_store_tokens(text)
            ctx.dist(f'large_store_tokens={got}')
            yield 'file', text, origin
    finally:
        sd.LF_PINNED = False


# ---------------------------------------------------------------------------------------------
def tie(ctx):
    """Behavioural ties only fail the check: split3 against the regex object the code uses, the ignored set, the
    disjointness node_kind relies on. The source-text pins are recorded as notes (a harmless rewrite moves them;
    whether Builder.v / PostLex.v still describe the code is decided by the per-case correspondence)."""
    e = env()
    src_path = common.REPO / 'autobean_refactor' / 'parser.py'
    try:
        src = src_path.read_text()
    except Exception as ex:
        ctx.fail('tie', 'parser-unreadable', f'cannot read parser.py: {ex}')
        return
    moved = [needle for needle in ["child.data in ('repeated', 'repeated_sep')", "child.data in ('indent', 'indent2')",
                                   "child.data.endswith('_')", "token.type == 'INDENT'",
                                   "r'([\\r\\n]*)([ \\t]*)(;.*)?', re.S"] if needle not in src]
    if moved:
        ctx.count('source_pins_moved', len(moved))
        ctx.notes.append(f'parser.py no longer contains the literal text {moved} (informational)')
    # the node kinds must be disjoint for node_kind's single classification to equal the source's test order
    for k in e['models'].TREE_MODELS:
        if k.endswith('_') or k in ('repeated', 'repeated_sep', 'indent', 'indent2'):
            ctx.fail('tie', 'builder-dispatch', f'TREE_MODELS key {k!r} collides with a structural node kind')
    # %ignore list of the grammar = parser._IGNORED_TOKENS
    gram = (common.REPO / 'autobean_refactor' / 'beancount.lark').read_text()
    ign = sorted(re.findall(r'^%ignore\s+(\w+)', gram, re.M))
    if ign != e['ignored']:
        ctx.fail('tie', 'ignored-set', '_IGNORED_TOKENS differs from the %ignore list of beancount.lark',
                 {'grammar': ign, 'runtime': e['ignored']})
    # split3 against CPython re on generated strings (the regex engine is an oracle)
    rx = getattr(getattr(e['P'], 'PostLex', None), '_NEWLINE_INDENT_COMMENT_SPLIT_RE', None)
    if not isinstance(rx, re.Pattern):
        ctx.count('split_regex_unobservable')
        ctx.notes.append('PostLex._NEWLINE_INDENT_COMMENT_SPLIT_RE not found: split3 is validated through the stream '
                         'correspondence only')
        return
    alphabet = ['\r', '\n', ' ', '\t', ';', 'a', 'é']
    strs = set()
    for n in range(0, 5):
        for _ in range(60):
            strs.add(''.join(ctx.rng.choice(alphabet) for _ in range(n)))
    strs = sorted(strs)
    items = []
    for s in strs:
        m = rx.fullmatch(s)
        if m is None:
            exp = 'None'
        else:
            a, b, c = m.groups()
            exp = f'(Some ({common.coq_str(a)}, {common.coq_str(b)}, {common.coq_opt(None if c is None else common.coq_str(c))}))'
        items.append(f'({common.coq_str(s)}, {exp})')
    pre = (PREAMBLE + '\n'
           'Definition o3_eqb (a b : option (str * str * option str)) : bool :=\n'
           '  match a, b with\n  | None, None => true\n'
           '  | Some (a1, a2, a3), Some (b1, b2, b3) => str_eqb a1 b1 && str_eqb a2 b2 && opt_eqb str_eqb a3 b3\n'
           '  | _, _ => false end.\n'
           'Definition chk (x : str * option (str * str * option str)) : bool := o3_eqb (split3 (fst x)) (snd x).')
    bad = ctx.run_coq_cases('split3', pre, 'str * option (str * str * option str)', 'chk', items, chunk=400)
    ctx.count('split3_vs_re_fullmatch', len(items) - len(bad))
    for i in bad[:2]:
        ctx.fail('corr', 'split3-vs-re', 'split3 (PostLex.v) disagrees with re.fullmatch on a string', {'s': strs[i]})


# ---------------------------------------------------------------------------------------------
def shrink_text(pred, text: str, budget: int = 40, seconds: float = 120) -> str:
    """Delta debugging on lines: drop contiguous chunks (halves, quarters, ... single lines) while pred stays true."""
    lines = text.splitlines(keepends=True)
    n = 0
    t_end = time.time() + seconds
    size = max(1, len(lines) // 2)
    while n < budget and lines and time.time() < t_end:
        i, progressed = 0, False
        while i < len(lines) and n < budget and time.time() < t_end:
            cand = lines[:i] + lines[i + size:]
            n += 1
            try:
                ok = pred(''.join(cand))
            except Exception:
                ok = False
            if ok:
                lines, progressed = cand, True
            else:
                i += size
        if size == 1 and not progressed:
            break
        size = max(1, size // 2)
    return ''.join(lines)


def observe_full(text: str, rule: str, acc: bool) -> Optional[Obs]:
    """observe() with the pre-claim built list / root span filled in for auto_claim_comments=True as well."""
    o = observe(text, rule, acc)
    if o is not None and acc:
        o0 = observe(text, rule, False)
        if o0 is None:
            return None
        o.built, o.built_root = o0.built, o0.built_root
    return o


def coq_code_of(ctx, o: Obs, spans) -> int:
    if o is None or not o.observable or o.built is None:
        return -1
    out = ctx.coq_eval(PREAMBLE, f'check_code {coq_case(o, spans)}')
    m = re.search(r'=\s*(-?\d+)', out)
    return int(m.group(1)) if m else -1


CODE_WHAT = {1: 'H-tile fails: the lexeme values entering PostLex do not concatenate to the input',
             2: 'PostLex.v does not reproduce the post-lexed stream of parser.PostLex.process',
             3: 'Builder.v raises where ModelBuilder.build returned',
             4: 'Builder.v does not reproduce ModelBuilder._built_tokens',
             5: 'H-order fails: tree leaves are not strictly increasing stream positions',
             6: 'first_token/last_token of the returned model differ from the span Builder.v computes',
             7: 'comment claiming changed more than the position of zero-width tokens',
             8: 'a sub-model span is not a segment of the store (first <= last, both in the store)',
             9: 'first_token/last_token of a nested sub-model differ from the span Builder.v computes',
             -1: 'the case could not be evaluated'}


def run_cases(ctx, inputs, record=True):
    cases, metas = [], []
    seen_sig: dict[str, int] = {}
    pre = None
    for rule, text, origin in inputs:
        large = origin.startswith('large')
        for acc in (False, True):
            o = observe(text, rule, acc)
            if o is None:
                ctx.count('rejected_by_parse')
                ctx.dist(f'rejected:{origin}')
                continue
            fails, spans = monitor(o)
            for sig, what in fails:
                w = {'text': text, 'target': rule, 'auto_claim_comments': acc}
                seen_sig[sig] = seen_sig.get(sig, 0) + 1
                if sig != SIG_D12 and seen_sig[sig] <= (1 if large else 3):
                    budget = 20 if large else 40
                    small = shrink_text(lambda t: any(s == sig for s, _ in (monitor(observe(t, rule, acc))[0])), text,
                                        budget=budget, seconds=20 if large else 60)
                    w = {'text': small, 'target': rule, 'auto_claim_comments': acc}
                ctx.monitor_failure(sig, what, w)
            if record:
                nt = len(o.lex_out) > 3
                ctx.case({'target': rule, 'acc': acc, 'text': text[:120], 'lexemes': len(o.lex_out),
                          'submodels': len(spans)}, nontrivial=nt)
                ctx.dist(f'target={rule}')
                ctx.dist(f'origin={origin}')
                ctx.dist('lexemes<=10' if len(o.lex_out) <= 10 else 'lexemes<=50' if len(o.lex_out) <= 50
                         else 'lexemes<=200' if len(o.lex_out) <= 200 else 'lexemes>200')
                feats = {'crlf': '\r\n' in text, 'crcrlf': '\r\r\n' in text, 'no_final_newline': bool(text) and
                         not text.endswith('\n'), 'block_comment': any(n == 'BLOCK_COMMENT' for n, _ in o.lex_out),
                         'inline_comment': any(n == 'INLINE_COMMENT' for n, _ in o.lex_out),
                         'indent': any(n == 'INDENT' for n, _ in o.lex_out), 'non_ascii': not text.isascii(),
                         'ws_only_line': bool(re.search(r'(^|\n)[ \t]+\r*(\n|$)', text))}
                for k, v in feats.items():
                    if v:
                        ctx.dist('feature=' + k)
                ctx.count('submodels_checked', len(spans))
            if large and (origin != 'large+coq' or acc):
                ctx.count('large_monitor_only')
                continue
            if not o.has_private:
                if not ctx.counters.get('private_state_unobservable'):
                    ctx.notes.append('ModelBuilder private state (_tokens/_built_tokens) not present under these names: '
                                     'the finer identity check is skipped; the correspondence uses call boundaries only')
                ctx.count('private_state_unobservable')
            if not o.observable:
                if not ctx.counters.get('call_boundaries_unobservable'):
                    ctx.notes.append('PostLex.process / InteractiveParser.feed_eof were not called by parse(): the '
                                     'builder correspondence is skipped for such cases (monitors still run)')
                ctx.count('call_boundaries_unobservable')
                continue
            if o.private_mismatch:
                ctx.fail('corr', 'stream-not-kept', o.private_mismatch,
                         {'text': text, 'target': rule, 'auto_claim_comments': acc})
            if acc:
                if pre is None or pre[0] != (rule, text):
                    continue
                o.built, o.built_root = pre[1], pre[2]
            else:
                pre = ((rule, text), o.built, o.built_root)
            cases.append(coq_case(o, spans))
            metas.append((rule, text, acc))
    # chunk by size: keep each generated file below ~250 KB
    for old in ctx.scratch.glob('cases_parse*.v'):
        old.unlink()
    bad: list[int] = []
    start, size, k = 0, 0, 0
    groups = []
    for i, c in enumerate(cases):
        if size + len(c) > 220_000 and i > start:
            groups.append((start, i))
            start, size = i, 0
        size += len(c)
    if cases:
        groups.append((start, len(cases)))
    def one(item):
        gi, (a, b) = item
        sub = ctx.run_coq_cases(f'parse{gi}', PREAMBLE, 'pcase', 'check_case', cases[a:b], chunk=max(1, b - a),
                                timeout=900)
        return [a + i for i in sub]
    with concurrent.futures.ThreadPoolExecutor(max_workers=10) as ex:
        for sub in ex.map(one, list(enumerate(groups))):
            bad += sub
    ctx.count('traces_validated_against_impl', len(cases) - len(bad))
    reported = 0
    for i in bad:
        if reported >= 3:
            break
        rule, text, acc = metas[i]
        o = observe_full(text, rule, acc)
        code = coq_code_of(ctx, o, monitor(o)[1])

        def still(t):
            oo = observe_full(t, rule, acc)
            return oo is not None and coq_code_of(ctx, oo, monitor(oo)[1]) == code
        small = shrink_text(still, text, budget=25, seconds=60) if code > 0 and len(text) < 20000 else text
        ctx.fail('corr', f'parse-correspondence:{code}', CODE_WHAT.get(code, 'model and implementation disagree'),
                 {'text': small, 'target': rule, 'auto_claim_comments': acc, 'code': code})
        reported += 1
    return len(cases), bad


def run(ctx: common.Ctx):
    ctx.rule = ('generated ledgers (all 19 directive kinds from beancount.lark with optional parts, meta items, postings '
                'with cost/price, inline comments, block comments at every indentation and position, blank and '
                'whitespace-only lines, LF/CRLF/CR-CR-LF/mixed line ends, missing final newline, non-ASCII) as '
                'models.File, plus snippets for each of the other 35 parse targets with and without accepted text '
                'outside the model, plus large documents (quick: 2 ledgers of ~6500 store tokens LF/CRLF, one transaction '
                'with 1500 postings, one ~4200-token ledger also through the builder correspondence; thorough: exact '
                'store sizes 1000/2048/4096/8192/16384 +-1), each with auto_claim_comments False and True; texts parse() rejects are counted '
                'and skipped; a case is non-trivial when the post-lexed stream has > 3 lexemes; distinct by '
                '(target, mode, text)')
    ctx.assumptions += [
        'lark contextual lexer + LALR engine are oracles; H-tile (lexeme values concatenate to the input) and H-order '
        '(tree leaves are strictly increasing stream positions) are evaluated in Coq on every case of the run',
        'from_raw_text(s).raw_text == s and from_parsed_children does not touch _built_tokens (validated: built token '
        'list compared on every case)',
        'TokenStore.insert_after(None, l) on an empty store holds exactly l and iter(a, b) is the list segment (C07)',
        'auto_claim_comments only moves zero-width tokens (C04); evaluated on every case (check code 7)',
        'CPython re.fullmatch on the split regex agrees with split3 (compared on generated strings every run)',
    ]
    ctx.require_coq(['properties/C01'], extra_targets=['ParseRun'])
    tie(ctx)
    n, bad = run_cases(ctx, itertools.chain(large_inputs(ctx), gen_inputs(ctx)))
    ctx.notes.append(f'{n} accepted (text, target, mode) cases; {ctx.counters.get("rejected_by_parse", 0)} rejected by parse()')


def search(ctx: common.Ctx):
    run_cases(ctx, itertools.chain(large_inputs(ctx), gen_inputs(ctx)))


def replay(ctx: common.Ctx, path: str) -> int:
    data = json.loads(open(path).read())
    f = data.get('failure') or (data.get('what_no_longer_checks') or [{}])[0]
    w = f.get('witness') or {}
    if 'text' not in w:
        print(json.dumps(f, indent=1)[:3000])
        return 1
    text, rule, acc = w['text'], w['target'], w['auto_claim_comments']
    o = observe_full(text, rule, acc)
    if o is None:
        print(f'parse() rejects the text for target {rule}: {env()["cap"].get("reject")}')
        return 1
    fails, spans = monitor(o)
    print(f'target={rule} auto_claim_comments={acc} text={text!r}')
    print(f'printed={print_of(o.model)!r}')
    for sig, what in fails:
        print('monitor:', sig, what)
    code = coq_code_of(ctx, o, spans)
    print('model/implementation agree' if code == 0 else f'model/implementation DISAGREE: {CODE_WHAT.get(code)}')
    known = {k['signature'] for k in common.load_known() if k.get('property') == 'C01'}
    return 1 if (code != 0 or any(s not in known for s, _ in fails)) else 0
